//go:debug asynctimerchan=0
//go:build go1.21

package mqttproxy

// C09 — rate limiter never releases more than limitForPeriod requests per
// period.
//
// One run drives ONE of five real systems (drawn per scenario) with 1-4
// simulated tasks on the virtual clock:
//
//   util   pkg/util/ratelimiter.RateLimiter   (AcquirePermission / WaitPermission)
//   multi  pkg/util/ratelimiter.MultiRateLimiter with unit counts in every
//          dimension (AcquirePermission / WaitPermission)
//   filter pkg/filters/ratelimiter through the exported filters API
//          (filters.NewSpec -> Kind.CreateInstance -> Init / Inherit / Handle),
//          several URL rules and policies, reloads with unchanged / changed
//          rules, requests matching no rule, cancellation of waiting requests
//   mqtt   the unexported mqttproxy Limiter (newLimiter / acquirePermission):
//          request limiter, byte limiter and the request+byte multi limiter
//   mqttc  the same limiters met the way a connected MQTT client meets them
//          (c09_mqttc_test.go): CONNECT through Broker.connectionValidation
//          (connectionLimit, per-client limiter from clientPublishLimit), then
//          PUBLISH / PINGREQ / PUBACK packets through Client.processPacket with
//          QoS 0/1/2, DUP re-sends of unacknowledged publishes, RETAIN, several
//          topics and payload sizes, several clients, disconnect / reconnect /
//          take-over of a client id, a publish pipeline that drops packets
//
// Observation. The limiter package reads the time through its own `nowFunc`
// hook; the harness wraps it (zz_verif_c09_clockhook.go) and so learns the
// exact arrival instant the limiter used and the creation instant of every
// limiter (period k of a limiter is [creation+k*period, creation+(k+1)*period)).
// The order of the clock reads is the linearisation order of the acquisitions
// (each is taken under the limiter's lock). The release instant is the instant
// Handle / WaitPermission returned, or arrival + returned wait for
// AcquirePermission.
//
// Oracle (evaluated after the run, per limiter, in linearisation order, from a
// reservation ledger "period index -> number of releases", written from the
// property statement; the returned wait is never compared with a reference
// value):
//
//   C09.over-limit               more than limitForPeriod releases fall into one period
//   C09.wait-exceeds-timeout     an admitted request waits longer than timeoutDuration
//   C09.needless-wait            the arrival period still had a spare permit but the request had to wait
//   C09.reject-with-spare-permit the arrival period still had a spare permit but the request was rejected
//   C09.unjustified-reject       rejected although one of the periods arrival .. arrival+floor(timeout/period) had a free permit
//   C09.reject-status            result rateLimited without a 429 response (or the reverse)
//   C09.unmatched-url-limited    a request matching no rule was delayed, rejected, answered or consulted a limiter
//   C09.non-matching-rule-applied a request took a permit of the limiter of a rule it does not match
//   C09.several-rules-applied    more than one limiter was asked / changed state for one request
//   C09.reload-state-lost        a reload created more limiters than there are rules that are not unchanged
//   C09.reload-stale-limiter     a reload created fewer limiters than there are rules whose match criteria or
//                                effective policy values (limit, period, timeout after defaults) are new
//   C09.mqtt-request-rate        more than requestRate packets admitted in one period
//   C09.mqtt-bytes-rate          bytes admitted in one period exceed bytesRate by one (largest) packet or more
//   C09.mqtt-unjustified-reject  packet rejected although request and byte permits of the period were not exhausted
//   C09.panic / C09.other
//   (a lost limiter state after reload also shows as over-limit / needless-wait
//   against the continued ledger)
//
// Leniency decisions (DESIGN.md 5.6):
//   * "timeout horizon" = the arrival period and the next floor(timeout/period)
//     periods. A rejection while a later period that *starts* within
//     arrival+timeout still has a permit is accepted (probe
//     reject_while_permit_reachable_within_timeout counts it).
//   * a request whose context was cancelled before Handle returned and that
//     carries no "waiting duration" tag holds a reservation somewhere in its
//     horizon: it is not counted as a release, and for the must-proceed /
//     must-admit rules it is assumed to occupy a permit in every period of its
//     horizon.
//   * requests are not started on a filter generation while/after its
//     successor inherits from it (that is property C11's business).
//   * "unchanged rule" = same methods, same url criteria, same policyRef text
//     and the same policy (name and fields): it MUST keep its limiter. A rule
//     whose match criteria or effective policy values (limit, period, timeout
//     after the documented defaults) differ from every unclaimed rule of the
//     previous generation MUST get a limiter of its own (periods counted from
//     its creation in the new generation). A rule that differs from a
//     predecessor IN NAMES ONLY (policy renamed, policyRef / defaultPolicyRef
//     now pointing to another policy with equal values, a default value written
//     out) may keep the predecessor's limiter or get a fresh one - the
//     statement is silent: its requests are recorded in a ledger of their own
//     that is accepted if it holds either alone (fresh limiter, periods from
//     the reload) or appended to the predecessor's history on the
//     predecessor's period grid (limiter carried on); both sides of such a
//     reload are judged together, and a rule that goes through several of
//     them is accepted if one combination of the choices holds. Duplicate
//     rules are not generated.
//     CORRECTION (false alarm found by a soundness test, leg-C09-l4: Inherit
//     comparing policies by values instead of by name): the first version
//     demanded a fresh limiter whenever the policy NAME behind a rule changed
//     and reported C09.reload-stale-limiter for an implementation that keeps
//     the state across a mere rename; the statement only speaks about the
//     unchanged rule.
//   * overlapping rules: the statement does not say which of several matching
//     rules limits a request, only that exactly the matching ones may. The rule
//     that was applied is OBSERVED: the harness knows the limiter of every rule
//     (C09Limiters, pointer identity only) and sees whose state the request's
//     acquisition changed (C09Peek before the acquisition and at the next clock
//     read / return, compared for equality only); the request is then judged on
//     that rule's ledger, which must be a rule it matches, and only one limiter
//     may be involved. A REJECTED request changes no state: if it matches
//     several rules it is put on the ledger of each and is in order if the
//     rejection is justified on one of them.
//     CORRECTION (false alarm, leg2-C09-l3: "an exact hit wins over prefix and
//     regex rules"): the first version attributed such a request to the first
//     matching rule in spec order, which is HEAD's choice, not the statement's.
//   * timeout horizon, second reading (leg2-C09-l2: horizon measured from the
//     arrival): every period that starts no later than arrival+timeout may be
//     reserved, i.e. up to floor((offset in period+timeout)/period) periods
//     ahead, one more than floor(timeout/period) when the timeout is not a
//     multiple of the period. Both are accepted: a rejection is flagged only
//     if the arrival period or one of the next floor(timeout/period) periods
//     has a free permit by release-time accounting (an implementation with the
//     wider horizon rejects less, never more); waits are bounded by the
//     timeout itself. CORRECTION (false alarm): the release-time rules never
//     depended on the horizon, but an ABANDONED (cancelled) request was assumed
//     to hold its reservation within arrival period + floor(timeout/period);
//     it may sit one period further (any period starting by arrival+timeout),
//     so later requests looked mis-served. The assumption now spans the wider
//     horizon (probe filter.cancelled_request_horizon_from_arrival_one_period_wider).
//   * a rule's url criteria are matched against the path of the request: the
//     query string is not part of it, percent-encoded unreserved characters are
//     equivalent to the plain ones (RFC 3986; encoded reserved characters are
//     not generated); several criteria in one rule are alternatives (doc: OR).
//   * a policy without limitForPeriod (documented default 50) is generated only
//     with c09WideDefaultLimit: easegress rejects such a spec
//     (C09.documented-default-limit-rejected, reported).
//   * mqtt bytes: "exceed bytesRate by less than one packet" is read with the
//     largest packet admitted in that period; a rejection is justified when
//     the period's request permits are used up or when the byte permits of the
//     period are used up, where an oversize packet may be charged to the
//     following periods (both readings accepted).
//   * mqttc: see the header of c09_mqttc_test.go (packet size = wire size with
//     a framing allowance; a reconnect may start a fresh budget or continue the
//     old one, whichever limiter creation is observed).

import (
	stdctx "context"
	"fmt"
	"net/http"
	"net/url"
	"regexp"
	"runtime"
	"sort"
	"strings"
	"testing"
	"time"

	egctx "github.com/megaease/easegress/pkg/context"
	"github.com/megaease/easegress/pkg/filters"
	frl "github.com/megaease/easegress/pkg/filters/ratelimiter"
	"github.com/megaease/easegress/pkg/logger"
	"github.com/megaease/easegress/pkg/protocols/httpprot"
	"github.com/megaease/easegress/pkg/tracing"
	librl "github.com/megaease/easegress/pkg/util/ratelimiter"
	"verif/simkit/hdrv"
	"verif/simkit/sim"
)

// ---- scenario ---------------------------------------------------------------

type c09Pol struct {
	Name      string `json:"name,omitempty"`
	Limit     int    `json:"limit"`      // filter: 0 = omitted in the spec
	PeriodUs  int64  `json:"period_us"`  // filter: 0 = omitted in the spec
	TimeoutUs int64  `json:"timeout_us"` // filter: -1 = omitted in the spec
}

type c09Rule struct {
	Kind    string   `json:"kind"` // exact | prefix | regex
	Pat     string   `json:"pat"`
	Kind2   string   `json:"kind2,omitempty"` // a second criterion of another kind in the same rule (doc: the relationship is OR)
	Pat2    string   `json:"pat2,omitempty"`
	Methods []string `json:"methods,omitempty"`
	Ref     string   `json:"ref,omitempty"`
}

type c09Spec struct {
	Policies []c09Pol  `json:"policies"`
	Default  string    `json:"default,omitempty"`
	Rules    []c09Rule `json:"rules"`
}

type c09Reload struct {
	GapUs int64   `json:"gap_us"` // after the previous reload (or the start)
	Spec  c09Spec `json:"spec"`
}

type c09Op struct {
	GapUs    int64  `json:"gap_us"`
	Align    int    `json:"align,omitempty"` // 1: then sleep to the next period boundary, 2: boundary-1us, 3: boundary+1us
	Wait     bool   `json:"wait,omitempty"`  // util/multi: WaitPermission instead of AcquirePermission
	Method   string `json:"method,omitempty"`
	Path     string `json:"path,omitempty"`
	CancelUs int64  `json:"cancel_us,omitempty"` // filter: cancel the request context this long (+0.5us) after the call
	Bytes    int    `json:"bytes,omitempty"`     // mqtt
}

type c09Task struct {
	Ops []c09Op `json:"ops"`
}

type c09Scenario struct {
	Mode     string `json:"mode"` // util | multi | filter | mqtt
	OffsetUs int64  `json:"offset_us"`

	Pol  c09Pol `json:"pol"`            // util, multi (Limit unused for multi)
	Dims []int  `json:"dims,omitempty"` // multi: limitForPeriod per dimension

	Spec    c09Spec     `json:"spec"` // filter
	Reloads []c09Reload `json:"reloads,omitempty"`

	ReqRate   int `json:"req_rate,omitempty"` // mqtt
	BytesRate int `json:"bytes_rate,omitempty"`
	PeriodS   int `json:"period_s,omitempty"`

	Tasks []c09Task `json:"tasks"`

	// mqttc (c09_mqttc_test.go): ReqRate/BytesRate/PeriodS are the broker's
	// clientPublishLimit, Conn* its connectionLimit
	NoPubLimit    bool     `json:"no_pub_limit,omitempty"` // clientPublishLimit left out of the spec
	ConnReqRate   int      `json:"conn_req_rate,omitempty"`
	ConnBytesRate int      `json:"conn_bytes_rate,omitempty"`
	ConnPeriodS   int      `json:"conn_period_s,omitempty"`
	Clients       []c09Cli `json:"clients,omitempty"`
}

// Generator ranges added in the "ordinary but unexplored" round. Each group can
// be switched off on its own (a group whose cases expose a genuine defect of
// easegress stays off until the finding is settled).
const (
	c09WidePolicies = true // limitForPeriod 20/50, periods 100ms/60s, timeouts of 30 and 100 periods, deep bursts
	c09WideIdle     = true // idle gaps of 8 hours (period indexes beyond 10^6)
	c09WideURLs     = true // query strings, percent-encoded unreserved characters, HEAD/DELETE/PATCH/OPTIONS, rules with two match criteria, rules that differ only in methods
	c09WideMQTT     = true // timePeriod 60, bytesRate 20000 (3-byte remaining length), SUBSCRIBE/UNSUBSCRIBE between publishes
	// a policy that leaves limitForPeriod out and relies on the documented
	// default of 50 (doc/reference/filters.md, ratelimiter.Policy)
	c09WideDefaultLimit = false // stays OFF: easegress rejects such a spec at validation (decided: an observation, not a violation of the statement; DESIGN.md)
)

func c09PickTimeout(rng *sim.Rand, P int64) int64 {
	c := []int64{0, 0, P / 2, P - 1, P, P + 1, P * 3 / 2, 2 * P, 3 * P, 3*P - 1, 10 * P}
	if c09WidePolicies && rng.Bool(0.12) {
		c = []int64{30 * P, 100 * P, 100*P + P/2}
	}
	return c[rng.Intn(len(c))]
}

func c09GenPol(rng *sim.Rand) c09Pol {
	p := c09Pol{}
	p.Limit = rng.Pick(1, 1, 2, 2, 3, 5, 8)
	p.PeriodUs = int64(rng.Pick(1000, 10000, 1000000, 7000))
	if c09WidePolicies {
		if rng.Bool(0.06) {
			p.Limit = rng.Pick(20, 50)
		}
		if rng.Bool(0.1) {
			p.PeriodUs = int64(rng.Pick(100000, 60000000))
		}
	}
	p.TimeoutUs = c09PickTimeout(rng, p.PeriodUs)
	return p
}

// c09Total draws the number of operations of a run: enough to exhaust a
// large limitForPeriod now and then.
func c09Total(rng *sim.Rand, limit int) (total int, burst bool) {
	if limit >= 20 {
		return rng.Range(limit, 3*limit), rng.Bool(0.7)
	}
	return rng.Range(6, 60), false
}

func c09GenTasks(rng *sim.Rand, P, T int64, total int, burst bool, fill func(op *c09Op)) []c09Task {
	nt := rng.Range(1, 4)
	if c09Thorough {
		// thorough tier: longer histories and more concurrent acquirers
		nt = rng.Range(1, 6)
		total = total * rng.Pick(1, 2, 3)
	}
	zeroPct := rng.Pick(20, 50, 80, 95)
	gaps := []int64{1, P / 3, P / 2, P - 1, P, P + 1, 2 * P, 3 * P, T, T + 1, 17 * P, 50*P + P/2}
	if c09WideIdle && rng.Bool(0.1) {
		gaps = append(gaps, 8*3600*1000000, 8*3600*1000000+P/2) // the service is idle overnight
	}
	alignPct := rng.Pick(0, 5, 15, 30)
	if burst {
		zeroPct = 97
		gaps = []int64{1, P / 3, P}
		alignPct = rng.Pick(0, 0, 1)
	}
	var tasks []c09Task
	for t := 0; t < nt; t++ {
		n := total / nt
		if n < 1 {
			n = 1
		}
		var tk c09Task
		for i := 0; i < n; i++ {
			op := c09Op{}
			if rng.Intn(100) >= zeroPct {
				op.GapUs = gaps[rng.Intn(len(gaps))]
				if op.GapUs < 0 {
					op.GapUs = 0
				}
			}
			if rng.Intn(100) < alignPct {
				op.Align = rng.Range(1, 3)
			}
			fill(&op)
			tk.Ops = append(tk.Ops, op)
		}
		tasks = append(tasks, tk)
	}
	return tasks
}

var c09Paths = []string{"/a", "/a/b", "/a/c", "/b", "/b/x", "/r/1", "/r/22", "/r/x", "/zzz", "/"}

// targets as real clients send them: with a query string, with
// percent-encoded unreserved characters (RFC 3986 6.2.2.2: equivalent to the
// plain ones). A rule's url criterion is matched against the path.
var c09PathsWide = []string{"/a?x=1", "/a/b?next=/b/x", "/r/22?y", "/zzz?u=/a", "/%61/c", "/b/%78?q=%2Fa", "/r/x?1"}

var c09RuleMenuWide = []c09Rule{
	{Kind: "exact", Pat: "/b/x", Kind2: "prefix", Pat2: "/a/"},
	{Kind: "prefix", Pat: "/b", Kind2: "regex", Pat2: "^/r/[a-z]+$"},
	{Kind: "exact", Pat: "/a", Kind2: "regex", Pat2: "^/r/[0-9]$"},
}

// c09PathOf returns the path of a request target: without the query, percent-decoded.
func c09PathOf(target string) string {
	if i := strings.IndexByte(target, '?'); i >= 0 {
		target = target[:i]
	}
	if p, err := url.PathUnescape(target); err == nil {
		return p
	}
	return target
}

var c09RuleMenu = []c09Rule{
	{Kind: "exact", Pat: "/a"}, {Kind: "prefix", Pat: "/a"}, {Kind: "regex", Pat: "^/r/[0-9]+$"},
	{Kind: "prefix", Pat: "/b"}, {Kind: "exact", Pat: "/a/b"}, {Kind: "exact", Pat: "/b/x"}, {Kind: "prefix", Pat: "/"},
}

func c09GenSpec(rng *sim.Rand, defaults, defSwitch bool) c09Spec {
	var s c09Spec
	np := rng.Range(1, 3)
	if defSwitch {
		// prepared for a reload that switches defaultPolicyRef: two or more
		// policies, rules with and without their own policyRef
		np = rng.Range(2, 3)
	}
	for i := 0; i < np; i++ {
		p := c09GenPol(rng)
		wideLimit := p.Limit >= 20
		p.Limit = rng.Pick(1, 1, 2, 3, 5)
		if wideLimit {
			p.Limit = 20
		}
		p.Name = fmt.Sprintf("p%d", i)
		if defaults && i == 0 {
			// fields left out of the spec: documented defaults apply.
			// (limitForPeriod is never left out: although documented as
			// optional with default 50, filters.NewSpec rejects a policy
			// without it - "Must be greater than or equal to 1".)
			if rng.Bool(0.5) {
				p.PeriodUs = 0
				p.TimeoutUs = int64(rng.Pick(-1, 0, 5000, 10000, 25000))
			} else {
				p.TimeoutUs = -1
			}
			if c09WideDefaultLimit && rng.Bool(0.5) {
				p.Limit = 0
			}
		}
		s.Policies = append(s.Policies, p)
	}
	if defSwitch || rng.Bool(0.7) {
		s.Default = "p0"
	}
	nr := rng.Range(1, 4)
	perm := rng.Perm(len(c09RuleMenu) - 1)
	for i := 0; i < nr; i++ {
		ru := c09RuleMenu[perm[i]]
		if c09WideURLs && rng.Bool(0.08) {
			ru = c09RuleMenuWide[rng.Intn(len(c09RuleMenuWide))]
			for _, x := range s.Rules {
				if x.Kind == ru.Kind && x.Pat == ru.Pat {
					ru = c09RuleMenu[perm[i]]
				}
			}
		}
		if i == nr-1 && rng.Bool(0.1) {
			ru = c09RuleMenu[len(c09RuleMenu)-1] // catch-all last
		}
		switch rng.Intn(10) {
		case 0:
			ru.Methods = []string{"GET"}
		case 1:
			ru.Methods = []string{"GET", "POST"}
		case 2:
			if c09WideURLs {
				ru.Methods = [][]string{{"POST", "PUT", "DELETE"}, {"HEAD", "GET"}, {"PATCH"}}[rng.Intn(3)]
			}
		}
		ru.Ref = s.Policies[rng.Intn(np)].Name
		if s.Default != "" && rng.Bool(0.3) {
			ru.Ref = ""
		}
		if defSwitch && i == 0 {
			ru.Ref = ""
		}
		s.Rules = append(s.Rules, ru)
	}
	if c09WideURLs && rng.Bool(0.12) {
		// "GET /x" and "POST /x" limited separately: two rules on one pattern
		// that differ only in methods (and possibly in the policy)
		k := rng.Intn(len(s.Rules))
		sib := s.Rules[k]
		s.Rules[k].Methods = []string{"GET"}
		sib.Methods = []string{"POST", "PUT"}
		if rng.Bool(0.5) {
			sib.Ref = s.Policies[rng.Intn(np)].Name
		}
		if rng.Bool(0.5) {
			s.Rules = append(s.Rules[:k+1], append([]c09Rule{sib}, s.Rules[k+1:]...)...)
		} else {
			s.Rules = append(s.Rules, sib)
		}
	}
	return s
}

func c09CloneSpec(s c09Spec) c09Spec {
	var o c09Spec
	o.Default = s.Default
	o.Policies = append(o.Policies, s.Policies...)
	for _, ru := range s.Rules {
		ru.Methods = append([]string(nil), ru.Methods...)
		o.Rules = append(o.Rules, ru)
	}
	return o
}

var c09Thorough bool

func c09Gen(rng *sim.Rand, tier string) interface{} {
	c09Thorough = tier == "thorough"
	sc := &c09Scenario{}
	sc.OffsetUs = int64(rng.Pick(0, 1, 999, 123456, rng.Intn(2000000)))
	x := rng.Intn(100)
	switch {
	case x < 33:
		sc.Mode = "util"
		sc.Pol = c09GenPol(rng)
		total, burst := c09Total(rng, sc.Pol.Limit)
		if sc.Pol.TimeoutUs >= 30*sc.Pol.PeriodUs && rng.Bool(0.5) {
			burst = true // deep queue: waits of many periods
		}
		sc.Tasks = c09GenTasks(rng, sc.Pol.PeriodUs, sc.Pol.TimeoutUs, total, burst, func(op *c09Op) { op.Wait = rng.Bool(0.3) })
	case x < 42:
		sc.Mode = "multi"
		sc.Pol = c09GenPol(rng)
		nd := rng.Range(1, 3)
		for i := 0; i < nd; i++ {
			sc.Dims = append(sc.Dims, rng.Pick(1, 2, 3, 5, 8))
		}
		minDim := 1 << 30
		if c09WidePolicies && rng.Bool(0.05) {
			for i := range sc.Dims {
				sc.Dims[i] = rng.Pick(20, 50, 1000)
			}
		}
		for _, d := range sc.Dims {
			if d < minDim {
				minDim = d
			}
		}
		total, burst := c09Total(rng, minDim)
		if sc.Pol.TimeoutUs >= 30*sc.Pol.PeriodUs && rng.Bool(0.5) {
			burst = true
		}
		sc.Tasks = c09GenTasks(rng, sc.Pol.PeriodUs, sc.Pol.TimeoutUs, total, burst, func(op *c09Op) { op.Wait = rng.Bool(0.3) })
	case x < 75:
		sc.Mode = "filter"
		defaults := rng.Bool(0.08)
		defSwitch := rng.Bool(0.2)
		sc.Spec = c09GenSpec(rng, defaults, defSwitch)
		p0 := sc.Spec.Policies[0]
		P, T := p0.PeriodUs, p0.TimeoutUs
		if P == 0 {
			P = 10000
		}
		if T < 0 {
			T = 100000
		}
		maxLimit := 0
		for _, p := range sc.Spec.Policies {
			if p.Limit > maxLimit {
				maxLimit = p.Limit
			}
		}
		total, deep := c09Total(rng, maxLimit)
		hotP := 0.6
		paths := c09Paths
		if c09WideURLs && rng.Bool(0.25) {
			paths = append(append([]string(nil), c09Paths...), c09PathsWide...)
		}
		hot := paths[rng.Intn(len(paths))]
		otherMethods := c09WideURLs && rng.Bool(0.2)
		cancelPct := rng.Pick(0, 0, 5, 15)
		sc.Tasks = c09GenTasks(rng, P, T, total, deep || rng.Bool(0.05), func(op *c09Op) {
			op.Path = hot
			if !rng.Bool(hotP) {
				op.Path = paths[rng.Intn(len(paths))]
			}
			op.Method = rng.PickStr("GET", "GET", "GET", "GET", "GET", "GET", "GET", "POST", "POST", "PUT")
			if otherMethods && rng.Bool(0.3) {
				op.Method = rng.PickStr("HEAD", "DELETE", "PATCH", "OPTIONS", "POST")
			}
			if rng.Intn(100) < cancelPct {
				op.CancelUs = []int64{1, P / 2, P, 2 * P, T}[rng.Intn(5)]
				if op.CancelUs < 1 {
					op.CancelUs = 1
				}
			}
		})
		nrl := rng.Pick(0, 0, 0, 1, 1, 2)
		if defSwitch {
			nrl = rng.Pick(1, 1, 2)
		}
		edit := func(ns *c09Spec, kind int) {
			switch kind {
			case 0, 1, 2: // identical
			case 3: // one policy changes
				k := rng.Intn(len(ns.Policies))
				p := ns.Policies[k]
				switch rng.Intn(3) {
				case 0:
					p.Limit++
				case 1:
					if p.PeriodUs == 0 {
						p.PeriodUs = 7000
					} else {
						p.PeriodUs *= 2
					}
				default:
					if p.TimeoutUs < 0 {
						p.TimeoutUs = 0
					} else {
						p.TimeoutUs += p.PeriodUs + 1000
					}
				}
				ns.Policies[k] = p
			case 4: // a rule is dropped or the order is rotated
				if len(ns.Rules) > 1 {
					if rng.Bool(0.5) {
						k := rng.Intn(len(ns.Rules))
						ns.Rules = append(ns.Rules[:k], ns.Rules[k+1:]...)
					} else {
						ns.Rules = append(ns.Rules[1:], ns.Rules[0])
					}
				}
			case 5: // a rule is added in front or at the end / its policyRef or methods change
				if rng.Bool(0.5) {
					have := map[string]bool{}
					for _, ru := range ns.Rules {
						have[ru.Kind+ru.Pat] = true
					}
					for _, k := range rng.Perm(len(c09RuleMenu)) {
						ru := c09RuleMenu[k]
						if !have[ru.Kind+ru.Pat] {
							ru.Ref = ns.Policies[rng.Intn(len(ns.Policies))].Name
							if rng.Bool(0.5) {
								ns.Rules = append([]c09Rule{ru}, ns.Rules...)
							} else {
								ns.Rules = append(ns.Rules, ru)
							}
							break
						}
					}
				} else {
					k := rng.Intn(len(ns.Rules))
					if rng.Bool(0.5) {
						ns.Rules[k].Ref = ns.Policies[rng.Intn(len(ns.Policies))].Name
					} else {
						ns.Rules[k].Methods = []string{"GET", "PUT"}
					}
				}
			default: // defaultPolicyRef switches to another defined policy
				if ns.Default != "" && len(ns.Policies) > 1 {
					for _, k := range rng.Perm(len(ns.Policies)) {
						if ns.Policies[k].Name != ns.Default {
							if rng.Bool(0.3) {
								// ... whose values equal the old default's: only the name changes
								for _, q := range ns.Policies {
									if q.Name == ns.Default {
										q.Name = ns.Policies[k].Name
										ns.Policies[k] = q
									}
								}
							}
							ns.Default = ns.Policies[k].Name
							break
						}
					}
				}
			}
		}
		cur := sc.Spec
		for i := 0; i < nrl; i++ {
			rl := c09Reload{GapUs: []int64{0, 1, P / 2, P, P + P/2, 3 * P, T}[rng.Intn(7)]}
			ns := c09CloneSpec(cur)
			kind := rng.Intn(8)
			if defSwitch && i == 0 {
				kind = 6
			}
			edit(&ns, kind)
			if kind >= 6 && rng.Bool(0.35) {
				edit(&ns, rng.Range(3, 5)) // ... plus another edit
			}
			rl.Spec = ns
			cur = ns
			sc.Reloads = append(sc.Reloads, rl)
		}
	case x < 87:
		c09GenMQTTClients(rng, sc)
	default:
		sc.Mode = "mqtt"
		sc.ReqRate = rng.Pick(0, 1, 2, 3, 5, 5)
		sc.BytesRate = rng.Pick(0, 10, 100, 100, 1000)
		if rng.Bool(0.03) {
			sc.ReqRate, sc.BytesRate = 0, 0
		}
		sc.PeriodS = rng.Pick(0, 1, 1, 2, 3)
		if c09WideMQTT && rng.Bool(0.08) {
			sc.PeriodS = 60
		}
		ps := sc.PeriodS
		if ps == 0 {
			ps = 1
		}
		b := sc.BytesRate
		if b == 0 {
			b = 100
		}
		sizes := []int{1, b / 4, b / 2, b - 1, b, b + 1, 2 * b, 5 * b, 8}
		uniform := rng.Bool(0.25)
		us := sizes[rng.Intn(len(sizes))]
		sc.Tasks = c09GenTasks(rng, int64(ps)*1000000, 0, rng.Range(6, 60), false, func(op *c09Op) {
			op.Bytes = sizes[rng.Intn(len(sizes))]
			if uniform {
				op.Bytes = us
			}
			if op.Bytes < 1 {
				op.Bytes = 1
			}
		})
	}
	return sc
}

// ---- observation plumbing ----------------------------------------------------

func c09Goid() uint64 {
	var buf [40]byte
	n := runtime.Stack(buf[:], false)
	var id uint64
	for i := len("goroutine "); i < n; i++ {
		c := buf[i]
		if c < '0' || c > '9' {
			break
		}
		id = id*10 + uint64(c-'0')
	}
	return id
}

// c09TL is the per-goroutine record of the limiter's clock reads.
type c09TL struct {
	nows []time.Time
	seqs []uint64
	// filter mode: the limiters of the request's filter generation, and those
	// of them whose state an acquisition of this goroutine changed
	watch     []*librl.RateLimiter
	consulted []*librl.RateLimiter
}

func (t *c09TL) reset() { t.nows, t.seqs, t.consulted = t.nows[:0], t.seqs[:0], nil }

// c09Pend is an acquisition whose limiter is not identified yet: the state of
// the watched limiters at the instant of its clock read.
type c09Pend struct {
	tl   *c09TL
	snap [][2]int
}

type c09Env struct {
	r    *sim.Run
	tls  map[uint64]*c09TL
	seq  uint64
	base time.Time
	pend *c09Pend
}

// resolve finds out which of the watched limiters the pending acquisition
// changed. It runs before anything else can touch a limiter (every
// acquisition and creation starts with a clock read) and after Handle returns.
func (e *c09Env) resolve() {
	p := e.pend
	e.pend = nil
	if p == nil {
		return
	}
	for i, l := range p.tl.watch {
		if i < len(p.snap) {
			c, t := librl.C09Peek(l)
			if [2]int{c, t} != p.snap[i] {
				p.tl.consulted = append(p.tl.consulted, l)
			}
		}
	}
}

func (e *c09Env) register() *c09TL {
	tl := &c09TL{}
	e.tls[c09Goid()] = tl
	return tl
}

func (e *c09Env) observe(t time.Time) {
	e.resolve()
	e.seq++
	if tl := e.tls[c09Goid()]; tl != nil {
		tl.nows = append(tl.nows, t)
		tl.seqs = append(tl.seqs, e.seq)
		if len(tl.watch) > 0 {
			p := &c09Pend{tl: tl}
			for _, l := range tl.watch {
				c, k := librl.C09Peek(l)
				p.snap = append(p.snap, [2]int{c, k})
			}
			e.pend = p
		}
	}
}

func (e *c09Env) nextSeq() uint64 { e.seq++; return e.seq }

// ---- reference ledger -----------------------------------------------------------

const (
	c09Rej = iota
	c09Adm
	c09Wild
)

type c09Obs struct {
	seq  uint64
	who  string
	a    time.Time // arrival: the instant the limiter read
	rel  time.Time // release instant (admitted)
	kind int
	note string
	amb  *c09Amb
}

// c09Amb is a rejected request that matches several rules: which rule's
// limiter refused it is not observable (a refusal changes nothing), so the
// rejection is in order if it is justified on the ledger of one of them.
type c09Amb struct {
	cands      int                 // ledgers it was put on
	seen       map[*c09Ledger]bool // ledger chains (by their last ledger) that judged it
	ok         bool                // justified on one of them, under one acceptable reading of that chain
	class, msg string
}

type c09AmbRes struct {
	amb        *c09Amb
	class, msg string
}

type c09Ledger struct {
	name    string
	limit   int
	period  time.Duration
	timeout time.Duration
	start   time.Time
	obs     []c09Obs
	kept    []time.Time // instants of reloads that had to keep this ledger
	// pred: the rule of this ledger came out of a reload in which only names
	// changed (policy name, policyRef / defaultPolicyRef to an equal-valued
	// policy): the statement accepts a fresh limiter (this ledger alone,
	// periods from the reload) as well as the predecessor's limiter carried
	// on (pred's history followed by this one on pred's period grid).
	ambRes   []c09AmbRes // filled by evalDry
	pred     *c09Ledger
	unjudged bool // the creation instants of that reload differ: not judged
}

func c09FloorDiv(a, b int64) int64 {
	q := a / b
	if a%b != 0 && (a < 0) != (b < 0) {
		q--
	}
	return q
}

func (l *c09Ledger) per(t time.Time) int64 {
	return c09FloorDiv(int64(t.Sub(l.start)), int64(l.period))
}

func (l *c09Ledger) add(o c09Obs) { l.obs = append(l.obs, o) }

func (l *c09Ledger) hist(e *c09Env, upto int) string {
	var b strings.Builder
	fmt.Fprintf(&b, "limiter %s: limitForPeriod=%d period=%v timeout=%v created@%v", l.name, l.limit, l.period, l.timeout, l.start.Sub(e.base))
	for _, k := range l.kept {
		fmt.Fprintf(&b, " reload-kept@%v", k.Sub(e.base))
	}
	b.WriteString("\nhistory (linearisation order; p = period index):")
	from := upto - 24
	if from < 0 {
		from = 0
	}
	for i := from; i <= upto && i < len(l.obs); i++ {
		o := l.obs[i]
		switch o.kind {
		case c09Rej:
			fmt.Fprintf(&b, "\n  %s arrive@%v(p%d) REJECTED %s", o.who, o.a.Sub(e.base), l.per(o.a), o.note)
		case c09Adm:
			fmt.Fprintf(&b, "\n  %s arrive@%v(p%d) wait=%v release@%v(p%d) %s", o.who, o.a.Sub(e.base), l.per(o.a), o.rel.Sub(o.a), o.rel.Sub(e.base), l.per(o.rel), o.note)
		default:
			fmt.Fprintf(&b, "\n  %s arrive@%v(p%d) admitted, abandoned by cancellation %s", o.who, o.a.Sub(e.base), l.per(o.a), o.note)
		}
	}
	return b.String()
}

// c09Verdict collects the first rule a ledger breaks.
type c09Verdict struct{ class, msg string }

func (v *c09Verdict) Violate(class, format string, a ...interface{}) {
	if v.class == "" {
		v.class, v.msg = class, fmt.Sprintf(format, a...)
	}
}

func (v *c09Verdict) Violated() bool { return v.class != "" }

// eval checks one ledger against the property statement, reports the first
// broken rule and returns a signature of the outcome sequence.
func (l *c09Ledger) eval(e *c09Env, st *c09Stats) string {
	sig, class, msg := l.evalDry(e, st)
	if class != "" {
		e.r.Violate(class, "%s", msg)
	}
	l.commitAmb(l)
	return sig
}

// commitAmb hands the verdicts on rejections that may belong to several
// ledgers over to their c09Amb records; id names the chain of ledgers.
func (l *c09Ledger) commitAmb(id *c09Ledger) {
	for _, a := range l.ambRes {
		if a.amb.seen == nil {
			a.amb.seen = map[*c09Ledger]bool{}
		}
		a.amb.seen[id] = true
		if a.class == "" {
			a.amb.ok = true
		} else if a.amb.class == "" {
			a.amb.class, a.amb.msg = a.class, a.msg
		}
	}
	l.ambRes = nil
}

// c09EvalChain judges a chain of ledgers L0 <- L1 <- ... (each the successor of
// the previous one through a reload in which only names changed, see
// c09Ledger.pred). At every link the implementation may have carried the
// limiter on or made a fresh one; the chain is in order if for one of these
// choices every resulting limiter history holds. (The histories of the two
// sides of a link must be judged together: a request that entered the old
// generation just before the reload meets the limiter after it.)
func c09EvalChain(e *c09Env, st *c09Stats, chain []*c09Ledger) string {
	k := len(chain) - 1
	for _, l := range chain {
		if l.unjudged {
			e.r.Probe("filter.reload_names_only_changed_not_judged")
			return "unjudged"
		}
	}
	if k == 0 {
		return chain[0].eval(e, st)
	}
	if k > 4 {
		e.r.Probe("filter.reload_names_only_changed_not_judged")
		return "unjudged"
	}
	var firstClass, firstMsg string
	// every reading that holds contributes its verdicts on the rejections that
	// may belong to several rules (such a rejection is in order if one holding
	// reading of one of its chains justifies it)
	id := chain[k]
	okSig := ""
	for mask := 0; mask < 1<<k; mask++ {
		use := &c09Stats{}
		if mask == 0 {
			use = st
		}
		var sig strings.Builder
		class, msg := "", ""
		var seg *c09Ledger
		var segs []*c09Ledger
		flush := func() {
			if seg != nil && class == "" {
				var s string
				s, class, msg = seg.evalDry(e, use)
				sig.WriteString(s + ";")
				segs = append(segs, seg)
			}
		}
		for i, l := range chain {
			if i > 0 && mask&(1<<(i-1)) != 0 {
				seg.name += " carried on as " + l.name
				seg.obs = append(seg.obs, l.obs...)
				seg.kept = append(seg.kept, l.kept...)
				continue
			}
			flush()
			seg = &c09Ledger{name: l.name, limit: l.limit, period: l.period, timeout: l.timeout, start: l.start}
			seg.obs = append(seg.obs, l.obs...)
			seg.kept = append(seg.kept, l.kept...)
		}
		flush()
		if class == "" {
			for _, x := range segs {
				x.commitAmb(id)
			}
			if okSig == "" {
				okSig = fmt.Sprintf("m%d:%s", mask, sig.String())
				switch {
				case mask == 0:
					e.r.Probe("filter.reload_names_only_changed.fresh_limiter_reading_holds")
				case mask == 1<<k-1:
					e.r.Probe("filter.reload_names_only_changed.kept_limiter_reading_holds")
				default:
					e.r.Probe("filter.reload_names_only_changed.mixed_reading_holds")
				}
			}
		}
		if mask == 0 {
			firstClass, firstMsg = class, msg
		}
	}
	if okSig != "" {
		return okSig
	}
	e.r.Violate(firstClass, "after %d reload(s) in which only names changed for this rule, no reading (limiter carried on / fresh limiter at each of them) holds; with fresh limiters: %s", k, firstMsg)
	return "bad"
}

// eval checks the ledger's observations against the property statement and
// returns a signature of the outcome sequence.
func (l *c09Ledger) evalDry(e *c09Env, st *c09Stats) (string, string, string) {
	r := &c09Verdict{}
	l.ambRes = nil
	sort.SliceStable(l.obs, func(i, j int) bool { return l.obs[i].seq < l.obs[j].seq })
	known := map[int64]int{}
	type wild struct{ lo, hi int64 }
	var wilds []wild
	H := int64(l.timeout / l.period)
	cover := func(q int64) int {
		n := known[q]
		for _, w := range wilds {
			if w.lo <= q && q <= w.hi {
				n++
			}
		}
		return n
	}
	var sig strings.Builder
	var lastA time.Time
	type span struct{ a, rel time.Time }
	var waiting []span
	for i, o := range l.obs {
		if r.Violated() {
			break
		}
		q0 := l.per(o.a)
		if i > 0 && o.a.Sub(lastA) >= 10*l.period {
			st.idleGap = true
			if o.a.Sub(lastA)/l.period >= 1000000 {
				st.hugeIdle = true
			}
		}
		lastA = o.a
		if q0 >= 1 && o.a.Sub(l.start)%l.period == 0 {
			st.boundary = true
		}
		spare := cover(q0) < l.limit
		switch o.kind {
		case c09Rej:
			st.rejects++
			fmt.Fprintf(&sig, "R%d,", q0)
			r := r
			if o.amb != nil {
				r = &c09Verdict{}
				defer func(v *c09Verdict, a *c09Amb) { l.ambRes = append(l.ambRes, c09AmbRes{a, v.class, v.msg}) }(r, o.amb)
			}
			if spare {
				r.Violate("C09.reject-with-spare-permit", "%s rejected at %v although period %d has only %d of %d permits taken\n%s",
					o.who, o.a.Sub(e.base), q0, cover(q0), l.limit, l.hist(e, i))
				break
			}
			for q := q0 + 1; q <= q0+H && q-q0 < 100000; q++ {
				if cover(q) < l.limit {
					r.Violate("C09.unjustified-reject", "%s rejected at %v although period %d (starts %v after the arrival, timeout %v) has only %d of %d permits reserved\n%s",
						o.who, o.a.Sub(e.base), q, l.start.Add(time.Duration(q)*l.period).Sub(o.a), l.timeout, cover(q), l.limit, l.hist(e, i))
					break
				}
			}
			// doc reading: "fails if it cannot get permission in this duration"
			nq := q0 + H + 1
			if l.start.Add(time.Duration(nq)*l.period).Sub(o.a) <= l.timeout && cover(nq) < l.limit {
				st.reachable = true
			}
		case c09Adm:
			w := o.rel.Sub(o.a)
			qr := l.per(o.rel)
			if w > 0 {
				st.waits++
				fmt.Fprintf(&sig, "W%d>%d,", q0, qr)
				n := 0
				for _, s := range waiting {
					if s.rel.After(o.a) {
						n++
					}
				}
				if n >= 1 {
					st.concWait = true
				}
				waiting = append(waiting, span{o.a, o.rel})
				if len(waiting) > 64 {
					waiting = waiting[32:]
				}
				if qr >= q0+2 {
					st.multiSpan = true
				}
				if qr >= q0+10 {
					st.longSpan = true
				}
			} else {
				st.immediate++
				fmt.Fprintf(&sig, "I%d,", q0)
			}
			switch {
			case w < 0:
				r.Violate("C09.other", "%s released before it arrived (wait %v)\n%s", o.who, w, l.hist(e, i))
			case w > l.timeout:
				r.Violate("C09.wait-exceeds-timeout", "%s admitted at %v with wait %v > timeoutDuration %v\n%s", o.who, o.a.Sub(e.base), w, l.timeout, l.hist(e, i))
			case spare && w > 0:
				r.Violate("C09.needless-wait", "%s arrived at %v in period %d which has only %d of %d permits taken, but had to wait %v\n%s",
					o.who, o.a.Sub(e.base), q0, cover(q0), l.limit, w, l.hist(e, i))
			}
			if r.Violated() {
				break
			}
			known[qr]++
			if known[qr] == l.limit {
				st.full = true
				if l.limit >= 20 {
					st.bigLimitFull = true
				}
			}
			if known[qr] > l.limit {
				extra := ""
				if len(l.kept) > 0 {
					extra = " (the limiter's rule went through a reload with unchanged rule: its accumulated state must have been kept)"
				}
				r.Violate("C09.over-limit", "%d requests released in period %d [%v,%v) of a limiter with limitForPeriod=%d%s\n%s",
					known[qr], qr, l.start.Add(time.Duration(qr)*l.period).Sub(e.base), l.start.Add(time.Duration(qr+1)*l.period).Sub(e.base), l.limit, extra, l.hist(e, i))
			}
		default:
			st.wilds++
			fmt.Fprintf(&sig, "C%d,", q0)
			// the reservation of an abandoned request sits in one of the periods
			// that start no later than arrival+timeout (the widest horizon that
			// keeps the wait within the timeout)
			hw := int64((o.a.Sub(l.start) - time.Duration(q0)*l.period + l.timeout) / l.period)
			if hw > H {
				st.wildWide = true
			}
			wilds = append(wilds, wild{q0, q0 + hw})
		}
	}
	return sig.String(), r.class, r.msg
}

type c09Stats struct {
	rejects, waits, immediate, wilds                               int
	idleGap, boundary, reachable, concWait, multiSpan, full        bool
	unmatched, shadowed, held, acrossReload, keptReload, freshRule bool
	cancelWait                                                     bool
	longSpan, hugeIdle, bigLimitFull                               bool
	wildWide                                                       bool
}

func (st *c09Stats) probes(r *sim.Run, mode string) {
	p := func(c bool, n string) {
		if c {
			r.Probe(n)
		}
	}
	p(true, "mode."+mode)
	p(st.rejects > 0, "rejected")
	p(st.waits > 0, "wait_positive")
	p(st.idleGap, "idle_gap_10_periods")
	p(st.boundary, "arrival_exactly_on_period_boundary")
	p(st.reachable, "reject_while_permit_reachable_within_timeout")
	p(st.concWait, "concurrent_waiters")
	p(st.multiSpan, "wait_spans_2plus_periods")
	p(st.full, "period_fully_used")
	p(st.bigLimitFull, "period_fully_used_limit_ge_20")
	p(st.longSpan, "wait_spans_10plus_periods")
	p(st.hugeIdle, "idle_gap_1e6_periods")
	p(st.wildWide, "filter.cancelled_request_horizon_from_arrival_one_period_wider")
	p(st.unmatched, "filter.unmatched_request")
	p(st.shadowed, "filter.request_matches_several_rules")
	p(st.held, "filter.request_held_during_reload")
	p(st.acrossReload, "filter.request_in_flight_across_reload")
	p(st.keptReload, "filter.reload_unchanged_rule")
	p(st.freshRule, "filter.reload_changed_or_new_rule")
	p(st.cancelWait, "filter.cancelled_while_waiting")
	p(st.wilds > 0, "filter.cancelled_request_unknown_reservation")
	if st.rejects > 0 || st.waits > 0 {
		r.Nontrivial()
	}
}

func c09us(v int64) time.Duration { return time.Duration(v) * time.Microsecond }

// alignSleep returns how long to sleep to reach the next boundary of the grid
// (mode 1), 1us before it (2) or 1us after it (3).
func c09AlignSleep(start time.Time, period time.Duration, mode int) time.Duration {
	if period <= 0 {
		return 0
	}
	el := time.Since(start)
	next := (el/period + 1) * period
	d := next - el
	switch mode {
	case 2:
		d -= time.Microsecond
		if d < 0 {
			d += period
		}
	case 3:
		d += time.Microsecond
	}
	return d
}

func c09Catch(r *sim.Run, what string, f func()) (ok bool) {
	defer func() {
		if p := recover(); p != nil {
			r.Violate("C09.panic", "%s panicked: %v", what, p)
			ok = false
		}
	}()
	f()
	return true
}

// ---- util / multi ---------------------------------------------------------------

func c09ExecUtil(e *c09Env, sc *c09Scenario, main *c09TL) {
	r := e.r
	p := sc.Pol
	if p.PeriodUs <= 0 || p.TimeoutUs < 0 {
		return
	}
	var single *librl.RateLimiter
	var multi *librl.MultiRateLimiter
	limit := p.Limit
	main.reset()
	if sc.Mode == "multi" {
		if len(sc.Dims) == 0 {
			return
		}
		limit = sc.Dims[0]
		for _, d := range sc.Dims {
			if d < 1 {
				return
			}
			if d < limit {
				limit = d
			}
		}
		multi = librl.NewMulti(librl.NewMultiPolicy(c09us(p.TimeoutUs), c09us(p.PeriodUs), append([]int(nil), sc.Dims...)))
	} else {
		if limit < 1 {
			return
		}
		single = librl.New(librl.NewPolicy(c09us(p.TimeoutUs), c09us(p.PeriodUs), limit))
	}
	if len(main.nows) != 1 {
		r.Violate("C09.other", "creating a limiter read the clock %d times", len(main.nows))
		return
	}
	led := &c09Ledger{name: sc.Mode, limit: limit, period: c09us(p.PeriodUs), timeout: c09us(p.TimeoutUs), start: main.nows[0]}
	r.Eventf("%s limiter limit=%d period=%v timeout=%v created@%v", sc.Mode, limit, led.period, led.timeout, r.Now())
	ones := make([]int, len(sc.Dims))
	for i := range ones {
		ones[i] = 1
	}
	for ti := range sc.Tasks {
		ti := ti
		ops := sc.Tasks[ti].Ops
		r.Go(fmt.Sprintf("t%d", ti), func() {
			tl := e.register()
			for oi, op := range ops {
				if r.Violated() || r.Aborted() {
					return
				}
				r.Sleep(c09us(op.GapUs))
				if op.Align > 0 {
					r.Sleep(c09AlignSleep(led.start, led.period, op.Align))
				}
				who := fmt.Sprintf("t%d.%d", ti, oi)
				tl.reset()
				t0 := time.Now()
				var ok bool
				var d time.Duration
				var err error
				fin := c09Catch(r, who, func() {
					switch {
					case single != nil && op.Wait:
						ok = single.WaitPermission()
					case single != nil:
						ok, d = single.AcquirePermission()
					case op.Wait:
						ok, err = multi.WaitPermission(ones)
					default:
						ok, d, err = multi.AcquirePermission(ones)
					}
				})
				t1 := time.Now()
				if op.Wait {
					r.Yield("returned") // woken by a timer: re-establish a reproducible order
				}
				if !fin {
					return
				}
				if err != nil {
					r.Violate("C09.other", "%s: MultiRateLimiter returned error %v", who, err)
					return
				}
				o := c09Obs{who: who, a: t0}
				if len(tl.nows) > 0 {
					o.a, o.seq = tl.nows[0], tl.seqs[0]
				} else {
					o.seq = e.nextSeq()
				}
				switch {
				case !ok:
					o.kind = c09Rej
				case op.Wait:
					o.kind, o.rel, o.note = c09Adm, t1, "(WaitPermission)"
				default:
					if d < 0 {
						d = 0
					}
					o.kind, o.rel = c09Adm, o.a.Add(d)
				}
				led.add(o)
				r.Eventf("%s ok=%v arrive=%v release=%v", who, ok, o.a.Sub(e.base), o.rel.Sub(e.base))
			}
		})
	}
	r.WaitTasks()
	st := &c09Stats{}
	sig := led.eval(e, st)
	st.probes(r, sc.Mode)
	if p.TimeoutUs == 0 {
		r.Probe("timeout_zero")
	} else if p.TimeoutUs < p.PeriodUs {
		r.Probe("timeout_below_period")
	}
	c09PolProbes(r, limit, led.period, led.timeout)
	r.SetSig(fmt.Sprintf("%s|%d|%d|%d|%v|%s", sc.Mode, limit, p.PeriodUs, p.TimeoutUs, sc.Dims, sig))
}

func c09PolProbes(r *sim.Run, limit int, period, timeout time.Duration) {
	if limit >= 20 {
		r.Probe("policy.limit_ge_20")
	}
	if period >= time.Minute {
		r.Probe("policy.period_1m")
	}
	if period == 100*time.Millisecond {
		r.Probe("policy.period_100ms")
	}
	if timeout >= 30*period {
		r.Probe("policy.timeout_ge_30_periods")
	}
}

// ---- filter ---------------------------------------------------------------------

type c09RuleRef struct {
	rule c09Rule
	key  string // rule identity + policy content
	crit string // match criteria only (methods, url criteria)
	lim  *librl.RateLimiter // identity of the rule's limiter in its filter generation
	re   *regexp.Regexp
	led  *c09Ledger
	pol  c09Pol // effective (documented defaults applied)
}

func (rr *c09RuleRef) match(method, path string) bool {
	if len(rr.rule.Methods) > 0 {
		found := false
		for _, m := range rr.rule.Methods {
			if m == method {
				found = true
			}
		}
		if !found {
			return false
		}
	}
	one := func(kind, pat string) bool {
		switch kind {
		case "exact":
			return path == pat
		case "prefix":
			return strings.HasPrefix(path, pat)
		case "regex":
			return rr.re != nil && rr.re.MatchString(path)
		}
		return false
	}
	return one(rr.rule.Kind, rr.rule.Pat) || one(rr.rule.Kind2, rr.rule.Pat2)
}

// c09RefSpec builds the reference view of a spec; nil if the spec is not one
// the reference is prepared to judge (then the case is skipped).
func c09RefSpec(s c09Spec) []*c09RuleRef {
	pols := map[string]c09Pol{}
	for _, p := range s.Policies {
		if p.Name == "" {
			return nil
		}
		if _, dup := pols[p.Name]; dup {
			return nil
		}
		pols[p.Name] = p
	}
	if len(s.Rules) == 0 {
		return nil
	}
	var out []*c09RuleRef
	seen := map[string]bool{}
	for _, ru := range s.Rules {
		name := ru.Ref
		if name == "" {
			name = s.Default
		}
		p, ok := pols[name]
		if !ok || ru.Pat == "" {
			return nil
		}
		rr := &c09RuleRef{rule: ru}
		if ru.Kind2 == ru.Kind || (ru.Kind2 == "") != (ru.Pat2 == "") {
			return nil
		}
		for _, kp := range [][2]string{{ru.Kind, ru.Pat}, {ru.Kind2, ru.Pat2}} {
			switch kp[0] {
			case "exact", "prefix":
			case "regex":
				re, err := regexp.Compile(kp[1])
				if err != nil {
					return nil
				}
				rr.re = re
			case "":
				if kp[1] != "" || kp[0] == ru.Kind {
					return nil
				}
			default:
				return nil
			}
		}
		id := fmt.Sprintf("%v|%s|%s|%s|%s|ref=%q", ru.Methods, ru.Kind, ru.Pat, ru.Kind2, ru.Pat2, ru.Ref)
		if seen[id] {
			return nil // duplicate rules: not judged
		}
		seen[id] = true
		rr.key = fmt.Sprintf("%s|pol=%+v", id, p)
		rr.crit = fmt.Sprintf("%v|%s|%s|%s|%s", ru.Methods, ru.Kind, ru.Pat, ru.Kind2, ru.Pat2)
		// documented defaults (doc/reference/filters.md, ratelimiter.Policy)
		if p.Limit == 0 {
			p.Limit = 50
		}
		if p.PeriodUs == 0 {
			p.PeriodUs = 10000
		}
		if p.TimeoutUs < 0 {
			p.TimeoutUs = 100000
		}
		if p.Limit < 1 || p.PeriodUs < 1 {
			return nil
		}
		rr.pol = p
		out = append(out, rr)
	}
	return out
}

// c09Dur writes a duration the way configurations do ("1m", "10ms", "1500us").
func c09Dur(us int64) string {
	switch {
	case us > 0 && us%60000000 == 0:
		return fmt.Sprintf("%dm", us/60000000)
	case us > 0 && us%1000000 == 0:
		return fmt.Sprintf("%ds", us/1000000)
	case us > 0 && us%1000 == 0:
		return fmt.Sprintf("%dms", us/1000)
	}
	return fmt.Sprintf("%dus", us)
}

func c09RawSpec(s c09Spec) map[string]interface{} {
	var pols []interface{}
	for _, p := range s.Policies {
		m := map[string]interface{}{"name": p.Name}
		if p.Limit > 0 {
			m["limitForPeriod"] = p.Limit
		}
		if p.PeriodUs > 0 {
			m["limitRefreshPeriod"] = c09Dur(p.PeriodUs)
		}
		if p.TimeoutUs >= 0 {
			m["timeoutDuration"] = c09Dur(p.TimeoutUs)
		}
		pols = append(pols, m)
	}
	var urls []interface{}
	for _, ru := range s.Rules {
		um := map[string]interface{}{ru.Kind: ru.Pat}
		if ru.Kind2 != "" {
			um[ru.Kind2] = ru.Pat2
		}
		m := map[string]interface{}{"url": um}
		if len(ru.Methods) > 0 {
			var ms []interface{}
			for _, x := range ru.Methods {
				ms = append(ms, x)
			}
			m["methods"] = ms
		}
		if ru.Ref != "" {
			m["policyRef"] = ru.Ref
		}
		urls = append(urls, m)
	}
	raw := map[string]interface{}{"kind": frl.Kind, "name": "c09-ratelimiter", "policies": pols, "urls": urls}
	if s.Default != "" {
		raw["defaultPolicyRef"] = s.Default
	}
	return raw
}

type c09Gen_ struct {
	f     filters.Filter
	rules []*c09RuleRef
	n     int
	lims  []*librl.RateLimiter
}

// bindLimiters learns the identities of the generation's limiters (spec order).
func (g *c09Gen_) bindLimiters() bool {
	g.lims = frl.C09Limiters(g.f)
	if len(g.lims) != len(g.rules) {
		return false
	}
	for i, rr := range g.rules {
		rr.lim = g.lims[i]
	}
	return true
}

func c09NewLedger(rr *c09RuleRef, gen, idx int, start time.Time) *c09Ledger {
	return &c09Ledger{name: fmt.Sprintf("gen%d.rule%d(%s %s %v -> %s)", gen, idx, rr.rule.Kind, rr.rule.Pat, rr.rule.Methods, rr.pol.Name),
		limit: rr.pol.Limit, period: c09us(rr.pol.PeriodUs), timeout: c09us(rr.pol.TimeoutUs), start: start}
}

func c09ExecFilter(e *c09Env, sc *c09Scenario, main *c09TL) {
	r := e.r
	kind := filters.GetKind(frl.Kind)
	if kind == nil {
		r.Violate("C09.other", "filter kind %s is not registered", frl.Kind)
		return
	}
	rules := c09RefSpec(sc.Spec)
	if rules == nil {
		return
	}
	spec, err := filters.NewSpec(nil, "c09-pipeline", c09RawSpec(sc.Spec))
	if err != nil {
		for _, p := range sc.Spec.Policies {
			if c09WideDefaultLimit && p.Limit == 0 && strings.Contains(err.Error(), "limitForPeriod") {
				r.Probe("filter.policy_without_limitForPeriod")
				r.Violate("C09.documented-default-limit-rejected", "a policy that leaves limitForPeriod out (documented: optional, default 50) is rejected: %v\nspec: %+v", err, c09RawSpec(sc.Spec))
			}
		}
		return // shrunk into an invalid spec
	}
	st := &c09Stats{}
	var ledgers []*c09Ledger
	cur := &c09Gen_{f: kind.CreateInstance(spec), rules: rules}
	main.reset()
	if !c09Catch(r, "Init", func() { cur.f.Init() }) {
		return
	}
	if len(main.nows) != len(rules) {
		r.Violate("C09.other", "Init of a filter with %d url rules created %d limiters", len(rules), len(main.nows))
		return
	}
	for i, rr := range rules {
		rr.led = c09NewLedger(rr, 0, i, main.nows[i])
		ledgers = append(ledgers, rr.led)
	}
	if !cur.bindLimiters() {
		r.Violate("C09.other", "the filter has %d limiters for %d url rules", len(cur.lims), len(rules))
		return
	}
	var ambs []*c09Amb
	r.Eventf("filter init rules=%d @%v", len(rules), r.Now())
	var hold chan struct{}
	reloadCount := 0
	curDefault := sc.Spec.Default

	for ti := range sc.Tasks {
		ti := ti
		ops := sc.Tasks[ti].Ops
		r.Go(fmt.Sprintf("t%d", ti), func() {
			tl := e.register()
			for oi, op := range ops {
				if r.Violated() || r.Aborted() {
					return
				}
				r.Sleep(c09us(op.GapUs))
				if op.Align > 0 && len(cur.rules) > 0 {
					l := cur.rules[0].led
					r.Sleep(c09AlignSleep(l.start, l.period, op.Align))
				}
				for hold != nil {
					st.held = true
					ch := hold
					<-ch
					r.Yield("resume-after-reload")
				}
				if r.Violated() {
					return
				}
				who := fmt.Sprintf("t%d.%d[%s %s]", ti, oi, op.Method, op.Path)
				gen := cur
				var rr *c09RuleRef
				nmatch := 0
				path := c09PathOf(op.Path)
				for _, x := range gen.rules {
					if x.match(op.Method, path) {
						if rr == nil {
							rr = x
						}
						nmatch++
					}
				}
				if path != op.Path {
					if strings.Contains(op.Path, "?") {
						r.Probe("filter.request_with_query_string")
					}
					if strings.Contains(op.Path, "%") {
						r.Probe("filter.request_with_percent_encoded_path")
					}
					if rr != nil {
						r.Probe("filter.request_with_query_or_encoding_matches_a_rule")
					}
				}
				switch op.Method {
				case "GET", "POST", "PUT":
				default:
					r.Probe("filter.method_head_delete_patch_options")
				}
				if rr != nil && rr.rule.Kind2 != "" {
					r.Probe("filter.rule_with_two_criteria_matched")
				}
				if rr != nil && len(rr.rule.Methods) > 0 {
					for _, x := range gen.rules {
						if x != rr && x.rule.Kind == rr.rule.Kind && x.rule.Pat == rr.rule.Pat && x.rule.Kind2 == rr.rule.Kind2 {
							r.Probe("filter.rules_same_pattern_different_methods")
						}
					}
				}
				if nmatch > 1 {
					st.shadowed = true
				}
				cctx, cancel := stdctx.WithCancel(stdctx.Background())
				stdr, err := http.NewRequestWithContext(cctx, op.Method, "http://c09.example"+op.Path, nil)
				if err != nil {
					cancel()
					continue
				}
				req, _ := httpprot.NewRequest(stdr)
				ctx := egctx.New(tracing.NoopSpan)
				ctx.SetInputRequest(req)
				cancelled := false
				if op.CancelUs > 0 {
					r.Go(fmt.Sprintf("t%d.%d-cancel", ti, oi), func() {
						// +0.5us: never at the same instant as a period boundary timer
						r.Sleep(c09us(op.CancelUs) + 500*time.Nanosecond)
						cancelled = true
						cancel()
					})
				}
				tl.reset()
				tl.watch = gen.lims
				gen.n++
				t0 := time.Now()
				var res string
				fin := c09Catch(r, who+" Handle", func() { res = gen.f.Handle(ctx) })
				t1 := time.Now()
				e.resolve()
				tl.watch = nil
				wasCancelled := cancelled
				gen.n--
				r.Yield("returned") // possibly woken by a timer: re-establish a reproducible order
				if op.CancelUs == 0 {
					cancel()
				}
				if !fin {
					return
				}
				tags := ctx.Tags()
				resp := ctx.GetOutputResponse()
				if gen != cur {
					st.acrossReload = true
				}
				if rr == nil {
					st.unmatched = true
					r.Eventf("%s unmatched res=%q", who, res)
					if res != "" || resp != nil || len(tl.nows) != 0 || !t1.Equal(t0) || strings.Contains(tags, "rateLimiter") {
						r.Violate("C09.unmatched-url-limited", "%s matches no url rule of the spec but: result=%q response-set=%v limiter-consulted=%d delay=%v tags=%q\nrules: %+v",
							who, res, resp != nil, len(tl.nows), t1.Sub(t0), tags, sc.Spec.Rules)
					}
					continue
				}
				// which rule was applied? The statement does not say which of several
				// matching rules limits a request: the limiter whose state the
				// request's acquisition changed tells it. One rule per request.
				if len(tl.nows) > 1 || len(tl.consulted) > 1 {
					r.Violate("C09.several-rules-applied", "%s: %d limiters were asked / %d changed state for one request (matching rules: %d)", who, len(tl.nows), len(tl.consulted), nmatch)
					return
				}
				var amb *c09Amb
				if len(tl.consulted) == 1 {
					var hit *c09RuleRef
					for _, x := range gen.rules {
						if x.lim == tl.consulted[0] && x.match(op.Method, path) {
							hit = x
							break
						}
					}
					if hit == nil {
						r.Violate("C09.non-matching-rule-applied", "%s took a permit of the limiter of a rule it does not match (matching rules: %d)\nrules: %+v", who, nmatch, sc.Spec.Rules)
						return
					}
					if nmatch > 1 {
						if hit == rr {
							r.Probe("filter.several_rules_match.first_in_spec_order_applied")
						} else {
							r.Probe("filter.several_rules_match.later_rule_applied")
						}
					}
					rr = hit
				} else if nmatch > 1 && len(tl.nows) == 1 && res == "rateLimited" {
					amb = &c09Amb{}
					ambs = append(ambs, amb)
					r.Probe("filter.several_rules_match.rejected_judged_on_each_rule")
				}
				if nmatch > 1 {
					for _, x := range gen.rules {
						if x != gen.rules[0] && x.match(op.Method, path) && ((x.rule.Kind == "exact" && x.rule.Pat == path) || (x.rule.Kind2 == "exact" && x.rule.Pat2 == path)) {
							first := true
							for _, y := range gen.rules {
								if y == x {
									break
								}
								if y.match(op.Method, path) {
									first = false
								}
							}
							if !first {
								r.Probe("filter.several_rules_match.exact_hit_is_not_the_first_rule")
							}
						}
					}
				}
				o := c09Obs{who: who, a: t0, amb: amb}
				if len(tl.nows) > 0 {
					o.a, o.seq = tl.nows[0], tl.seqs[0]
				} else {
					o.seq = e.nextSeq()
					o.note = "(no limiter consulted)"
				}
				waitedTag := strings.Contains(tags, "rateLimiter: waiting duration")
				switch res {
				case "rateLimited":
					o.kind = c09Rej
					code := 0
					if resp != nil {
						if hr, ok := resp.(*httpprot.Response); ok {
							code = hr.StatusCode()
						}
					}
					if code != http.StatusTooManyRequests {
						r.Violate("C09.reject-status", "%s: result rateLimited but response status is %d", who, code)
					}
				case "":
					if resp != nil {
						if hr, ok := resp.(*httpprot.Response); ok && hr.StatusCode() == http.StatusTooManyRequests {
							r.Violate("C09.reject-status", "%s: response 429 set but result is empty", who)
						}
					}
					if wasCancelled && !waitedTag {
						o.kind = c09Wild
						if t1.After(o.a) {
							st.cancelWait = true
						}
					} else {
						o.kind, o.rel = c09Adm, t1
						if waitedTag {
							o.note += "(" + tags + ")"
						}
					}
				default:
					r.Violate("C09.other", "%s: unexpected filter result %q", who, res)
				}
				if amb != nil && o.kind == c09Rej {
					for _, x := range gen.rules {
						if x.match(op.Method, path) {
							amb.cands++
							x.led.add(o)
						}
					}
				} else {
					o.amb = nil
					rr.led.add(o)
				}
				r.Eventf("%s res=%q arrive=%v return=%v kind=%d rule=%s", who, res, o.a.Sub(e.base), t1.Sub(e.base), o.kind, rr.led.name)
			}
		})
	}

	if len(sc.Reloads) > 0 {
		r.Go("reloader", func() {
			tl := e.register()
			for ri, rl := range sc.Reloads {
				if r.Violated() || r.Aborted() {
					return
				}
				r.Sleep(c09us(rl.GapUs))
				nrules := c09RefSpec(rl.Spec)
				if nrules == nil {
					continue
				}
				nspec, err := filters.NewSpec(nil, "c09-pipeline", c09RawSpec(rl.Spec))
				if err != nil {
					continue
				}
				if hold != nil {
					return
				}
				hold = make(chan struct{})
				reloadCount++
				ng := &c09Gen_{f: kind.CreateInstance(nspec), rules: nrules}
				old := cur
				if old.n > 0 {
					st.acrossReload = true
				}
				tl.reset()
				fin := c09Catch(r, "Inherit", func() { ng.f.Inherit(old.f) })
				now := time.Now()
				// reference: which rules are unchanged (must keep their limiter),
				// which differ in match criteria or effective policy values from
				// every unclaimed predecessor (must get a limiter of their own), and
				// which differ from a predecessor in names only (both accepted)?
				taken := map[*c09RuleRef]bool{}
				for _, nr := range nrules {
					for _, pr := range old.rules {
						if !taken[pr] && pr.key == nr.key {
							taken[pr] = true
							nr.led = pr.led
							nr.led.kept = append(nr.led.kept, now)
							st.keptReload = true
							break
						}
					}
				}
				var fresh, either []*c09RuleRef
				eitherPred := map[*c09RuleRef]*c09RuleRef{}
				for _, nr := range nrules {
					if nr.led != nil {
						continue
					}
					for _, pr := range old.rules {
						if !taken[pr] && pr.crit == nr.crit && pr.pol.Limit == nr.pol.Limit && pr.pol.PeriodUs == nr.pol.PeriodUs && pr.pol.TimeoutUs == nr.pol.TimeoutUs {
							taken[pr] = true
							eitherPred[nr] = pr
							either = append(either, nr)
							break
						}
					}
					if eitherPred[nr] == nil {
						fresh = append(fresh, nr)
					}
				}
				nkept := len(nrules) - len(fresh) - len(either)
				r.Eventf("reload %d @%v kept=%d fresh=%d either=%d created=%d", ri, r.Now(), nkept, len(fresh), len(either), len(tl.nows))
				if fin {
					switch {
					case len(tl.nows) > len(fresh)+len(either):
						r.Violate("C09.reload-state-lost", "reload %d at %v: %d rule(s) are unchanged (same match criteria, same policy) and must keep their limiter, %d changed/new, %d changed in names only; but %d new limiters were created\nold spec rules: %+v\nnew spec: %+v",
							ri, r.Now(), nkept, len(fresh), len(either), len(tl.nows), c09Keys(old.rules), rl.Spec)
					case len(tl.nows) < len(fresh):
						r.Violate("C09.reload-stale-limiter", "reload %d at %v: %d rule(s) are new or have changed match criteria / policy values, but only %d new limiters were created\nold spec rules: %+v\nnew spec: %+v",
							ri, r.Now(), len(fresh), len(tl.nows), c09Keys(old.rules), rl.Spec)
					}
				}
				if !fin || r.Violated() {
					close(hold)
					hold = nil
					return
				}
				created := now
				sameInstant := true
				for i, t := range tl.nows {
					if i > 0 && !t.Equal(tl.nows[0]) {
						sameInstant = false
					}
					created = t
				}
				if len(either) > 0 {
					r.Probe("filter.reload_names_only_changed")
					if len(tl.nows) == len(fresh) {
						r.Probe("filter.reload_names_only_changed.no_limiter_created")
					} else if len(tl.nows) == len(fresh)+len(either) {
						r.Probe("filter.reload_names_only_changed.limiter_created")
					}
				}
				if rl.Spec.Default != curDefault {
					noRefFresh, ownRefKept := false, false
					for _, nr := range nrules {
						if nr.rule.Ref == "" && nr.led == nil && eitherPred[nr] == nil {
							noRefFresh = true
						}
						if nr.rule.Ref != "" && nr.led != nil {
							ownRefKept = true
						}
					}
					if noRefFresh {
						r.Probe("filter.reload_default_policy_switched_rule_without_ref_changed")
					}
					if ownRefKept {
						r.Probe("filter.reload_default_policy_switched_rule_with_ref_kept")
					}
					curDefault = rl.Spec.Default
				}
				// creation instants: limiters are created in the order of the
				// spec's rules. (They differ when the scheduler lets time pass
				// inside Inherit.)
				at := map[*c09RuleRef]time.Time{}
				mapped := true
				switch {
				case len(tl.nows) == len(fresh)+len(either):
					k := 0
					for _, nr := range nrules {
						if nr.led == nil {
							at[nr] = tl.nows[k]
							k++
						}
					}
				case len(tl.nows) == len(fresh):
					for i, nr := range fresh {
						at[nr] = tl.nows[i]
					}
					for _, nr := range either {
						at[nr] = now
					}
				default:
					mapped = sameInstant
					for _, nr := range append(append([]*c09RuleRef(nil), fresh...), either...) {
						at[nr] = created
					}
				}
				for i, nr := range fresh {
					st.freshRule = true
					nr.led = c09NewLedger(nr, reloadCount, i, at[nr])
					nr.led.unjudged = !mapped // which creation instant belongs to which rule is not observable
					ledgers = append(ledgers, nr.led)
				}
				for i, nr := range either {
					nr.led = c09NewLedger(nr, reloadCount, len(fresh)+i, at[nr])
					nr.led.pred = eitherPred[nr].led
					nr.led.unjudged = !mapped
					ledgers = append(ledgers, nr.led)
				}
				if !ng.bindLimiters() {
					r.Violate("C09.other", "reload %d: the filter has %d limiters for %d url rules", ri, len(ng.lims), len(nrules))
					close(hold)
					hold = nil
					return
				}
				cur = ng
				old.f.Close()
				close(hold)
				hold = nil
			}
		})
	}
	r.WaitTasks()
	cur.f.Close()
	var sig strings.Builder
	hasSucc := map[*c09Ledger]bool{}
	for _, l := range ledgers {
		if l.pred != nil {
			hasSucc[l.pred] = true
		}
	}
	for _, l := range ledgers {
		if r.Violated() {
			break
		}
		if hasSucc[l] {
			continue // judged with its successor
		}
		var chain []*c09Ledger
		for x := l; x != nil && len(chain) < 8; x = x.pred {
			chain = append([]*c09Ledger{x}, chain...)
		}
		s := c09EvalChain(e, st, chain)
		fmt.Fprintf(&sig, "[%d/%d/%d:%s]", l.limit, l.period/time.Microsecond, l.timeout/time.Microsecond, s)
		if l.timeout == 0 {
			r.Probe("timeout_zero")
		} else if l.timeout < l.period {
			r.Probe("timeout_below_period")
		}
		c09PolProbes(r, l.limit, l.period, l.timeout)
	}
	for _, a := range ambs {
		if !r.Violated() && a.cands > 0 && len(a.seen) == a.cands && !a.ok {
			r.Violate(a.class, "the request matches %d rules and its rejection is justified on none of their limiters; on the first: %s", a.cands, a.msg)
		}
	}
	st.probes(r, sc.Mode)
	for _, p := range sc.Spec.Policies {
		if p.Limit == 0 || p.PeriodUs == 0 || p.TimeoutUs < 0 {
			r.Probe("filter.policy_with_default_fields")
			break
		}
	}
	r.SetSig(fmt.Sprintf("filter|reloads=%d|%s", reloadCount, sig.String()))
}

func c09Keys(rs []*c09RuleRef) []string {
	var out []string
	for _, x := range rs {
		out = append(out, x.key)
	}
	return out
}

// ---- mqtt -----------------------------------------------------------------------

type c09MObs struct {
	seq   uint64
	who   string
	a     time.Time
	bytes int // size of the packet; for packets sent by a client: its size on the wire
	hi    int // upper bound of what the limiter may charge for it (= bytes in mode "mqtt")
	ok    bool
	note  string
	info  bool // shown in the history only (e.g. a packet that is not a PUBLISH)
}

// c09MLim is one MQTT limiter (timeout 0) with the observations made on it.
type c09MLim struct {
	name    string
	req     int
	bytes   int
	period  time.Duration
	created time.Time
	obs     []c09MObs
}

type c09MRes struct {
	sig                                    string
	adm, rej                               int
	rejReq, rejBytes, rejCarry, overshoot bool
	boundary                               bool
}

func (l *c09MLim) per(t time.Time) int64 {
	return c09FloorDiv(int64(t.Sub(l.created)), int64(l.period))
}

// eval checks one MQTT limiter's observations against the MQTT clause of the
// statement: per period at most requestRate packets admitted, admitted bytes
// exceed bytesRate by less than one packet, rejected only when the period's
// request or byte permits are used up. Packet sizes are intervals
// [bytes, hi]: the rate rules use the lower bounds for the sum and the upper
// bound for "one packet", the justification of a rejection uses the upper
// bounds.
func (l *c09MLim) eval(e *c09Env) c09MRes {
	r := e.r
	var res c09MRes
	obs := l.obs
	sort.SliceStable(obs, func(i, j int) bool { return obs[i].seq < obs[j].seq })
	cnt := map[int64]int{}
	sum := map[int64]int{}
	sumHi := map[int64]int{}
	maxp := map[int64]int{}
	var debtQ int64
	debt := 0
	var sig strings.Builder
	hist := func(upto int) string {
		var b strings.Builder
		fmt.Fprintf(&b, "%s requestRate=%d bytesRate=%d period=%v created@%v; history:", l.name, l.req, l.bytes, l.period, l.created.Sub(e.base))
		from := upto - 24
		if from < 0 {
			from = 0
		}
		for i := from; i <= upto; i++ {
			o := obs[i]
			if o.info {
				fmt.Fprintf(&b, "\n  %s @%v(p%d) %s", o.who, o.a.Sub(e.base), l.per(o.a), o.note)
				continue
			}
			fmt.Fprintf(&b, "\n  %s @%v(p%d) %dB admitted=%v %s", o.who, o.a.Sub(e.base), l.per(o.a), o.bytes, o.ok, o.note)
		}
		return b.String()
	}
	for i, o := range obs {
		if r.Violated() {
			break
		}
		if o.info {
			continue
		}
		q := l.per(o.a)
		if q > debtQ {
			if l.bytes > 0 {
				d := int64(debt) - (q-debtQ)*int64(l.bytes)
				if d < 0 {
					d = 0
				}
				debt = int(d)
			}
			debtQ = q
		}
		if q >= 1 && o.a.Sub(l.created)%l.period == 0 {
			res.boundary = true
		}
		if o.ok {
			res.adm++
			fmt.Fprintf(&sig, "A%d,", q)
			cnt[q]++
			sum[q] += o.bytes
			sumHi[q] += o.hi
			if o.hi > maxp[q] {
				maxp[q] = o.hi
			}
			debt += o.hi
			if l.req > 0 && cnt[q] > l.req {
				r.Violate("C09.mqtt-request-rate", "%d packets admitted in period %d, requestRate=%d\n%s", cnt[q], q, l.req, hist(i))
				break
			}
			if l.bytes > 0 && sum[q] > l.bytes {
				res.overshoot = true
			}
			if l.bytes > 0 && sum[q]-l.bytes >= maxp[q] {
				r.Violate("C09.mqtt-bytes-rate", "%d bytes admitted in period %d: exceeds bytesRate=%d by %d, not less than one packet (largest admitted in the period: %d)\n%s",
					sum[q], q, l.bytes, sum[q]-l.bytes, maxp[q], hist(i))
				break
			}
			continue
		}
		res.rej++
		fmt.Fprintf(&sig, "R%d,", q)
		byReq := l.req > 0 && cnt[q] >= l.req
		byBytes := l.bytes > 0 && sumHi[q] >= l.bytes
		byCarry := l.bytes > 0 && debt >= l.bytes
		switch {
		case byReq:
			res.rejReq = true
		case byBytes:
			res.rejBytes = true
		case byCarry:
			res.rejCarry = true
		default:
			r.Violate("C09.mqtt-unjustified-reject", "%s (%d bytes) rejected in period %d with %d/%d packets and %d/%d bytes admitted in the period (%d bytes charged incl. overshoot carried from earlier periods)\n%s",
				o.who, o.bytes, q, cnt[q], l.req, sumHi[q], l.bytes, debt, hist(i))
		}
	}
	res.sig = sig.String()
	return res
}

func c09ExecMQTT(e *c09Env, sc *c09Scenario, main *c09TL) {
	r := e.r
	if sc.ReqRate < 0 || sc.BytesRate < 0 || sc.PeriodS < 0 {
		return
	}
	main.reset()
	lim := newLimiter(&RateLimit{RequestRate: sc.ReqRate, BytesRate: sc.BytesRate, TimePeriod: sc.PeriodS})
	created := time.Now()
	limited := sc.ReqRate > 0 || sc.BytesRate > 0
	if limited {
		if len(main.nows) != 1 {
			r.Violate("C09.other", "newLimiter read the clock %d times", len(main.nows))
			return
		}
		created = main.nows[0]
	}
	ps := sc.PeriodS
	if ps == 0 {
		ps = 1 // spec.go: "default 1 second"
	}
	period := time.Duration(ps) * time.Second
	r.Eventf("mqtt limiter req=%d bytes=%d period=%v created@%v", sc.ReqRate, sc.BytesRate, period, r.Now())
	var obs []c09MObs
	for ti := range sc.Tasks {
		ti := ti
		ops := sc.Tasks[ti].Ops
		r.Go(fmt.Sprintf("t%d", ti), func() {
			tl := e.register()
			for oi, op := range ops {
				if r.Violated() || r.Aborted() {
					return
				}
				if op.Bytes < 1 {
					continue
				}
				r.Sleep(c09us(op.GapUs))
				if op.Align > 0 {
					r.Sleep(c09AlignSleep(created, period, op.Align))
				}
				who := fmt.Sprintf("t%d.%d", ti, oi)
				tl.reset()
				var ok bool
				if !c09Catch(r, who, func() { ok = lim.acquirePermission(op.Bytes) }) {
					return
				}
				o := c09MObs{who: who, a: time.Now(), bytes: op.Bytes, hi: op.Bytes, ok: ok}
				if len(tl.nows) > 0 {
					o.a, o.seq = tl.nows[0], tl.seqs[0]
				} else {
					o.seq = e.nextSeq()
				}
				obs = append(obs, o)
				r.Eventf("%s bytes=%d ok=%v @%v", who, op.Bytes, ok, o.a.Sub(e.base))
			}
		})
	}
	r.WaitTasks()
	mled := &c09MLim{name: "mqtt limiter", req: sc.ReqRate, bytes: sc.BytesRate, period: period, created: created, obs: obs}
	res := mled.eval(e)
	p := func(c bool, n string) {
		if c {
			r.Probe(n)
		}
	}
	p(true, "mode.mqtt")
	p(res.boundary, "arrival_exactly_on_period_boundary")
	p(sc.ReqRate > 0 && sc.BytesRate > 0, "mqtt.multi_limiter")
	p(sc.ReqRate > 0 && sc.BytesRate == 0, "mqtt.request_limiter_only")
	p(sc.ReqRate == 0 && sc.BytesRate > 0, "mqtt.byte_limiter_only")
	p(!limited, "mqtt.unlimited")
	p(ps >= 60, "mqtt.period_60s")
	p(res.rejReq, "mqtt.reject_by_request_rate")
	p(res.rejBytes, "mqtt.reject_by_bytes_rate")
	p(res.rejCarry, "mqtt.reject_only_by_carried_overshoot")
	p(res.overshoot, "mqtt.bytes_overshoot_within_one_packet")
	p(res.rej > 0, "rejected")
	if res.rej > 0 {
		r.Nontrivial()
	}
	r.SetSig(fmt.Sprintf("mqtt|%d|%d|%d|%s", sc.ReqRate, sc.BytesRate, ps, res.sig))
}

// ---- entry ----------------------------------------------------------------------

func c09Exec(r *sim.Run, sci interface{}) {
	sc := sci.(*c09Scenario)
	if sc.OffsetUs < 0 || (len(sc.Tasks) == 0 && len(sc.Clients) == 0) {
		return
	}
	e := &c09Env{r: r, tls: map[uint64]*c09TL{}, base: time.Now()}
	librl.C09HookClock(e.observe)
	defer librl.C09HookClock(nil)
	main := e.register()
	time.Sleep(c09us(sc.OffsetUs))
	if sc.Mode != "mqttc" && len(sc.Tasks) == 0 {
		return
	}
	switch sc.Mode {
	case "util", "multi":
		c09ExecUtil(e, sc, main)
	case "filter":
		c09ExecFilter(e, sc, main)
	case "mqtt":
		c09ExecMQTT(e, sc, main)
	case "mqttc":
		c09ExecMQTTClients(e, sc, main)
	}
}

func TestVerifC09(t *testing.T) {
	logger.InitNop()
	hdrv.Main(t, &hdrv.Harness{
		ID:       "C09",
		Gen:      c09Gen,
		New:      func() interface{} { return &c09Scenario{} },
		Exec:     c09Exec,
		MaxSteps: 30000,
		Rule: "scenario = one system (util RateLimiter | MultiRateLimiter | RateLimiter filter with url rules, reloads, cancellations | MQTT Limiter | MQTT broker with 1-4 clients sending CONNECT/PUBLISH/PINGREQ/PUBACK) with drawn policy " +
			"(limit 1-8 and 20/50, period 1ms-1min, timeout incl. 0 / <period / =period / multiples up to 100 periods) + 1-4 tasks with drawn gaps (bursts, exact period boundaries +-1us, idle gaps of many periods up to 8 hours); " +
			"non-trivial = at least one request had to wait or was rejected; distinct = distinct (system, policy, per-limiter sequence of outcome kinds with period indexes)",
		Real: []string{"pkg/util/ratelimiter (RateLimiter, MultiRateLimiter)", "pkg/filters/ratelimiter (Spec validation via filters.NewSpec, Init, Inherit/reload, Handle)",
			"pkg/object/mqttproxy Limiter (newLimiter, acquirePermission)", "pkg/util/urlrule, pkg/context, pkg/protocols/httpprot",
			"mode mqttc: pkg/object/mqttproxy Broker.connectionValidation/checkConnectPermission, newClient, Client.processPacket/checkPublishLimit/runPipeline/processPublish/processPingreq/processPuback, closeAndDelSession, Broker.removeClient, getPipelineMap, paho packet codec (Write + ReadPacket)"},
		Stub: []string{"callers, HTTP requests and their cancellation (harness)", "sync.Mutex -> simsync.Mutex (same semantics + gates)",
			"ratelimiter.nowFunc wrapped (still time.Now on the virtual clock) to observe the instants the limiter reads", "logger = nop",
			"two read-only export helpers injected next to the production code: filters/ratelimiter.C09Limiters (the limiter pointer of each url rule) and util/ratelimiter.C09Peek (raw state, compared for equality only) tell which rule's limiter a request used",
			"mode mqttc: no sockets and no newBroker/handleConn/readLoop/writeLoop - the harness assembles the Broker struct with newBroker's constructor calls, performs handleConn's registration steps and readLoop's exit path with the real functions and hands each decoded packet to Client.processPacket; sessions are made with Session.init (no resend ticker); publish pipeline = recorder that can drop a packet"},
		Assumptions: []string{
			"period k of a limiter is [creation+k*period, creation+(k+1)*period)",
			"timeout horizon = arrival period and the next floor(timeout/period) periods; a rejection while a later period starting within arrival+timeout has a permit is accepted (probe)",
			"a cancelled waiting request is not a release; its reservation may sit in any period of its horizon",
			"no request is started on a filter generation while/after its successor inherits from it (C11)",
			"unchanged rule (must keep its limiter) = same methods, url criteria, policyRef text and same policy (name and fields); a rule whose criteria or effective policy values (limit, period, timeout after defaults) differ from every unclaimed predecessor must get its own limiter; a rule that differs from a predecessor in names only (policy name, policyRef/defaultPolicyRef to an equal-valued policy) may keep the limiter or get a fresh one: its ledger is accepted if it holds alone (periods from the reload) or appended to the predecessor's, each side of the reload being judged together with the other; duplicate rules not generated",
			"which of several matching rules limits a request is observed, not predicted (the limiter whose state the acquisition changed; must belong to a matching rule; exactly one limiter per matched request); a rejected request that matches several rules is in order if the rejection is justified on one of their ledgers",
			"an abandoned (cancelled) waiting request may hold its reservation in any period that starts no later than its arrival+timeout (horizon measured from the arrival, the widest that keeps waits within the timeout)",
			"a rule's url criteria are matched against the request path (no query string, percent-decoded; only unreserved characters are generated in encoded form); the criteria of one rule are alternatives (doc: 'the relationship between exact, prefix and regex is OR'); two rules on one pattern that differ in methods are two rules",
			"mqtt: 'less than one packet' uses the largest packet admitted in the period; a rejection may also be justified by byte overshoot carried from earlier periods",
			"mqttc: a PUBLISH is admitted iff it reached the publish pipeline (PUBACKs are recorded, not judged); every PUBLISH (any QoS, DUP, RETAIN) is one packet of its wire size against the limiter of its connection; the limiter may charge up to 8 bytes of framing on top of the wire size; PINGREQ/PUBACK take no permit",
			"mqttc: a connection that created its own limiter starts a fresh budget (periods counted from that creation), one that did not continues the ledger of the previous connection with the same client id; the connection limiter is one broker-wide ledger over all CONNECT packets",
		},
	})
}
