package ratelimiter

import (
	"github.com/megaease/easegress/pkg/filters"
	librl "github.com/megaease/easegress/pkg/util/ratelimiter"
)

// C09Limiters is added by the C09 verification harness (it is not part of
// easegress): the limiter of every url rule of a RateLimiter filter instance,
// in the order of the spec's rules. The harness uses the pointers only as
// identities (which rule's limiter did a request consult).
func C09Limiters(f filters.Filter) []*librl.RateLimiter {
	rl, ok := f.(*RateLimiter)
	if !ok || rl.spec == nil {
		return nil
	}
	out := make([]*librl.RateLimiter, 0, len(rl.spec.URLs))
	for _, u := range rl.spec.URLs {
		out = append(out, u.rl)
	}
	return out
}
