package ratelimiter

import "time"

// C09HookClock is added by the C09 verification harness (it is not part of
// easegress). It wraps the package clock `nowFunc` (which the package already
// provides "to mock time.Now") so that the harness learns the instant the
// limiter itself read for a creation or an acquisition. The clock stays
// time.Now (the simulation's virtual clock); observe(t) is called with the
// value returned to the limiter. C09HookClock(nil) restores time.Now.
func C09HookClock(observe func(time.Time)) {
	if observe == nil {
		nowFunc = time.Now
		return
	}
	nowFunc = func() time.Time {
		t := time.Now()
		observe(t)
		return t
	}
}

// C09Peek is added by the C09 verification harness: the limiter's raw state,
// read without the lock (the simulation runs one goroutine at a time). The
// harness only compares two readings for equality to learn WHICH limiter an
// acquisition went to; the numbers are never interpreted.
func C09Peek(rl *RateLimiter) (int, int) {
	if rl == nil {
		return 0, 0
	}
	return rl.cycle, rl.tokens
}
