//go:build go1.21

package mqttproxy

// C09, mode "mqttc": the MQTT clause of the property checked the way a
// connected client meets it.
//
// One run assembles a Broker (the struct newBroker fills, with the same
// constructor calls, but without a listener), whose spec carries a drawn
// clientPublishLimit and - in a third of the runs - a connectionLimit, and a
// publish pipeline that records what reaches it. 1-4 client tasks (6 in the
// thorough tier), each with its own client id, then do what a connection's
// goroutine does:
//
//   connect     CONNECT packet (encoded and decoded with the paho codec) ->
//               Broker.connectionValidation (connection limiter, newClient with
//               the spec's clientPublishLimit) -> registration in b.clients the
//               way handleConn does it (incl. take-over of a still registered
//               connection with the same id)
//   packets     PUBLISH (QoS 0/1/2, DUP, RETAIN, several topics, payload sizes
//               around bytesRate), PINGREQ, PUBACK: encoded, decoded, then
//               Client.processPacket - what readLoop does with each packet
//   resend      the oldest QoS1 publish that got no PUBACK (dropped by the
//               limiter or by the pipeline) is sent again with DUP set, same
//               packet id; also after a reconnect
//   disconnect  readLoop's exit path: closeAndDelSession + Broker.removeClient
//
// Observation. A PUBLISH is "admitted" when it reached the publish pipeline
// (the backend side of the limiter), "rejected" when it did not; the PUBACK
// of a QoS1 publish is recorded as well. Its size is its length on the wire. The limiter's clock reads
// (see c09_test.go) give the arrival instant and the creation instant of each
// limiter; a PUBLISH that was admitted without the limiter having been asked
// is stamped with the current instant.
//
// Oracle (c09MLim.eval, the same rules and classes as mode "mqtt"), one
// ledger per limiter = per connection of a client, plus one for the
// connection limiter: C09.mqtt-request-rate, C09.mqtt-bytes-rate,
// C09.mqtt-unjustified-reject. Every PUBLISH a client sends is one packet of
// its wire size against its connection's limiter, whatever its QoS, DUP or
// RETAIN flag, topic or payload, and whatever the pipeline does with it
// afterwards; PINGREQ and PUBACK are not publishes and take no permit (if they
// did, later publishes would be rejected with permits left on the ledger).
//
// Leniency decisions:
//   * how many bytes a packet costs is not defined by the statement: the
//     limiter may charge the wire size plus up to c09FrameSlack bytes. The rate
//     rules use the wire sizes for the period's sum and wire size + slack for
//     "one packet"; a rejection is justified with wire size + slack.
//   * the statement does not say whether a client id that reconnects continues
//     its budget: a connection that created a limiter of its own (observed
//     through the clock hook) is judged against a fresh ledger whose periods
//     start at that creation, one that did not continues the ledger of the
//     previous connection with that id (probes mqttc.reconnect_fresh_limiter /
//     mqttc.reconnect_continued_limiter).
//   * PUBACK without forward / forward without PUBACK are only probed (the
//     statement does not speak about acknowledgements; a broker may
//     acknowledge what it drops).
//   * packets are not sent on a connection after its id has been taken over,
//     wills are not generated, a client's packets are processed one at a time
//     (as readLoop does).

import (
	"bytes"
	"fmt"
	"io"
	"net"
	"sort"
	"strings"
	"time"

	"github.com/eclipse/paho.mqtt.golang/packets"
	egctx "github.com/megaease/easegress/pkg/context"
	"github.com/megaease/easegress/pkg/protocols/mqttprot"
	"verif/simkit/sim"
)

// c09FrameSlack: accepted per-packet framing allowance on top of the wire size.
const c09FrameSlack = 8

const c09PubPipeline = "c09-publish"

type c09COp struct {
	GapUs    int64  `json:"gap_us"`
	Align    int    `json:"align,omitempty"`
	Kind     string `json:"kind"` // pub | resend | ping | puback | sub | unsub | connect | disconnect
	Qos      int    `json:"qos,omitempty"`
	Dup      bool   `json:"dup,omitempty"` // pub: DUP set although it is the first transmission
	Retain   bool   `json:"retain,omitempty"`
	Topic    string `json:"topic,omitempty"`
	Payload  int    `json:"payload,omitempty"`
	PipeDrop bool   `json:"pipe_drop,omitempty"` // the publish pipeline drops the packet (no PUBACK)
}

type c09Cli struct {
	ID       string   `json:"id"`
	Persist  bool     `json:"persist,omitempty"`   // cleanSession=false
	UserName int      `json:"user_name,omitempty"` // length of the user name in CONNECT (varies its size)
	Ops      []c09COp `json:"ops"`
}

var c09Topics = []string{"t", "a/b", "sensors/room-1/temperature", "dev/0123456789abcdef0123456789abcdef/telemetry/0123456789abcdef0123456789abcdef/v1"}
var c09CliIDs = []string{"c0", "client-1", "c2-0123456789abcdef0123456789", "d3", "e4-sensor", "f5"}

func c09GenMQTTClients(rng *sim.Rand, sc *c09Scenario) {
	sc.Mode = "mqttc"
	sc.ReqRate = rng.Pick(0, 1, 2, 3, 5, 5)
	sc.BytesRate = rng.Pick(0, 40, 100, 100, 1000)
	switch rng.Intn(30) {
	case 0:
		sc.ReqRate, sc.BytesRate = 0, 0
	case 1:
		sc.NoPubLimit = true
	}
	sc.PeriodS = rng.Pick(0, 1, 1, 2, 3)
	if c09WideMQTT {
		if rng.Bool(0.08) {
			sc.PeriodS = 60
		}
		if rng.Bool(0.04) {
			sc.BytesRate = 20000 // payloads of 5*bytesRate need a 3-byte remaining length
		}
	}
	ps := sc.PeriodS
	if ps == 0 {
		ps = 1
	}
	P := int64(ps) * 1000000
	connLimited := rng.Bool(0.35)
	if connLimited {
		sc.ConnReqRate = rng.Pick(0, 1, 2, 3)
		sc.ConnBytesRate = rng.Pick(0, 0, 30, 60, 200)
		sc.ConnPeriodS = rng.Pick(0, 1, 2)
	}
	b := sc.BytesRate
	if b == 0 {
		b = 100
	}
	sizes := []int{0, 1, b / 4, b / 2, b - 20, b - 1, b, b + 1, 2 * b, 5 * b, 8}
	uniform := rng.Bool(0.25)
	us := sizes[rng.Intn(len(sizes))]
	ut := c09Topics[rng.Intn(len(c09Topics))]
	nc := rng.Range(1, 4)
	total := rng.Range(6, 60)
	if c09Thorough {
		nc = rng.Range(1, 6)
		total *= rng.Pick(1, 2, 3)
	}
	zeroPct := rng.Pick(20, 50, 80, 95)
	gaps := []int64{1, P / 3, P / 2, P - 1, P, P + 1, 2 * P, 3 * P, 17 * P, 50*P + P/2}
	alignPct := rng.Pick(0, 5, 15, 30)
	resendPct := rng.Pick(0, 10, 10, 25)
	dupPct := rng.Pick(0, 5, 5, 20)
	connPct := rng.Pick(0, 3, 6)
	if connLimited {
		connPct = rng.Pick(6, 15, 30)
	}
	otherPct := rng.Pick(0, 5, 10)
	others := []string{"ping", "ping", "puback"}
	if c09WideMQTT && rng.Bool(0.4) {
		others = []string{"ping", "puback", "sub", "sub", "unsub"}
	}
	dropPct := rng.Pick(0, 0, 5, 15)
	qos := [][]int{{0}, {1}, {0, 1}, {0, 1, 1}, {0, 1, 1, 1, 2}}[rng.Intn(5)]
	perm := rng.Perm(len(c09CliIDs))
	for ci := 0; ci < nc; ci++ {
		cl := c09Cli{ID: c09CliIDs[perm[ci]], Persist: rng.Bool(0.4)}
		if rng.Bool(0.3) {
			cl.UserName = rng.Pick(1, 8, 40)
		}
		n := total / nc
		if n < 1 {
			n = 1
		}
		for i := 0; i < n; i++ {
			op := c09COp{Kind: "pub"}
			if rng.Intn(100) >= zeroPct {
				op.GapUs = gaps[rng.Intn(len(gaps))]
			}
			if rng.Intn(100) < alignPct {
				op.Align = rng.Range(1, 3)
			}
			x := rng.Intn(100)
			switch {
			case x < resendPct:
				op.Kind = "resend"
			case x < resendPct+connPct:
				op.Kind = rng.PickStr("connect", "connect", "disconnect")
			case x < resendPct+connPct+otherPct:
				op.Kind = others[rng.Intn(len(others))]
			}
			op.Qos = qos[rng.Intn(len(qos))]
			op.Dup = rng.Intn(100) < dupPct
			op.Retain = rng.Bool(0.15)
			op.Topic = c09Topics[rng.Intn(len(c09Topics))]
			op.Payload = sizes[rng.Intn(len(sizes))]
			if uniform {
				op.Payload, op.Topic = us, ut
			}
			if op.Payload < 0 {
				op.Payload = 0
			}
			op.PipeDrop = rng.Intn(100) < dropPct
			cl.Ops = append(cl.Ops, op)
		}
		sc.Clients = append(sc.Clients, cl)
	}
}

// c09Conn is the connection of a simulated client: what the broker writes is
// kept, there is nothing to read.
type c09Conn struct{ out bytes.Buffer }

type c09Addr struct{}

func (c09Addr) Network() string { return "c09" }
func (c09Addr) String() string  { return "c09-client" }

func (c *c09Conn) Read(p []byte) (int, error)       { return 0, io.EOF }
func (c *c09Conn) Write(p []byte) (int, error)      { return c.out.Write(p) }
func (c *c09Conn) Close() error                     { return nil }
func (c *c09Conn) LocalAddr() net.Addr              { return c09Addr{} }
func (c *c09Conn) RemoteAddr() net.Addr             { return c09Addr{} }
func (c *c09Conn) SetDeadline(time.Time) error      { return nil }
func (c *c09Conn) SetReadDeadline(time.Time) error  { return nil }
func (c *c09Conn) SetWriteDeadline(time.Time) error { return nil }

// c09Mux is the broker's MuxMapper: the only pipeline is the recording publish
// pipeline, which drops a packet when told so.
type c09Mux struct {
	fwd  map[string]int
	drop map[string]bool
}

func (m *c09Mux) GetHandler(name string) (egctx.Handler, bool) {
	if name == c09PubPipeline {
		return m, true
	}
	return nil, false
}

func (m *c09Mux) Handle(ctx *egctx.Context) string {
	req, ok := ctx.GetRequest(egctx.DefaultNamespace).(*mqttprot.Request)
	if !ok || req.PacketType() != mqttprot.PublishType {
		return ""
	}
	cid := req.Client().ClientID()
	m.fwd[cid]++
	if m.drop[cid] {
		if resp, ok := ctx.GetResponse(egctx.DefaultNamespace).(*mqttprot.Response); ok {
			resp.SetDrop()
		}
	}
	return ""
}

// c09Wire encodes a packet and decodes it again, as it would arrive from a
// socket; it returns the decoded packet and its length on the wire.
func c09Wire(p packets.ControlPacket) (packets.ControlPacket, int) {
	var buf bytes.Buffer
	if err := p.Write(&buf); err != nil {
		return nil, 0
	}
	n := buf.Len()
	q, err := packets.ReadPacket(&buf)
	if err != nil {
		return nil, 0
	}
	return q, n
}

type c09Unacked struct {
	mid       uint16
	topic     string
	payload   int
	retain    bool
	byLimiter bool
}

func c09ExecMQTTClients(e *c09Env, sc *c09Scenario, main *c09TL) {
	r := e.r
	if sc.ReqRate < 0 || sc.BytesRate < 0 || sc.PeriodS < 0 || sc.ConnReqRate < 0 || sc.ConnBytesRate < 0 || sc.ConnPeriodS < 0 {
		return
	}
	seen := map[string]bool{}
	for _, cl := range sc.Clients {
		if cl.ID == "" || seen[cl.ID] || cl.UserName < 0 {
			return
		}
		seen[cl.ID] = true
	}
	secs := func(s int) time.Duration {
		if s == 0 {
			s = 1 // spec.go: "default 1 second"
		}
		return time.Duration(s) * time.Second
	}
	spec := &Spec{Name: "c09", EGName: "c09", Port: 1883,
		Rules: []*Rule{{When: &When{PacketType: Publish}, Pipeline: c09PubPipeline}}}
	pubLimited := !sc.NoPubLimit && (sc.ReqRate > 0 || sc.BytesRate > 0)
	if !sc.NoPubLimit {
		spec.ClientPublishLimit = &RateLimit{RequestRate: sc.ReqRate, BytesRate: sc.BytesRate, TimePeriod: sc.PeriodS}
	}
	connLimited := sc.ConnReqRate > 0 || sc.ConnBytesRate > 0
	if connLimited {
		spec.ConnectionLimit = &RateLimit{RequestRate: sc.ConnReqRate, BytesRate: sc.ConnBytesRate, TimePeriod: sc.ConnPeriodS}
	}
	mux := &c09Mux{fwd: map[string]int{}, drop: map[string]bool{}}
	pipelines, err := getPipelineMap(spec)
	if err != nil {
		r.Violate("C09.other", "getPipelineMap: %v", err)
		return
	}
	b := &Broker{egName: spec.EGName, name: spec.Name, spec: spec, clients: map[string]*Client{},
		done: make(chan struct{}), muxMapper: mux, pipelines: pipelines}
	b.topicMgr = newTopicManager(1000)
	b.sessMgr = newSessionManager(b, newStorage(nil))
	defer b.sessMgr.close()
	main.reset()
	b.connectionLimiter = newLimiter(spec.ConnectionLimit)
	connLed := &c09MLim{name: "connection limiter", req: sc.ConnReqRate, bytes: sc.ConnBytesRate, period: secs(sc.ConnPeriodS), created: time.Now()}
	if connLimited {
		if len(main.nows) != 1 {
			r.Violate("C09.other", "newLimiter(connectionLimit) read the clock %d times", len(main.nows))
			return
		}
		connLed.created = main.nows[0]
	}
	pubPeriod := secs(sc.PeriodS)
	r.Eventf("mqttc publish limit req=%d bytes=%d period=%v (set=%v); connection limit req=%d bytes=%d period=%v @%v",
		sc.ReqRate, sc.BytesRate, pubPeriod, !sc.NoPubLimit, sc.ConnReqRate, sc.ConnBytesRate, connLed.period, r.Now())

	var ledgers []*c09MLim
	stored := false
	lastLed := map[string]*c09MLim{}
	probe := map[string]bool{}
	P := func(c bool, n string) {
		if c {
			probe[n] = true
		}
	}

	for ci := range sc.Clients {
		ci := ci
		cl := sc.Clients[ci]
		r.Go(fmt.Sprintf("c%d", ci), func() {
			tl := e.register()
			var cur *Client
			var led *c09MLim
			var unacked []c09Unacked
			nextID := uint16(1)
			conns := 0

			teardown := func(c *Client) {
				// readLoop's exit path
				c.closeAndDelSession()
				b.removeClient(c.info.cid)
			}
			drain := func(c *Client) (acks []uint16, others int) {
				for {
					select {
					case p := <-c.writeCh:
						if a, ok := p.(*packets.PubackPacket); ok {
							acks = append(acks, a.MessageID)
						} else {
							others++
						}
					default:
						return
					}
				}
			}
			connect := func(who string) bool {
				pkt := packets.NewControlPacket(packets.Connect).(*packets.ConnectPacket)
				pkt.ProtocolName, pkt.ProtocolVersion = "MQTT", 4
				pkt.ClientIdentifier = cl.ID
				pkt.CleanSession = !cl.Persist
				if cl.UserName > 0 {
					pkt.UsernameFlag, pkt.Username = true, strings.Repeat("u", cl.UserName)
				}
				wp, n := c09Wire(pkt)
				cp, ok := wp.(*packets.ConnectPacket)
				if !ok {
					return false
				}
				conn := &c09Conn{}
				tl.reset()
				t0 := time.Now()
				var nc *Client
				valid := false
				if !c09Catch(r, who+" connectionValidation", func() { nc, _, valid = b.connectionValidation(cp, conn) }) {
					return false
				}
				k := 0
				if connLimited {
					o := c09MObs{who: who + "[CONNECT " + cl.ID + "]", a: t0, bytes: n, hi: n + c09FrameSlack, ok: valid}
					if len(tl.nows) > 0 {
						o.a, o.seq = tl.nows[0], tl.seqs[0]
						k = 1
					} else {
						o.seq = e.nextSeq()
					}
					connLed.obs = append(connLed.obs, o)
				}
				r.Eventf("%s CONNECT %s %dB accepted=%v @%v", who, cl.ID, n, valid, r.Now())
				if !valid || nc == nil {
					P(true, "mqttc.connect_refused_by_connection_limit")
					return false
				}
				// what handleConn does with an accepted connection
				takeover := false
				var old *Client
				if !c09Catch(r, who+" registration", func() {
					b.Lock()
					if oc, ok := b.clients[cl.ID]; ok {
						oc.setTakenOver()
						old, takeover = oc, true
					}
					b.clients[cl.ID] = nc
					nc.session = &Session{}
					nc.session.init(b.sessMgr, b, cp)
					b.Unlock()
					if old != nil {
						old.close()
						teardown(old) // the superseded connection's read loop ends
					}
				}) {
					return false
				}
				if takeover {
					r.Fault("client_takeover")
					P(true, "mqttc.takeover_of_connected_client_id")
				}
				conns++
				cur = nc
				prev := lastLed[cl.ID]
				switch {
				case len(tl.nows) > k:
					led = &c09MLim{name: fmt.Sprintf("publish limiter of client %s (connection %d)", cl.ID, conns), req: sc.ReqRate, bytes: sc.BytesRate,
						period: pubPeriod, created: tl.nows[len(tl.nows)-1]}
					if sc.NoPubLimit {
						led.req, led.bytes = 0, 0
					}
					ledgers = append(ledgers, led)
					if prev != nil {
						P(true, "mqttc.reconnect_fresh_limiter")
						for _, o := range prev.obs {
							if o.ok && led.created.Sub(o.a) < pubPeriod {
								P(true, "mqttc.reconnect_fresh_budget_within_one_period_of_an_admission")
							}
						}
					}
				case prev != nil && pubLimited:
					led = prev
					P(true, "mqttc.reconnect_continued_limiter")
				default:
					led = &c09MLim{name: fmt.Sprintf("publish limiter of client %s (connection %d, no limiter creation seen)", cl.ID, conns), req: sc.ReqRate, bytes: sc.BytesRate,
						period: pubPeriod, created: time.Now()}
					if sc.NoPubLimit {
						led.req, led.bytes = 0, 0
					}
					ledgers = append(ledgers, led)
				}
				lastLed[cl.ID] = led
				return true
			}
			// publish sends one PUBLISH and records what became of it
			publish := func(who string, qos int, dup, retain bool, topic string, payload int, mid uint16, pipeDrop bool, resendOf *c09Unacked) (admitted, acked bool) {
				pub := packets.NewControlPacket(packets.Publish).(*packets.PublishPacket)
				pub.Qos, pub.Dup, pub.Retain = byte(qos), dup, retain
				pub.TopicName = topic
				pub.MessageID = mid
				pub.Payload = bytes.Repeat([]byte{'x'}, payload)
				wp, n := c09Wire(pub)
				if wp == nil {
					return false, false
				}
				c := cur
				drain(c)
				tl.reset()
				mux.drop[cl.ID] = pipeDrop
				f0 := mux.fwd[cl.ID]
				t0 := time.Now()
				var perr error
				if !c09Catch(r, who+" processPacket(PUBLISH)", func() { perr = c.processPacket(wp) }) {
					return false, false
				}
				fwd := mux.fwd[cl.ID] > f0
				mux.drop[cl.ID] = false
				acks, _ := drain(c)
				for _, a := range acks {
					if qos > 0 && a == mid {
						acked = true
					}
				}
				admitted = fwd // what the limiter released is what reaches the pipeline
				o := c09MObs{who: who, a: t0, bytes: n, hi: n + c09FrameSlack, ok: admitted,
					note: fmt.Sprintf("[PUBLISH qos=%d dup=%v retain=%v id=%d topic=%dB payload=%dB forwarded=%v puback=%v limiter-asked=%d]", qos, dup, retain, mid, len(topic), payload, fwd, acked, len(tl.nows))}
				if len(tl.nows) > 0 {
					o.a, o.seq = tl.nows[0], tl.seqs[0]
				} else {
					o.seq = e.nextSeq()
				}
				led.obs = append(led.obs, o)
				r.Eventf("%s PUBLISH qos=%d dup=%v retain=%v id=%d %dB fwd=%v ack=%v @%v", who, qos, dup, retain, mid, n, fwd, acked, o.a.Sub(e.base))
				P(retain, "mqttc.retained_publish")
				P(n >= 16384+4, "mqttc.publish_with_3_byte_remaining_length")
				P(qos == 0, "mqttc.qos0_publish")
				P(qos == 1, "mqttc.qos1_publish")
				P(qos == 2, "mqttc.qos2_publish")
				P(qos == 0 && !admitted, "mqttc.qos0_publish_rejected")
				P(qos == 1 && !admitted, "mqttc.qos1_publish_rejected_no_puback")
				P(dup && resendOf == nil, "mqttc.dup_flag_on_first_transmission")
				P(acked && !fwd, "mqttc.puback_without_forward")
				P(qos == 1 && fwd && !pipeDrop && !acked, "mqttc.forward_without_puback")
				if fwd && pipeDrop {
					r.Fault("publish_dropped_by_pipeline")
					P(true, "mqttc.publish_dropped_by_pipeline_after_the_limiter")
				}
				if resendOf != nil {
					P(true, "mqttc.dup_resend")
					P(resendOf.byLimiter, "mqttc.dup_resend_of_publish_dropped_by_limiter")
					P(admitted, "mqttc.dup_resend_admitted")
					P(!admitted, "mqttc.dup_resend_rejected")
				}
				if perr != nil {
					// readLoop ends the connection on an error
					teardown(c)
					cur = nil
				}
				return admitted, acked
			}

			for oi, op := range cl.Ops {
				if r.Violated() || r.Aborted() {
					break
				}
				r.Sleep(c09us(op.GapUs))
				if op.Align > 0 && led != nil {
					r.Sleep(c09AlignSleep(led.created, led.period, op.Align))
				}
				who := fmt.Sprintf("c%d.%d", ci, oi)
				if op.Payload < 0 || op.Payload > 1<<20 || op.Qos < 0 || op.Qos > 2 || len(op.Topic) > 60000 {
					continue
				}
				switch op.Kind {
				case "disconnect":
					if cur != nil {
						c := cur
						cur = nil
						if !c09Catch(r, who+" disconnect", func() { teardown(c) }) {
							return
						}
						r.Fault("client_disconnect")
						r.Eventf("%s DISCONNECT %s @%v", who, cl.ID, r.Now())
					}
					continue
				case "connect":
					connect(who)
					continue
				}
				if cur == nil && !connect(who) {
					continue
				}
				if cur.disconnected() {
					// closed by the broker: the read loop would have ended
					c := cur
					cur = nil
					teardown(c)
					if !connect(who) {
						continue
					}
				}
				switch op.Kind {
				case "ping", "puback", "sub", "unsub":
					var pk packets.ControlPacket
					if op.Kind == "ping" {
						pk = packets.NewControlPacket(packets.Pingreq)
					} else if op.Kind == "sub" {
						sp := packets.NewControlPacket(packets.Subscribe).(*packets.SubscribePacket)
						sp.MessageID = uint16(op.Payload%100 + 1)
						sp.Topics, sp.Qoss = []string{op.Topic}, []byte{byte(op.Qos % 2)}
						if op.Topic == "" {
							sp.Topics = []string{"t"}
						}
						pk = sp
						stored = true
					} else if op.Kind == "unsub" {
						up := packets.NewControlPacket(packets.Unsubscribe).(*packets.UnsubscribePacket)
						up.MessageID = uint16(op.Payload%100 + 1)
						up.Topics = []string{op.Topic}
						if op.Topic == "" {
							up.Topics = []string{"t"}
						}
						pk = up
						stored = true
					} else {
						a := packets.NewControlPacket(packets.Puback).(*packets.PubackPacket)
						a.MessageID = uint16(op.Payload%7 + 1)
						pk = a
					}
					wp, _ := c09Wire(pk)
					if wp == nil {
						continue
					}
					c := cur
					tl.reset()
					if !c09Catch(r, who+" processPacket("+op.Kind+")", func() { c.processPacket(wp) }) {
						return
					}
					drain(c)
					led.obs = append(led.obs, c09MObs{seq: e.nextSeq(), who: who, a: time.Now(), info: true,
						note: fmt.Sprintf("[%s: not a PUBLISH, takes no permit; limiter-asked=%d]", op.Kind, len(tl.nows))})
					P(true, "mqttc.non_publish_packet")
					P(op.Kind == "sub" || op.Kind == "unsub", "mqttc.subscribe_or_unsubscribe_between_publishes")
					P(len(tl.nows) > 0, "mqttc.non_publish_packet_asked_the_limiter")
					r.Eventf("%s %s @%v", who, op.Kind, r.Now())
				case "resend":
					if len(unacked) > 0 {
						u := unacked[0]
						_, acked := publish(who, 1, true, u.retain, u.topic, u.payload, u.mid, false, &u)
						if acked {
							unacked = unacked[1:]
						}
						continue
					}
					fallthrough
				default: // pub
					topic := op.Topic
					if topic == "" {
						topic = "t"
					}
					mid := uint16(0)
					if op.Qos > 0 {
						mid = nextID
						nextID++
						if nextID == 0 {
							nextID = 1
						}
					}
					dup := op.Dup || op.Kind == "resend"
					if op.Qos == 0 {
						dup = false // MQTT 3.1.1: DUP must be 0 for QoS 0
					}
					t0 := len(led.obs)
					_, acked := publish(who, op.Qos, dup, op.Retain, topic, op.Payload, mid, op.PipeDrop, nil)
					if op.Qos == 1 && !acked && len(unacked) < 8 && cur != nil {
						byLim := len(led.obs) > t0 && !led.obs[len(led.obs)-1].ok
						unacked = append(unacked, c09Unacked{mid: mid, topic: topic, payload: op.Payload, retain: op.Retain, byLimiter: byLim})
					}
				}
			}
			if cur != nil {
				c := cur
				cur = nil
				c09Catch(r, fmt.Sprintf("c%d final disconnect", ci), func() { teardown(c) })
			}
		})
	}
	r.WaitTasks()
	if stored {
		r.Sleep(time.Millisecond) // session snapshots travel to the store in goroutines of their own
	}

	var sig strings.Builder
	rej := 0
	var all c09MRes
	evalOne := func(l *c09MLim) c09MRes {
		res := l.eval(e)
		fmt.Fprintf(&sig, "[%d/%d:%s]", l.req, l.bytes, res.sig)
		rej += res.rej
		return res
	}
	for _, l := range ledgers {
		if r.Violated() {
			break
		}
		res := evalOne(l)
		all.rejReq = all.rejReq || res.rejReq
		all.rejBytes = all.rejBytes || res.rejBytes
		all.rejCarry = all.rejCarry || res.rejCarry
		all.overshoot = all.overshoot || res.overshoot
		all.boundary = all.boundary || res.boundary
	}
	// own budgets: a client is refused while another one is served
	for _, la := range ledgers {
		for _, lb := range ledgers {
			if la == lb || probe["mqttc.client_rejected_while_another_client_is_admitted"] {
				continue
			}
			for _, x := range la.obs {
				if x.ok || x.info {
					continue
				}
				for _, y := range lb.obs {
					if y.ok && !y.a.Before(x.a) && y.a.Sub(x.a) < pubPeriod {
						probe["mqttc.client_rejected_while_another_client_is_admitted"] = true
					}
				}
			}
		}
	}
	if !r.Violated() && connLimited {
		res := evalOne(connLed)
		P(res.rejReq, "mqttc.connect_refused_by_request_rate")
		P(res.rejBytes || res.rejCarry, "mqttc.connect_refused_by_bytes_rate")
		P(res.boundary, "arrival_exactly_on_period_boundary")
	}
	P(true, "mode.mqttc")
	P(connLimited, "mqttc.connection_limit_configured")
	P(len(ledgers) >= 2, "mqttc.several_limiters")
	P(pubLimited && sc.ReqRate > 0 && sc.BytesRate > 0, "mqttc.multi_limiter")
	P(pubLimited && sc.ReqRate > 0 && sc.BytesRate == 0, "mqttc.request_limiter_only")
	P(pubLimited && sc.ReqRate == 0 && sc.BytesRate > 0, "mqttc.byte_limiter_only")
	P(!pubLimited, "mqttc.publish_unlimited")
	P(pubPeriod >= time.Minute, "mqttc.period_60s")
	P(pubLimited && sc.BytesRate >= 20000, "mqttc.bytes_rate_20000")
	P(all.rejReq, "mqttc.reject_by_request_rate")
	P(all.rejBytes, "mqttc.reject_by_bytes_rate")
	P(all.rejCarry, "mqttc.reject_only_by_carried_overshoot")
	P(all.overshoot, "mqttc.bytes_overshoot_within_one_packet")
	P(all.boundary, "arrival_exactly_on_period_boundary")
	P(rej > 0, "rejected")
	names := make([]string, 0, len(probe))
	for n := range probe {
		names = append(names, n)
	}
	sort.Strings(names)
	for _, n := range names {
		r.Probe(n)
	}
	if rej > 0 {
		r.Nontrivial()
	}
	r.SetSig(fmt.Sprintf("mqttc|%d|%d|%d|%d|%d|%s", sc.ReqRate, sc.BytesRate, sc.PeriodS, sc.ConnReqRate, sc.ConnBytesRate, sig.String()))
}
