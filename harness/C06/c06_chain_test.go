//go:build go1.21

package httpserver

// C06 — the system under test and the raw client:
//
//   raw HTTP/1.1 client --simnet--> real http.Server{Handler: real mux}
//      -> mux.serveHTTP (FetchPayload drains the std body exactly as in production)
//      -> real Pipeline:  c06tapa -> Validator(jumpIf invalid -> c06taprej) -> c06tapb -> END ; c06taprej
//
// The three taps are harness filters: tapa stamps the validator-side clock just
// before the Validator runs, tapb is the "backend": it records that the request
// was let through and captures the payload that would be forwarded, taprej
// records that the Validator's result string was exactly "invalid".

import (
	"bufio"
	"bytes"
	stdcontext "context"
	"fmt"
	"io"
	"net"
	"net/http"
	"runtime/debug"
	"strconv"
	"strings"
	"sync"
	"time"

	"github.com/megaease/easegress/pkg/cluster"
	"github.com/megaease/easegress/pkg/cluster/clustertest"
	"github.com/megaease/easegress/pkg/context"
	"github.com/megaease/easegress/pkg/filters"
	_ "github.com/megaease/easegress/pkg/filters/validator"
	"github.com/megaease/easegress/pkg/logger"
	"github.com/megaease/easegress/pkg/object/pipeline"
	"github.com/megaease/easegress/pkg/protocols/httpprot"
	"github.com/megaease/easegress/pkg/protocols/httpprot/httpstat"
	"github.com/megaease/easegress/pkg/supervisor"
	"go.etcd.io/etcd/api/v3/mvccpb"
	"golang.org/x/crypto/bcrypt"
	"verif/simkit/sim"
	"verif/simkit/simnet"
)

func init() {
	logger.InitNop()
	filters.Register(c06TapKind)
}

// ---- tap filter ----------------------------------------------------------

type c06TapSpec struct {
	filters.BaseSpec `yaml:",inline"`
}

type c06Tap struct{ spec *c06TapSpec }

var c06TapKind = &filters.Kind{
	Name:           "C06Tap",
	Description:    "verification tap",
	Results:        []string{},
	DefaultSpec:    func() filters.Spec { return &c06TapSpec{} },
	CreateInstance: func(spec filters.Spec) filters.Filter { return &c06Tap{spec: spec.(*c06TapSpec)} },
}

func (t *c06Tap) Name() string                { return t.spec.Name() }
func (t *c06Tap) Kind() *filters.Kind         { return c06TapKind }
func (t *c06Tap) Spec() filters.Spec          { return t.spec }
func (t *c06Tap) Init()                       {}
func (t *c06Tap) Inherit(prev filters.Filter) {}
func (t *c06Tap) Status() interface{}         { return nil }
func (t *c06Tap) Close()                      {}
func (t *c06Tap) Handle(ctx *context.Context) string {
	c := c06Cur
	if c == nil {
		return ""
	}
	req, ok := ctx.GetInputRequest().(*httpprot.Request)
	if !ok {
		return ""
	}
	rec := c.recs[req.HTTPHeader().Get("X-Verif-Id")]
	if rec == nil {
		return ""
	}
	switch t.spec.Name() {
	case "c06tapa":
		rec.reached++
		rec.tA = time.Now()
		// other requests that are between the tap and the Validator's verdict right now
		for _, o := range c.recs {
			if o != rec && o.inside {
				o.overlap++
				rec.overlap++
			}
		}
		rec.inside = true
	case "c06tapb":
		rec.inside = false
		rec.passed++
		if req.IsStream() {
			b, err := io.ReadAll(req.GetPayload())
			rec.fwdBody, rec.fwdErr = b, err
		} else {
			rec.fwdBody = append([]byte(nil), req.RawPayload()...)
		}
		rec.fwdMethod = req.Method()
		rec.fwdURI = req.Std().URL.RequestURI()
		rec.authUser = req.HTTPHeader().Get("X-Auth-User")
		resp, _ := httpprot.NewResponse(nil)
		resp.SetStatusCode(http.StatusOK)
		resp.SetPayload([]byte("c06-let-through"))
		ctx.SetOutputResponse(resp)
	case "c06taprej":
		rec.inside = false
		rec.invalid++
		rec.tags = ctx.Tags()
	}
	return ""
}

// ---- per-request record ---------------------------------------------------

type c06Rec struct {
	id        string
	gen       int       // pipeline generation whose handler the mux obtained for this request
	tGot      time.Time // when it obtained it
	reached   int
	passed    int
	invalid   int
	tA, tEnd  time.Time
	ended     int
	fwdBody   []byte
	fwdErr    error
	fwdMethod string
	fwdURI    string
	authUser  string
	tags      string
	panicMsg  string
	inside    bool // between the tap before the Validator and the Validator's verdict
	overlap   int  // how many other requests were inside the Validator together with this one
}

type c06Chain struct {
	r     *sim.Run
	sc    *c06Scenario
	net   *simnet.Net
	front *http.Server
	pipe  *pipeline.Pipeline // current generation
	gen   int
	mux   *mux
	recs  map[string]*c06Rec

	super      *supervisor.Supervisor
	mapper     *c06Mapper
	cfgs       []c06Cfg    // Validator configuration of every generation built so far
	closedAt   []time.Time // when generation i was closed (zero: still live)
	users      []c06User   // the credential store (etcd) right now
	epochs     []c06Epoch  // history of the credential store
	syncers    []*c06Syncer
	pending    []*c06Epoch  // pushes that have begun and not settled yet
	building   int          // generation being created right now (its Validator reads the store)
	initFailed map[int]bool // generations whose initial read of the store was made to fail
	jcfg       *c06Cfg      // configuration the request under evaluation is judged by
}

// c06Epoch is one state of the credential store: it may be in force from
// start (the push began) and is certainly in force from settled (the system
// was quiescent after the push) until the next epoch.
type c06Epoch struct {
	start, settled time.Time
	users          []c06User
	afterGen       int // generation current when the push was made
}

// c06Syncer is the cluster.Syncer handed to the basicAuth validator: like the
// real one it delivers prefix snapshots on a channel until it is closed.
type c06Syncer struct {
	ch     chan map[string]string
	done   chan struct{}
	closed bool
	prefix string // the prefix the watcher asked for
}

func (s *c06Syncer) Sync(string) (<-chan *string, error)             { return nil, nil }
func (s *c06Syncer) SyncRaw(string) (<-chan *mvccpb.KeyValue, error) { return nil, nil }
func (s *c06Syncer) SyncRawPrefix(string) (<-chan map[string]*mvccpb.KeyValue, error) {
	return nil, nil
}
func (s *c06Syncer) SyncPrefix(p string) (<-chan map[string]string, error) {
	s.prefix = p
	return s.ch, nil
}
func (s *c06Syncer) Close() {
	if !s.closed {
		s.closed = true
		close(s.done)
	}
}

var c06Cur *c06Chain

var c06ServerSpecs = map[string]*supervisor.Spec{}

type c06Mapper struct {
	get func(name string) (context.Handler, bool)
}

func (m *c06Mapper) GetHandler(name string) (context.Handler, bool) { return m.get(name) }

type c06HandlerFunc func(ctx *context.Context) string

func (f c06HandlerFunc) Handle(ctx *context.Context) string { return f(ctx) }

func c06PipelineYAML(cfg *c06Cfg) string {
	return "name: pipe\nkind: Pipeline\nflow:\n- filter: c06tapa\n- filter: validator\n  jumpIf:\n    invalid: c06taprej\n- filter: c06tapb\n- filter: END\n- filter: c06taprej\n" +
		"filters:\n- name: c06tapa\n  kind: C06Tap\n" + c06ValidatorYAML(cfg) + "- name: c06tapb\n  kind: C06Tap\n- name: c06taprej\n  kind: C06Tap\n"
}

// c06Decoy is a user stored under ANOTHER prefix of the custom data: never a
// configured user of the Validator.
var c06Decoy = c06User{Name: "decoy", Pass: "decoy-pass-1", Store: "sha"}

var c06BcryptCache = map[string]string{}

// c06Stored is what htpasswd(1) would write for the user's password.
func c06Stored(u c06User) string {
	var salt [8]byte
	var h uint64 = 1469598103934665603
	for i := 0; i < len(u.Name); i++ {
		h = (h ^ uint64(u.Name[i])) * 1099511628211
	}
	const itoa64 = "./0123456789ABCDEFGHIJKLMNOPQRSTUVWXYZabcdefghijklmnopqrstuvwxyz"
	for i := range salt {
		salt[i] = itoa64[h&63]
		h = h>>6 | h<<58
	}
	switch u.Store {
	case "sha":
		return c06HtpasswdSHA(u.Pass)
	case "apr1":
		return c06Apr1(u.Pass, string(salt[:]))
	case "ssha":
		return c06HtpasswdSSHA(u.Pass, salt[:4])
	case "bcrypt":
		// the salt of bcrypt is random: one hash per password and process is enough
		if s, ok := c06BcryptCache[u.Pass]; ok {
			return s
		}
		b, err := bcrypt.GenerateFromPassword([]byte(u.Pass), bcrypt.MinCost)
		if err != nil {
			return c06HtpasswdSHA(u.Pass)
		}
		if len(c06BcryptCache) > 4096 {
			c06BcryptCache = map[string]string{}
		}
		c06BcryptCache[u.Pass] = string(b)
		return string(b)
	}
	return u.Pass
}

func (c *c06Chain) storeDir() string {
	if b := c.sc.Cfg.Basic; b != nil && b.Prefix == "default" {
		return "credentials/"
	}
	return "c06-users/"
}

// kvs renders the custom-data part of the etcd tree: the credential store under
// the configured prefix (with its malformed entries, if any) and an unrelated
// credential list under another prefix.
func (c *c06Chain) kvs() map[string]string {
	out := map[string]string{}
	dir := "/custom-data/" + c.storeDir()
	for i, u := range c.users {
		stored := c06Stored(u)
		if u.KeyOnly {
			// "If username is empty, the value of key entry is used as username"
			out[fmt.Sprintf("%s%s", dir, u.Name)] = fmt.Sprintf("key: %s\npassword: %s\n", c06Q(u.Name), c06Q(stored))
			continue
		}
		out[fmt.Sprintf("%sk%d", dir, i)] = fmt.Sprintf("key: %s\nusername: %s\npassword: %s\n", c06Q(fmt.Sprintf("k%d", i)), c06Q(u.Name), c06Q(stored))
	}
	if b := c.sc.Cfg.Basic; b != nil {
		if b.Junk >= 1 {
			out[dir+"junk-nopass"] = "key: \"junk-nopass\"\nusername: \"ghost\"\n"
		}
		if b.Junk >= 2 {
			out[dir+"junk-notyaml"] = "username: [unterminated\n\tpassword"
		}
	}
	out["/custom-data/zz-other-users/k0"] = fmt.Sprintf("key: \"k0\"\nusername: %s\npassword: %s\n", c06Q(c06Decoy.Name), c06Q(c06Stored(c06Decoy)))
	return out
}

// push changes the credential store and lets every live syncer deliver the new
// snapshot; it returns once the system has been quiescent afterwards.
func (c *c06Chain) push(users []c06User) { c.pushAll([][]c06User{users}) }

// pushAll makes the given changes of the credential store one directly after
// the other (each is a full snapshot of the prefix, delivered to every live
// watcher in order, as the cluster syncer does) and returns once the system
// has been quiescent afterwards: from then on only the LAST snapshot is a
// valid reference.
func (c *c06Chain) pushAll(states [][]c06User) {
	var eps []*c06Epoch
	delivered := 0
	for _, users := range states {
		c.users = users
		ep := &c06Epoch{start: time.Now(), users: users, afterGen: c.gen}
		eps = append(eps, ep)
		c.pending = append(c.pending, ep)
		snap := c.kvs()
		for _, sy := range c.syncers {
			if sy.closed {
				continue
			}
			m := map[string]string{}
			for k, v := range snap {
				if strings.HasPrefix(k, sy.prefix) {
					m[k] = v
				}
			}
			select {
			case sy.ch <- m:
				delivered++
			case <-sy.done:
			}
		}
	}
	// Quiescence without wall-clock time: virtual time only passes when every
	// goroutine is durably blocked, i.e. the receivers have gone back to waiting
	// for the next snapshot; goroutines parked at a scheduler gate are given
	// several scheduling rounds (each round = virtual sleep, then a gate).
	time.Sleep(time.Millisecond)
	for i := 0; i < 4; i++ {
		c.r.Sleep(time.Microsecond)
	}
	c.r.Yield("c06.push.settled")
	now := time.Now()
	for _, ep := range eps {
		ep.settled = now
		c.epochs = append(c.epochs, *ep)
	}
	c.pending = nil
	c.r.Eventf("credential store: %d snapshot(s) pushed back to back, last has %d users, %d deliveries, settled at %v (epoch #%d)", len(states), len(c.users), delivered, c.r.Now(), len(c.epochs)-1)
}

// newGeneration builds the next pipeline generation exactly as an update of
// the pipeline object does: the new one inherits from the current one, which
// is closed by Pipeline.Inherit.
func (c *c06Chain) newGeneration(cfg c06Cfg) error {
	pyaml := c06PipelineYAML(&cfg)
	pspec, err := c.super.NewSpec(pyaml)
	if err != nil {
		return fmt.Errorf("pipeline spec: %v\n%s", err, pyaml)
	}
	n := &pipeline.Pipeline{}
	c.building = c.gen + 1
	var pv interface{}
	var st string
	func() {
		defer func() {
			if p := recover(); p != nil {
				pv, st = p, c06Stack()
			}
		}()
		n.Inherit(pspec, c.pipe, c.mapper)
	}()
	if pv != nil {
		c.r.Violate("C06.inherit-panic", "Pipeline.Inherit of generation %d panicked: %v\n%s\n%s", c.gen+1, pv, st, pyaml)
		return fmt.Errorf("inherit panicked")
	}
	// let the closed generation's goroutines wind down before anything else
	// is done to the system (a watcher woken by its cancellation and by a
	// pending snapshot at once would choose between them at random)
	closed := time.Now()
	c.closedAt[c.gen] = closed
	c.pipe = n
	c.gen++
	c.cfgs = append(c.cfgs, cfg)
	c.closedAt = append(c.closedAt, time.Time{})
	c.r.Eventf("pipeline generation %d in force at %v", c.gen, c.r.Now())
	time.Sleep(time.Microsecond)
	c.r.Yield("c06.gen.settled")
	return nil
}

func c06Stack() string {
	lines := strings.Split(string(debug.Stack()), "\n")
	var out []string
	for i := 0; i+1 < len(lines); i++ {
		if strings.Contains(lines[i], "megaease/easegress/pkg") && !strings.Contains(lines[i], "zz_verif") {
			out = append(out, strings.TrimSpace(lines[i])+" "+strings.TrimSpace(lines[i+1]))
		}
		if len(out) >= 8 {
			break
		}
	}
	return strings.Join(out, "\n")
}

func c06Q(s string) string { return strconv.Quote(s) }

// c06ValidatorYAML renders the Validator filter section from the scenario.
func c06ValidatorYAML(cfg *c06Cfg) string {
	var b strings.Builder
	b.WriteString("- name: validator\n  kind: Validator\n")
	if len(cfg.Rules) > 0 {
		b.WriteString("  headers:\n")
		for _, ru := range cfg.Rules {
			fmt.Fprintf(&b, "    %s:\n", c06Q(ru.Name))
			if len(ru.Values) > 0 {
				b.WriteString("      values: [")
				for i, v := range ru.Values {
					if i > 0 {
						b.WriteString(", ")
					}
					b.WriteString(c06Q(v))
				}
				b.WriteString("]\n")
			}
			if ru.Regexp != "" {
				fmt.Fprintf(&b, "      regexp: %s\n", c06Q(ru.Regexp))
			}
		}
	}
	if j := cfg.JWT; j != nil {
		fmt.Fprintf(&b, "  jwt:\n    algorithm: %s\n    secret: %s\n", j.Alg, c06Q(j.Secret))
		if j.Cookie != "" {
			fmt.Fprintf(&b, "    cookieName: %s\n", c06Q(j.Cookie))
		}
	}
	if s := cfg.Sig; s != nil {
		b.WriteString("  signature:\n")
		if ttl := s.ttlNs(); ttl > 0 {
			switch {
			case s.TTLForm == "go":
				fmt.Fprintf(&b, "    ttl: %s\n", time.Duration(ttl).String())
			case ttl%int64(time.Second) == 0:
				fmt.Fprintf(&b, "    ttl: %ds\n", ttl/int64(time.Second))
			default:
				fmt.Fprintf(&b, "    ttl: %dms\n", ttl/int64(time.Millisecond))
			}
		}
		if s.ExcludeBody {
			b.WriteString("    excludeBody: true\n")
		}
		if s.Aws {
			l := c06LitAws
			fmt.Fprintf(&b, "    literal:\n      scopeSuffix: %s\n      algorithmName: %s\n      algorithmValue: %s\n      signedHeaders: %s\n      signature: %s\n      date: %s\n      expires: %s\n      credential: %s\n      contentSha256: %s\n",
				l.ScopeSuffix, l.AlgorithmName, l.AlgorithmValue, l.SignedHeaders, l.Signature, l.Date, l.Expires, l.Credential, l.ContentSHA256)
			if !s.NoPrefix {
				fmt.Fprintf(&b, "      signingKeyPrefix: %s\n", l.KeyPrefix)
			}
		}
		if s.SignOpts {
			b.WriteString("    ignoredHeaders: [\"X-Custom-A\", \"Content-Type\", \"Accept\"]\n    headerHoisting:\n      allowedPrefix: [\"X-Me-\", \"X-Amz-\", \"X-Custom-\"]\n      disallowedPrefix: [\"X-Me-Meta-\"]\n      disallowed: [\"X-Me-Date\"]\n")
		}
		if s.Cred[0] != "" {
			fmt.Fprintf(&b, "    accessKeyId: %s\n    accessKeySecret: %s\n", c06Q(s.Cred[0]), c06Q(s.Cred[1]))
		}
		if !(s.NoMap && s.Cred[0] != "") {
			b.WriteString("    accessKeys:\n")
			for _, k := range s.Keys {
				fmt.Fprintf(&b, "      %s: %s\n", c06Q(k[0]), c06Q(k[1]))
			}
		}
	}
	if ba := cfg.Basic; ba != nil {
		switch ba.Prefix {
		case "default":
			b.WriteString("  basicAuth:\n    mode: ETCD\n")
		case "slash":
			b.WriteString("  basicAuth:\n    mode: ETCD\n    etcdPrefix: /c06-users/\n")
		default:
			b.WriteString("  basicAuth:\n    mode: ETCD\n    etcdPrefix: c06-users/\n")
		}
	}
	return b.String()
}

func c06NewChain(r *sim.Run, sc *c06Scenario) (*c06Chain, error) {
	c := &c06Chain{r: r, sc: sc, recs: map[string]*c06Rec{}, initFailed: map[int]bool{}}
	cfg := &sc.Cfg
	c.net = simnet.New()
	simnet.SetDefault(c.net)
	c.net.PlanFor = func(id int, addr string) (simnet.DirPlan, simnet.DirPlan) {
		p := simnet.DirPlan{}
		if cfg.Seg > 0 {
			p.SegSizes = []int{cfg.Seg}
		}
		if cfg.DelayUs > 0 {
			p.Delays = []time.Duration{time.Duration(cfg.DelayUs) * time.Microsecond}
		}
		return p, simnet.DirPlan{}
	}

	// the supervisor hands the basicAuth validator (ETCD mode) a cluster: the
	// stored credentials come from the scenario
	cls := clustertest.NewMockedCluster()
	if cfg.Basic != nil {
		c.users = append([]c06User(nil), cfg.Basic.Users...)
	}
	c.epochs = []c06Epoch{{users: c.users}}
	cls.MockedGetPrefix = func(prefix string) (map[string]string, error) {
		if cfg.Basic != nil && cfg.Basic.InitFail > 0 && cfg.Basic.InitFail-1 == c.building {
			c.initFailed[c.building] = true
			r.Fault("c06.etcd_read_error_while_validator_is_created")
			return nil, fmt.Errorf("etcdserver: request timed out")
		}
		out := map[string]string{}
		for k, v := range c.kvs() {
			if strings.HasPrefix(k, prefix) {
				out[k] = v
			}
		}
		return out, nil
	}
	cls.MockedSyncer = func(time.Duration) (cluster.Syncer, error) {
		sy := &c06Syncer{ch: make(chan map[string]string), done: make(chan struct{})}
		c.syncers = append(c.syncers, sy)
		return sy, nil
	}
	c.super = supervisor.NewMock(nil, cls, sync.Map{}, sync.Map{}, nil, nil, false, nil, nil)

	pyaml := c06PipelineYAML(cfg)
	pspec, err := c.super.NewSpec(pyaml)
	if err != nil {
		return nil, fmt.Errorf("pipeline spec: %v\n%s", err, pyaml)
	}
	c.mapper = &c06Mapper{}
	c.mapper.get = func(string) (context.Handler, bool) {
		p, g := c.pipe, c.gen
		return c06HandlerFunc(func(ctx *context.Context) string {
			if req, ok := ctx.GetInputRequest().(*httpprot.Request); ok {
				if rec := c.recs[req.HTTPHeader().Get("X-Verif-Id")]; rec != nil {
					rec.gen, rec.tGot = g, time.Now()
				}
			}
			return p.Handle(ctx)
		}), true
	}
	mapper := c.mapper
	c.pipe = &pipeline.Pipeline{}
	c.pipe.Init(pspec, mapper)
	c.cfgs = []c06Cfg{*cfg}
	c.closedAt = []time.Time{{}}

	syaml := "name: front\nkind: HTTPServer\nport: 10080\nkeepAlive: true\nhttps: false\n"
	if cfg.SrvMax != 0 {
		syaml += fmt.Sprintf("clientMaxBodySize: %d\n", cfg.SrvMax)
	}
	syaml += "rules:\n- paths:\n"
	if cfg.Rewrite {
		syaml += "  - pathRegexp: ^/api/(.*)$\n    rewriteTarget: /$1\n    backend: pipe\n"
	}
	syaml += "  - pathPrefix: /\n    backend: pipe\n"
	// the server spec is plain immutable data (no timers, channels or
	// goroutines): it is built once per process and shared between runs
	sspec := c06ServerSpecs[syaml]
	if sspec == nil {
		sspec, err = supervisor.NewSpec(syaml)
		if err != nil {
			return nil, fmt.Errorf("server spec: %v\n%s", err, syaml)
		}
		c06ServerSpecs[syaml] = sspec
	}
	c.mux = newMux(httpstat.New(), httpstat.NewTopN(10), mapper)
	c.mux.reload(sspec, mapper)
	fl, err := c.net.Listen("tcp", ":10080")
	if err != nil {
		return nil, err
	}
	c.front = &http.Server{Handler: http.HandlerFunc(func(w http.ResponseWriter, req *http.Request) {
		id := req.Header.Get("X-Verif-Id")
		rec := c.recs[id]
		defer func() {
			if rec != nil {
				rec.tEnd = time.Now()
				rec.ended++
			}
			if p := recover(); p != nil {
				if rec != nil {
					rec.panicMsg = fmt.Sprintf("%v\n%s", p, c06Stack())
				}
				panic(p)
			}
		}()
		c.mux.ServeHTTP(w, req)
	})} // no idle timeout: the clients replace connections unused for 30 s themselves (a server-side idle deadline expiring inside a scheduler stall, together with the client's close, was not reproducible)
	go c.front.Serve(fl)
	return c, nil
}

func (c *c06Chain) close() {
	c.front.Close()
	c.pipe.Close()
	c.net.Shutdown()
	simnet.SetDefault(nil)
}

// ---- raw client ------------------------------------------------------------

type c06Wire struct {
	method  string
	path    string      // encoded, as written on the request line
	query   []string    // encoded "name=value" items
	hdr     [][2]string // Host first
	body    []byte
	chunked bool
	chunkSz int
}

func (w *c06Wire) header(name string) (int, string) {
	for i, kv := range w.hdr {
		if strings.EqualFold(kv[0], name) {
			return i, kv[1]
		}
	}
	return -1, ""
}

// hasContentLength: the encoder frames the request with a Content-Length header.
func (w *c06Wire) hasContentLength() bool {
	return !w.chunked && (len(w.body) > 0 || w.method == "POST" || w.method == "PUT" || w.method == "PATCH")
}

func (w *c06Wire) setHeader(name, val string) {
	if i, _ := w.header(name); i >= 0 {
		w.hdr[i][1] = val
		return
	}
	w.hdr = append(w.hdr, [2]string{name, val})
}

func (w *c06Wire) encode() []byte {
	var b bytes.Buffer
	target := w.path
	if len(w.query) > 0 {
		target += "?" + strings.Join(w.query, "&")
	}
	fmt.Fprintf(&b, "%s %s HTTP/1.1\r\n", w.method, target)
	for _, kv := range w.hdr {
		fmt.Fprintf(&b, "%s: %s\r\n", kv[0], kv[1])
	}
	if w.chunked {
		b.WriteString("Transfer-Encoding: chunked\r\n\r\n")
		sz := w.chunkSz
		if sz <= 0 {
			sz = 1 << 20
		}
		for off := 0; off < len(w.body); off += sz {
			end := off + sz
			if end > len(w.body) {
				end = len(w.body)
			}
			fmt.Fprintf(&b, "%x\r\n", end-off)
			b.Write(w.body[off:end])
			b.WriteString("\r\n")
		}
		b.WriteString("0\r\n\r\n")
		return b.Bytes()
	}
	if w.hasContentLength() {
		fmt.Fprintf(&b, "Content-Length: %d\r\n", len(w.body))
	}
	b.WriteString("\r\n")
	b.Write(w.body)
	return b.Bytes()
}

type c06Resp struct {
	status   int
	hdr      http.Header
	body     []byte
	complete bool
	frameErr string
	ioErr    error
	garbage  bool
	close    bool
}

func c06ReadLine(br *bufio.Reader) (string, error) {
	l, err := br.ReadString('\n')
	if err != nil {
		return l, err
	}
	if !strings.HasSuffix(l, "\r\n") {
		return l, fmt.Errorf("line not terminated by CRLF: %q", l)
	}
	return l[:len(l)-2], nil
}

// c06ReadResponse is a strict HTTP/1.1 response reader (length, chunked or close framing).
func c06ReadResponse(br *bufio.Reader, method string) *c06Resp {
	for {
		res := c06ReadResponse1(br, method)
		if res.complete && res.status == 100 {
			// interim response to Expect: 100-continue
			continue
		}
		return res
	}
}

func c06ReadResponse1(br *bufio.Reader, method string) *c06Resp {
	res := &c06Resp{hdr: http.Header{}}
	line, err := c06ReadLine(br)
	if err != nil {
		res.ioErr = err
		res.garbage = line != ""
		return res
	}
	if !strings.HasPrefix(line, "HTTP/1.1 ") || len(line) < 12 {
		res.garbage = true
		res.frameErr = fmt.Sprintf("not a status line: %.60q", line)
		return res
	}
	st, err := strconv.Atoi(line[9:12])
	if err != nil {
		res.garbage = true
		res.frameErr = fmt.Sprintf("bad status line: %.60q", line)
		return res
	}
	res.status = st
	for {
		l, err := c06ReadLine(br)
		if err != nil {
			res.ioErr = err
			return res
		}
		if l == "" {
			break
		}
		i := strings.IndexByte(l, ':')
		if i <= 0 {
			res.frameErr = fmt.Sprintf("bad header line %.60q", l)
			return res
		}
		res.hdr.Add(http.CanonicalHeaderKey(l[:i]), strings.TrimSpace(l[i+1:]))
	}
	for _, v := range res.hdr.Values("Connection") {
		if strings.Contains(strings.ToLower(v), "close") {
			res.close = true
		}
	}
	if st/100 == 1 || st == 204 || st == 304 || method == "HEAD" {
		res.complete = true
		return res
	}
	chunked := strings.Contains(strings.ToLower(strings.Join(res.hdr.Values("Transfer-Encoding"), ",")), "chunked")
	cl := res.hdr.Values("Content-Length")
	switch {
	case chunked:
		for {
			l, err := c06ReadLine(br)
			if err != nil {
				res.ioErr = err
				return res
			}
			if i := strings.IndexByte(l, ';'); i >= 0 {
				l = l[:i]
			}
			n, err := strconv.ParseUint(strings.TrimSpace(l), 16, 32)
			if err != nil {
				res.frameErr = fmt.Sprintf("bad chunk size line %.40q", l)
				return res
			}
			if n == 0 {
				for {
					t, err := c06ReadLine(br)
					if err != nil {
						res.ioErr = err
						return res
					}
					if t == "" {
						break
					}
				}
				res.complete = true
				return res
			}
			buf := make([]byte, n+2)
			if _, err := io.ReadFull(br, buf); err != nil {
				res.ioErr = err
				return res
			}
			res.body = append(res.body, buf[:n]...)
			if string(buf[n:]) != "\r\n" {
				res.frameErr = "chunk data not followed by CRLF"
				return res
			}
		}
	case len(cl) > 0:
		n, err := strconv.ParseInt(strings.TrimSpace(cl[0]), 10, 64)
		if err != nil || n < 0 || n > 1<<26 {
			res.frameErr = fmt.Sprintf("bad Content-Length %q", cl[0])
			return res
		}
		buf := make([]byte, n)
		m, err := io.ReadFull(br, buf)
		res.body = buf[:m]
		if err != nil {
			res.ioErr = err
			return res
		}
		res.complete = true
		return res
	default:
		b, err := io.ReadAll(br)
		res.body = b
		res.close = true
		if err != nil {
			res.ioErr = err
			return res
		}
		res.complete = true
		return res
	}
}

type c06Conn struct {
	c        net.Conn
	br       *bufio.Reader
	lastUsed time.Time
}

// do sends the request on the client's connection (dialling if needed) and
// reads the response. A kept-alive connection that the server's idle timer
// closed meanwhile is replaced once, as any HTTP client does.
func (c *c06Chain) do(cc **c06Conn, ci int, rec *c06Rec, w *c06Wire, newConn bool) *c06Resp {
	for attempt := 0; ; attempt++ {
		fresh := false
		if *cc != nil && (newConn || time.Since((*cc).lastUsed) > 30*time.Second) {
			(*cc).c.Close()
			*cc = nil
		}
		if *cc == nil {
			conn, err := c.net.DialFrom(stdcontext.Background(), fmt.Sprintf("10.1.0.%d", 10+ci), "front.example:10080")
			if err != nil {
				return &c06Resp{ioErr: err, hdr: http.Header{}}
			}
			*cc = &c06Conn{c: conn, br: bufio.NewReader(conn)}
			fresh = true
		}
		conn := *cc
		raw := w.encode()
		done := make(chan struct{})
		go func() {
			defer close(done)
			conn.c.Write(raw)
		}()
		conn.c.SetReadDeadline(time.Now().Add(24 * time.Hour))
		res := c06ReadResponse(conn.br, w.method)
		conn.lastUsed = time.Now()
		finished := false
		select {
		case <-done:
			finished = true
		default:
		}
		if !finished || !res.complete || res.close || res.frameErr != "" || res.ioErr != nil {
			conn.c.Close()
			<-done
			*cc = nil
		}
		if !fresh && attempt == 0 && res.status == 0 && res.ioErr != nil && !res.garbage && rec.reached == 0 {
			c.r.Probe("c06.client.retry_on_dead_keepalive_conn")
			continue
		}
		return res
	}
}
