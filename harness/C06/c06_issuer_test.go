//go:build go1.21

package httpserver

// C06 — the independent credential issuer. Nothing in this file calls into
// easegress: the JWT writer follows RFC 7515/7519 (compact serialisation,
// HMAC-SHA2), the request signer follows the published Signature Version 4
// procedure (canonical request -> string to sign -> derived key -> HMAC) with
// the literal strings documented in doc/reference/filters.md (signer.Literal),
// the Basic encoder follows RFC 7617. It is used only to PRODUCE credentials.

import (
	"crypto/hmac"
	"crypto/md5"
	"crypto/sha1"
	"crypto/sha256"
	"crypto/sha512"
	"encoding/base64"
	"encoding/hex"
	"fmt"
	"hash"
	"sort"
	"strings"
	"time"
)

// ---- JWT ---------------------------------------------------------------

func c06B64(b []byte) string { return base64.RawURLEncoding.EncodeToString(b) }

func c06HashFor(alg string) func() hash.Hash {
	switch alg {
	case "HS256":
		return sha256.New
	case "HS384":
		return sha512.New384
	case "HS512":
		return sha512.New
	}
	return nil
}

// c06JWT writes a compact JWS. claims is emitted in the given order.
func c06JWT(alg string, secret []byte, claims [][2]string) string {
	return c06JWTx(alg, alg, "", secret, claims)
}

// c06JWTx: the header names alg (plus the optional extra header members), the
// signature is computed with the HMAC of signAlg.
func c06JWTx(alg, signAlg, extraHead string, secret []byte, claims [][2]string) string {
	head := fmt.Sprintf(`{"alg":%q,"typ":"JWT"%s}`, alg, extraHead)
	var b strings.Builder
	b.WriteByte('{')
	for i, kv := range claims {
		if i > 0 {
			b.WriteByte(',')
		}
		fmt.Fprintf(&b, "%q:%s", kv[0], kv[1])
	}
	b.WriteByte('}')
	input := c06B64([]byte(head)) + "." + c06B64([]byte(b.String()))
	hf := c06HashFor(signAlg)
	if hf == nil {
		// unsecured JWS ("none"): empty signature part
		return input + "."
	}
	m := hmac.New(hf, secret)
	m.Write([]byte(input))
	return input + "." + c06B64(m.Sum(nil))
}

// ---- Basic -------------------------------------------------------------

func c06Basic(user, pass string) string {
	return "Basic " + base64.StdEncoding.EncodeToString([]byte(user+":"+pass))
}

// c06HtpasswdSHA is the "{SHA}" scheme of apache htpasswd -s.
func c06HtpasswdSHA(pass string) string {
	s := sha1.Sum([]byte(pass))
	return "{SHA}" + base64.StdEncoding.EncodeToString(s[:])
}

// c06HtpasswdSSHA is the salted "{SSHA}" scheme (RFC 2307 style: SHA-1 over
// password||salt, base64 of digest||salt).
func c06HtpasswdSSHA(pass string, salt []byte) string {
	h := sha1.New()
	h.Write([]byte(pass))
	h.Write(salt)
	return "{SSHA}" + base64.StdEncoding.EncodeToString(append(h.Sum(nil), salt...))
}

// c06Apr1 is Apache's "$apr1$" variant of the MD5-crypt algorithm of
// Poul-Henning Kamp (the default of htpasswd -m), written from the published
// description of the algorithm.
func c06Apr1(pass, salt string) string {
	const magic = "$apr1$"
	const itoa64 = "./0123456789ABCDEFGHIJKLMNOPQRSTUVWXYZabcdefghijklmnopqrstuvwxyz"
	pw := []byte(pass)
	alt := md5.New()
	alt.Write(pw)
	alt.Write([]byte(salt))
	alt.Write(pw)
	altSum := alt.Sum(nil)
	ctx := md5.New()
	ctx.Write(pw)
	ctx.Write([]byte(magic))
	ctx.Write([]byte(salt))
	for n := len(pw); n > 0; n -= 16 {
		if n > 16 {
			ctx.Write(altSum)
		} else {
			ctx.Write(altSum[:n])
		}
	}
	for n := len(pw); n > 0; n >>= 1 {
		if n&1 == 1 {
			ctx.Write([]byte{0})
		} else {
			ctx.Write(pw[:1])
		}
	}
	sum := ctx.Sum(nil)
	for i := 0; i < 1000; i++ {
		c := md5.New()
		if i&1 == 1 {
			c.Write(pw)
		} else {
			c.Write(sum)
		}
		if i%3 != 0 {
			c.Write([]byte(salt))
		}
		if i%7 != 0 {
			c.Write(pw)
		}
		if i&1 == 1 {
			c.Write(sum)
		} else {
			c.Write(pw)
		}
		sum = c.Sum(nil)
	}
	var out []byte
	to64 := func(v uint32, n int) {
		for ; n > 0; n-- {
			out = append(out, itoa64[v&0x3f])
			v >>= 6
		}
	}
	to64(uint32(sum[0])<<16|uint32(sum[6])<<8|uint32(sum[12]), 4)
	to64(uint32(sum[1])<<16|uint32(sum[7])<<8|uint32(sum[13]), 4)
	to64(uint32(sum[2])<<16|uint32(sum[8])<<8|uint32(sum[14]), 4)
	to64(uint32(sum[3])<<16|uint32(sum[9])<<8|uint32(sum[15]), 4)
	to64(uint32(sum[4])<<16|uint32(sum[10])<<8|uint32(sum[5]), 4)
	to64(uint32(sum[11]), 2)
	return magic + salt + "$" + string(out)
}

// ---- Signature V4 with configurable literals -----------------------------

type c06Literal struct {
	ScopeSuffix, AlgorithmName, AlgorithmValue, SignedHeaders, Signature, Date, Expires, Credential, ContentSHA256, KeyPrefix string
}

var c06LitDefault = c06Literal{"megaease_request", "X-Me-Algorithm", "ME-HMAC-SHA256", "X-Me-SignedHeaders", "X-Me-Signature", "X-Me-Date", "X-Me-Expires", "X-Me-Credential", "X-Me-Content-Sha256", "ME"}
var c06LitAws = c06Literal{"aws4_request", "X-Amz-Algorithm", "AWS4-HMAC-SHA256", "X-Amz-SignedHeaders", "X-Amz-Signature", "X-Amz-Date", "X-Amz-Expires", "X-Amz-Credential", "X-Amz-Content-Sha256", "AWS4"}

func c06Unreserved(c byte) bool {
	return c >= 'A' && c <= 'Z' || c >= 'a' && c <= 'z' || c >= '0' && c <= '9' || c == '-' || c == '_' || c == '.' || c == '~'
}

// c06UriEncode: every byte except the unreserved characters becomes %XY
// (upper-case hex); '/' is kept when encoding a path.
func c06UriEncode(s string, keepSlash bool) string {
	const hexd = "0123456789ABCDEF"
	var b strings.Builder
	for i := 0; i < len(s); i++ {
		c := s[i]
		if c06Unreserved(c) || (keepSlash && c == '/') {
			b.WriteByte(c)
		} else {
			b.WriteByte('%')
			b.WriteByte(hexd[c>>4])
			b.WriteByte(hexd[c&15])
		}
	}
	return b.String()
}

// c06CanonQuery: URI-encode names and values, sort by encoded name, then by
// encoded value, join with '&'; a parameter without value is "name=".
func c06CanonQuery(pairs [][2]string) string {
	enc := make([][2]string, len(pairs))
	for i, p := range pairs {
		enc[i] = [2]string{c06UriEncode(p[0], false), c06UriEncode(p[1], false)}
	}
	sort.SliceStable(enc, func(i, j int) bool {
		if enc[i][0] != enc[j][0] {
			return enc[i][0] < enc[j][0]
		}
		return enc[i][1] < enc[j][1]
	})
	parts := make([]string, len(enc))
	for i, p := range enc {
		parts[i] = p[0] + "=" + p[1]
	}
	return strings.Join(parts, "&")
}

// c06CanonQueryRawOrder is the other defensible sort order (sort the decoded
// names/values, then encode). The generator only emits queries for which both
// orders give the same string.
func c06CanonQueryRawOrder(pairs [][2]string) string {
	cp := append([][2]string(nil), pairs...)
	sort.SliceStable(cp, func(i, j int) bool {
		if cp[i][0] != cp[j][0] {
			return cp[i][0] < cp[j][0]
		}
		return cp[i][1] < cp[j][1]
	})
	parts := make([]string, len(cp))
	for i, p := range cp {
		parts[i] = c06UriEncode(p[0], false) + "=" + c06UriEncode(p[1], false)
	}
	return strings.Join(parts, "&")
}

// c06TrimAll removes leading/trailing spaces and folds runs of spaces.
func c06TrimAll(v string) string {
	v = strings.Trim(v, " ")
	var b strings.Builder
	prev := false
	for i := 0; i < len(v); i++ {
		if v[i] == ' ' {
			if prev {
				continue
			}
			prev = true
		} else {
			prev = false
		}
		b.WriteByte(v[i])
	}
	return b.String()
}

// c06CanonHeaders builds the canonical header block and the signed-header
// list for the named (lower-case) headers out of the ordered header lines.
func c06CanonHeaders(lines [][2]string, signed []string) (block, list string) {
	names := append([]string(nil), signed...)
	sort.Strings(names)
	var b strings.Builder
	for _, n := range names {
		var vals []string
		for _, kv := range lines {
			if strings.ToLower(kv[0]) == n {
				vals = append(vals, c06TrimAll(kv[1]))
			}
		}
		b.WriteString(n)
		b.WriteByte(':')
		b.WriteString(strings.Join(vals, ","))
		b.WriteByte('\n')
	}
	return b.String(), strings.Join(names, ";")
}

func c06Hmac(key []byte, data string) []byte {
	m := hmac.New(sha256.New, key)
	m.Write([]byte(data))
	return m.Sum(nil)
}

func c06Sha256Hex(b []byte) string {
	s := sha256.Sum256(b)
	return hex.EncodeToString(s[:])
}

type c06SignInput struct {
	lit      c06Literal
	keyID    string
	secret   string
	scopes   []string
	at       time.Time
	method   string
	wirePath string      // the path exactly as it is written on the request line
	query    [][2]string // decoded name/value pairs that take part in the signature
	lines    [][2]string // header lines (Host included)
	signed   []string    // lower-case names of the signed headers
	payload  string      // hex hash of the body, or UNSIGNED-PAYLOAD
}

func (in *c06SignInput) scope() string {
	parts := []string{in.at.UTC().Format("20060102")}
	parts = append(parts, in.scopes...)
	parts = append(parts, in.lit.ScopeSuffix)
	return strings.Join(parts, "/")
}

// sign returns the hex signature and the signed-header list.
func (in *c06SignInput) sign() (sig, signedList string) {
	uri := c06UriEncode(in.wirePath, true)
	if uri == "" {
		uri = "/"
	}
	block, list := c06CanonHeaders(in.lines, in.signed)
	creq := in.method + "\n" + uri + "\n" + c06CanonQuery(in.query) + "\n" + block + "\n" + list + "\n" + in.payload
	sts := in.lit.AlgorithmValue + "\n" + in.at.UTC().Format("20060102T150405Z") + "\n" + in.scope() + "\n" + c06Sha256Hex([]byte(creq))
	key := c06Hmac([]byte(in.lit.KeyPrefix+in.secret), in.at.UTC().Format("20060102"))
	for _, s := range in.scopes {
		key = c06Hmac(key, s)
	}
	key = c06Hmac(key, in.lit.ScopeSuffix)
	return hex.EncodeToString(c06Hmac(key, sts)), list
}
