//go:debug asynctimerchan=0
//go:build go1.21

package httpserver

// C06 — Validator admits exactly requests with valid JWT, signature or Basic
// credentials (and the configured header rules).
//
// One run = one synctest bubble: a real http.Server with the real mux, a real
// Pipeline whose only production filter is a Validator drawn from the scenario
// (headers / jwt / signature / basicAuth and combinations), 1-3 raw HTTP/1.1
// client tasks over simnet. Credentials are produced by the independent issuer
// (c06_issuer_test.go) on the issuer's clock (= validator clock + skew), the
// client then waits until a drawn instant (often exactly on or next to exp, nbf,
// date±TTL, date+expires) and sends the request, possibly after corrupting
// exactly one covered element "in flight". The validator-side clock is stamped
// by taps directly before the Validator and when the handler returns.
//
// In a quarter of the runs with two or more clients all clients start their
// first requests at the same instant ("burst"), and the scheduler may switch
// between the statements of Validator.Handle and of the signer (check.json
// stmt_gates): several different requests are then inside the same Validator
// generation at once, each judged by its own credentials.
//
// An "admin" task performs 0-3 administrative events at drawn instants: a new
// pipeline generation through the real Pipeline.Inherit (which closes the
// previous generation; the Validator spec is unchanged, or a signature secret
// of the SAME access-key id / the JWT secret / the JWT algorithm / the ttl is
// changed), and changes of the basicAuth credential store (user removed,
// password replaced, user added) pushed through the cluster syncer to every
// live watcher. A request is judged by the configuration of the generation
// whose handler the mux really obtained for it, and by the credential store in
// force when it was evaluated: between the beginning of a push and quiescence
// after it (and for a generation closed while the request was inside) both the
// old and the new store are accepted as reference. Store changes are also made
// back to back (two or more snapshots delivered to every watcher directly after
// each other, as the syncer does for quick successive writes): while they are
// in flight every snapshot of the batch is a valid reference, once the system
// has settled only the LAST one is (class C06.basic-older-snapshot-wins when an
// earlier snapshot of the batch explains what happened instead). "Settled" has
// no wall-clock meaning: all snapshots were taken over by the watchers, virtual
// time has passed (= every goroutine was durably blocked) and four more
// scheduling rounds were granted; goroutines started inside basicauth.go begin
// behind a scheduler gate (check.json go_gates).
//
// Oracle (written from the property statement, doc/reference/filters.md
// "Validator", RFC 7519/7617 and the Signature V4 procedure):
//   * a request must be let through (tapb runs, 200) iff every configured method
//     accepts it; otherwise the Validator's result must be "invalid" (taprej
//     runs), the client gets 400 or 401 and tapb never runs;
//   * let through => the payload that would be forwarded equals the bytes sent.
//
// Leniency decisions (both answers accepted / not generated):
//   * NumericDate claims are written as integers, decimal fractions (quarters of
//     a second) or in exponent notation (RFC 7519: any JSON number); the reference
//     compares the validator clock with the exact value. With a fractional nbf
//     the second before it accepts both answers (nbf-1s < now <= nbf), the same
//     one-second granularity that is granted at exp.
//   * JWT: exp <= now < exp+1s both answers; now == nbf both; a token whose iat is
//     in the validator's future (issuer clock ahead) both answers (RFC 7519 gives
//     iat no validity meaning, the library rejects it).
//   * signature: |now-date| == ttl both answers; now-date == expires both.
//   * if the validator-side clock moves across one of these edges between the tap
//     before the Validator and the end of the handler, both answers are accepted.
//   * rejection status: 400 or 401, whichever method rejected.
//   * query strings never contain ';', paths no duplicate-slash or dot segments
//     and no lower-case percent escapes; only queries whose sort order is the
//     same before and after URI-encoding (for presigned requests including the
//     signature parameters). A space in the query is canonicalised as %20
//     (Signature V4, which the reference names as the compatible scheme); the
//     wire form of the query (upper/lower-case escapes, minimal escaping, '+'
//     for a space, "name" for "name=") never matters.
//   * the signed-header list always contains host and the date header; the
//     Authorization and User-Agent headers are never signed, Content-Length is
//     signed when the request has one and the client signs every header.
//   * methods that need the same Authorization header are not combined (jwt with
//     basic/signature only with the token in the cookie). signature+basicAuth is
//     generated with presigned URLs only (the signature is then in the query, the
//     Authorization header carries the Basic credentials): both answers are
//     accepted for a request valid for both (Signature V4 services refuse or
//     accept two mechanisms at once), a defect in either still requires rejection.
//   * both answers, recorded by probes only: a request signed with the spec's
//     accessKeyId/accessKeySecret pair (not said to be a known key); a literal
//     section without signingKeyPrefix (reference: "default is ME", schema:
//     optional), whichever prefix the client uses; "basic"/"BASIC"/two spaces
//     after the scheme, unpadded base64; "bearer"/"BEARER"/two spaces; a client
//     signing UNSIGNED-PAYLOAD over an empty body; a signed request whose path the
//     server's own rewriteTarget rule changes before the pipeline runs; requests
//     handled by a generation whose first read of the credential store failed
//     (fault, outside the quantifier).
//   * a signature section without accessKeys (only accessKeyId/accessKeySecret)
//     has no known key: everything must be rejected with invalid + 401/400.
//   * stored passwords: {SHA}, apr1-MD5, bcrypt, {SSHA} and plain text as written
//     by htpasswd(1); etcd entries with or without "username"; malformed entries
//     and credential lists under other prefixes must not matter.
//   * excludeBody: true means the body is documented as not covered: body
//     corruption is then expected to be accepted.
//   * stream mode (clientMaxBodySize -1) is outside the quantifier ("body already
//     buffered"): observed through probes only.

import (
	"bytes"
	"encoding/base64"
	"encoding/hex"
	"encoding/json"
	"fmt"
	"math"
	"net/http"
	"net/url"
	"regexp"
	"sort"
	"strings"
	"testing"
	"time"

	"verif/simkit/hdrv"
	"verif/simkit/sim"
)

// ---- scenario ------------------------------------------------------------

type c06Rule struct {
	Name   string   `json:"name"`
	Values []string `json:"values"`
	Regexp string   `json:"regexp"`
}

type c06JWTCfg struct {
	Alg    string `json:"alg"`
	Secret string `json:"secret"` // hex
	Cookie string `json:"cookie"`
}

type c06SigCfg struct {
	Keys        [][2]string `json:"keys"`
	TTLs        int64       `json:"ttl_s"`
	ExcludeBody bool        `json:"exclude_body"`
	Aws         bool        `json:"aws_literals"`

	// TTLFracMs: additional milliseconds of the ttl (only with TTLs >= 1);
	// TTLForm: how the duration is written in the spec ("" = "<n>s"/"<n>ms", "go" = Go duration string such as 1m30.5s)
	TTLFracMs int64  `json:"ttl_frac_ms,omitempty"`
	TTLForm   string `json:"ttl_form,omitempty"`
	// Cred: accessKeyId/accessKeySecret of the spec (documented as "used to set
	// credential"; its id is never one of Keys). NoMap: accessKeys is omitted.
	Cred  [2]string `json:"cred"`
	NoMap bool      `json:"no_map,omitempty"`
	// SignOpts: ignoredHeaders and headerHoisting are configured (they describe
	// what the signing side leaves out / moves; a verifier has nothing to ignore)
	SignOpts bool `json:"sign_opts,omitempty"`
	// NoPrefix (only with Aws): the literal section omits signingKeyPrefix
	NoPrefix bool `json:"no_prefix,omitempty"`
}

func (s *c06SigCfg) ttlNs() int64 {
	if s.TTLs <= 0 {
		return 0
	}
	f := s.TTLFracMs
	if f < 0 || f > 999 {
		f = 0
	}
	return s.TTLs*int64(time.Second) + f*int64(time.Millisecond)
}

type c06User struct {
	Name  string `json:"name"`
	Pass  string `json:"pass"`
	Store string `json:"store"` // sha | plain | apr1 | bcrypt | ssha
	// KeyOnly: the etcd entry has no "username", its "key" is the user name
	KeyOnly bool `json:"key_only,omitempty"`
}

type c06BasicCfg struct {
	Users []c06User `json:"users"`
	// Prefix: "" = etcdPrefix "c06-users/", "slash" = "/c06-users/", "default" = option omitted (documented default credentials/)
	Prefix string `json:"prefix,omitempty"`
	// Junk: malformed entries stored under the same prefix (no password / not YAML)
	Junk int `json:"junk,omitempty"`
	// InitFail: fault - the store cannot be read while generation InitFail-1 is created (0: never)
	InitFail int `json:"init_fail,omitempty"`
}

type c06Cfg struct {
	Rules  []c06Rule    `json:"rules"`
	JWT    *c06JWTCfg   `json:"jwt,omitempty"`
	Sig    *c06SigCfg   `json:"sig,omitempty"`
	Basic  *c06BasicCfg `json:"basic,omitempty"`
	SrvMax int64        `json:"srv_max"`
	// Rewrite: the server's first path rule is {pathRegexp: ^/api/(.*)$, rewriteTarget: /$1}
	Rewrite  bool  `json:"rewrite,omitempty"`
	Seg      int   `json:"seg"`
	DelayUs  int   `json:"delay_us"`
	OffsetUs int64 `json:"offset_us"`
}

// c06KV is one header line (an object, so that the minimiser removes whole lines).
type c06KV struct {
	N string `json:"n"`
	V string `json:"v"`
}

type c06Op struct {
	GapUs   int64       `json:"gap_us"`
	NewConn bool        `json:"new_conn"`
	Method  string      `json:"method"`
	Path    string      `json:"path"`
	Host    string      `json:"host"`
	Query   [][2]string `json:"query"`
	Hdr     []c06KV     `json:"hdr"`
	SignHdr []string    `json:"sign_hdr"`
	BodyLen int         `json:"body_len"`
	BodyBin bool        `json:"body_bin"`
	Chunked bool        `json:"chunked"`
	ChunkSz int         `json:"chunk_sz"`
	SkewMs  int64       `json:"skew_ms"`

	// QStyle: how the query is written on the wire: "" every reserved byte as
	// %XY (upper-case), "lower" lower-case hex digits, "min" only what HTTP/URL
	// syntax requires, "plus" a space as '+'. QBare: parameters with an empty
	// value are written without '='.
	QStyle string `json:"q_style,omitempty"`
	QBare  bool   `json:"q_bare,omitempty"`
	// SignCL: Content-Length (if the request has one) is among the signed headers;
	// AuthFmt "nospace": the Authorization parameters are separated by ',' only
	SignCL  bool   `json:"sign_cl,omitempty"`
	AuthFmt string `json:"auth_fmt,omitempty"`
	// Expect: the request announces its body with Expect: 100-continue
	Expect bool `json:"expect,omitempty"`
	// CookiePos: where the token cookie stands in the Cookie header: "" middle, only, first, last
	CookiePos string `json:"cookie_pos,omitempty"`
	// OtherCookies: a bearer-token request also carries cookies, none of them the token cookie
	OtherCookies bool `json:"other_cookies,omitempty"`
	// JWTExtra: registered claims iss/aud/jti/sub and a kid header member are present
	JWTExtra bool `json:"jwt_extra,omitempty"`
	// NumForm: how the issuer writes NumericDate claims: "" integers, "dec" decimal
	// fractions, "sci" exponent notation; ExpQ/NbfQ/IatQ: quarters of a second added
	NumForm string `json:"num_form,omitempty"`
	ExpQ    int    `json:"exp_q,omitempty"`
	NbfQ    int    `json:"nbf_q,omitempty"`
	IatQ    int    `json:"iat_q,omitempty"`
	// LitDocPrefix (config without signingKeyPrefix): the client derives the key with the documented default "ME" instead of ""
	LitDocPrefix bool `json:"lit_doc_prefix,omitempty"`

	JWTMode   string `json:"jwt_mode"` // "", cookie, bearer
	JWTAlg    string `json:"jwt_alg"`
	JWTSecret string `json:"jwt_secret"`
	HasExp    bool   `json:"has_exp"`
	ExpIn     int64  `json:"exp_in"`
	HasNbf    bool   `json:"has_nbf"`
	NbfIn     int64  `json:"nbf_in"`
	HasIat    bool   `json:"has_iat"`
	IatIn     int64  `json:"iat_in"`

	SigMode   string   `json:"sig_mode"` // "", header, presign
	SigKey    string   `json:"sig_key"`
	SigSecret string   `json:"sig_secret"`
	Scopes    []string `json:"scopes"`
	ExpiresS  int64    `json:"expires_s"`
	SendSha   bool     `json:"send_sha"`

	BasicOn   bool   `json:"basic_on"`
	BasicUser string `json:"basic_user"`
	BasicPass string `json:"basic_pass"`
	BasicForm string `json:"basic_form"` // "", scheme (wrong scheme word)

	Mut  string `json:"mut"`
	MutN int    `json:"mut_n"`

	// Follow: the client uses the secret/password in force when it issues the
	// request (instead of the one of the initial configuration)
	Follow bool `json:"follow"`

	Target      string `json:"target"` // "", exp, nbf, ttlhi, ttllo, presign
	TargetOffNs int64  `json:"target_off_ns"`
}

// c06Event is one administrative action during the run: a new pipeline
// generation (Validator spec unchanged or edited) or a change of the basicAuth
// credential store (etcd).
type c06Event struct {
	GapUs  int64   `json:"gap_us"`
	Kind   string  `json:"kind"`   // gen | push
	Edit   string  `json:"edit"`   // gen: same | sig-secret | jwt-secret | jwt-alg | ttl
	N      int     `json:"n"`      // gen: which key / which value
	Secret string  `json:"secret"` // gen: the new secret
	Op     string  `json:"op"`     // push: remove | replace | add
	Chain  bool    `json:"chain"`  // push: made directly after the preceding push, without waiting for the system to settle in between
	User   c06User `json:"user"`   // push: the user concerned (new password for replace/add)
}

type c06Client struct {
	Ops []c06Op `json:"ops"`
}

type c06Scenario struct {
	Cfg     c06Cfg      `json:"cfg"`
	Clients []c06Client `json:"clients"`
	Events  []c06Event  `json:"events"`
}

// ---- generator -----------------------------------------------------------

var c06Algs = []string{"HS256", "HS384", "HS512"}

func c06RandHex(rng *sim.Rand, n int) string {
	b := make([]byte, n)
	for i := range b {
		b[i] = byte(rng.Intn(256))
	}
	return hex.EncodeToString(b)
}

func c06RandStr(rng *sim.Rand, n int, alphabet string) string {
	b := make([]byte, n)
	for i := range b {
		b[i] = alphabet[rng.Intn(len(alphabet))]
	}
	return string(b)
}

const c06Alnum = "ABCDEFGHIJKLMNOPQRSTUVWXYZabcdefghijklmnopqrstuvwxyz0123456789"

func c06GenCfg(rng *sim.Rand) c06Cfg {
	cfg := c06Cfg{}
	combo := rng.Intn(100)
	var hdr, jwt, sig, basic, forceCookie bool
	switch {
	case combo < 20:
		jwt = true
	case combo < 48:
		sig = true
	case combo < 50:
		// presigned URL (query) + Basic credentials (Authorization header)
		sig, basic = true, true
	case combo < 65:
		basic = true
	case combo < 70:
		hdr = true
	case combo < 75:
		hdr, jwt = true, true
	case combo < 81:
		hdr, sig = true, true
	case combo < 84:
		hdr, basic = true, true
	case combo < 89:
		jwt, basic, forceCookie = true, true, true
	case combo < 96:
		jwt, sig, forceCookie = true, true, true
	default:
		hdr, jwt, sig, forceCookie = true, true, true, true
	}
	if hdr {
		n := rng.Range(1, 2)
		names := []string{"X-Rule-A", "Is-Valid"}
		if rng.Bool(0.3) {
			// header names are case-insensitive: the operator may write them in any case
			names = []string{rng.PickStr("x-rule-a", "X-RULE-A", "x-Rule-a"), rng.PickStr("is-valid", "x-api-key", "IS-VALID")}
		}
		for i := 0; i < n; i++ {
			ru := c06Rule{Name: names[i]}
			switch rng.Intn(3) {
			case 0:
				ru.Values = []string{"abc", "goodplan"}
			case 1:
				ru.Regexp = "^ok-[a-z0-9]+$"
			default:
				ru.Values = []string{"abc", "goodplan"}
				ru.Regexp = "^ok-[a-z0-9]+$"
			}
			if len(ru.Values) > 0 && rng.Bool(0.2) {
				// the empty value is an allowed value ("It allows empty value")
				ru.Values = append(ru.Values, "")
			}
			cfg.Rules = append(cfg.Rules, ru)
		}
	}
	if jwt {
		j := &c06JWTCfg{Alg: c06Algs[rng.Intn(3)], Secret: c06RandHex(rng, rng.Pick(1, 8, 16, 32, 64, 100))}
		if forceCookie || rng.Bool(0.5) {
			j.Cookie = rng.PickStr("auth", "jwt-token", "T")
		}
		if rng.Bool(0.25) {
			// hex digits may be written in either case
			j.Secret = strings.ToUpper(j.Secret)
		}
		cfg.JWT = j
	}
	if sig {
		s := &c06SigCfg{}
		for i, n := 0, rng.Range(1, 3); i < n; i++ {
			s.Keys = append(s.Keys, [2]string{fmt.Sprintf("AKID%d%s", i, c06RandStr(rng, rng.Range(0, 6), c06Alnum)), c06RandStr(rng, rng.Pick(1, 8, 20, 40), c06Alnum+"+/=-_")})
		}
		s.TTLs = int64(rng.Pick(0, 0, 1, 5, 60, 300, 900, 90))
		if s.TTLs > 0 && rng.Bool(0.25) {
			s.TTLFracMs = int64(rng.Pick(500, 250, 1, 999))
		}
		if rng.Bool(0.3) {
			s.TTLForm = "go"
		}
		s.ExcludeBody = rng.Bool(0.12)
		s.Aws = rng.Bool(0.3)
		if s.Aws && rng.Bool(0.1) {
			s.NoPrefix = true
		}
		if rng.Bool(0.15) {
			s.Cred = [2]string{"AKIDCRED" + c06RandStr(rng, 3, c06Alnum), c06RandStr(rng, rng.Pick(8, 20), c06Alnum)}
			if rng.Bool(0.1) {
				s.NoMap = true
			}
		}
		s.SignOpts = rng.Bool(0.2)
		cfg.Sig = s
	}
	if basic {
		b := &c06BasicCfg{}
		names := []string{"user", "Alice", "jürgen", "用户", "a.b-c_d", "bob@example.com", "u5", "John Doe"}
		perm := rng.Perm(len(names))
		for i, n := 0, rng.Range(1, 4); i < n; i++ {
			u := c06User{Name: names[perm[i]], Store: "sha"}
			switch rng.Intn(10) {
			case 0:
				u.Pass = "pässwörd"
			case 1:
				u.Pass = "密码123"
			case 2:
				u.Pass = "with space inside"
			case 3:
				// ':' inside the password (RFC 7617: only the user-id must not contain one)
				u.Pass = rng.PickStr("pa:ss", "a:b:c", "colon:", ":lead")
			case 4:
				u.Pass = c06RandStr(rng, 80, c06Alnum)
			default:
				u.Pass = c06RandStr(rng, rng.Range(1, 16), c06Alnum+"!#$%&*()-_=+")
			}
			if rng.Bool(0.25) && strings.Trim(u.Pass, c06Alnum) == "" {
				u.Store = "plain"
			} else {
				u.Store = c06PickStore(rng, u.Pass)
			}
			u.KeyOnly = rng.Bool(0.2)
			b.Users = append(b.Users, u)
		}
		b.Prefix = rng.PickStr("", "", "", "slash", "default")
		b.Junk = rng.Pick(0, 0, 0, 1, 2)
		if rng.Bool(0.06) {
			b.InitFail = rng.Pick(1, 1, 2)
		}
		cfg.Basic = b
	}
	if rng.Bool(0.04) {
		cfg.SrvMax = -1
	}
	cfg.Rewrite = rng.Bool(0.1)
	cfg.Seg = rng.Pick(0, 0, 0, 1, 7, 100, 1460)
	cfg.DelayUs = rng.Pick(0, 0, 0, 0, 1, 50, 1000)
	cfg.OffsetUs = int64(rng.Pick(0, 0, 1, 300000, 999999, rng.Intn(1000000)))
	return cfg
}

// c06PickStore draws the htpasswd scheme a password is stored with: the
// schemes htpasswd(1) can write ({SHA} -s, apr1 -m (its default for years),
// bcrypt -B) and the salted {SSHA} of LDAP exports.
func c06PickStore(rng *sim.Rand, pass string) string {
	st := rng.PickStr("sha", "sha", "sha", "apr1", "apr1", "ssha", "bcrypt")
	if st == "bcrypt" && len(pass) > 72 {
		// bcrypt itself only looks at the first 72 bytes
		st = "apr1"
	}
	return st
}

var c06Paths = []string{"/", "/a", "/a/b", "/api/v1/items", "/a%20b", "/caf%C3%A9", "/x%2Fy", "/a+b", "/a=b", "/a:b@c", "/~user/-_.", "/%E4%BD%A0%E5%A5%BD",
	"/a!b", "/a*b", "/a(b)", "/a%25b", "/a,b", "/a$b", "/a;p=1", "/a&b", "/A/B/c.json", "/trailing/"}

var c06QVals = []string{"1", "2", "10", "", "x/y", "v&w", "v=w", "é", "~-._", "a+b", "UPPER", "%", "café", "a,b", "q?r", "#frag", "@", "[]",
	"hello world", "a b c", " x", "", "2020-01-01T00:00:00Z", "a:b", "50%25", "{\"k\":1}", "it's", "*"}
var c06QKeys = []string{"a", "b", "q", "k", "name", "z", "A", "id", "x-y", "p_1", "filter[name]", "user.id", "ids[]", "ключ", "a/b", "Z", "q"}

func c06GenQuery(rng *sim.Rand) [][2]string {
	var q [][2]string
	n := rng.Pick(0, 0, 1, 1, 2, 3, 5)
	for i := 0; i < n; i++ {
		k := c06QKeys[rng.Intn(len(c06QKeys))]
		if i > 0 && rng.Bool(0.35) {
			k = q[rng.Intn(len(q))][0] // multi-valued parameter
		}
		q = append(q, [2]string{k, c06QVals[rng.Intn(len(c06QVals))]})
	}
	if c06CanonQuery(q) != c06CanonQueryRawOrder(q) {
		// the two defensible sort orders differ: keep an unambiguous query
		return [][2]string{{"a", "1"}, {"a", "2"}, {"b", ""}}
	}
	return q
}

var c06ExtraHdr = [][2]string{{"X-Custom-A", "alpha"}, {"X-Custom-B", "two  spaced   words"}, {"Content-Type", "application/json; charset=utf-8"},
	{"X-Multi", "m1"}, {"X-Multi", "m2"}, {"x-lower", "lc"}, {"X-Utf8", "grüße"}, {"Accept", "*/*"}, {"X-Trim", "  padded  "}, {"X-Multi", "m1"}}

func c06RuleValue(rng *sim.Rand, ru c06Rule, good bool) string {
	if !good {
		return rng.PickStr("bad", "ABC", "ok-", "xok-1", "goodplan2", "ok-UPPER")
	}
	if len(ru.Values) > 0 && (ru.Regexp == "" || rng.Bool(0.5)) {
		return ru.Values[rng.Intn(len(ru.Values))]
	}
	return "ok-" + c06RandStr(rng, rng.Range(1, 5), "abcdefghijklmnopqrstuvwxyz0123456789")
}

// c06GenOp draws a request that is valid for cfg and then (in ~45% of the
// cases) breaks exactly one thing.
func c06GenOp(rng *sim.Rand, cfg *c06Cfg) c06Op {
	op := c06Op{}
	op.GapUs = int64(rng.Pick(0, 0, 1, 1000, 100000, 2000000))
	op.NewConn = rng.Bool(0.2)
	op.Method = rng.PickStr("GET", "GET", "POST", "PUT", "DELETE", "PATCH", "OPTIONS", "HEAD")
	op.Path = c06Paths[rng.Intn(len(c06Paths))]
	op.Host = rng.PickStr("front.example:10080", "front.example:10080", "api.example", "API.Example:80", "10.0.0.5:10080", "front.example:10080", "[2001:db8::1]:10080", "[::1]", "api.example:443")
	op.Query = c06GenQuery(rng)
	op.QStyle = rng.PickStr("", "", "", "lower", "min", "plus")
	op.QBare = rng.Bool(0.25)
	for _, kv := range c06ExtraHdr {
		if rng.Bool(0.3) {
			op.Hdr = append(op.Hdr, c06KV{kv[0], kv[1]})
		}
	}
	if op.Method != "GET" && op.Method != "DELETE" && op.Method != "OPTIONS" && op.Method != "HEAD" || rng.Bool(0.1) {
		op.BodyLen = rng.Pick(0, 1, 2, 10, 100, 1000, 5000, rng.Intn(20000), rng.Intn(65536))
		op.BodyBin = rng.Bool(0.4)
		op.Chunked = rng.Bool(0.3)
		op.ChunkSz = rng.Pick(1, 7, 100, 4096, 0)
		if op.BodyLen > 3000 && op.ChunkSz < 100 {
			op.ChunkSz = 4096
		}
		// curl announces bodies above 1 KiB this way
		op.Expect = op.BodyLen > 0 && rng.Bool(0.15)
	}
	if rng.Bool(0.55) {
		op.SkewMs = int64(rng.Pick(1, -1, 500, -500, 1000, -1000, 2000, -2000, 5000, -5000, 60000, -60000, 3600000, -3600000))
	}

	// applicable time targets, defects
	var targets, defects []string

	for _, ru := range cfg.Rules {
		op.Hdr = append(op.Hdr, c06KV{ru.Name, c06RuleValue(rng, ru, true)})
	}
	if len(cfg.Rules) > 0 {
		defects = append(defects, "hdr-bad", "hdr-missing", "hdr-bad-then-good", "hdr-good-then-bad")
	}
	if j := cfg.JWT; j != nil {
		op.JWTMode = "bearer"
		if j.Cookie != "" && (cfg.Sig != nil || cfg.Basic != nil || rng.Bool(0.7)) {
			op.JWTMode = "cookie"
		}
		op.JWTAlg, op.JWTSecret = j.Alg, j.Secret
		if rng.Bool(0.85) {
			op.HasExp, op.ExpIn = true, int64(rng.Pick(2, 5, 60, 3600, 86400))
			targets = append(targets, "exp", "exp")
		}
		if rng.Bool(0.4) {
			op.HasNbf, op.NbfIn = true, int64(rng.Pick(0, -1, -60, -3600))
			targets = append(targets, "nbf")
		}
		if rng.Bool(0.4) {
			op.HasIat, op.IatIn = true, int64(rng.Pick(0, -1, -60))
		}
		op.CookiePos = rng.PickStr("", "", "only", "first", "last")
		op.OtherCookies = rng.Bool(0.4)
		defects = append(defects, "jwt-missing", "jwt-alg", "jwt-alg", "jwt-secret", "jwt-none", "jwt-sig-byte", "jwt-payload-byte", "jwt-expired", "jwt-notyet", "jwt-alg-foreign", "jwt-bearer-lower")
	}
	if s := cfg.Sig; s != nil && len(s.Keys) > 0 {
		op.SigMode = "header"
		if rng.Bool(0.3) || cfg.Basic != nil {
			op.SigMode = "presign"
			op.ExpiresS = int64(rng.Pick(1, 5, 60, 900, 86400, 604800))
			targets = append(targets, "presign")
			// the signature parameters join the query: it must stay one whose two
			// defensible sort orders (by raw or by URI-encoded name) coincide
			all := append([][2]string(nil), op.Query...)
			for _, l := range []c06Literal{c06LitDefault, c06LitAws} {
				all = append(all, [2]string{l.AlgorithmName, ""}, [2]string{l.Credential, ""}, [2]string{l.Date, ""}, [2]string{l.Expires, ""}, [2]string{l.SignedHeaders, ""})
			}
			if c06CanonQuery(all) != c06CanonQueryRawOrder(all) {
				op.Query = [][2]string{{"a", "1"}, {"a", "2"}, {"b", ""}}
			}
		}
		k := s.Keys[rng.Intn(len(s.Keys))]
		op.SigKey, op.SigSecret = k[0], k[1]
		if s.Cred[0] != "" && rng.Bool(0.2) {
			// signed with the accessKeyId/accessKeySecret pair of the spec
			op.SigKey, op.SigSecret = s.Cred[0], s.Cred[1]
		}
		op.SignCL = rng.Bool(0.35)
		if rng.Bool(0.25) {
			op.AuthFmt = "nospace"
		}
		op.LitDocPrefix = s.NoPrefix && rng.Bool(0.5)
		switch rng.Intn(4) {
		case 0:
			op.Scopes = []string{"us-east-1", "svc"}
		case 1:
			op.Scopes = []string{"region"}
		case 2:
			op.Scopes = []string{"a", "b", "c"}
		}
		op.SendSha = rng.Bool(0.3)
		seen := map[string]bool{}
		for _, kv := range op.Hdr {
			n := strings.ToLower(kv.N)
			isRule := false
			for _, ru := range cfg.Rules {
				if strings.EqualFold(ru.Name, kv.N) {
					isRule = true
				}
			}
			p := 0.5
			if isRule {
				p = 0.15
			}
			if !seen[n] && rng.Bool(p) {
				op.SignHdr = append(op.SignHdr, n)
			}
			seen[n] = true
		}
		if op.JWTMode == "cookie" && rng.Bool(0.3) {
			op.SignHdr = append(op.SignHdr, "cookie")
		}
		if s.TTLs > 0 {
			targets = append(targets, "ttlhi", "ttlhi", "ttllo")
			defects = append(defects, "sig-stale", "sig-future")
		}
		defects = append(defects, "sig-missing", "sig-unknown-key", "sig-wrong-secret", "sig-method", "sig-path", "sig-path", "sig-query-val", "sig-query-add", "sig-query-drop",
			"sig-hdr-val", "sig-hdr-val", "sig-hdr-extra", "sig-hdr-drop", "sig-host", "sig-signature", "sig-date", "sig-scope", "sig-keyid",
			"sig-body-flip", "sig-body-flip", "sig-body-append", "sig-body-append", "sig-body-trunc", "sig-unsigned-hdr", "sig-unsigned-payload")
		if op.SigMode == "presign" {
			defects = append(defects, "sig-expires", "presign-expired")
		}
		// the skew must stay inside the TTL for a request meant to be valid
		if s.TTLs > 0 && (op.SkewMs >= s.TTLs*1000 || -op.SkewMs >= s.TTLs*1000) {
			op.SkewMs = int64(rng.Pick(0, 1, -1, 400, -400))
		}
		if op.SigMode == "presign" && -op.SkewMs >= op.ExpiresS*1000 {
			op.SkewMs = int64(rng.Pick(0, 1, -1, 400, -400))
		}
	}
	if b := cfg.Basic; b != nil && len(b.Users) > 0 {
		u := b.Users[rng.Intn(len(b.Users))]
		op.BasicOn, op.BasicUser, op.BasicPass = true, u.Name, u.Pass
		defects = append(defects, "basic-missing", "basic-pass-byte", "basic-pass-byte", "basic-colon-suffix", "basic-scheme", "basic-unknown-user", "basic-user-case", "basic-pass-prefix",
			"basic-not-base64", "basic-no-colon", "basic-empty-pass", "basic-lower-scheme", "basic-unpadded", "basic-decoy-user", "basic-hash-as-password")
	}

	// a token meant to be valid must not be issued "in the future" beyond its own window
	if op.JWTMode != "" && op.HasExp && -op.SkewMs >= op.ExpIn*1000 {
		op.SkewMs = 0
	}
	if op.JWTMode != "" && (op.HasNbf || op.HasIat) && op.SkewMs > 0 && rng.Bool(0.6) {
		// keep a good share of valid tokens: issuer not ahead of the validator
		op.SkewMs = -op.SkewMs
		if op.HasExp && -op.SkewMs >= op.ExpIn*1000 {
			op.SkewMs = 0
		}
	}

	roll := rng.Intn(100)
	switch {
	case roll < 42 && len(defects) > 0:
		d := defects[rng.Intn(len(defects))]
		op.MutN = rng.Intn(1 << 20)
		switch d {
		case "hdr-bad", "hdr-missing", "hdr-bad-then-good", "hdr-good-then-bad":
			ru := cfg.Rules[rng.Intn(len(cfg.Rules))]
			var keep []c06KV
			for _, kv := range op.Hdr {
				if !strings.EqualFold(kv.N, ru.Name) {
					keep = append(keep, kv)
				}
			}
			op.Hdr = keep
			switch d {
			case "hdr-bad":
				op.Hdr = append(op.Hdr, c06KV{ru.Name, c06RuleValue(rng, ru, false)})
			case "hdr-bad-then-good":
				op.Hdr = append(op.Hdr, c06KV{ru.Name, c06RuleValue(rng, ru, false)}, c06KV{ru.Name, c06RuleValue(rng, ru, true)})
			case "hdr-good-then-bad":
				op.Hdr = append(op.Hdr, c06KV{ru.Name, c06RuleValue(rng, ru, true)}, c06KV{ru.Name, c06RuleValue(rng, ru, false)})
			}
		case "jwt-missing":
			op.JWTMode = ""
		case "jwt-alg":
			for op.JWTAlg == cfg.JWT.Alg {
				op.JWTAlg = c06Algs[rng.Intn(3)]
			}
		case "jwt-secret":
			op.JWTSecret = c06RandHex(rng, rng.Pick(1, 16, len(cfg.JWT.Secret)/2))
			if len(cfg.JWT.Secret) >= 2 && strings.EqualFold(op.JWTSecret[:2], cfg.JWT.Secret[:2]) {
				// never an HMAC-equivalent key (zero padding makes "2f" and "2f00" the same key)
				b, _ := hex.DecodeString(op.JWTSecret[:2])
				op.JWTSecret = hex.EncodeToString([]byte{b[0] ^ 0xff}) + op.JWTSecret[2:]
			}
		case "jwt-expired":
			op.HasExp, op.ExpIn = true, int64(rng.Pick(-2, -5, -3600))
			if op.SkewMs > 0 {
				op.SkewMs = -op.SkewMs
			}
		case "jwt-notyet":
			op.HasNbf, op.NbfIn = true, int64(rng.Pick(5, 60, 3600))
			if op.SkewMs < 0 {
				op.SkewMs = -op.SkewMs
			}
		case "sig-missing":
			op.SigMode = ""
		case "sig-unknown-key":
			op.SigKey = "AKIDunknown" + c06RandStr(rng, 3, c06Alnum)
			// an attacker without any secret signs with what a sloppy store might fall back to
			switch rng.Intn(3) {
			case 0:
				op.SigSecret = ""
			case 1:
				op.SigSecret = op.SigKey
			}
		case "sig-wrong-secret":
			op.SigSecret = op.SigSecret + "x"
		case "sig-stale":
			op.SkewMs = -(cfg.Sig.TTLs + int64(rng.Pick(2, 5, 60, 3600))) * 1000
		case "sig-future":
			op.SkewMs = (cfg.Sig.TTLs + int64(rng.Pick(2, 5, 60, 3600))) * 1000
		case "presign-expired":
			op.ExpiresS = int64(rng.Pick(0, 1, 5))
			op.SkewMs = -(op.ExpiresS + int64(rng.Pick(2, 5, 60))) * 1000
			if cfg.Sig.TTLs > 0 && -op.SkewMs >= cfg.Sig.TTLs*1000 {
				// keep it inside the TTL so that only the presign expiry decides
				op.ExpiresS = 0
				op.SkewMs = -int64(rng.Pick(2, 3)) * 1000
				if cfg.Sig.TTLs <= 3 {
					op.SkewMs = 0 // cannot separate: falls back to a plain valid request
				}
			}
		case "basic-missing":
			op.BasicOn = false
		case "basic-unknown-user":
			op.BasicUser = op.BasicUser + "x"
		case "basic-user-case":
			sw := strings.ToUpper(op.BasicUser)
			if sw == op.BasicUser {
				sw = strings.ToLower(op.BasicUser)
			}
			if sw == op.BasicUser {
				sw += "x"
			}
			op.BasicUser = sw
		case "basic-scheme":
			op.BasicForm = "scheme"
		case "basic-decoy-user":
			// a user that exists in the store, but under another prefix
			op.BasicUser, op.BasicPass = c06Decoy.Name, c06Decoy.Pass
		case "basic-pass-prefix":
			// a proper prefix of the password
			if len(op.BasicPass) > 1 {
				op.BasicPass = op.BasicPass[:len(op.BasicPass)/2]
				for len(op.BasicPass) > 0 && op.BasicPass[len(op.BasicPass)-1] >= 0x80 {
					op.BasicPass = op.BasicPass[:len(op.BasicPass)-1]
				}
			} else {
				op.BasicPass += "x"
			}
		default:
			op.Mut = d // applied at issue time (jwt-*, basic-*) or after signing (sig-*)
		}
	case roll < 80 && len(targets) > 0:
		op.Target = targets[rng.Intn(len(targets))]
		op.TargetOffNs = int64(rng.Pick(-1000000000, -1000000, -1, 0, 0, 1, 1000000, 500000000, 999999999, 1000000000, 1000000001, 2000000000, 5000000000))
		switch op.Target {
		case "exp":
			op.ExpIn = int64(rng.Pick(1, 2, 5, 60, 3600))
		case "nbf":
			op.NbfIn = int64(rng.Pick(1, 2, 5, 60))
			if op.HasExp && op.ExpIn <= op.NbfIn+6 {
				op.ExpIn = op.NbfIn + 3600
			}
			if op.SkewMs < 0 && op.HasExp {
				op.SkewMs = 0
			}
		case "ttllo":
			op.SkewMs = (cfg.Sig.TTLs + int64(rng.Pick(1, 2, 5))) * 1000
		case "ttlhi", "presign":
			if op.SkewMs > 2000 || op.SkewMs < -2000 {
				op.SkewMs = 0
			}
		}
		if op.Target == "presign" && cfg.Sig.TTLs > 0 && op.ExpiresS >= cfg.Sig.TTLs {
			op.ExpiresS = int64(rng.Pick(1, 5))
			if op.ExpiresS >= cfg.Sig.TTLs {
				op.Target = "ttlhi"
			}
		}
	}
	return op
}

func c06Gen(rng *sim.Rand, tier string) interface{} {
	sc := &c06Scenario{}
	sc.Cfg = c06GenCfg(rng)
	nc := rng.Range(1, 3)
	for c := 0; c < nc; c++ {
		var cl c06Client
		for i, n := 0, rng.Range(1, 6); i < n; i++ {
			cl.Ops = append(cl.Ops, c06GenOp(rng, &sc.Cfg))
		}
		sc.Clients = append(sc.Clients, cl)
	}
	// burst: every client sends its requests back to back from the same instant,
	// so that several different requests are inside the Validator together
	if nc >= 2 && rng.Bool(0.25) {
		for ci := range sc.Clients {
			for oi := range sc.Clients[ci].Ops {
				op := &sc.Clients[ci].Ops[oi]
				if oi < 2 {
					op.GapUs = int64(rng.Pick(0, 0, 0, 1))
					if op.Target != "" {
						op.Target, op.TargetOffNs = "", 0
					}
				}
			}
		}
	}
	// one issuer per scenario: all its tokens have the same set of claims (so
	// that the same token string can reach the Validator more than once)
	jwtExtra := rng.Bool(0.3)
	numForm := rng.PickStr("", "", "", "", "dec", "dec", "sci")
	for ci := range sc.Clients {
		for oi := range sc.Clients[ci].Ops {
			op := &sc.Clients[ci].Ops[oi]
			op.Follow = rng.Bool(0.7)
			op.JWTExtra = jwtExtra && op.JWTMode != ""
			if op.JWTMode != "" {
				op.NumForm = numForm
				if numForm != "" {
					op.ExpQ, op.NbfQ, op.IatQ = rng.Pick(0, 1, 2, 3), rng.Pick(0, 1, 2, 3), rng.Pick(0, 1, 2, 3)
				}
			}
		}
	}
	c06GenEvents(rng, sc)
	// keep runs cheap: tiny segments only with small bodies
	maxBody := 0
	for _, cl := range sc.Clients {
		for _, op := range cl.Ops {
			if op.BodyLen > maxBody {
				maxBody = op.BodyLen
			}
		}
	}
	switch {
	case maxBody > 20000 && sc.Cfg.Seg != 0 && sc.Cfg.Seg < 1460:
		sc.Cfg.Seg = 1460
	case maxBody > 2000 && sc.Cfg.Seg != 0 && sc.Cfg.Seg < 100:
		sc.Cfg.Seg = 100
	case maxBody > 300 && sc.Cfg.Seg != 0 && sc.Cfg.Seg < 7:
		sc.Cfg.Seg = 7
	}
	return sc
}

// c06ApplyEdit returns the Validator configuration of the next generation.
func c06ApplyEdit(cfg c06Cfg, ev *c06Event) c06Cfg {
	out := cfg
	switch ev.Edit {
	case "sig-secret":
		if cfg.Sig != nil && len(cfg.Sig.Keys) > 0 && ev.Secret != "" {
			sg := *cfg.Sig
			sg.Keys = append([][2]string(nil), cfg.Sig.Keys...)
			i := ev.N % len(sg.Keys)
			if i < 0 {
				i = 0
			}
			ns := ev.Secret
			if ns == sg.Keys[i][1] {
				ns += "R"
			}
			sg.Keys[i] = [2]string{sg.Keys[i][0], ns}
			out.Sig = &sg
		}
	case "jwt-secret":
		if cfg.JWT != nil {
			if b, err := hex.DecodeString(ev.Secret); err == nil && len(b) > 0 && len(cfg.JWT.Secret) >= 2 && !strings.EqualFold(ev.Secret[:2], cfg.JWT.Secret[:2]) {
				j := *cfg.JWT
				j.Secret = ev.Secret
				out.JWT = &j
			}
		}
	case "jwt-alg":
		if cfg.JWT != nil {
			j := *cfg.JWT
			n := ev.N
			if n < 0 {
				n = 0
			}
			j.Alg = c06Algs[n%3]
			if j.Alg == cfg.JWT.Alg {
				j.Alg = c06Algs[(n+1)%3]
			}
			out.JWT = &j
		}
	case "ttl":
		if cfg.Sig != nil {
			sg := *cfg.Sig
			n := ev.N
			if n < 0 {
				n = 0
			}
			sg.TTLs = []int64{0, 1, 5, 60, 300, 900}[n%6]
			if n%4 == 3 {
				sg.TTLFracMs = 0
			}
			out.Sig = &sg
		}
	}
	return out
}

// c06ApplyPush returns the credential store after the change.
func c06ApplyPush(users []c06User, ev *c06Event) []c06User {
	var out []c06User
	found := false
	for _, u := range users {
		if u.Name == ev.User.Name {
			found = true
			switch ev.Op {
			case "remove":
				continue
			case "replace":
				u.Pass, u.Store = ev.User.Pass, ev.User.Store
			}
		}
		out = append(out, u)
	}
	if ev.Op == "add" && !found && ev.User.Name != "" && ev.User.Pass != "" {
		out = append(out, ev.User)
	}
	return out
}

func c06GenEvents(rng *sim.Rand, sc *c06Scenario) {
	cfg := &sc.Cfg
	p := 0.4
	if cfg.Basic != nil {
		p = 0.65
	}
	if !rng.Bool(p) {
		return
	}
	gap := func() int64 { return int64(rng.Pick(0, 1000, 100000, 500000, 1000000, 1000000, 2000000, 5000000)) }
	genEv := func() c06Event {
		ev := c06Event{GapUs: gap(), Kind: "gen", Edit: "same", N: rng.Intn(1000)}
		var edits []string
		if cfg.Sig != nil {
			edits = append(edits, "sig-secret", "sig-secret", "ttl")
		}
		if cfg.JWT != nil {
			edits = append(edits, "jwt-secret", "jwt-secret", "jwt-alg")
		}
		if len(edits) > 0 && rng.Bool(0.6) {
			ev.Edit = edits[rng.Intn(len(edits))]
		}
		switch ev.Edit {
		case "sig-secret":
			ev.Secret = c06RandStr(rng, rng.Pick(8, 20, 40), c06Alnum+"+/=-_")
		case "jwt-secret":
			ev.Secret = c06RandHex(rng, rng.Pick(8, 16, 32))
			if len(cfg.JWT.Secret) >= 2 && strings.EqualFold(ev.Secret[:2], cfg.JWT.Secret[:2]) {
				b, _ := hex.DecodeString(ev.Secret[:2])
				ev.Secret = hex.EncodeToString([]byte{b[0] ^ 0xff}) + ev.Secret[2:]
			}
		}
		return ev
	}
	added := 0
	users := []c06User{}
	if cfg.Basic != nil {
		users = append(users, cfg.Basic.Users...)
	}
	pushEv := func() c06Event {
		ev := c06Event{GapUs: gap(), Kind: "push"}
		ops := []string{"add"}
		if len(users) > 0 {
			ops = append(ops, "replace", "replace", "remove")
		}
		ev.Op = ops[rng.Intn(len(ops))]
		switch ev.Op {
		case "add":
			added++
			ev.User = c06User{Name: fmt.Sprintf("newuser%d", added), Pass: c06RandStr(rng, rng.Range(3, 12), c06Alnum), Store: "sha", KeyOnly: rng.Bool(0.2)}
			ev.User.Store = c06PickStore(rng, ev.User.Pass)
		case "replace":
			u := users[rng.Intn(len(users))]
			ev.User = c06User{Name: u.Name, Pass: u.Pass + c06RandStr(rng, rng.Range(1, 4), c06Alnum), Store: "sha"}
			ev.User.Store = c06PickStore(rng, ev.User.Pass)
		case "remove":
			ev.User = c06User{Name: users[rng.Intn(len(users))].Name}
		}
		users = c06ApplyPush(users, &ev)
		return ev
	}
	ng := rng.Pick(0, 1, 1, 1, 2)
	np := 0
	if cfg.Basic != nil {
		np = rng.Pick(0, 1, 1, 2, 3)
	}
	if ng+np == 0 {
		ng = 1
	}
	// order: random, with the sequence "generation change, then store change" favoured
	for ng+np > 0 {
		switch {
		case ng > 0 && (np == 0 || rng.Bool(0.6)):
			sc.Events = append(sc.Events, genEv())
			ng--
		default:
			ev := pushEv()
			if n := len(sc.Events); n > 0 && sc.Events[n-1].Kind == "push" && rng.Bool(0.6) {
				ev.Chain, ev.GapUs = true, 0
			}
			sc.Events = append(sc.Events, ev)
			np--
		}
	}
	// some clients present the credentials of a user that is only added later
	for ci := range sc.Clients {
		for oi := range sc.Clients[ci].Ops {
			op := &sc.Clients[ci].Ops[oi]
			if !op.BasicOn || op.Mut != "" || op.BasicForm != "" || !rng.Bool(0.15) {
				continue
			}
			for _, ev := range sc.Events {
				if ev.Kind == "push" && ev.Op == "add" {
					op.BasicUser, op.BasicPass = ev.User.Name, ev.User.Pass
				}
			}
		}
	}
}

// ---- building the wire request --------------------------------------------

func c06Body(tag string, n int, bin bool) []byte {
	if n <= 0 {
		return nil
	}
	out := make([]byte, 0, n)
	if bin {
		var s uint64 = 1469598103934665603
		for i := 0; i < len(tag); i++ {
			s = (s ^ uint64(tag[i])) * 1099511628211
		}
		rg := sim.NewRand(s)
		for len(out) < n {
			v := rg.Uint64()
			for k := 0; k < 8 && len(out) < n; k++ {
				out = append(out, byte(v))
				v >>= 8
			}
		}
		return out
	}
	unit := []byte("<" + tag + ">")
	for len(out) < n {
		out = append(out, unit...)
	}
	return out[:n]
}

// c06Info is what the oracle needs to know about one issued request.
type c06Info struct {
	mut          string // the mutation that was really applied ("" if not applicable)
	exp, nbf     int64  // unix seconds (valid if the op has them)
	iat          int64
	expQ, nbfQ   int // quarters of a second on top of the whole part (non-integer NumericDate)
	iatQ         int
	sigDate      int64 // unix seconds of the signature's date
	signedLen    int   // length of the body the signature was computed over
	signedCL     bool  // Content-Length was among the signed headers
	otherCookies bool  // cookies present, the token cookie not among them, token in the Authorization header
	sentBody     []byte
	wire         *c06Wire
	issuedAt     time.Time
	eff          c06Op // the request as really issued (secrets/password followed to the configuration in force)
}

func (i *c06Info) expNs() int64 { return i.exp*c06S + int64(i.expQ)*(c06S/4) }
func (i *c06Info) nbfNs() int64 { return i.nbf*c06S + int64(i.nbfQ)*(c06S/4) }
func (i *c06Info) iatNs() int64 { return i.iat*c06S + int64(i.iatQ)*(c06S/4) }

func c06Quarter(form string, q int) int {
	if form == "" || q < 0 || q > 3 {
		return 0
	}
	return q
}

// c06NumDate writes a NumericDate (RFC 7519: "a JSON numeric value", seconds
// since the epoch, non-integer values allowed): as an integer, as a decimal
// fraction (what time.time() of Python or a float timestamp gives) or in
// exponent notation (what several JSON encoders emit for floats).
func c06NumDate(sec int64, q int, form string) string {
	frac := []string{"", "25", "5", "75"}[q&3]
	switch form {
	case "dec":
		if frac == "" {
			return fmt.Sprintf("%d.0", sec)
		}
		return fmt.Sprintf("%d.%s", sec, frac)
	case "sci":
		if sec <= 0 {
			return fmt.Sprint(sec)
		}
		digits := strings.TrimRight(fmt.Sprint(sec)+frac, "0")
		e := len(fmt.Sprint(sec)) - 1
		if len(digits) == 1 {
			return fmt.Sprintf("%se%d", digits, e)
		}
		return fmt.Sprintf("%s.%se%d", digits[:1], digits[1:], e)
	}
	return fmt.Sprint(sec)
}

func c06FlipB64(seg string, n int) string {
	// change one character that is not the last one (the last one may carry
	// padding bits only) into a different base64url character
	const abc = "ABCDEFGHIJKLMNOPQRSTUVWXYZabcdefghijklmnopqrstuvwxyz0123456789-_"
	if len(seg) < 2 {
		return seg + "A"
	}
	i := n % (len(seg) - 1)
	c := abc[(strings.IndexByte(abc, seg[i])+1+n%62)%64]
	if c == seg[i] {
		c = abc[(strings.IndexByte(abc, seg[i])+1)%64]
	}
	return seg[:i] + string(c) + seg[i+1:]
}

func c06FlipHex(s string, n int) string {
	if s == "" {
		return "0"
	}
	i := n % len(s)
	c := byte('0')
	if s[i] == '0' {
		c = 'f'
	}
	return s[:i] + string(c) + s[i+1:]
}

// c06Issue builds the request of op as the issuer/client pair would: headers,
// JWT, Basic credentials, then the signature over the finished request.
func (c *c06Chain) issue(id string, op0 *c06Op) *c06Info {
	base := &c.sc.Cfg
	cfg := &c.cfgs[c.gen]
	eff := *op0
	op := &eff
	if op.Follow {
		if base.JWT != nil && cfg.JWT != nil && op.JWTAlg == base.JWT.Alg && op.JWTSecret == base.JWT.Secret {
			op.JWTAlg, op.JWTSecret = cfg.JWT.Alg, cfg.JWT.Secret
		}
		if base.Sig != nil && cfg.Sig != nil {
			for _, k := range base.Sig.Keys {
				if k[0] == op.SigKey && k[1] == op.SigSecret {
					for _, k2 := range cfg.Sig.Keys {
						if k2[0] == op.SigKey {
							op.SigSecret = k2[1]
						}
					}
					break
				}
			}
		}
		if base.Basic != nil {
			for _, u := range base.Basic.Users {
				if u.Name == op.BasicUser && u.Pass == op.BasicPass {
					for _, u2 := range c.users {
						if u2.Name == op.BasicUser {
							op.BasicPass = u2.Pass
						}
					}
					break
				}
			}
		}
	}
	now := time.Now()
	issuer := now.Add(time.Duration(op.SkewMs) * time.Millisecond)
	info := &c06Info{issuedAt: now}
	w := &c06Wire{method: op.Method, path: op.Path, chunked: op.Chunked, chunkSz: op.ChunkSz}
	if w.method == "" {
		w.method = "GET"
	}
	if w.path == "" || w.path[0] != '/' {
		w.path = "/" + w.path
	}
	host := op.Host
	if host == "" {
		host = "front.example:10080"
	}
	w.hdr = append(w.hdr, [2]string{"Host", host}, [2]string{"X-Verif-Id", id})
	for _, kv := range op.Hdr {
		if kv.N != "" {
			w.hdr = append(w.hdr, [2]string{kv.N, kv.V})
		}
	}
	for _, kv := range op.Query {
		w.query = append(w.query, c06WireQueryItem(kv[0], kv[1], op.QStyle, op.QBare))
	}
	w.body = c06Body(id, op.BodyLen, op.BodyBin)
	info.signedLen = len(w.body)
	if op.Expect && len(w.body) > 0 {
		w.hdr = append(w.hdr, [2]string{"Expect", "100-continue"})
	}

	// JWT
	if op.JWTMode != "" && cfg.JWT != nil {
		sec, _ := hex.DecodeString(op.JWTSecret)
		claims := [][2]string{{"sub", `"c06"`}}
		is := issuer.Unix()
		if op.HasIat {
			info.iat, info.iatQ = is+op.IatIn, c06Quarter(op.NumForm, op.IatQ)
			if info.iatQ > 0 && op.IatIn >= 0 {
				// an issue time is never later than the issuer's own clock
				info.iat--
			}
			claims = append(claims, [2]string{"iat", c06NumDate(info.iat, info.iatQ, op.NumForm)})
		}
		if op.HasNbf {
			info.nbf, info.nbfQ = is+op.NbfIn, c06Quarter(op.NumForm, op.NbfQ)
			claims = append(claims, [2]string{"nbf", c06NumDate(info.nbf, info.nbfQ, op.NumForm)})
		}
		if op.HasExp {
			info.exp, info.expQ = is+op.ExpIn, c06Quarter(op.NumForm, op.ExpQ)
			claims = append(claims, [2]string{"exp", c06NumDate(info.exp, info.expQ, op.NumForm)})
		}
		alg, signAlg, extraHead := op.JWTAlg, op.JWTAlg, ""
		if op.Mut == "jwt-none" {
			alg, signAlg = "none", "none"
			info.mut = op.Mut
		}
		if op.Mut == "jwt-alg-foreign" {
			// a header naming an algorithm outside the configured family, the
			// signature still being the HMAC with the right secret
			alg = []string{"RS256", "ES256", "PS256", "hs256", "HS999", "EdDSA", "HS256 "}[op.MutN%7]
			info.mut = op.Mut
		}
		if op.JWTExtra {
			claims = append(claims, [2]string{"iss", `"https://issuer.example/"`}, [2]string{"aud", `["c06","other"]`}, [2]string{"jti", `"c06-token"`}, [2]string{"scope", `"read write"`})
			extraHead = `,"kid":"key-1"`
		}
		tok := c06JWTx(alg, signAlg, extraHead, sec, claims)
		parts := strings.Split(tok, ".")
		switch op.Mut {
		case "jwt-sig-byte":
			if len(parts) == 3 && len(parts[2]) > 2 {
				parts[2] = c06FlipB64(parts[2], op.MutN)
				info.mut = op.Mut
			}
		case "jwt-payload-byte":
			if len(parts) == 3 {
				parts[1] = c06FlipB64(parts[1], op.MutN)
				info.mut = op.Mut
			}
		}
		tok = strings.Join(parts, ".")
		if op.JWTMode == "cookie" && cfg.JWT != nil && cfg.JWT.Cookie != "" {
			ck := cfg.JWT.Cookie + "=" + tok
			switch op.CookiePos {
			case "only":
			case "first":
				ck = ck + "; pref=1; z=9"
			case "last":
				ck = "pref=1; z=9; " + ck
			default:
				ck = "pref=1; " + ck + "; z=9"
			}
			w.hdr = append(w.hdr, [2]string{"Cookie", ck})
		} else {
			scheme := "Bearer "
			if op.Mut == "jwt-bearer-lower" {
				scheme = []string{"bearer ", "BEARER ", "Bearer  "}[op.MutN%3]
				info.mut = op.Mut
			}
			w.hdr = append(w.hdr, [2]string{"Authorization", scheme + tok})
			if op.OtherCookies && cfg.JWT.Cookie != "" {
				w.hdr = append(w.hdr, [2]string{"Cookie", "pref=1; " + cfg.JWT.Cookie + "x=1; z=9"})
				info.otherCookies = true
			}
		}
	}

	// Basic
	if op.BasicOn && cfg.Basic != nil {
		user, pass := op.BasicUser, op.BasicPass
		switch op.Mut {
		case "basic-pass-byte":
			b := []byte(pass)
			if len(b) > 0 {
				i := op.MutN % len(b)
				b[i] ^= 0x01
				if b[i] == ':' || b[i] < 0x20 || b[i] == 0x7f {
					b[i] = 'Z'
					if pass[i] == 'Z' {
						b[i] = 'Y'
					}
				}
				pass = string(b)
				info.mut = op.Mut
			}
		case "basic-colon-suffix":
			pass += rng06Suffix(op.MutN)
			info.mut = op.Mut
		case "basic-empty-pass":
			pass = ""
			info.mut = op.Mut
		case "basic-hash-as-password":
			// what is stored for the user is presented as the password
			for _, u := range c.users {
				if u.Name == user && u.Store != "plain" && u.Store != "" {
					pass = c06Stored(u)
					info.mut = op.Mut
				}
			}
		}
		v := c06Basic(user, pass)
		switch op.Mut {
		case "basic-not-base64":
			v = "Basic " + []string{"!!!not-base64!!!", "dXNlcjpwYXNz*", "=", "dXNlcg"}[op.MutN%4]
			info.mut = op.Mut
		case "basic-no-colon":
			if !strings.Contains(user+pass, ":") {
				v = "Basic " + base64.StdEncoding.EncodeToString([]byte(user+pass))
				info.mut = op.Mut
			}
		case "basic-lower-scheme":
			v = []string{"basic ", "BASIC ", "Basic  "}[op.MutN%3] + strings.TrimPrefix(v, "Basic ")
			info.mut = op.Mut
		case "basic-unpadded":
			if strings.HasSuffix(v, "=") {
				v = strings.TrimRight(v, "=")
				info.mut = op.Mut
			}
		}
		if op.BasicForm == "scheme" {
			v = "Basik " + strings.TrimPrefix(v, "Basic ")
		}
		w.hdr = append(w.hdr, [2]string{"Authorization", v})
	}

	// signature
	if op.SigMode != "" && cfg.Sig != nil {
		lit := c06LitDefault
		if cfg.Sig.Aws {
			lit = c06LitAws
			if cfg.Sig.NoPrefix {
				// the spec does not say which prefix: none, or the documented default
				lit.KeyPrefix = ""
				if op.LitDocPrefix {
					lit.KeyPrefix = c06LitDefault.KeyPrefix
				}
			}
		}
		at := issuer.Truncate(time.Second)
		info.sigDate = at.Unix()
		payload := c06Sha256Hex(w.body)
		if cfg.Sig.ExcludeBody {
			payload = "UNSIGNED-PAYLOAD"
		} else if op.Mut == "sig-unsigned-payload" {
			// the client decides on its own not to cover the body
			payload = "UNSIGNED-PAYLOAD"
			info.mut = op.Mut
		}
		if op.SendSha {
			w.hdr = append(w.hdr, [2]string{lit.ContentSHA256, payload})
		}
		in := &c06SignInput{lit: lit, keyID: op.SigKey, secret: op.SigSecret, scopes: op.Scopes, at: at, method: w.method, wirePath: w.path, payload: payload}
		in.signed = []string{"host"}
		have := map[string]bool{"host": true}
		for _, n := range op.SignHdr {
			n = strings.ToLower(n)
			if have[n] || n == "authorization" || n == "user-agent" || n == "content-length" {
				continue
			}
			if i, _ := w.header(n); i >= 0 {
				in.signed = append(in.signed, n)
				have[n] = true
			}
		}
		if op.SendSha {
			in.signed = append(in.signed, strings.ToLower(lit.ContentSHA256))
		}
		in.query = append([][2]string(nil), op.Query...)
		// Content-Length is written by the encoder; a client that signs every
		// header it sends (most SDKs) covers it as well
		var clLine [][2]string
		if op.SignCL && w.hasContentLength() {
			clLine = [][2]string{{"Content-Length", fmt.Sprint(len(w.body))}}
			in.signed = append(in.signed, "content-length")
		}
		sep := ", "
		if op.AuthFmt == "nospace" {
			sep = ","
		}
		if op.SigMode == "presign" {
			in.lines = append(append([][2]string(nil), w.hdr...), clLine...)
			_, list := c06CanonHeaders(in.lines, in.signed)
			auth := [][2]string{{lit.AlgorithmName, lit.AlgorithmValue}, {lit.Credential, op.SigKey + "/" + in.scope()},
				{lit.Date, at.UTC().Format("20060102T150405Z")}, {lit.Expires, fmt.Sprint(op.ExpiresS)}, {lit.SignedHeaders, list}}
			in.query = append(in.query, auth...)
			sig, _ := in.sign()
			for _, kv := range auth {
				w.query = append(w.query, c06UriEncode(kv[0], false)+"="+c06UriEncode(kv[1], false))
			}
			w.query = append(w.query, lit.Signature+"="+sig)
		} else {
			w.hdr = append(w.hdr, [2]string{lit.Date, at.UTC().Format("20060102T150405Z")})
			in.signed = append(in.signed, strings.ToLower(lit.Date))
			in.lines = append(append([][2]string(nil), w.hdr...), clLine...)
			sig, list := in.sign()
			w.hdr = append(w.hdr, [2]string{"Authorization", fmt.Sprintf("%s Credential=%s/%s%sSignedHeaders=%s%sSignature=%s", lit.AlgorithmValue, op.SigKey, in.scope(), sep, list, sep, sig)})
		}
		info.signedCL = len(clLine) > 0
		if strings.HasPrefix(op.Mut, "sig-") && op.Mut != "sig-unsigned-payload" {
			if c.mutateSigned(w, op, lit, in.signed) {
				info.mut = op.Mut
			}
		}
	}
	info.sentBody = w.body
	info.wire = w
	info.eff = eff
	return info
}

// c06WireQueryItem writes one query parameter the way a client of the given
// style does; all styles decode to the same name and value.
func c06WireQueryItem(k, v, style string, bare bool) string {
	enc := func(x string) string {
		switch style {
		case "lower":
			e := c06UriEncode(x, false)
			var b strings.Builder
			for i := 0; i < len(e); i++ {
				if e[i] == '%' && i+2 < len(e) {
					b.WriteString(strings.ToLower(e[i : i+3]))
					i += 2
				} else {
					b.WriteByte(e[i])
				}
			}
			return b.String()
		case "plus":
			return strings.ReplaceAll(c06UriEncode(x, false), "%20", "+")
		case "min":
			var b strings.Builder
			for i := 0; i < len(x); i++ {
				c := x[i]
				if c06Unreserved(c) || strings.IndexByte("/:@,?!$'()*[]", c) >= 0 {
					b.WriteByte(c)
				} else {
					b.WriteString(c06UriEncode(string([]byte{c}), false))
				}
			}
			return b.String()
		}
		return c06UriEncode(x, false)
	}
	if bare && v == "" && k != "" {
		return enc(k)
	}
	return enc(k) + "=" + enc(v)
}

func rng06Suffix(n int) string {
	return []string{":zz", ":", ":x:y", ":0"}[n%4]
}

// mutateSigned corrupts exactly one element of an already signed request.
func (c *c06Chain) mutateSigned(w *c06Wire, op *c06Op, lit c06Literal, signed []string) bool {
	isAuthParam := func(item string) bool {
		for _, n := range []string{lit.AlgorithmName, lit.Credential, lit.Date, lit.Expires, lit.SignedHeaders, lit.Signature} {
			if strings.HasPrefix(item, n+"=") {
				return true
			}
		}
		return false
	}
	var plainQ []int
	for i, it := range w.query {
		if !isAuthParam(it) {
			plainQ = append(plainQ, i)
		}
	}
	var signedExtra []string // signed headers other than host, date, content hash
	for _, n := range signed {
		if n != "host" && n != strings.ToLower(lit.Date) && n != strings.ToLower(lit.ContentSHA256) && n != "content-length" {
			signedExtra = append(signedExtra, n)
		}
	}
	sort.Strings(signedExtra)
	n := op.MutN
	setParam := func(name string, f func(string) string) bool {
		for i, it := range w.query {
			if strings.HasPrefix(it, name+"=") {
				w.query[i] = name + "=" + f(it[len(name)+1:])
				return true
			}
		}
		return false
	}
	switch op.Mut {
	case "sig-method":
		ms := []string{"GET", "POST", "PUT", "DELETE", "PATCH", "OPTIONS"}
		m := ms[n%len(ms)]
		if m == w.method {
			m = ms[(n+1)%len(ms)]
		}
		w.method = m
		return true
	case "sig-path":
		switch n % 4 {
		case 0:
			w.path += "x"
		case 1:
			w.path += "/"
		case 2:
			w.path = "/v2" + w.path
		default:
			// change one unreserved letter
			b := []byte(w.path)
			for i := range b {
				j := (i + n/4) % len(b)
				if b[j] >= 'a' && b[j] <= 'y' && (j < 2 || b[j-1] != '%' && b[j-2] != '%') {
					b[j]++
					w.path = string(b)
					return true
				}
			}
			w.path += "y"
		}
		return true
	case "sig-query-val":
		if len(plainQ) == 0 {
			return false
		}
		i := plainQ[n%len(plainQ)]
		w.query[i] += "x"
		return true
	case "sig-query-add":
		w.query = append([]string{"extra=1"}, w.query...)
		return true
	case "sig-query-drop":
		if len(plainQ) == 0 {
			return false
		}
		i := plainQ[n%len(plainQ)]
		w.query = append(w.query[:i:i], w.query[i+1:]...)
		return true
	case "sig-hdr-val":
		if len(signedExtra) == 0 {
			return false
		}
		name := signedExtra[n%len(signedExtra)]
		i, v := w.header(name)
		if i < 0 {
			return false
		}
		if strings.TrimSpace(v) == "" {
			w.hdr[i][1] = "x"
		} else {
			w.hdr[i][1] = strings.TrimRight(v, " ") + "x"
		}
		return true
	case "sig-hdr-extra":
		if len(signedExtra) == 0 {
			return false
		}
		name := signedExtra[n%len(signedExtra)]
		w.hdr = append(w.hdr, [2]string{name, "injected"})
		return true
	case "sig-hdr-drop":
		if len(signedExtra) == 0 {
			return false
		}
		name := signedExtra[n%len(signedExtra)]
		var keep [][2]string
		for _, kv := range w.hdr {
			if !strings.EqualFold(kv[0], name) {
				keep = append(keep, kv)
			}
		}
		w.hdr = keep
		return true
	case "sig-host":
		i, v := w.header("Host")
		if i < 0 {
			return false
		}
		w.hdr[i][1] = "evil-" + v
		return true
	case "sig-unsigned-hdr":
		w.hdr = append(w.hdr, [2]string{"X-Not-Signed", "whatever"})
		return true
	case "sig-signature":
		if op.SigMode == "presign" {
			return setParam(lit.Signature, func(v string) string { return c06FlipHex(v, n) })
		}
		i, v := w.header("Authorization")
		if i < 0 {
			return false
		}
		j := strings.LastIndex(v, "Signature=")
		if j < 0 {
			return false
		}
		w.hdr[i][1] = v[:j+10] + c06FlipHex(v[j+10:], n)
		return true
	case "sig-date":
		shift := func(v string) string {
			t, err := time.Parse("20060102T150405Z", v)
			if err != nil {
				return v + "0"
			}
			d := time.Second
			if n%2 == 1 && t.Second() > 0 {
				d = -time.Second
			}
			// stay on the same day so that the credential date still matches
			t2 := t.Add(d)
			if t2.Day() != t.Day() {
				t2 = t.Add(-d)
			}
			return t2.Format("20060102T150405Z")
		}
		if op.SigMode == "presign" {
			return setParam(lit.Date, shift)
		}
		i, v := w.header(lit.Date)
		if i < 0 {
			return false
		}
		w.hdr[i][1] = shift(v)
		return true
	case "sig-scope", "sig-keyid":
		edit := func(cred string, sep string) string {
			parts := strings.Split(cred, sep)
			if len(parts) < 3 {
				return cred
			}
			if op.Mut == "sig-keyid" {
				for _, k := range c.cfgs[c.gen].Sig.Keys {
					// (the key id is not part of the string to sign: only a key with another secret changes the outcome)
					if k[0] != parts[0] && k[1] != op.SigSecret {
						parts[0] = k[0]
						return strings.Join(parts, sep)
					}
				}
				return cred
			}
			if len(parts) > 3 {
				parts[2] += "2"
			} else {
				parts = []string{parts[0], parts[1], "added", parts[2]}
			}
			return strings.Join(parts, sep)
		}
		if op.SigMode == "presign" {
			ok := false
			setParam(lit.Credential, func(v string) string {
				nv := edit(v, "%2F")
				ok = nv != v
				return nv
			})
			return ok
		}
		i, v := w.header("Authorization")
		if i < 0 {
			return false
		}
		a := strings.Index(v, "Credential=")
		b := strings.Index(v, ", SignedHeaders=")
		if b < 0 {
			b = strings.Index(v, ",SignedHeaders=")
		}
		if a < 0 || b < a {
			return false
		}
		cred := v[a+11 : b]
		nc := edit(cred, "/")
		if nc == cred {
			return false
		}
		w.hdr[i][1] = v[:a+11] + nc + v[b:]
		return true
	case "sig-expires":
		if op.SigMode != "presign" {
			return false
		}
		return setParam(lit.Expires, func(v string) string { return v + "0" })
	case "sig-body-flip":
		if len(w.body) == 0 {
			return false
		}
		b := append([]byte(nil), w.body...)
		b[n%len(b)] ^= byte(1 << (n % 8))
		w.body = b
		return true
	case "sig-body-append":
		w.body = append(append([]byte(nil), w.body...), []byte("<swapped-in-flight>")[:1+n%19]...)
		return true
	case "sig-body-trunc":
		if len(w.body) == 0 {
			return false
		}
		w.body = append([]byte(nil), w.body[:(n%len(w.body))]...)
		return true
	}
	return false
}

// ---- oracle --------------------------------------------------------------

const (
	c06Accept = iota
	c06Reject
	c06Either
)

type c06Judgement struct {
	v   int
	why string
}

type c06Window struct{ sureFrom, sureTo, possFrom, possTo int64 } // unix nanoseconds, inclusive

func c06Open() c06Window {
	return c06Window{math.MinInt64, math.MaxInt64, math.MinInt64, math.MaxInt64}
}

func max64(a, b int64) int64 {
	if a > b {
		return a
	}
	return b
}
func min64(a, b int64) int64 {
	if a < b {
		return a
	}
	return b
}

// judge: the validation instant lies somewhere in [a,b].
func (w c06Window) judge(a, b int64, what string) c06Judgement {
	switch {
	case a >= w.sureFrom && b <= w.sureTo:
		return c06Judgement{c06Accept, ""}
	case b < w.possFrom:
		return c06Judgement{c06Reject, what + "-not-yet-valid"}
	case a > w.possTo:
		return c06Judgement{c06Reject, what + "-expired"}
	}
	return c06Judgement{c06Either, what + "-time-edge"}
}

const c06S = int64(time.Second)

func (c *c06Chain) judgeRules(w *c06Wire) (c06Judgement, bool) {
	firstOnly := false // passes by the documented rule although the first value is bad
	for _, ru := range c.jcfg.Rules {
		var vals []string
		for _, kv := range w.hdr {
			if strings.EqualFold(kv[0], ru.Name) {
				vals = append(vals, strings.TrimSpace(kv[1]))
			}
		}
		if len(vals) == 0 {
			return c06Judgement{c06Reject, "hdr-missing"}, false
		}
		var re *regexp.Regexp
		if ru.Regexp != "" {
			re, _ = regexp.Compile(ru.Regexp)
		}
		good := func(v string) bool {
			for _, x := range ru.Values {
				if x == v {
					return true
				}
			}
			return re != nil && re.MatchString(v)
		}
		any := false
		for _, v := range vals {
			if good(v) {
				any = true
			}
		}
		if !any {
			return c06Judgement{c06Reject, "hdr-bad"}, false
		}
		if !good(vals[0]) {
			firstOnly = true
		}
	}
	return c06Judgement{c06Accept, ""}, firstOnly
}

func (c *c06Chain) judgeJWT(op *c06Op, info *c06Info, a, b int64) c06Judgement {
	cfg := c.jcfg.JWT
	switch {
	case op.JWTMode == "":
		return c06Judgement{c06Reject, "jwt-missing"}
	case info.mut == "jwt-none" || info.mut == "jwt-sig-byte" || info.mut == "jwt-payload-byte" || info.mut == "jwt-alg-foreign":
		return c06Judgement{c06Reject, info.mut}
	case op.JWTAlg != cfg.Alg:
		return c06Judgement{c06Reject, "jwt-alg-not-pinned"}
	case !strings.EqualFold(op.JWTSecret, cfg.Secret):
		return c06Judgement{c06Reject, "jwt-wrong-secret"}
	}
	w := c06Open()
	if op.HasExp {
		w.sureTo = info.expNs() - 1
		w.possTo = info.expNs() + c06S - 1
	}
	if op.HasNbf {
		w.possFrom = info.nbfNs()
		w.sureFrom = info.nbfNs() + 1
		if info.nbfQ != 0 {
			// the same one-second granularity that is granted at exp
			w.possFrom = info.nbfNs() - c06S + 1
		}
	}
	if op.HasIat {
		w.sureFrom = max64(w.sureFrom, info.iatNs())
	}
	j := w.judge(a, b, "jwt")
	if j.v == c06Accept && info.mut == "jwt-bearer-lower" {
		// RFC 7235: the scheme is case-insensitive and followed by one or more spaces
		return c06Judgement{c06Either, info.mut}
	}
	return j
}

var c06SigMuts = map[string]bool{"sig-method": true, "sig-path": true, "sig-query-val": true, "sig-query-add": true, "sig-query-drop": true, "sig-hdr-val": true,
	"sig-hdr-extra": true, "sig-hdr-drop": true, "sig-host": true, "sig-signature": true, "sig-date": true, "sig-scope": true, "sig-keyid": true, "sig-expires": true}
var c06BodyMuts = map[string]bool{"sig-body-flip": true, "sig-body-append": true, "sig-body-trunc": true}

func (c *c06Chain) judgeSig(op *c06Op, info *c06Info, a, b int64) c06Judgement {
	cfg := c.jcfg.Sig
	if op.SigMode == "" {
		return c06Judgement{c06Reject, "sig-missing"}
	}
	known, silent := false, ""
	if !(cfg.NoMap && cfg.Cred[0] != "") {
		for _, k := range cfg.Keys {
			if k[0] == op.SigKey {
				known = true
				if k[1] != op.SigSecret {
					return c06Judgement{c06Reject, "sig-wrong-secret"}
				}
			}
		}
	}
	if !known && cfg.Cred[0] != "" && op.SigKey == cfg.Cred[0] && op.SigSecret == cfg.Cred[1] {
		// the statement does not say whether accessKeyId/accessKeySecret ("used to
		// set credential") is a known access key of the verifier
		known, silent = true, "sig-spec-credential-pair"
	}
	if !known {
		return c06Judgement{c06Reject, "sig-unknown-key"}
	}
	if c06SigMuts[info.mut] {
		return c06Judgement{c06Reject, info.mut}
	}
	if c06BodyMuts[info.mut] && !cfg.ExcludeBody {
		return c06Judgement{c06Reject, info.mut}
	}
	if c06BodyMuts[info.mut] && info.signedCL && len(info.sentBody) != info.signedLen {
		// the body is not covered, but its length is a signed header
		return c06Judgement{c06Reject, "sig-content-length"}
	}
	if info.mut == "sig-unsigned-payload" {
		if len(info.sentBody) > 0 {
			return c06Judgement{c06Reject, info.mut}
		}
		silent = "sig-unsigned-empty-payload"
	}
	if cfg.Aws && cfg.NoPrefix {
		// literal without signingKeyPrefix: the reference says "default is ME", the
		// schema says optional; neither the empty nor the default prefix is asserted
		silent = "sig-literal-without-key-prefix"
	}
	if c.jcfg.Rewrite && c06RewriteRe.MatchString(c06DecodedPath(info.wire.path)) {
		// the server rewrites the path before the pipeline runs: the statement
		// names "the path" without saying whether it is the one sent or the one forwarded
		silent = "sig-path-rewritten-by-server-rule"
	}
	if c.jcfg.Basic != nil && op.BasicOn {
		// a presigned URL together with an Authorization header of another scheme:
		// Signature V4 services answer such a request either way
		silent = "sig-presigned-with-authorization-header"
	}
	w := c06Open()
	d := info.sigDate * c06S
	if t := cfg.ttlNs(); t > 0 {
		w.sureFrom, w.sureTo = d-t+1, d+t-1
		w.possFrom, w.possTo = d-t, d+t
	}
	if op.SigMode == "presign" {
		x := op.ExpiresS * c06S
		w.sureTo = min64(w.sureTo, d+x-1)
		w.possTo = min64(w.possTo, d+x)
	}
	j := w.judge(a, b, "sig")
	if j.v == c06Accept && silent != "" {
		return c06Judgement{c06Either, silent}
	}
	return j
}

// candidateStores returns the states of the credential store that may have
// been in force when the Validator of generation gen evaluated a request inside
// [a,b]: a state counts from the instant its push began until the instant the
// next push had settled. A generation that was closed before the request ended
// may have stopped following the store at that instant.
func (c *c06Chain) candidateStores(rec *c06Rec) [][]c06User {
	lo, hi := rec.tA, rec.tEnd
	if rec.gen >= 0 && rec.gen < len(c.closedAt) {
		if t := c.closedAt[rec.gen]; !t.IsZero() && !t.After(hi) && t.Before(lo) {
			lo = t
		}
	}
	var out [][]c06User
	for j, ep := range c.epochs {
		if ep.start.After(hi) {
			continue
		}
		if j+1 < len(c.epochs) && c.epochs[j+1].settled.Before(lo) {
			continue
		}
		out = append(out, ep.users)
	}
	for _, ep := range c.pending {
		if !ep.start.After(hi) {
			out = append(out, ep.users)
		}
	}
	return out
}

func (c *c06Chain) judgeBasic(op *c06Op, info *c06Info, rec *c06Rec) c06Judgement {
	j := c.judgeBasic1(op, info, rec)
	if j.v == c06Accept && c.initFailed[rec.gen] {
		// outside the quantifier: the credential store could not be read when this
		// generation was created
		return c06Judgement{c06Either, "basic-store-unreadable-at-init"}
	}
	return j
}

func (c *c06Chain) judgeBasic1(op *c06Op, info *c06Info, rec *c06Rec) c06Judgement {
	stores := c.candidateStores(rec)
	var first c06Judgement
	for i, st := range stores {
		j := c.judgeBasicIn(st, op, info)
		if i == 0 {
			first = j
		} else if j.v != first.v {
			return c06Judgement{c06Either, "basic-store-change-in-flight"}
		}
	}
	return first
}

// olderSnapshotExplains: the request was evaluated after several snapshots of
// the credential store had been pushed back to back and the system had
// settled, and what happened to it is what an EARLIER snapshot of that batch
// (not the last one) prescribes.
func (c *c06Chain) olderSnapshotExplains(rec *c06Rec, op *c06Op, info *c06Info, accepted bool) bool {
	n := len(c.epochs)
	if n < 2 {
		return false
	}
	// the newest settled batch before the request
	last := -1
	for j := n - 1; j >= 1; j-- {
		if !c.epochs[j].settled.After(rec.tA) {
			last = j
			break
		}
	}
	if last < 1 {
		return false
	}
	for j := last - 1; j >= 1 && c.epochs[j].settled.Equal(c.epochs[last].settled); j-- {
		if v := c.judgeBasicIn(c.epochs[j].users, op, info).v; v == c06Accept && accepted || v == c06Reject && !accepted {
			return true
		}
	}
	return false
}

func (c *c06Chain) judgeBasicIn(users []c06User, op *c06Op, info *c06Info) c06Judgement {
	if !op.BasicOn {
		return c06Judgement{c06Reject, "basic-missing"}
	}
	if op.BasicForm != "" {
		return c06Judgement{c06Reject, "basic-scheme"}
	}
	switch info.mut {
	case "basic-pass-byte", "basic-colon-suffix", "basic-not-base64", "basic-no-colon", "basic-empty-pass", "basic-hash-as-password":
		return c06Judgement{c06Reject, info.mut}
	}
	for _, u := range users {
		if u.Name == op.BasicUser {
			if u.Pass == op.BasicPass {
				if info.mut == "basic-lower-scheme" || info.mut == "basic-unpadded" {
					// RFC 7235 auth-scheme is case-insensitive and may be followed by several
					// spaces, RFC 7617 asks for padded base64: tolerated or not, both are fine
					return c06Judgement{c06Either, info.mut}
				}
				return c06Judgement{c06Accept, ""}
			}
			return c06Judgement{c06Reject, "basic-wrong-password"}
		}
	}
	return c06Judgement{c06Reject, "basic-unknown-user"}
}

func c06Short(b []byte) string {
	if len(b) > 40 {
		return fmt.Sprintf("%q...(%d bytes)", b[:40], len(b))
	}
	return fmt.Sprintf("%q", b)
}

func (c *c06Chain) describe(op *c06Op, info *c06Info) string {
	cfg := c.jcfg
	if cfg == nil {
		cfg = &c.sc.Cfg
	}
	var m []string
	if len(cfg.Rules) > 0 {
		m = append(m, fmt.Sprintf("headers%v", cfg.Rules))
	}
	if cfg.JWT != nil {
		m = append(m, fmt.Sprintf("jwt{%s cookie=%q}", cfg.JWT.Alg, cfg.JWT.Cookie))
	}
	if cfg.Sig != nil {
		m = append(m, fmt.Sprintf("signature{ttl=%ds excludeBody=%v aws=%v keys=%d}", cfg.Sig.TTLs, cfg.Sig.ExcludeBody, cfg.Sig.Aws, len(cfg.Sig.Keys)))
	}
	if cfg.Basic != nil {
		m = append(m, fmt.Sprintf("basicAuth{%d users}", len(cfg.Basic.Users)))
	}
	w := info.wire
	target := w.path
	if len(w.query) > 0 {
		target += "?" + strings.Join(w.query, "&")
	}
	var hs []string
	for _, kv := range w.hdr {
		v := kv[1]
		if len(v) > 90 {
			v = v[:90] + "..."
		}
		hs = append(hs, kv[0]+": "+v)
	}
	return fmt.Sprintf("[validator %s srvMax=%d] [request %s %s body=%d(signed over %d) chunked=%v | %s] [issuer skew=%dms mut=%q target=%s%+dns jwt(exp=%.2f nbf=%.2f iat=%.2f form=%q) sigdate=%d]",
		strings.Join(m, "+"), cfg.SrvMax, w.method, target, len(w.body), info.signedLen, w.chunked, strings.Join(hs, " | "), op.SkewMs, info.mut, op.Target, op.TargetOffNs, float64(info.expNs())/1e9, float64(info.nbfNs())/1e9, float64(info.iatNs())/1e9, op.NumForm, info.sigDate)
}

var c06RewriteRe = regexp.MustCompile(`^/api/(.*)$`)

func c06DecodedPath(p string) string {
	if d, err := url.PathUnescape(p); err == nil {
		return d
	}
	return p
}

func c06QueryHasSpace(q [][2]string) bool {
	for _, kv := range q {
		if strings.Contains(kv[0], " ") || strings.Contains(kv[1], " ") {
			return true
		}
	}
	return false
}

func c06TagMethod(tags string) string {
	switch {
	case strings.Contains(tags, "header validator:"):
		return "headers"
	case strings.Contains(tags, "JWT validator:"):
		return "jwt"
	case strings.Contains(tags, "signature validator:"):
		return "signature"
	case strings.Contains(tags, "http basic validator:"):
		return "basic"
	}
	return "unknown"
}

// evaluate compares what happened to one request with the reference verdict.
func (c *c06Chain) evaluate(id string, op *c06Op, info *c06Info, rec *c06Rec, res *c06Resp) (verdict int, accepted bool) {
	r := c.r
	if rec.gen < 0 || rec.gen >= len(c.cfgs) {
		rec.gen = 0
	}
	cfg := &c.cfgs[rec.gen]
	c.jcfg = cfg
	desc := c.describe(op, info)
	if rec.panicMsg != "" && strings.Contains(rec.panicMsg, "access key store must be set") && cfg.Sig != nil && cfg.Sig.NoMap {
		r.Violate("C06.sig-verify-panics-without-access-keys", "%s: a signature section with accessKeyId/accessKeySecret but without accessKeys passes the spec validation, then every request makes the handler panic (no 401, the connection is dropped): %s\n%s", id, rec.panicMsg, desc)
		return -1, false
	}
	if rec.panicMsg != "" {
		r.Violate("C06.panic", "%s: handler panicked: %s\n%s", id, rec.panicMsg, desc)
		return -1, false
	}
	if res.frameErr != "" || res.garbage || res.ioErr != nil || !res.complete {
		r.Violate("C06.other", "%s: no well-formed response: status=%d frameErr=%q ioErr=%v\n%s", id, res.status, res.frameErr, res.ioErr, desc)
		return -1, false
	}
	if rec.reached != 1 || rec.ended < 1 {
		r.Violate("C06.other", "%s: request did not reach the pipeline exactly once (reached=%d ended=%d status=%d body=%s)\n%s", id, rec.reached, rec.ended, res.status, c06Short(res.body), desc)
		return -1, false
	}
	a, b := rec.tA.UnixNano(), rec.tEnd.UnixNano()
	if b > a {
		r.Probe("c06.clock_moved_during_validation")
	}

	// --- reference verdict
	var js []c06Judgement
	firstOnly := false
	if len(cfg.Rules) > 0 {
		j, fo := c.judgeRules(info.wire)
		firstOnly = fo
		js = append(js, j)
	}
	if cfg.JWT != nil {
		js = append(js, c.judgeJWT(op, info, a, b))
	}
	if cfg.Sig != nil {
		js = append(js, c.judgeSig(op, info, a, b))
	}
	if cfg.Basic != nil {
		js = append(js, c.judgeBasic(op, info, rec))
	}
	if len(js) == 0 {
		return -1, false
	}
	verdict = c06Accept
	why := ""
	for _, j := range js {
		if j.v == c06Reject {
			verdict, why = c06Reject, j.why
			break
		}
		if j.v == c06Either {
			verdict, why = c06Either, j.why
		}
	}
	stream := cfg.SrvMax < 0

	// --- what happened
	accepted = rec.passed > 0
	at := fmt.Sprintf("validator clock in [%s, %s] (unix %d.%09d); %d other request(s) were inside the Validator at the same time", rec.tA.UTC().Format("15:04:05.000000000"), rec.tEnd.UTC().Format("15:04:05.000000000"), a/c06S, a%c06S, rec.overlap)
	if accepted {
		wantBody := "c06-let-through"
		if info.wire.method == "HEAD" {
			wantBody = ""
		}
		if rec.passed != 1 || rec.invalid != 0 || res.status != 200 || string(res.body) != wantBody {
			r.Violate("C06.inconsistent-outcome", "%s: request was let through %d times, invalid-branch ran %d times, client got %d %s\n%s", id, rec.passed, rec.invalid, res.status, c06Short(res.body), desc)
			return verdict, accepted
		}
	} else {
		if rec.invalid != 1 {
			r.Violate("C06.reject-result", "%s: request was not let through but the Validator's result was not \"invalid\" (invalid-branch ran %d times); client got %d\n%s", id, rec.invalid, res.status, desc)
			return verdict, accepted
		}
		if res.status != 400 && res.status != 401 {
			r.Violate("C06.reject-status", "%s: rejected request answered with %d instead of 401/400 (tags %q)\n%s", id, res.status, rec.tags, desc)
			return verdict, accepted
		}
	}
	bodyCovered := cfg.Sig != nil && !cfg.Sig.ExcludeBody && op.SigMode != ""
	switch {
	case stream:
		// outside the quantifier: probes only
		r.Probe("c06.stream_mode_request")
		if accepted && !bytes.Equal(rec.fwdBody, info.sentBody) {
			r.Probe("c06.stream_mode_accepted_but_forwarded_body_differs")
		}
		if verdict == c06Accept && !accepted {
			r.Probe("c06.stream_mode_valid_rejected")
		}
		if verdict == c06Reject && accepted {
			r.Probe("c06.stream_mode_invalid_accepted")
		}
		return -1, accepted
	case verdict == c06Either:
		r.Probe("c06.edge_both_answers." + why)
	case verdict == c06Accept && !accepted:
		m := c06TagMethod(rec.tags)
		class := "C06.valid-rejected." + m
		switch {
		case m == "signature" && strings.Contains(rec.tags, "verification failed") && c06QueryHasSpace(op.Query):
			// every other part of such requests verifies: the canonical query of
			// Signature V4 writes a space as %20
			class = "C06.sig-query-space-not-v4"
		case m == "signature" && bodyCovered && len(info.sentBody) > 0 && strings.Contains(rec.tags, "verification failed"):
			class = "C06.sig-body-not-covered"
		case m == "basic" && c.olderSnapshotExplains(rec, op, info, accepted):
			class = "C06.basic-older-snapshot-wins"
		case m == "basic" && strings.Contains(op.BasicPass, ":"):
			class = "C06.basic-password-colon-rejected"
		case m == "headers" && firstOnly:
			class = "C06.header-rule-first-value-only"
		}
		r.Violate(class, "%s: request with valid credentials was rejected with %d; validator said %q; %s\n%s", id, res.status, rec.tags, at, desc)
	case verdict == c06Reject && accepted:
		class := "C06.invalid-accepted." + why
		switch {
		case c06BodyMuts[why]:
			class = "C06.sig-body-swap-accepted"
		case why == "basic-colon-suffix":
			class = "C06.basic-colon-suffix-accepted"
		case strings.HasPrefix(why, "basic-") && c.olderSnapshotExplains(rec, op, info, accepted):
			class = "C06.basic-older-snapshot-wins"
		}
		r.Violate(class, "%s: request that must be rejected (%s) was let through; %s\n%s", id, why, at, desc)
	}
	if accepted && !bytes.Equal(rec.fwdBody, info.sentBody) {
		r.Violate("C06.forwarded-body-differs", "%s: let through, but the payload that would be forwarded is %s while %s was sent\n%s", id, c06Short(rec.fwdBody), c06Short(info.sentBody), desc)
	}
	return verdict, accepted
}

// ---- executor --------------------------------------------------------------

func c06Exec(r *sim.Run, sci interface{}) {
	sc := sci.(*c06Scenario)
	cfg := &sc.Cfg
	n := 0
	for _, cl := range sc.Clients {
		n += len(cl.Ops)
	}
	if n == 0 || (len(cfg.Rules) == 0 && cfg.JWT == nil && cfg.Sig == nil && cfg.Basic == nil) {
		return
	}
	if cfg.Sig != nil && len(cfg.Sig.Keys) == 0 {
		return
	}
	if cfg.Basic != nil && len(cfg.Basic.Users) == 0 {
		return
	}
	for _, ru := range cfg.Rules {
		if len(ru.Values) == 0 && ru.Regexp == "" {
			return
		}
	}
	r.MultiClass = true
	time.Sleep(time.Duration(cfg.OffsetUs) * time.Microsecond)
	c, err := c06NewChain(r, sc)
	if err != nil {
		r.Violate("C06.setup", "%v", err)
		return
	}
	c06Cur = c
	defer func() {
		c.close()
		c06Cur = nil
	}()
	var sig []string
	nAcc, nRej := 0, 0
	for ci := range sc.Clients {
		ci := ci
		r.Go(fmt.Sprintf("client%d", ci), func() {
			var conn *c06Conn
			for oi := range sc.Clients[ci].Ops {
				if r.Aborted() {
					break
				}
				op := &sc.Clients[ci].Ops[oi]
				id := fmt.Sprintf("c%do%d", ci, oi)
				rec := &c06Rec{id: id}
				c.recs[id] = rec
				r.Sleep(time.Duration(op.GapUs) * time.Microsecond)
				info := c.issue(id, op)
				// wait for the drawn instant on the validator's clock
				var boundary int64
				ok := false
				switch op.Target {
				case "exp":
					boundary, ok = info.expNs(), op.JWTMode != "" && op.HasExp
				case "nbf":
					boundary, ok = info.nbfNs(), op.JWTMode != "" && op.HasNbf
				case "ttlhi":
					if cfg.Sig != nil && op.SigMode != "" {
						boundary, ok = info.sigDate*c06S+cfg.Sig.ttlNs(), cfg.Sig.TTLs > 0
					}
				case "ttllo":
					if cfg.Sig != nil && op.SigMode != "" {
						boundary, ok = info.sigDate*c06S-cfg.Sig.ttlNs(), cfg.Sig.TTLs > 0
					}
				case "presign":
					boundary, ok = (info.sigDate+op.ExpiresS)*c06S, op.SigMode == "presign" && cfg.Sig != nil
				}
				if ok {
					if d := time.Duration(boundary + op.TargetOffNs - time.Now().UnixNano()); d > 0 && d < 72*time.Hour {
						r.Sleep(d)
					}
				}
				res := c.do(&conn, ci, rec, info.wire, op.NewConn)
				op = &info.eff
				v, acc := c.evaluate(id, op, info, rec, res)
				r.Eventf("%s: %s %s mut=%q target=%s%+d -> status=%d let-through=%v verdict=%d at=%v", id, info.wire.method, info.wire.path, info.mut, op.Target, op.TargetOffNs, res.status, acc, v, r.Now())
				if v == c06Accept || v == c06Reject {
					if acc {
						nAcc++
					} else {
						nRej++
					}
				}
				c.probes(op, info, rec, v, acc)
				sig = append(sig, fmt.Sprintf("%s/%s/%s/%s/%s%d/%d/%v", op.JWTMode, op.SigMode, map[bool]string{true: "b"}[op.BasicOn], info.mut, op.Target, op.TargetOffNs, v, acc))
			}
			if conn != nil {
				conn.c.Close()
			}
		})
	}
	if len(sc.Events) > 0 {
		r.Go("admin", func() {
			gens, pushes := 0, 0
			chained := map[int]bool{}
			for ei := range sc.Events {
				ev := &sc.Events[ei]
				if r.Aborted() {
					return
				}
				if chained[ei] {
					continue // was made together with the preceding push
				}
				gap := ev.GapUs
				if gap < 0 || gap > 60_000_000 {
					gap = 0
				}
				r.Sleep(time.Duration(gap) * time.Microsecond)
				switch ev.Kind {
				case "gen":
					if gens >= 3 {
						continue
					}
					gens++
					next := c06ApplyEdit(c.cfgs[c.gen], ev)
					r.Probe("c06.gen.change." + ev.Edit)
					if c.newGeneration(next) != nil {
						return
					}
					sig = append(sig, "G"+ev.Edit)
				case "push":
					if cfg.Basic == nil || pushes >= 4 {
						continue
					}
					pushes++
					states := [][]c06User{c06ApplyPush(c.users, ev)}
					r.Probe("c06.store.push." + ev.Op)
					sig = append(sig, "P"+ev.Op)
					for j := ei + 1; j < len(sc.Events) && sc.Events[j].Kind == "push" && sc.Events[j].Chain && pushes < 4; j++ {
						pushes++
						chained[j] = true
						states = append(states, c06ApplyPush(states[len(states)-1], &sc.Events[j]))
						r.Probe("c06.store.push." + sc.Events[j].Op)
						sig = append(sig, "Pc"+sc.Events[j].Op)
					}
					if len(states) > 1 {
						r.Probe("c06.store.snapshots_back_to_back")
					}
					c.pushAll(states)
				}
			}
		})
	}
	r.WaitTasks()
	if nAcc > 0 && nRej > 0 {
		r.Nontrivial()
	}
	sort.Strings(sig)
	r.SetSig(fmt.Sprintf("%v|%v|%v|%v|%s", len(cfg.Rules), cfg.JWT != nil, cfg.Sig != nil, cfg.Basic != nil, strings.Join(sig, ";")))
}

func (c *c06Chain) probes(op *c06Op, info *c06Info, rec *c06Rec, v int, acc bool) {
	r := c.r
	cfg := c.jcfg
	if v < 0 || cfg == nil {
		return
	}
	base := &c.sc.Cfg
	if rec.gen > 0 {
		r.Probe("c06.gen.request_handled_by_later_generation")
	}
	if cfg.Sig != nil && base.Sig != nil && op.SigMode != "" && v != c06Either {
		for _, k := range base.Sig.Keys {
			if k[0] != op.SigKey {
				continue
			}
			for _, k2 := range cfg.Sig.Keys {
				if k2[0] == op.SigKey && k2[1] != k[1] {
					if acc && op.SigSecret == k2[1] {
						r.Probe("c06.gen.sig_accepted_with_rotated_secret_same_key_id")
					}
					if !acc && op.SigSecret == k[1] {
						r.Probe("c06.gen.sig_rejected_old_secret_after_rotation")
					}
				}
			}
		}
	}
	if cfg.JWT != nil && base.JWT != nil && op.JWTMode != "" && v != c06Either && (cfg.JWT.Secret != base.JWT.Secret || cfg.JWT.Alg != base.JWT.Alg) {
		if acc {
			r.Probe("c06.gen.jwt_accepted_under_changed_secret_or_alg")
		} else if op.JWTSecret == base.JWT.Secret && op.JWTAlg == base.JWT.Alg {
			r.Probe("c06.gen.jwt_rejected_old_secret_or_alg_after_change")
		}
	}
	if cfg.Basic != nil && op.BasicOn && v != c06Either {
		// which store state decided, and did a generation change precede that push?
		st := c.candidateStores(rec)
		if len(st) == 1 {
			for j := len(c.epochs) - 1; j >= 1; j-- {
				ep := c.epochs[j]
				if !ep.settled.After(rec.tA) {
					r.Probe("c06.store.request_after_settled_push")
					if ep.afterGen >= 1 && rec.gen >= ep.afterGen {
						r.Probe("c06.seq.generation_change_then_store_push_then_request")
						if acc {
							r.Probe("c06.seq.generation_change_then_store_push_then_request.accepted")
						} else if info.mut == "" && op.BasicForm == "" {
							r.Probe("c06.seq.generation_change_then_store_push_then_request.rejected_clean_credentials")
						}
					}
					break
				}
			}
		}
	}
	if v == c06Either && cfg.Basic != nil && op.BasicOn && len(c.candidateStores(rec)) > 1 {
		r.Probe("c06.store.request_overlaps_push")
	}
	if acc {
		r.Probe("c06.let_through")
	} else {
		r.Probe("c06.rejected")
	}
	if info.mut != "" {
		r.Probe("c06.mut." + info.mut)
	}
	c.probesWide(op, info, rec, v, acc)
	a := rec.tA.UnixNano()
	if rec.tA.Equal(rec.tEnd) && info.mut == "" {
		// exactly-on-boundary instants really reached (validator clock did not move during validation)
		if op.JWTMode != "" && op.HasExp {
			switch a - info.expNs() {
			case -1:
				r.Probe("c06.exact.now_is_exp_minus_1ns")
			case 0:
				r.Probe("c06.exact.now_is_exp")
			case c06S - 1:
				r.Probe("c06.exact.now_is_exp_plus_1s_minus_1ns")
			case c06S:
				r.Probe("c06.exact.now_is_exp_plus_1s")
			}
		}
		if op.JWTMode != "" && op.HasNbf {
			switch a - info.nbfNs() {
			case -1:
				r.Probe("c06.exact.now_is_nbf_minus_1ns")
			case 0:
				r.Probe("c06.exact.now_is_nbf")
			case 1:
				r.Probe("c06.exact.now_is_nbf_plus_1ns")
			}
		}
		if op.SigMode != "" && cfg.Sig != nil && cfg.Sig.TTLs > 0 {
			switch a - info.sigDate*c06S - cfg.Sig.ttlNs() {
			case -1:
				r.Probe("c06.exact.age_is_ttl_minus_1ns")
			case 0:
				r.Probe("c06.exact.age_is_ttl")
			case 1:
				r.Probe("c06.exact.age_is_ttl_plus_1ns")
			}
			switch a - info.sigDate*c06S + cfg.Sig.ttlNs() {
			case -1:
				r.Probe("c06.exact.age_is_minus_ttl_minus_1ns")
			case 0:
				r.Probe("c06.exact.age_is_minus_ttl")
			case 1:
				r.Probe("c06.exact.age_is_minus_ttl_plus_1ns")
			}
		}
		if op.SigMode == "presign" && cfg.Sig != nil {
			switch a - info.sigDate*c06S - op.ExpiresS*c06S {
			case 0:
				r.Probe("c06.exact.age_is_expires")
			case 1:
				r.Probe("c06.exact.age_is_expires_plus_1ns")
			}
		}
	}
	if op.JWTMode != "" && cfg.JWT != nil && op.HasExp && v != c06Either {
		switch d := a - info.expNs(); {
		case d < 0 && d >= -c06S && acc:
			r.Probe("c06.jwt.accepted_within_1s_before_exp")
		case d >= c06S && d < 2*c06S+1 && !acc:
			r.Probe("c06.jwt.rejected_within_1s_after_exp_edge")
		}
	}
	if op.JWTMode != "" && cfg.JWT != nil && op.HasNbf && v != c06Either {
		switch d := a - info.nbfNs(); {
		case d > 0 && d <= c06S && acc:
			r.Probe("c06.jwt.accepted_within_1s_after_nbf")
		case d < 0 && d >= -c06S && !acc:
			r.Probe("c06.jwt.rejected_within_1s_before_nbf")
		}
	}
	if op.SigMode != "" && cfg.Sig != nil && cfg.Sig.TTLs > 0 && v != c06Either {
		age := a - info.sigDate*c06S
		t := cfg.Sig.ttlNs()
		switch {
		case age > t-c06S && age < t && acc:
			r.Probe("c06.sig.accepted_within_1s_before_ttl")
		case age > t && age <= t+c06S && !acc:
			r.Probe("c06.sig.rejected_within_1s_after_ttl")
		case age < 0 && age > -t && acc:
			r.Probe("c06.sig.future_dated_within_ttl_accepted")
		case age < -t && !acc:
			r.Probe("c06.sig.future_dated_beyond_ttl_rejected")
		}
	}
	if op.SigMode == "presign" && cfg.Sig != nil && v != c06Either {
		age := a - info.sigDate*c06S
		x := op.ExpiresS * c06S
		switch {
		case age < x && age > x-c06S && acc:
			r.Probe("c06.presign.accepted_within_1s_before_expiry")
		case age > x && !acc && info.mut == "":
			r.Probe("c06.presign.rejected_after_expiry")
		}
	}
	if op.SigMode != "" && cfg.Sig != nil && acc {
		if len(info.sentBody) > 0 && !cfg.Sig.ExcludeBody {
			r.Probe("c06.sig.accepted_with_signed_nonempty_body")
		}
		if strings.Contains(info.wire.path, "%") {
			r.Probe("c06.sig.accepted_path_with_escapes")
		}
		if len(op.Query) > 1 {
			r.Probe("c06.sig.accepted_multi_param_query")
		}
		if len(op.SignHdr) > 0 {
			r.Probe("c06.sig.accepted_with_extra_signed_headers")
		}
		if cfg.Sig.Aws {
			r.Probe("c06.sig.accepted_custom_literals")
		}
	}
	if op.SigMode != "" && len(info.sentBody) > 0 {
		if cfg.Seg > 0 {
			r.Probe("c06.body.segmented_on_the_wire")
		}
		if info.wire.chunked {
			r.Probe("c06.body.chunked")
		}
	}
	n := 0
	if len(cfg.Rules) > 0 {
		n++
	}
	if cfg.JWT != nil {
		n++
	}
	if cfg.Sig != nil {
		n++
	}
	if cfg.Basic != nil {
		n++
	}
	if n >= 2 && acc {
		r.Probe("c06.multi_method_all_passed")
	}
	if op.BasicOn && acc && strings.Trim(op.BasicUser+op.BasicPass, c06Alnum+"!#$%&*()-_=+.@: ") != "" {
		r.Probe("c06.basic.accepted_non_ascii_credentials")
	}
	if op.BasicOn && strings.Contains(op.BasicPass, ":") {
		r.Probe("c06.basic.password_with_colon")
	}
	if op.JWTMode == "cookie" && acc {
		r.Probe("c06.jwt.accepted_from_cookie")
	}
	if op.SkewMs != 0 && acc {
		r.Probe("c06.accepted_with_clock_skew")
	}
}

// probesWide: the ordinary request shapes and configuration options of the
// second widening (what is reached, and with which outcome where the verdict is open).
func (c *c06Chain) probesWide(op *c06Op, info *c06Info, rec *c06Rec, v int, acc bool) {
	r := c.r
	cfg := c.jcfg
	out := map[bool]string{true: "accepted", false: "rejected"}[acc]
	clean := info.mut == "" && v == c06Accept && acc
	if info.wire.method == "HEAD" {
		r.Probe("c06.method.head_" + out)
	}
	if rec.overlap > 0 {
		r.Probe("c06.conc.requests_overlap_inside_validator")
		if cfg.Sig != nil && op.SigMode != "" {
			r.Probe("c06.conc.signed_requests_overlap_inside_validator_" + out)
		}
	}
	if strings.HasPrefix(op.Host, "[") && acc {
		r.Probe("c06.host.ipv6_literal_accepted")
	}
	if op.Expect && len(info.sentBody) > 0 {
		r.Probe("c06.body.expect_100_continue_" + out)
	}
	if clean {
		for _, ru := range cfg.Rules {
			if ru.Name != http.CanonicalHeaderKey(ru.Name) {
				r.Probe("c06.hdr.rule_name_not_canonical_passed")
			}
			for _, kv := range info.wire.hdr {
				if strings.EqualFold(kv[0], ru.Name) && strings.TrimSpace(kv[1]) == "" {
					r.Probe("c06.hdr.allowed_empty_value_passed")
				}
			}
		}
	}
	if cfg.JWT != nil && op.JWTMode != "" && op.NumForm != "" && v == c06Reject && !acc && info.mut == "" {
		if info.expQ+info.nbfQ > 0 || op.NumForm == "sci" {
			r.Probe("c06.jwt.non_integer_or_exponent_numericdate_token_rejected_by_time")
		}
	}
	if cfg.JWT != nil && info.mut == "jwt-bearer-lower" {
		r.Probe("c06.jwt.bearer_scheme_variant_" + out)
	}
	if cfg.JWT != nil && op.JWTMode != "" && clean {
		if cfg.JWT.Secret != strings.ToLower(cfg.JWT.Secret) {
			r.Probe("c06.jwt.upper_case_hex_secret_accepted")
		}
		if op.JWTExtra {
			r.Probe("c06.jwt.extra_claims_and_kid_accepted")
		}
		if op.JWTMode == "cookie" && op.CookiePos != "" {
			r.Probe("c06.jwt.cookie_" + op.CookiePos + "_accepted")
		}
		if info.otherCookies {
			r.Probe("c06.jwt.bearer_accepted_beside_unrelated_cookies")
		}
		if op.NumForm != "" {
			r.Probe("c06.jwt.numericdate_" + op.NumForm + "_accepted")
		}
	}
	if s := cfg.Sig; s != nil && op.SigMode != "" {
		if c06QueryHasSpace(op.Query) && info.mut == "" && v == c06Accept {
			r.Probe("c06.sig.query_with_space_valid_" + out)
		}
		if clean {
			if op.QStyle != "" && len(op.Query) > 0 {
				r.Probe("c06.sig.query_wire_style_" + op.QStyle + "_accepted")
			}
			for _, it := range info.wire.query {
				if !strings.Contains(it, "=") {
					r.Probe("c06.sig.query_bare_parameter_accepted")
					break
				}
			}
			if info.signedCL {
				r.Probe("c06.sig.signed_content_length_accepted")
			}
			if op.AuthFmt == "nospace" && op.SigMode == "header" {
				r.Probe("c06.sig.authorization_without_spaces_accepted")
			}
			if s.TTLFracMs > 0 && s.TTLs > 0 {
				r.Probe("c06.sig.fractional_ttl_accepted")
			}
			if s.TTLForm == "go" && s.TTLs > 0 {
				r.Probe("c06.sig.ttl_written_as_go_duration_accepted")
			}
			if s.SignOpts {
				r.Probe("c06.sig.ignored_headers_and_hoisting_configured_accepted")
				for _, n := range op.SignHdr {
					if n == "x-custom-a" || n == "content-type" || n == "accept" {
						r.Probe("c06.sig.signed_header_listed_as_ignored_accepted")
						break
					}
				}
			}
			if s.Cred[0] != "" && op.SigKey != s.Cred[0] {
				r.Probe("c06.sig.spec_credential_pair_configured_accepted")
			}
		}
		if s.Cred[0] != "" && op.SigKey == s.Cred[0] && info.mut == "" {
			r.Probe("c06.sig.signed_with_spec_credential_pair_" + out)
		}
		if s.NoMap && s.Cred[0] != "" {
			r.Probe("c06.sig.no_access_keys_map_" + out)
		}
		if s.Aws && s.NoPrefix && v == c06Either {
			r.Probe("c06.sig.literal_without_key_prefix.client_uses_" + map[bool]string{true: "documented_default", false: "empty"}[op.LitDocPrefix] + "_" + out)
		}
		if cfg.Basic != nil && op.BasicOn && v == c06Either {
			r.Probe("c06.sig.presigned_plus_basic_header_" + out)
		}
		if cfg.Rewrite && v == c06Either && c06RewriteRe.MatchString(c06DecodedPath(info.wire.path)) {
			r.Probe("c06.sig.path_rewritten_before_validation_" + out)
		}
	}
	if cfg.Rewrite && clean && cfg.Sig == nil && c06RewriteRe.MatchString(c06DecodedPath(info.wire.path)) {
		r.Probe("c06.rewritten_path_other_methods_accepted")
	}
	if cfg.Basic != nil && c.initFailed[rec.gen] && v == c06Either && info.mut == "" {
		r.Probe("c06.basic.store_unreadable_at_init.request_" + out)
	}
	if b := cfg.Basic; b != nil && op.BasicOn {
		if clean {
			for _, u := range c.users {
				if u.Name == op.BasicUser {
					r.Probe("c06.basic.store_" + u.Store + "_accepted")
					if u.KeyOnly {
						r.Probe("c06.basic.entry_without_username_accepted")
					}
				}
			}
			if b.Prefix != "" {
				r.Probe("c06.basic.prefix_" + b.Prefix + "_accepted")
			}
			if b.Junk > 0 {
				r.Probe("c06.basic.malformed_entries_in_store_accepted")
			}
		}
		if info.mut == "basic-lower-scheme" || info.mut == "basic-unpadded" {
			r.Probe("c06.basic." + info.mut + "_" + out)
		}
	}
}

// c06Shrink proposes simpler variants of a failing scenario (the driver
// itself only deletes array elements).
func c06Shrink(sci interface{}) []interface{} {
	sc := sci.(*c06Scenario)
	var out []interface{}
	clone := func() *c06Scenario {
		b, _ := json.Marshal(sc)
		n := &c06Scenario{}
		json.Unmarshal(b, n)
		return n
	}
	cfgEdits := []func(*c06Cfg) bool{
		func(c *c06Cfg) bool { ok := c.JWT != nil; c.JWT = nil; return ok },
		func(c *c06Cfg) bool { ok := c.Sig != nil; c.Sig = nil; return ok },
		func(c *c06Cfg) bool { ok := c.Basic != nil; c.Basic = nil; return ok },
		func(c *c06Cfg) bool { ok := c.Seg != 0; c.Seg = 0; return ok },
		func(c *c06Cfg) bool { ok := c.OffsetUs != 0; c.OffsetUs = 0; return ok },
		func(c *c06Cfg) bool { ok := c.DelayUs != 0; c.DelayUs = 0; return ok },
		func(c *c06Cfg) bool {
			ok := c.Sig != nil && c.Sig.Aws
			if ok {
				c.Sig.Aws = false
			}
			return ok
		},
		func(c *c06Cfg) bool {
			ok := c.Sig != nil && c.Sig.TTLs != 0
			if ok {
				c.Sig.TTLs = 0
			}
			return ok
		},
		func(c *c06Cfg) bool { ok := c.Rewrite; c.Rewrite = false; return ok },
		func(c *c06Cfg) bool {
			ok := c.Sig != nil && (c.Sig.TTLFracMs != 0 || c.Sig.TTLForm != "")
			if ok {
				c.Sig.TTLFracMs, c.Sig.TTLForm = 0, ""
			}
			return ok
		},
		func(c *c06Cfg) bool {
			ok := c.Sig != nil && c.Sig.SignOpts
			if ok {
				c.Sig.SignOpts = false
			}
			return ok
		},
		func(c *c06Cfg) bool {
			ok := c.Sig != nil && c.Sig.Cred[0] != "" && !c.Sig.NoMap
			if ok {
				c.Sig.Cred = [2]string{}
			}
			return ok
		},
		func(c *c06Cfg) bool {
			ok := c.Basic != nil && (c.Basic.Junk != 0 || c.Basic.Prefix != "")
			if ok {
				c.Basic.Junk, c.Basic.Prefix = 0, ""
			}
			return ok
		},
		func(c *c06Cfg) bool {
			ok := false
			if c.Basic != nil {
				for i := range c.Basic.Users {
					u := &c.Basic.Users[i]
					if u.KeyOnly || (u.Store != "sha" && u.Store != "plain") {
						u.KeyOnly, u.Store, ok = false, "sha", true
					}
				}
			}
			return ok
		},
	}
	for _, e := range cfgEdits {
		n := clone()
		if e(&n.Cfg) {
			out = append(out, n)
		}
	}
	opEdits := []func(*c06Op) bool{
		func(o *c06Op) bool { ok := o.Path != "/"; o.Path = "/"; return ok },
		func(o *c06Op) bool { ok := o.Host != "front.example:10080"; o.Host = "front.example:10080"; return ok },
		func(o *c06Op) bool { ok := o.SkewMs != 0; o.SkewMs = 0; return ok },
		func(o *c06Op) bool { ok := o.GapUs != 0; o.GapUs = 0; return ok },
		func(o *c06Op) bool {
			ok := o.SigMode == "presign"
			if ok {
				o.SigMode = "header"
			}
			return ok
		},
		func(o *c06Op) bool {
			ok := o.BodyLen > 3
			if ok {
				o.BodyLen = 3
			}
			return ok
		},
		func(o *c06Op) bool { ok := o.BodyBin; o.BodyBin = false; return ok },
		func(o *c06Op) bool { ok := o.Chunked; o.Chunked = false; return ok },
		func(o *c06Op) bool { ok := o.Method != "POST"; o.Method = "POST"; return ok },
		func(o *c06Op) bool { ok := o.HasIat; o.HasIat = false; return ok },
		func(o *c06Op) bool {
			ok := o.HasNbf && o.Target != "nbf"
			if ok {
				o.HasNbf = false
			}
			return ok
		},
		func(o *c06Op) bool { ok := o.SendSha; o.SendSha = false; return ok },
		func(o *c06Op) bool {
			ok := o.QStyle != "" || o.QBare
			o.QStyle, o.QBare = "", false
			return ok
		},
		func(o *c06Op) bool {
			ok := o.SignCL || o.AuthFmt != "" || o.Expect
			o.SignCL, o.AuthFmt, o.Expect = false, "", false
			return ok
		},
		func(o *c06Op) bool {
			ok := o.CookiePos != "" || o.JWTExtra || o.OtherCookies
			o.CookiePos, o.JWTExtra, o.OtherCookies = "", false, false
			return ok
		},
		func(o *c06Op) bool { ok := o.MutN != 0; o.MutN = 0; return ok },
	}
	for ci := range sc.Clients {
		for oi := range sc.Clients[ci].Ops {
			for _, e := range opEdits {
				n := clone()
				if e(&n.Clients[ci].Ops[oi]) {
					out = append(out, n)
				}
			}
		}
	}
	return out
}

func TestVerifC06(t *testing.T) {
	hdrv.Main(t, &hdrv.Harness{
		ID: "C06", Gen: c06Gen, New: func() interface{} { return &c06Scenario{} }, Exec: c06Exec, Shrink: c06Shrink, MaxSteps: 400000,
		Rule: "scenario = Validator configuration (header rules with names in any case and optionally an allowed empty value / jwt HS256-512 with cookie or bearer, secret hex in either case / signature with 1-3 access keys, ttl (whole or fractional seconds, written as Ns, Nms or Go duration), excludeBody, default or AWS literals (optionally without signingKeyPrefix), optional accessKeyId/accessKeySecret pair (rarely without accessKeys), optional ignoredHeaders+headerHoisting / basicAuth users incl. ':' and non-ASCII stored as {SHA}, apr1, bcrypt, {SSHA} or plain, with or without username in the etcd entry, etcdPrefix plain / with leading slash / defaulted, malformed entries and a decoy list under another prefix; combinations incl. presigned URL + Basic) + server knobs (stream mode, a rewriteTarget rule) + wire knobs (segmentation, latency, chunked bodies up to 64 KiB, Expect: 100-continue) + 1-3 raw clients x 1-6 requests (GET/POST/PUT/DELETE/PATCH/OPTIONS/HEAD, host names incl. IPv6 literals, queries incl. spaces, PHP-style and non-ASCII names, four wire encodings of the query, signed Content-Length, Authorization parameters with or without spaces), each issued by the independent issuer on a skewed clock, delivered at a drawn instant (often exactly on/next to exp, nbf, date±ttl, date+expires) and in ~40% of the cases with exactly one defect (wrong alg/secret/key, expired/not-yet-valid, or one covered element corrupted after signing: method, path, query, signed header, host, body, signature, date, scope, key id, token byte, password byte); " +
			"0-3 admin events per run: pipeline generation change via Pipeline.Inherit (spec same / signature secret of one key id / jwt secret / jwt alg / ttl changed) and basicAuth credential-store pushes (remove/replace/add) through the syncer, clients optionally following the configuration in force; " +
			"non-trivial = at least one request with a definite verdict was let through and one rejected in the same run; distinct = distinct (methods configured, per-request credential kinds/mutation/target/verdict/outcome) signatures",
		Real: []string{"net/http.Server + pkg/object/httpserver mux (serveHTTP, FetchPayload)", "pkg/object/pipeline (flow, jumpIf)", "pkg/filters/validator (Validator, JWTValidator, BasicAuthValidator in ETCD mode)",
			"pkg/util/signer (Verify)", "pkg/protocols/httpprot (+httpheader validator)", "golang-jwt, go-htpasswd as linked"},
		Stub: []string{"network: simnet", "clients: raw HTTP/1.1 writer + strict response parser", "issuer: own JWT writer, own Signature-V4 signer, own Basic encoder (harness)",
			"basicAuth credential store: clustertest.MockedCluster (ETCD mode; FILE mode needs inotify and is not exercised); its syncer delivers only the keys under the prefix the watcher asked for", "recording taps before/after the Validator (harness filter kind C06Tap)"},
		Assumptions: []string{"edges accept both answers: exp<=now<exp+1s, now==nbf, iat in the validator's future, |now-date|==ttl, now-date==expires, and any edge crossed while the request was inside the handler",
			"rejection status may be 400 or 401", "NumericDate claims may be integers, decimal fractions or exponent notation; with a fractional nbf the second before it accepts both answers",
			"statement gates inside validator.go and signer.go (a quarter of the runs): requests of different content overlap inside one Validator generation; each is judged by its own credentials and by the clock interval [tap before the Validator, end of the handler]", "queries contain no ';', paths no dot/empty segments or lower-case escapes; only queries whose order is the same before and after URI-encoding",
			"host and the date header are always signed; Authorization/User-Agent never; Content-Length when the client signs every header", "methods needing the same Authorization header are not combined (signature+basicAuth only as presigned URL + Basic header, both answers accepted when valid for both); oauth2 is not exercised",
			"a space in the query is canonicalised as %20 (Signature V4); the wire encoding of the query never matters",
			"both answers (probes only): request signed with the spec's accessKeyId/accessKeySecret pair; literal without signingKeyPrefix; scheme word in another case or followed by two spaces, unpadded base64; UNSIGNED-PAYLOAD signed over an empty body; signed path rewritten by the server's rewriteTarget; generation whose first read of the credential store failed",
			"a signature section without accessKeys knows no key: every request must be rejected with invalid + 401/400",
			"excludeBody: body corruption is expected to be accepted", "stream mode (clientMaxBodySize -1) only through probes",
			"credential-store changes may come back to back: until the system is quiescent after the last one every snapshot of the batch is a valid reference, afterwards only the last one", "credential-store change: from the beginning of a push until the system was quiescent after it both stores are valid references; a generation closed while a request is inside it may have stopped following the store",
			"a request is judged by the Validator configuration of the pipeline generation whose handler the mux obtained for it", "the front server has no idle timeout (clients replace connections idle for 30 s themselves)"},
	})
}
