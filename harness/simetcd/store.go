//go:build go1.22

package zzsimetcd

// store.go — the single-copy MVCC model behind simetcd (see the README comment
// at the top of server.go). No gRPC in this file: the Store can also be driven
// directly by a harness ("another member wrote this").

import (
	"bytes"
	"sort"
	"sync"
	"time"

	pb "go.etcd.io/etcd/api/v3/etcdserverpb"
	"go.etcd.io/etcd/api/v3/mvccpb"
	"go.etcd.io/etcd/api/v3/v3rpc/rpctypes"
)

// MaxLeaseTTL is etcd's upper bound for lease TTLs (seconds).
const MaxLeaseTTL = 9000000000

// MaxTxnOps is etcd's default --max-txn-ops.
const MaxTxnOps = 128

// RevRecord is everything that happened in one revision.
type RevRecord struct {
	Rev    int64
	Events []*mvccpb.Event // in apply order; PrevKv is always filled (nil for creations)
	At     time.Time       // clock reading when the revision was applied
	Cause  string          // "put", "delete", "txn", "lease-expire", "lease-revoke"
}

type lease struct {
	id      int64
	ttl     int64 // granted TTL, seconds
	expiry  time.Time
	keys    map[string]struct{}
	timer   *time.Timer
	revoked bool
}

// Store is the durable state of the simulated etcd: a linearizable, never
// failing key-value store with revisions, history, compaction and leases.
// All methods are safe for concurrent use; none blocks.
type Store struct {
	mu         sync.Mutex
	rev        int64
	compactRev int64
	compacted  bool
	cur        map[string]*mvccpb.KeyValue
	log        []*RevRecord // complete history, never truncated (Compact only moves compactRev)
	leases     map[int64]*lease
	nextLease  int64
	subs       map[int]func()
	nextSub    int
	closed     bool

	ClusterID uint64
	MemberID  uint64
	RaftTerm  uint64
}

// NewStore returns an empty store at revision 1 (like a fresh etcd).
func NewStore() *Store {
	return &Store{rev: 1, cur: map[string]*mvccpb.KeyValue{}, leases: map[int64]*lease{}, subs: map[int]func(){},
		nextLease: 0x7000000000000001, ClusterID: 0xc19c19, MemberID: 0x51e7cd, RaftTerm: 2}
}

// Close stops the lease timers. The store must not be used afterwards.
func (st *Store) Close() {
	st.mu.Lock()
	defer st.mu.Unlock()
	st.closed = true
	for _, l := range st.leases {
		if l.timer != nil {
			l.timer.Stop()
		}
	}
	st.subs = map[int]func(){}
}

// Subscribe registers fn to be called (with the store lock held: fn must only
// poke a channel) after every new revision and every compaction.
func (st *Store) Subscribe(fn func()) (cancel func()) {
	st.mu.Lock()
	defer st.mu.Unlock()
	id := st.nextSub
	st.nextSub++
	st.subs[id] = fn
	return func() {
		st.mu.Lock()
		delete(st.subs, id)
		st.mu.Unlock()
	}
}

func (st *Store) notifyLocked() {
	if len(st.subs) == 0 {
		return
	}
	ids := make([]int, 0, len(st.subs))
	for id := range st.subs {
		ids = append(ids, id)
	}
	sort.Ints(ids)
	for _, id := range ids {
		st.subs[id]()
	}
}

// Header returns a response header for revision rev.
func (st *Store) Header(rev int64) *pb.ResponseHeader {
	return &pb.ResponseHeader{ClusterId: st.ClusterID, MemberId: st.MemberID, Revision: rev, RaftTerm: st.RaftTerm}
}

// Rev returns the current revision.
func (st *Store) Rev() int64 {
	st.mu.Lock()
	defer st.mu.Unlock()
	return st.rev
}

// CompactRev returns the compaction revision (0 = never compacted).
func (st *Store) CompactRev() int64 {
	st.mu.Lock()
	defer st.mu.Unlock()
	return st.compactRev
}

// History returns the complete revision log (also the compacted part; it is
// meant for oracles). The records must not be modified.
func (st *Store) History() []*RevRecord {
	st.mu.Lock()
	defer st.mu.Unlock()
	return append([]*RevRecord(nil), st.log...)
}

func cloneKV(kv *mvccpb.KeyValue) *mvccpb.KeyValue {
	if kv == nil {
		return nil
	}
	c := *kv
	c.Key = append([]byte(nil), kv.Key...)
	c.Value = append([]byte(nil), kv.Value...)
	return &c
}

// inRange reports whether k is selected by (key, end) with etcd's conventions:
// end empty = the single key; end "\x00" = all keys >= key; else key <= k < end.
func inRange(k, key, end []byte) bool {
	if len(end) == 0 {
		return bytes.Equal(k, key)
	}
	if bytes.Compare(k, key) < 0 {
		return false
	}
	if len(end) == 1 && end[0] == 0 {
		return true
	}
	return bytes.Compare(k, end) < 0
}

// stateAtLocked rebuilds the key space as of revision rev.
func (st *Store) stateAtLocked(rev int64) map[string]*mvccpb.KeyValue {
	if rev >= st.rev {
		return st.cur
	}
	m := map[string]*mvccpb.KeyValue{}
	for _, rec := range st.log {
		if rec.Rev > rev {
			break
		}
		for _, ev := range rec.Events {
			if ev.Type == mvccpb.DELETE {
				delete(m, string(ev.Kv.Key))
			} else {
				m[string(ev.Kv.Key)] = ev.Kv
			}
		}
	}
	return m
}

func sortedKeysIn(m map[string]*mvccpb.KeyValue, key, end []byte) []string {
	var ks []string
	if len(end) == 0 {
		if _, ok := m[string(key)]; ok {
			ks = append(ks, string(key))
		}
		return ks
	}
	for k := range m {
		if inRange([]byte(k), key, end) {
			ks = append(ks, k)
		}
	}
	sort.Strings(ks)
	return ks
}

// ---- write transaction (one revision) --------------------------------------

type wtxn struct {
	st     *Store
	events []*mvccpb.Event
	cause  string
}

func (w *wtxn) rev() int64 {
	if len(w.events) > 0 {
		return w.st.rev + 1
	}
	return w.st.rev
}

func (w *wtxn) put(key, value []byte, leaseID int64) (prev *mvccpb.KeyValue) {
	st := w.st
	k := string(key)
	prev = st.cur[k]
	kv := &mvccpb.KeyValue{Key: append([]byte(nil), key...), Value: append([]byte(nil), value...), ModRevision: st.rev + 1, Lease: leaseID}
	if prev != nil {
		kv.CreateRevision = prev.CreateRevision
		kv.Version = prev.Version + 1
		if prev.Lease != 0 && prev.Lease != leaseID {
			if l := st.leases[prev.Lease]; l != nil {
				delete(l.keys, k)
			}
		}
	} else {
		kv.CreateRevision = st.rev + 1
		kv.Version = 1
	}
	if leaseID != 0 {
		if l := st.leases[leaseID]; l != nil {
			l.keys[k] = struct{}{}
		}
	}
	st.cur[k] = kv
	w.events = append(w.events, &mvccpb.Event{Type: mvccpb.PUT, Kv: kv, PrevKv: prev})
	return prev
}

func (w *wtxn) deleteRange(key, end []byte) (prevs []*mvccpb.KeyValue) {
	st := w.st
	for _, k := range sortedKeysIn(st.cur, key, end) {
		prev := st.cur[k]
		delete(st.cur, k)
		if prev.Lease != 0 {
			if l := st.leases[prev.Lease]; l != nil {
				delete(l.keys, k)
			}
		}
		w.events = append(w.events, &mvccpb.Event{Type: mvccpb.DELETE, Kv: &mvccpb.KeyValue{Key: []byte(k), ModRevision: st.rev + 1}, PrevKv: prev})
		prevs = append(prevs, prev)
	}
	return prevs
}

// end commits the revision (if anything changed) and returns the revision the
// response header must carry.
func (w *wtxn) end() int64 {
	st := w.st
	if len(w.events) > 0 {
		st.rev++
		st.log = append(st.log, &RevRecord{Rev: st.rev, Events: w.events, At: time.Now(), Cause: w.cause})
		st.notifyLocked()
	}
	return st.rev
}

// ---- KV --------------------------------------------------------------------

// Range implements the Range RPC.
func (st *Store) Range(r *pb.RangeRequest) (*pb.RangeResponse, error) {
	st.mu.Lock()
	defer st.mu.Unlock()
	return st.rangeLocked(r, st.rev)
}

func (st *Store) rangeLocked(r *pb.RangeRequest, curRev int64) (*pb.RangeResponse, error) {
	if len(r.Key) == 0 {
		return nil, rpctypes.ErrGRPCEmptyKey
	}
	rev := r.Revision
	if rev > curRev {
		return nil, rpctypes.ErrGRPCFutureRev
	}
	if rev <= 0 {
		rev = curRev
	}
	if rev < st.compactRev {
		return nil, rpctypes.ErrGRPCCompacted
	}
	m := st.stateAtLocked(rev)
	keys := sortedKeysIn(m, r.Key, r.RangeEnd)
	resp := &pb.RangeResponse{Header: st.Header(curRev), Count: int64(len(keys))}
	if r.CountOnly {
		return resp, nil
	}
	kvs := make([]*mvccpb.KeyValue, 0, len(keys))
	for _, k := range keys {
		kv := m[k]
		if r.MaxModRevision != 0 && kv.ModRevision > r.MaxModRevision {
			continue
		}
		if r.MinModRevision != 0 && kv.ModRevision < r.MinModRevision {
			continue
		}
		if r.MaxCreateRevision != 0 && kv.CreateRevision > r.MaxCreateRevision {
			continue
		}
		if r.MinCreateRevision != 0 && kv.CreateRevision < r.MinCreateRevision {
			continue
		}
		kvs = append(kvs, kv)
	}
	order := r.SortOrder
	if r.SortTarget != pb.RangeRequest_KEY && order == pb.RangeRequest_NONE {
		order = pb.RangeRequest_ASCEND
	}
	if order != pb.RangeRequest_NONE {
		less := func(a, b *mvccpb.KeyValue) bool {
			switch r.SortTarget {
			case pb.RangeRequest_VERSION:
				return a.Version < b.Version
			case pb.RangeRequest_CREATE:
				return a.CreateRevision < b.CreateRevision
			case pb.RangeRequest_MOD:
				return a.ModRevision < b.ModRevision
			case pb.RangeRequest_VALUE:
				return bytes.Compare(a.Value, b.Value) < 0
			}
			return bytes.Compare(a.Key, b.Key) < 0
		}
		if order == pb.RangeRequest_ASCEND {
			sort.SliceStable(kvs, func(i, j int) bool { return less(kvs[i], kvs[j]) })
		} else {
			sort.SliceStable(kvs, func(i, j int) bool { return less(kvs[j], kvs[i]) })
		}
	}
	if r.Limit > 0 && int64(len(kvs)) > r.Limit {
		kvs = kvs[:r.Limit]
		resp.More = true
	}
	for _, kv := range kvs {
		c := cloneKV(kv)
		if r.KeysOnly {
			c.Value = nil
		}
		resp.Kvs = append(resp.Kvs, c)
	}
	return resp, nil
}

func (st *Store) checkPutLocked(r *pb.PutRequest) error {
	if len(r.Key) == 0 {
		return rpctypes.ErrGRPCEmptyKey
	}
	if r.IgnoreValue && len(r.Value) != 0 {
		return rpctypes.ErrGRPCValueProvided
	}
	if r.IgnoreLease && r.Lease != 0 {
		return rpctypes.ErrGRPCLeaseProvided
	}
	return nil
}

func (st *Store) putLocked(w *wtxn, r *pb.PutRequest) (*pb.PutResponse, error) {
	val, leaseID := r.Value, r.Lease
	if r.IgnoreValue || r.IgnoreLease {
		old := st.cur[string(r.Key)]
		if old == nil {
			return nil, rpctypes.ErrGRPCKeyNotFound
		}
		if r.IgnoreValue {
			val = old.Value
		}
		if r.IgnoreLease {
			leaseID = old.Lease
		}
	}
	if leaseID != 0 {
		if l := st.leases[leaseID]; l == nil || l.revoked {
			return nil, rpctypes.ErrGRPCLeaseNotFound
		}
	}
	prev := w.put(r.Key, val, leaseID)
	resp := &pb.PutResponse{Header: st.Header(st.rev + 1)}
	if r.PrevKv {
		resp.PrevKv = cloneKV(prev)
	}
	return resp, nil
}

// Put implements the Put RPC.
func (st *Store) Put(r *pb.PutRequest) (*pb.PutResponse, error) {
	st.mu.Lock()
	defer st.mu.Unlock()
	if err := st.checkPutLocked(r); err != nil {
		return nil, err
	}
	w := &wtxn{st: st, cause: "put"}
	resp, err := st.putLocked(w, r)
	if err != nil {
		return nil, err
	}
	resp.Header.Revision = w.end()
	return resp, nil
}

func (st *Store) deleteLocked(w *wtxn, r *pb.DeleteRangeRequest) *pb.DeleteRangeResponse {
	prevs := w.deleteRange(r.Key, r.RangeEnd)
	resp := &pb.DeleteRangeResponse{Header: st.Header(w.rev()), Deleted: int64(len(prevs))}
	if r.PrevKv {
		for _, p := range prevs {
			resp.PrevKvs = append(resp.PrevKvs, cloneKV(p))
		}
	}
	return resp
}

// DeleteRange implements the DeleteRange RPC.
func (st *Store) DeleteRange(r *pb.DeleteRangeRequest) (*pb.DeleteRangeResponse, error) {
	st.mu.Lock()
	defer st.mu.Unlock()
	if len(r.Key) == 0 {
		return nil, rpctypes.ErrGRPCEmptyKey
	}
	w := &wtxn{st: st, cause: "delete"}
	resp := st.deleteLocked(w, r)
	resp.Header.Revision = w.end()
	return resp, nil
}

func cmpInt(a, b int64) int {
	switch {
	case a < b:
		return -1
	case a > b:
		return 1
	}
	return 0
}

func compareKV(c *pb.Compare, kv *mvccpb.KeyValue) bool {
	var result int
	switch c.Target {
	case pb.Compare_VALUE:
		var v []byte
		if tv, _ := c.TargetUnion.(*pb.Compare_Value); tv != nil {
			v = tv.Value
		}
		result = bytes.Compare(kv.Value, v)
	case pb.Compare_CREATE:
		var x int64
		if tv, _ := c.TargetUnion.(*pb.Compare_CreateRevision); tv != nil {
			x = tv.CreateRevision
		}
		result = cmpInt(kv.CreateRevision, x)
	case pb.Compare_MOD:
		var x int64
		if tv, _ := c.TargetUnion.(*pb.Compare_ModRevision); tv != nil {
			x = tv.ModRevision
		}
		result = cmpInt(kv.ModRevision, x)
	case pb.Compare_VERSION:
		var x int64
		if tv, _ := c.TargetUnion.(*pb.Compare_Version); tv != nil {
			x = tv.Version
		}
		result = cmpInt(kv.Version, x)
	case pb.Compare_LEASE:
		var x int64
		if tv, _ := c.TargetUnion.(*pb.Compare_Lease); tv != nil {
			x = tv.Lease
		}
		result = cmpInt(kv.Lease, x)
	}
	switch c.Result {
	case pb.Compare_EQUAL:
		return result == 0
	case pb.Compare_NOT_EQUAL:
		return result != 0
	case pb.Compare_GREATER:
		return result > 0
	case pb.Compare_LESS:
		return result < 0
	}
	return true
}

func (st *Store) compareLocked(c *pb.Compare) bool {
	keys := sortedKeysIn(st.cur, c.Key, c.RangeEnd)
	if len(keys) == 0 {
		if c.Target == pb.Compare_VALUE {
			// etcd: comparing the value of a missing key always fails
			return false
		}
		return compareKV(c, &mvccpb.KeyValue{})
	}
	for _, k := range keys {
		if !compareKV(c, st.cur[k]) {
			return false
		}
	}
	return true
}

type keyInterval struct{ key, end []byte }

// checkTxnOps validates one branch the way etcd's checkRequests/checkIntervals
// do: request sanity, and no key may be put twice or put and deleted.
func (st *Store) checkTxnOps(ops []*pb.RequestOp, curRev int64) (puts map[string]struct{}, dels []keyInterval, err error) {
	puts = map[string]struct{}{}
	for _, op := range ops {
		switch u := op.Request.(type) {
		case *pb.RequestOp_RequestRange:
			if u.RequestRange == nil {
				continue
			}
			if len(u.RequestRange.Key) == 0 {
				return nil, nil, rpctypes.ErrGRPCEmptyKey
			}
			if u.RequestRange.Revision > curRev {
				return nil, nil, rpctypes.ErrGRPCFutureRev
			}
			if u.RequestRange.Revision > 0 && u.RequestRange.Revision < st.compactRev {
				return nil, nil, rpctypes.ErrGRPCCompacted
			}
		case *pb.RequestOp_RequestPut:
			if u.RequestPut == nil {
				continue
			}
			if err := st.checkPutLocked(u.RequestPut); err != nil {
				return nil, nil, err
			}
			k := string(u.RequestPut.Key)
			if _, dup := puts[k]; dup {
				return nil, nil, rpctypes.ErrGRPCDuplicateKey
			}
			puts[k] = struct{}{}
		case *pb.RequestOp_RequestDeleteRange:
			if u.RequestDeleteRange == nil {
				continue
			}
			if len(u.RequestDeleteRange.Key) == 0 {
				return nil, nil, rpctypes.ErrGRPCEmptyKey
			}
			dels = append(dels, keyInterval{u.RequestDeleteRange.Key, u.RequestDeleteRange.RangeEnd})
		case *pb.RequestOp_RequestTxn:
			if u.RequestTxn == nil {
				continue
			}
			p2, d2, err := st.checkTxnLocked(u.RequestTxn, curRev)
			if err != nil {
				return nil, nil, err
			}
			for k := range p2 {
				if _, dup := puts[k]; dup {
					return nil, nil, rpctypes.ErrGRPCDuplicateKey
				}
				puts[k] = struct{}{}
			}
			dels = append(dels, d2...)
		}
	}
	for k := range puts {
		for _, d := range dels {
			if inRange([]byte(k), d.key, d.end) {
				return nil, nil, rpctypes.ErrGRPCDuplicateKey
			}
		}
	}
	return puts, dels, nil
}

func (st *Store) checkTxnLocked(r *pb.TxnRequest, curRev int64) (map[string]struct{}, []keyInterval, error) {
	if len(r.Compare) > MaxTxnOps || len(r.Success) > MaxTxnOps || len(r.Failure) > MaxTxnOps {
		return nil, nil, rpctypes.ErrGRPCTooManyOps
	}
	for _, c := range r.Compare {
		if len(c.Key) == 0 {
			return nil, nil, rpctypes.ErrGRPCEmptyKey
		}
	}
	p1, d1, err := st.checkTxnOps(r.Success, curRev)
	if err != nil {
		return nil, nil, err
	}
	p2, d2, err := st.checkTxnOps(r.Failure, curRev)
	if err != nil {
		return nil, nil, err
	}
	// only one branch executes: their union is what an enclosing txn may collide with
	for k := range p2 {
		p1[k] = struct{}{}
	}
	return p1, append(d1, d2...), nil
}

// pre-flight of the parts that can fail at apply time (missing lease, missing
// key for ignore_*), so that a failing txn applies nothing.
func (st *Store) dryRunLocked(r *pb.TxnRequest) error {
	ok := true
	for _, c := range r.Compare {
		if !st.compareLocked(c) {
			ok = false
			break
		}
	}
	ops := r.Failure
	if ok {
		ops = r.Success
	}
	for _, op := range ops {
		switch u := op.Request.(type) {
		case *pb.RequestOp_RequestPut:
			p := u.RequestPut
			if p == nil {
				continue
			}
			if (p.IgnoreValue || p.IgnoreLease) && st.cur[string(p.Key)] == nil {
				return rpctypes.ErrGRPCKeyNotFound
			}
			if p.Lease != 0 {
				if l := st.leases[p.Lease]; l == nil || l.revoked {
					return rpctypes.ErrGRPCLeaseNotFound
				}
			}
		case *pb.RequestOp_RequestTxn:
			if u.RequestTxn != nil {
				if err := st.dryRunLocked(u.RequestTxn); err != nil {
					return err
				}
			}
		}
	}
	return nil
}

func (st *Store) applyTxnLocked(w *wtxn, r *pb.TxnRequest) (*pb.TxnResponse, error) {
	ok := true
	for _, c := range r.Compare {
		if !st.compareLocked(c) {
			ok = false
			break
		}
	}
	ops := r.Failure
	if ok {
		ops = r.Success
	}
	resp := &pb.TxnResponse{Succeeded: ok}
	for _, op := range ops {
		switch u := op.Request.(type) {
		case *pb.RequestOp_RequestRange:
			if u.RequestRange == nil {
				continue
			}
			rr, err := st.rangeViewLocked(w, u.RequestRange)
			if err != nil {
				return nil, err
			}
			resp.Responses = append(resp.Responses, &pb.ResponseOp{Response: &pb.ResponseOp_ResponseRange{ResponseRange: rr}})
		case *pb.RequestOp_RequestPut:
			if u.RequestPut == nil {
				continue
			}
			pr, err := st.putLocked(w, u.RequestPut)
			if err != nil {
				return nil, err
			}
			resp.Responses = append(resp.Responses, &pb.ResponseOp{Response: &pb.ResponseOp_ResponsePut{ResponsePut: pr}})
		case *pb.RequestOp_RequestDeleteRange:
			if u.RequestDeleteRange == nil {
				continue
			}
			dr := st.deleteLocked(w, u.RequestDeleteRange)
			resp.Responses = append(resp.Responses, &pb.ResponseOp{Response: &pb.ResponseOp_ResponseDeleteRange{ResponseDeleteRange: dr}})
		case *pb.RequestOp_RequestTxn:
			if u.RequestTxn == nil {
				continue
			}
			tr, err := st.applyTxnLocked(w, u.RequestTxn)
			if err != nil {
				return nil, err
			}
			resp.Responses = append(resp.Responses, &pb.ResponseOp{Response: &pb.ResponseOp_ResponseTxn{ResponseTxn: tr}})
		}
	}
	resp.Header = st.Header(w.rev())
	return resp, nil
}

// rangeViewLocked serves a Range inside a write txn: it sees the txn's own
// earlier writes (st.cur is updated in place; the revision is rev+1 if the txn
// has written).
func (st *Store) rangeViewLocked(w *wtxn, r *pb.RangeRequest) (*pb.RangeResponse, error) {
	viewRev := w.rev()
	if r.Revision > 0 && r.Revision < viewRev {
		// historical read: replay the log (the txn's own writes are not in it)
		return st.rangeLocked(r, st.rev)
	}
	rr := *r
	rr.Revision = 0
	// temporarily present the in-progress state as "current"
	resp, err := st.rangeLocked(&rr, st.rev)
	if resp != nil {
		resp.Header.Revision = viewRev
	}
	return resp, err
}

// Txn implements the Txn RPC.
func (st *Store) Txn(r *pb.TxnRequest) (*pb.TxnResponse, error) {
	st.mu.Lock()
	defer st.mu.Unlock()
	if _, _, err := st.checkTxnLocked(r, st.rev); err != nil {
		return nil, err
	}
	if err := st.dryRunLocked(r); err != nil {
		return nil, err
	}
	w := &wtxn{st: st, cause: "txn"}
	resp, err := st.applyTxnLocked(w, r)
	if err != nil {
		// cannot happen after the dry run; keep whatever was applied consistent
		w.end()
		return nil, err
	}
	resp.Header.Revision = w.end()
	return resp, nil
}

// Compact implements the Compact RPC: history below rev becomes unreadable and
// unwatchable.
func (st *Store) Compact(rev int64) (*pb.CompactionResponse, error) {
	st.mu.Lock()
	defer st.mu.Unlock()
	if rev <= st.compactRev && (st.compacted || rev < 0) {
		return nil, rpctypes.ErrGRPCCompacted
	}
	if rev > st.rev {
		return nil, rpctypes.ErrGRPCFutureRev
	}
	st.compacted = true // (a fresh etcd accepts Compact(0): its compaction revision starts at -1)
	st.compactRev = rev
	st.notifyLocked()
	return &pb.CompactionResponse{Header: st.Header(st.rev)}, nil
}

// EventsSince returns the records with from <= Rev (the caller filters), the
// current revision and the compact revision, atomically.
func (st *Store) EventsSince(from int64) (recs []*RevRecord, cur, compact int64) {
	st.mu.Lock()
	defer st.mu.Unlock()
	i := sort.Search(len(st.log), func(i int) bool { return st.log[i].Rev >= from })
	return append([]*RevRecord(nil), st.log[i:]...), st.rev, st.compactRev
}

// ---- convenience API for harnesses (direct writes, no RPC) --------------------

// PutKV puts key=value (no lease) and returns the new revision.
func (st *Store) PutKV(key, value string) int64 {
	resp, err := st.Put(&pb.PutRequest{Key: []byte(key), Value: []byte(value)})
	if err != nil {
		return 0
	}
	return resp.Header.Revision
}

// DeleteKey deletes one key; DeletePrefix deletes every key with the prefix.
func (st *Store) DeleteKey(key string) int64 {
	resp, err := st.DeleteRange(&pb.DeleteRangeRequest{Key: []byte(key)})
	if err != nil {
		return 0
	}
	return resp.Deleted
}

// PrefixEnd returns the range end selecting every key with the prefix.
func PrefixEnd(prefix string) []byte {
	end := []byte(prefix)
	for i := len(end) - 1; i >= 0; i-- {
		if end[i] < 0xff {
			end[i]++
			return end[:i+1]
		}
	}
	return []byte{0}
}

// DeletePrefix deletes every key starting with prefix.
func (st *Store) DeletePrefix(prefix string) int64 {
	resp, err := st.DeleteRange(&pb.DeleteRangeRequest{Key: []byte(prefix), RangeEnd: PrefixEnd(prefix)})
	if err != nil {
		return 0
	}
	return resp.Deleted
}

// ---- leases ------------------------------------------------------------------

func (st *Store) armLocked(l *lease) {
	if l.timer != nil {
		l.timer.Stop()
	}
	if st.closed {
		return
	}
	d := time.Until(l.expiry)
	id := l.id
	l.timer = time.AfterFunc(d, func() { st.expire(id) })
}

func (st *Store) expire(id int64) {
	st.mu.Lock()
	defer st.mu.Unlock()
	l := st.leases[id]
	if l == nil || st.closed || time.Now().Before(l.expiry) {
		return
	}
	st.dropLeaseLocked(l, "lease-expire")
}

func (st *Store) dropLeaseLocked(l *lease, cause string) {
	l.revoked = true
	if l.timer != nil {
		l.timer.Stop()
	}
	delete(st.leases, l.id)
	keys := make([]string, 0, len(l.keys))
	for k := range l.keys {
		keys = append(keys, k)
	}
	sort.Strings(keys)
	w := &wtxn{st: st, cause: cause}
	for _, k := range keys {
		w.deleteRange([]byte(k), nil)
	}
	w.end()
}

// LeaseGrant implements the LeaseGrant RPC (id 0 = choose one).
func (st *Store) LeaseGrant(r *pb.LeaseGrantRequest) (*pb.LeaseGrantResponse, error) {
	st.mu.Lock()
	defer st.mu.Unlock()
	if r.TTL > MaxLeaseTTL {
		return nil, rpctypes.ErrGRPCLeaseTTLTooLarge
	}
	id := r.ID
	if id == 0 {
		id = st.nextLease
		st.nextLease++
	} else if _, ok := st.leases[id]; ok {
		return nil, rpctypes.ErrGRPCLeaseExist
	}
	ttl := r.TTL
	if ttl < 1 {
		ttl = 1
	}
	l := &lease{id: id, ttl: ttl, keys: map[string]struct{}{}}
	l.expiry = addSeconds(time.Now(), ttl)
	st.leases[id] = l
	st.armLocked(l)
	return &pb.LeaseGrantResponse{Header: st.Header(st.rev), ID: id, TTL: ttl}, nil
}

// addSeconds adds ttl seconds without overflowing time.Duration.
func addSeconds(t time.Time, ttl int64) time.Time {
	const maxSec = int64(1<<63-1) / int64(time.Second)
	if ttl > maxSec {
		ttl = maxSec
	}
	return t.Add(time.Duration(ttl) * time.Second)
}

// LeaseRevoke implements the LeaseRevoke RPC.
func (st *Store) LeaseRevoke(r *pb.LeaseRevokeRequest) (*pb.LeaseRevokeResponse, error) {
	st.mu.Lock()
	defer st.mu.Unlock()
	l := st.leases[r.ID]
	if l == nil {
		return nil, rpctypes.ErrGRPCLeaseNotFound
	}
	st.dropLeaseLocked(l, "lease-revoke")
	return &pb.LeaseRevokeResponse{Header: st.Header(st.rev)}, nil
}

// LeaseRenew is one keep-alive: it returns the new TTL, or 0 if the lease does
// not exist (etcd answers a keep-alive for a missing lease with TTL 0).
func (st *Store) LeaseRenew(id int64) *pb.LeaseKeepAliveResponse {
	st.mu.Lock()
	defer st.mu.Unlock()
	resp := &pb.LeaseKeepAliveResponse{Header: st.Header(st.rev), ID: id}
	l := st.leases[id]
	if l == nil {
		return resp
	}
	l.expiry = addSeconds(time.Now(), l.ttl)
	st.armLocked(l)
	resp.TTL = l.ttl
	return resp
}

// LeaseTimeToLive implements the LeaseTimeToLive RPC (TTL -1 = no such lease).
func (st *Store) LeaseTimeToLive(r *pb.LeaseTimeToLiveRequest) (*pb.LeaseTimeToLiveResponse, error) {
	st.mu.Lock()
	defer st.mu.Unlock()
	resp := &pb.LeaseTimeToLiveResponse{Header: st.Header(st.rev), ID: r.ID}
	l := st.leases[r.ID]
	if l == nil {
		resp.TTL = -1
		return resp, nil
	}
	rem := time.Until(l.expiry)
	if rem < 0 {
		rem = 0
	}
	// etcd rounds the remaining time to the nearest second
	resp.TTL = int64((rem + time.Second/2) / time.Second)
	resp.GrantedTTL = l.ttl
	if r.Keys {
		ks := make([]string, 0, len(l.keys))
		for k := range l.keys {
			ks = append(ks, k)
		}
		sort.Strings(ks)
		for _, k := range ks {
			resp.Keys = append(resp.Keys, []byte(k))
		}
	}
	return resp, nil
}

// LeaseLeases implements the LeaseLeases RPC.
func (st *Store) LeaseLeases() *pb.LeaseLeasesResponse {
	st.mu.Lock()
	defer st.mu.Unlock()
	ids := make([]int64, 0, len(st.leases))
	for id := range st.leases {
		ids = append(ids, id)
	}
	sort.Slice(ids, func(i, j int) bool { return ids[i] < ids[j] })
	resp := &pb.LeaseLeasesResponse{Header: st.Header(st.rev)}
	for _, id := range ids {
		resp.Leases = append(resp.Leases, &pb.LeaseStatus{ID: id})
	}
	return resp
}
