// Copyright 2016 The etcd Authors
//
// Licensed under the Apache License, Version 2.0 (the "License");
// you may not use this file except in compliance with the License.
// You may obtain a copy of the License at
//
//     http://www.apache.org/licenses/LICENSE-2.0
//
// Unless required by applicable law or agreed to in writing, software
// distributed under the License is distributed on an "AS IS" BASIS,
// WITHOUT WARRANTIES OR CONDITIONS OF ANY KIND, either express or implied.
// See the License for the specific language governing permissions and
// limitations under the License.

package clientv3

import (
	"context"

	pb "go.etcd.io/etcd/api/v3/etcdserverpb"
	"go.etcd.io/etcd/api/v3/v3rpc/rpctypes"

	"google.golang.org/grpc"
	"google.golang.org/grpc/codes"
	"google.golang.org/grpc/status"
)

type retryPolicy uint8

const (
	repeatable retryPolicy = iota
	nonRepeatable
)

func (rp retryPolicy) String() string {
	switch rp {
	case repeatable:
		return "repeatable"
	case nonRepeatable:
		return "nonRepeatable"
	default:
		return "UNKNOWN"
	}
}

// isSafeRetryImmutableRPC returns "true" when an immutable request is safe for retry.
//
// immutable requests (e.g. Get) should be retried unless it's
// an obvious server-side error (e.g. rpctypes.ErrRequestTooLarge).
//
// Returning "false" means retry should stop, since client cannot
// handle itself even with retries.
func isSafeRetryImmutableRPC(err error) bool {
	eErr := rpctypes.Error(err)
	if serverErr, ok := eErr.(rpctypes.EtcdError); ok && serverErr.Code() != codes.Unavailable {
		// interrupted by non-transient server-side or gRPC-side error
		// client cannot handle itself (e.g. rpctypes.ErrCompacted)
		return false
	}
	// only retry if unavailable
	ev, ok := status.FromError(err)
	if !ok {
		// all errors from RPC is typed "grpc/status.(*statusError)"
		// (ref. https://github.com/grpc/grpc-go/pull/1782)
		//
		// if the error type is not "grpc/status.(*statusError)",
		// it could be from "Dial"
		// TODO: do not retry for now
		// ref. https://github.com/grpc/grpc-go/issues/1581
		return false
	}
	return ev.Code() == codes.Unavailable
}

// isSafeRetryMutableRPC returns "true" when a mutable request is safe for retry.
//
// mutable requests (e.g. Put, Delete, Txn) should only be retried
// when the status code is codes.Unavailable when initial connection
// has not been established (no endpoint is up).
//
// Returning "false" means retry should stop, otherwise it violates
// write-at-most-once semantics.
func isSafeRetryMutableRPC(err error) bool {
	if ev, ok := status.FromError(err); ok && ev.Code() != codes.Unavailable {
		// not safe for mutable RPCs
		// e.g. interrupted by non-transient error that client cannot handle itself,
		// or transient error while the connection has already been established
		return false
	}
	desc := rpctypes.ErrorDesc(err)
	return desc == "there is no address available" || desc == "there is no connection available"
}

type retryKVClient struct {
	kc pb.KVClient
}

// RetryKVClient implements a KVClient.
func RetryKVClient(c *Client) pb.KVClient {
	return &retryKVClient{
		kc: pb.NewKVClient(c.conn),
	}
}
func (rkv *retryKVClient) Range(ctx context.Context, in *pb.RangeRequest, opts ...grpc.CallOption) (resp *pb.RangeResponse, err error) {
	return rkv.kc.Range(ctx, in, append(opts, withRetryPolicy(repeatable))...)
}

func (rkv *retryKVClient) Put(ctx context.Context, in *pb.PutRequest, opts ...grpc.CallOption) (resp *pb.PutResponse, err error) {
	return rkv.kc.Put(ctx, in, opts...)
}

func (rkv *retryKVClient) DeleteRange(ctx context.Context, in *pb.DeleteRangeRequest, opts ...grpc.CallOption) (resp *pb.DeleteRangeResponse, err error) {
	return rkv.kc.DeleteRange(ctx, in, opts...)
}

func (rkv *retryKVClient) Txn(ctx context.Context, in *pb.TxnRequest, opts ...grpc.CallOption) (resp *pb.TxnResponse, err error) {
	return rkv.kc.Txn(ctx, in, opts...)
}

func (rkv *retryKVClient) Compact(ctx context.Context, in *pb.CompactionRequest, opts ...grpc.CallOption) (resp *pb.CompactionResponse, err error) {
	return rkv.kc.Compact(ctx, in, opts...)
}

type retryLeaseClient struct {
	lc pb.LeaseClient
}

// RetryLeaseClient implements a LeaseClient.
func RetryLeaseClient(c *Client) pb.LeaseClient {
	return &retryLeaseClient{
		lc: pb.NewLeaseClient(c.conn),
	}
}

func (rlc *retryLeaseClient) LeaseTimeToLive(ctx context.Context, in *pb.LeaseTimeToLiveRequest, opts ...grpc.CallOption) (resp *pb.LeaseTimeToLiveResponse, err error) {
	return rlc.lc.LeaseTimeToLive(ctx, in, append(opts, withRetryPolicy(repeatable))...)
}

func (rlc *retryLeaseClient) LeaseLeases(ctx context.Context, in *pb.LeaseLeasesRequest, opts ...grpc.CallOption) (resp *pb.LeaseLeasesResponse, err error) {
	return rlc.lc.LeaseLeases(ctx, in, append(opts, withRetryPolicy(repeatable))...)
}

func (rlc *retryLeaseClient) LeaseGrant(ctx context.Context, in *pb.LeaseGrantRequest, opts ...grpc.CallOption) (resp *pb.LeaseGrantResponse, err error) {
	return rlc.lc.LeaseGrant(ctx, in, append(opts, withRetryPolicy(repeatable))...)
}

func (rlc *retryLeaseClient) LeaseRevoke(ctx context.Context, in *pb.LeaseRevokeRequest, opts ...grpc.CallOption) (resp *pb.LeaseRevokeResponse, err error) {
	return rlc.lc.LeaseRevoke(ctx, in, append(opts, withRetryPolicy(repeatable))...)
}

func (rlc *retryLeaseClient) LeaseKeepAlive(ctx context.Context, opts ...grpc.CallOption) (stream pb.Lease_LeaseKeepAliveClient, err error) {
	return rlc.lc.LeaseKeepAlive(ctx, append(opts, withRetryPolicy(repeatable))...)
}

type retryClusterClient struct {
	cc pb.ClusterClient
}

// RetryClusterClient implements a ClusterClient.
func RetryClusterClient(c *Client) pb.ClusterClient {
	return &retryClusterClient{
		cc: pb.NewClusterClient(c.conn),
	}
}

func (rcc *retryClusterClient) MemberList(ctx context.Context, in *pb.MemberListRequest, opts ...grpc.CallOption) (resp *pb.MemberListResponse, err error) {
	return rcc.cc.MemberList(ctx, in, append(opts, withRetryPolicy(repeatable))...)
}

func (rcc *retryClusterClient) MemberAdd(ctx context.Context, in *pb.MemberAddRequest, opts ...grpc.CallOption) (resp *pb.MemberAddResponse, err error) {
	return rcc.cc.MemberAdd(ctx, in, opts...)
}

func (rcc *retryClusterClient) MemberRemove(ctx context.Context, in *pb.MemberRemoveRequest, opts ...grpc.CallOption) (resp *pb.MemberRemoveResponse, err error) {
	return rcc.cc.MemberRemove(ctx, in, opts...)
}

func (rcc *retryClusterClient) MemberUpdate(ctx context.Context, in *pb.MemberUpdateRequest, opts ...grpc.CallOption) (resp *pb.MemberUpdateResponse, err error) {
	return rcc.cc.MemberUpdate(ctx, in, opts...)
}

func (rcc *retryClusterClient) MemberPromote(ctx context.Context, in *pb.MemberPromoteRequest, opts ...grpc.CallOption) (resp *pb.MemberPromoteResponse, err error) {
	return rcc.cc.MemberPromote(ctx, in, opts...)
}

type retryMaintenanceClient struct {
	mc pb.MaintenanceClient
}

// RetryMaintenanceClient implements a Maintenance.
func RetryMaintenanceClient(c *Client, conn *grpc.ClientConn) pb.MaintenanceClient {
	return &retryMaintenanceClient{
		mc: pb.NewMaintenanceClient(conn),
	}
}

func (rmc *retryMaintenanceClient) Alarm(ctx context.Context, in *pb.AlarmRequest, opts ...grpc.CallOption) (resp *pb.AlarmResponse, err error) {
	return rmc.mc.Alarm(ctx, in, append(opts, withRetryPolicy(repeatable))...)
}

func (rmc *retryMaintenanceClient) Status(ctx context.Context, in *pb.StatusRequest, opts ...grpc.CallOption) (resp *pb.StatusResponse, err error) {
	return rmc.mc.Status(ctx, in, append(opts, withRetryPolicy(repeatable))...)
}

func (rmc *retryMaintenanceClient) Hash(ctx context.Context, in *pb.HashRequest, opts ...grpc.CallOption) (resp *pb.HashResponse, err error) {
	return rmc.mc.Hash(ctx, in, append(opts, withRetryPolicy(repeatable))...)
}

func (rmc *retryMaintenanceClient) HashKV(ctx context.Context, in *pb.HashKVRequest, opts ...grpc.CallOption) (resp *pb.HashKVResponse, err error) {
	return rmc.mc.HashKV(ctx, in, append(opts, withRetryPolicy(repeatable))...)
}

func (rmc *retryMaintenanceClient) Snapshot(ctx context.Context, in *pb.SnapshotRequest, opts ...grpc.CallOption) (stream pb.Maintenance_SnapshotClient, err error) {
	return rmc.mc.Snapshot(ctx, in, append(opts, withRetryPolicy(repeatable))...)
}

func (rmc *retryMaintenanceClient) MoveLeader(ctx context.Context, in *pb.MoveLeaderRequest, opts ...grpc.CallOption) (resp *pb.MoveLeaderResponse, err error) {
	return rmc.mc.MoveLeader(ctx, in, append(opts, withRetryPolicy(repeatable))...)
}

func (rmc *retryMaintenanceClient) Defragment(ctx context.Context, in *pb.DefragmentRequest, opts ...grpc.CallOption) (resp *pb.DefragmentResponse, err error) {
	return rmc.mc.Defragment(ctx, in, opts...)
}

func (rmc *retryMaintenanceClient) Downgrade(ctx context.Context, in *pb.DowngradeRequest, opts ...grpc.CallOption) (resp *pb.DowngradeResponse, err error) {
	return rmc.mc.Downgrade(ctx, in, opts...)
}

type retryAuthClient struct {
	ac pb.AuthClient
}

// RetryAuthClient implements a AuthClient.
func RetryAuthClient(c *Client) pb.AuthClient {
	return &retryAuthClient{
		ac: pb.NewAuthClient(c.conn),
	}
}

func (rac *retryAuthClient) UserList(ctx context.Context, in *pb.AuthUserListRequest, opts ...grpc.CallOption) (resp *pb.AuthUserListResponse, err error) {
	return rac.ac.UserList(ctx, in, append(opts, withRetryPolicy(repeatable))...)
}

func (rac *retryAuthClient) UserGet(ctx context.Context, in *pb.AuthUserGetRequest, opts ...grpc.CallOption) (resp *pb.AuthUserGetResponse, err error) {
	return rac.ac.UserGet(ctx, in, append(opts, withRetryPolicy(repeatable))...)
}

func (rac *retryAuthClient) RoleGet(ctx context.Context, in *pb.AuthRoleGetRequest, opts ...grpc.CallOption) (resp *pb.AuthRoleGetResponse, err error) {
	return rac.ac.RoleGet(ctx, in, append(opts, withRetryPolicy(repeatable))...)
}

func (rac *retryAuthClient) RoleList(ctx context.Context, in *pb.AuthRoleListRequest, opts ...grpc.CallOption) (resp *pb.AuthRoleListResponse, err error) {
	return rac.ac.RoleList(ctx, in, append(opts, withRetryPolicy(repeatable))...)
}

func (rac *retryAuthClient) AuthEnable(ctx context.Context, in *pb.AuthEnableRequest, opts ...grpc.CallOption) (resp *pb.AuthEnableResponse, err error) {
	return rac.ac.AuthEnable(ctx, in, opts...)
}

func (rac *retryAuthClient) AuthDisable(ctx context.Context, in *pb.AuthDisableRequest, opts ...grpc.CallOption) (resp *pb.AuthDisableResponse, err error) {
	return rac.ac.AuthDisable(ctx, in, opts...)
}

func (rac *retryAuthClient) AuthStatus(ctx context.Context, in *pb.AuthStatusRequest, opts ...grpc.CallOption) (resp *pb.AuthStatusResponse, err error) {
	return rac.ac.AuthStatus(ctx, in, opts...)
}

func (rac *retryAuthClient) UserAdd(ctx context.Context, in *pb.AuthUserAddRequest, opts ...grpc.CallOption) (resp *pb.AuthUserAddResponse, err error) {
	return rac.ac.UserAdd(ctx, in, opts...)
}

func (rac *retryAuthClient) UserDelete(ctx context.Context, in *pb.AuthUserDeleteRequest, opts ...grpc.CallOption) (resp *pb.AuthUserDeleteResponse, err error) {
	return rac.ac.UserDelete(ctx, in, opts...)
}

func (rac *retryAuthClient) UserChangePassword(ctx context.Context, in *pb.AuthUserChangePasswordRequest, opts ...grpc.CallOption) (resp *pb.AuthUserChangePasswordResponse, err error) {
	return rac.ac.UserChangePassword(ctx, in, opts...)
}

func (rac *retryAuthClient) UserGrantRole(ctx context.Context, in *pb.AuthUserGrantRoleRequest, opts ...grpc.CallOption) (resp *pb.AuthUserGrantRoleResponse, err error) {
	return rac.ac.UserGrantRole(ctx, in, opts...)
}

func (rac *retryAuthClient) UserRevokeRole(ctx context.Context, in *pb.AuthUserRevokeRoleRequest, opts ...grpc.CallOption) (resp *pb.AuthUserRevokeRoleResponse, err error) {
	return rac.ac.UserRevokeRole(ctx, in, opts...)
}

func (rac *retryAuthClient) RoleAdd(ctx context.Context, in *pb.AuthRoleAddRequest, opts ...grpc.CallOption) (resp *pb.AuthRoleAddResponse, err error) {
	return rac.ac.RoleAdd(ctx, in, opts...)
}

func (rac *retryAuthClient) RoleDelete(ctx context.Context, in *pb.AuthRoleDeleteRequest, opts ...grpc.CallOption) (resp *pb.AuthRoleDeleteResponse, err error) {
	return rac.ac.RoleDelete(ctx, in, opts...)
}

func (rac *retryAuthClient) RoleGrantPermission(ctx context.Context, in *pb.AuthRoleGrantPermissionRequest, opts ...grpc.CallOption) (resp *pb.AuthRoleGrantPermissionResponse, err error) {
	return rac.ac.RoleGrantPermission(ctx, in, opts...)
}

func (rac *retryAuthClient) RoleRevokePermission(ctx context.Context, in *pb.AuthRoleRevokePermissionRequest, opts ...grpc.CallOption) (resp *pb.AuthRoleRevokePermissionResponse, err error) {
	return rac.ac.RoleRevokePermission(ctx, in, opts...)
}

func (rac *retryAuthClient) Authenticate(ctx context.Context, in *pb.AuthenticateRequest, opts ...grpc.CallOption) (resp *pb.AuthenticateResponse, err error) {
	return rac.ac.Authenticate(ctx, in, opts...)
}
