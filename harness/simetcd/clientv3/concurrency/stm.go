// Copyright 2016 The etcd Authors
//
// Licensed under the Apache License, Version 2.0 (the "License");
// you may not use this file except in compliance with the License.
// You may obtain a copy of the License at
//
//     http://www.apache.org/licenses/LICENSE-2.0
//
// Unless required by applicable law or agreed to in writing, software
// distributed under the License is distributed on an "AS IS" BASIS,
// WITHOUT WARRANTIES OR CONDITIONS OF ANY KIND, either express or implied.
// See the License for the specific language governing permissions and
// limitations under the License.

package concurrency

import (
	"context"
	"math"

	v3 "go.etcd.io/etcd/client/v3"
)

// STM is an interface for software transactional memory.
type STM interface {
	// Get returns the value for a key and inserts the key in the txn's read set.
	// If Get fails, it aborts the transaction with an error, never returning.
	Get(key ...string) string
	// Put adds a value for a key to the write set.
	Put(key, val string, opts ...v3.OpOption)
	// Rev returns the revision of a key in the read set.
	Rev(key string) int64
	// Del deletes a key.
	Del(key string)

	// commit attempts to apply the txn's changes to the server.
	commit() *v3.TxnResponse
	reset()
}

// Isolation is an enumeration of transactional isolation levels which
// describes how transactions should interfere and conflict.
type Isolation int

const (
	// SerializableSnapshot provides serializable isolation and also checks
	// for write conflicts.
	SerializableSnapshot Isolation = iota
	// Serializable reads within the same transaction attempt return data
	// from the at the revision of the first read.
	Serializable
	// RepeatableReads reads within the same transaction attempt always
	// return the same data.
	RepeatableReads
	// ReadCommitted reads keys from any committed revision.
	ReadCommitted
)

// stmError safely passes STM errors through panic to the STM error channel.
type stmError struct{ err error }

type stmOptions struct {
	iso      Isolation
	ctx      context.Context
	prefetch []string
}

type stmOption func(*stmOptions)

// WithIsolation specifies the transaction isolation level.
func WithIsolation(lvl Isolation) stmOption {
	return func(so *stmOptions) { so.iso = lvl }
}

// WithAbortContext specifies the context for permanently aborting the transaction.
func WithAbortContext(ctx context.Context) stmOption {
	return func(so *stmOptions) { so.ctx = ctx }
}

// WithPrefetch is a hint to prefetch a list of keys before trying to apply.
// If an STM transaction will unconditionally fetch a set of keys, prefetching
// those keys will save the round-trip cost from requesting each key one by one
// with Get().
func WithPrefetch(keys ...string) stmOption {
	return func(so *stmOptions) { so.prefetch = append(so.prefetch, keys...) }
}

// NewSTM initiates a new STM instance, using serializable snapshot isolation by default.
func NewSTM(c *v3.Client, apply func(STM) error, so ...stmOption) (*v3.TxnResponse, error) {
	opts := &stmOptions{ctx: c.Ctx()}
	for _, f := range so {
		f(opts)
	}
	if len(opts.prefetch) != 0 {
		f := apply
		apply = func(s STM) error {
			s.Get(opts.prefetch...)
			return f(s)
		}
	}
	return runSTM(mkSTM(c, opts), apply)
}

func mkSTM(c *v3.Client, opts *stmOptions) STM {
	switch opts.iso {
	case SerializableSnapshot:
		s := &stmSerializable{
			stm:      stm{client: c, ctx: opts.ctx},
			prefetch: make(map[string]*v3.GetResponse),
		}
		s.conflicts = func() []v3.Cmp {
			return append(s.rset.cmps(), s.wset.cmps(s.rset.first()+1)...)
		}
		return s
	case Serializable:
		s := &stmSerializable{
			stm:      stm{client: c, ctx: opts.ctx},
			prefetch: make(map[string]*v3.GetResponse),
		}
		s.conflicts = func() []v3.Cmp { return s.rset.cmps() }
		return s
	case RepeatableReads:
		s := &stm{client: c, ctx: opts.ctx, getOpts: []v3.OpOption{v3.WithSerializable()}}
		s.conflicts = func() []v3.Cmp { return s.rset.cmps() }
		return s
	case ReadCommitted:
		s := &stm{client: c, ctx: opts.ctx, getOpts: []v3.OpOption{v3.WithSerializable()}}
		s.conflicts = func() []v3.Cmp { return nil }
		return s
	default:
		panic("unsupported stm")
	}
}

type stmResponse struct {
	resp *v3.TxnResponse
	err  error
}

func runSTM(s STM, apply func(STM) error) (*v3.TxnResponse, error) {
	outc := make(chan stmResponse, 1)
	go func() {
		defer func() {
			if r := recover(); r != nil {
				e, ok := r.(stmError)
				if !ok {
					// client apply panicked
					panic(r)
				}
				outc <- stmResponse{nil, e.err}
			}
		}()
		var out stmResponse
		for {
			s.reset()
			if out.err = apply(s); out.err != nil {
				break
			}
			if out.resp = s.commit(); out.resp != nil {
				break
			}
		}
		outc <- out
	}()
	r := <-outc
	return r.resp, r.err
}

// stm implements repeatable-read software transactional memory over etcd
type stm struct {
	client *v3.Client
	ctx    context.Context
	// rset holds read key values and revisions
	rset readSet
	// wset holds overwritten keys and their values
	wset writeSet
	// getOpts are the opts used for gets
	getOpts []v3.OpOption
	// conflicts computes the current conflicts on the txn
	conflicts func() []v3.Cmp
}

type stmPut struct {
	val string
	op  v3.Op
}

type readSet map[string]*v3.GetResponse

func (rs readSet) add(keys []string, txnresp *v3.TxnResponse) {
	for i, resp := range txnresp.Responses {
		rs[keys[i]] = (*v3.GetResponse)(resp.GetResponseRange())
	}
}

// first returns the store revision from the first fetch
func (rs readSet) first() int64 {
	ret := int64(math.MaxInt64 - 1)
	for _, resp := range rs {
		if rev := resp.Header.Revision; rev < ret {
			ret = rev
		}
	}
	return ret
}

// cmps guards the txn from updates to read set
func (rs readSet) cmps() []v3.Cmp {
	cmps := make([]v3.Cmp, 0, len(rs))
	for k, rk := range rs {
		cmps = append(cmps, isKeyCurrent(k, rk))
	}
	return cmps
}

type writeSet map[string]stmPut

func (ws writeSet) get(keys ...string) *stmPut {
	for _, key := range keys {
		if wv, ok := ws[key]; ok {
			return &wv
		}
	}
	return nil
}

// cmps returns a cmp list testing no writes have happened past rev
func (ws writeSet) cmps(rev int64) []v3.Cmp {
	cmps := make([]v3.Cmp, 0, len(ws))
	for key := range ws {
		cmps = append(cmps, v3.Compare(v3.ModRevision(key), "<", rev))
	}
	return cmps
}

// puts is the list of ops for all pending writes
func (ws writeSet) puts() []v3.Op {
	puts := make([]v3.Op, 0, len(ws))
	for _, v := range ws {
		puts = append(puts, v.op)
	}
	return puts
}

func (s *stm) Get(keys ...string) string {
	if wv := s.wset.get(keys...); wv != nil {
		return wv.val
	}
	return respToValue(s.fetch(keys...))
}

func (s *stm) Put(key, val string, opts ...v3.OpOption) {
	s.wset[key] = stmPut{val, v3.OpPut(key, val, opts...)}
}

func (s *stm) Del(key string) { s.wset[key] = stmPut{"", v3.OpDelete(key)} }

func (s *stm) Rev(key string) int64 {
	if resp := s.fetch(key); resp != nil && len(resp.Kvs) != 0 {
		return resp.Kvs[0].ModRevision
	}
	return 0
}

func (s *stm) commit() *v3.TxnResponse {
	txnresp, err := s.client.Txn(s.ctx).If(s.conflicts()...).Then(s.wset.puts()...).Commit()
	if err != nil {
		panic(stmError{err})
	}
	if txnresp.Succeeded {
		return txnresp
	}
	return nil
}

func (s *stm) fetch(keys ...string) *v3.GetResponse {
	if len(keys) == 0 {
		return nil
	}
	ops := make([]v3.Op, len(keys))
	for i, key := range keys {
		if resp, ok := s.rset[key]; ok {
			return resp
		}
		ops[i] = v3.OpGet(key, s.getOpts...)
	}
	txnresp, err := s.client.Txn(s.ctx).Then(ops...).Commit()
	if err != nil {
		panic(stmError{err})
	}
	s.rset.add(keys, txnresp)
	return (*v3.GetResponse)(txnresp.Responses[0].GetResponseRange())
}

func (s *stm) reset() {
	s.rset = make(map[string]*v3.GetResponse)
	s.wset = make(map[string]stmPut)
}

type stmSerializable struct {
	stm
	prefetch map[string]*v3.GetResponse
}

func (s *stmSerializable) Get(keys ...string) string {
	if wv := s.wset.get(keys...); wv != nil {
		return wv.val
	}
	firstRead := len(s.rset) == 0
	for _, key := range keys {
		if resp, ok := s.prefetch[key]; ok {
			delete(s.prefetch, key)
			s.rset[key] = resp
		}
	}
	resp := s.stm.fetch(keys...)
	if firstRead {
		// txn's base revision is defined by the first read
		s.getOpts = []v3.OpOption{
			v3.WithRev(resp.Header.Revision),
			v3.WithSerializable(),
		}
	}
	return respToValue(resp)
}

func (s *stmSerializable) Rev(key string) int64 {
	s.Get(key)
	return s.stm.Rev(key)
}

func (s *stmSerializable) gets() ([]string, []v3.Op) {
	keys := make([]string, 0, len(s.rset))
	ops := make([]v3.Op, 0, len(s.rset))
	for k := range s.rset {
		keys = append(keys, k)
		ops = append(ops, v3.OpGet(k))
	}
	return keys, ops
}

func (s *stmSerializable) commit() *v3.TxnResponse {
	keys, getops := s.gets()
	txn := s.client.Txn(s.ctx).If(s.conflicts()...).Then(s.wset.puts()...)
	// use Else to prefetch keys in case of conflict to save a round trip
	txnresp, err := txn.Else(getops...).Commit()
	if err != nil {
		panic(stmError{err})
	}
	if txnresp.Succeeded {
		return txnresp
	}
	// load prefetch with Else data
	s.rset.add(keys, txnresp)
	s.prefetch = s.rset
	s.getOpts = nil
	return nil
}

func isKeyCurrent(k string, r *v3.GetResponse) v3.Cmp {
	if len(r.Kvs) != 0 {
		return v3.Compare(v3.ModRevision(k), "=", r.Kvs[0].ModRevision)
	}
	return v3.Compare(v3.ModRevision(k), "=", 0)
}

func respToValue(resp *v3.GetResponse) string {
	if resp == nil || len(resp.Kvs) == 0 {
		return ""
	}
	return string(resp.Kvs[0].Value)
}

// NewSTMRepeatable is deprecated.
func NewSTMRepeatable(ctx context.Context, c *v3.Client, apply func(STM) error) (*v3.TxnResponse, error) {
	return NewSTM(c, apply, WithAbortContext(ctx), WithIsolation(RepeatableReads))
}

// NewSTMSerializable is deprecated.
func NewSTMSerializable(ctx context.Context, c *v3.Client, apply func(STM) error) (*v3.TxnResponse, error) {
	return NewSTM(c, apply, WithAbortContext(ctx), WithIsolation(Serializable))
}

// NewSTMReadCommitted is deprecated.
func NewSTMReadCommitted(ctx context.Context, c *v3.Client, apply func(STM) error) (*v3.TxnResponse, error) {
	return NewSTM(c, apply, WithAbortContext(ctx), WithIsolation(ReadCommitted))
}
