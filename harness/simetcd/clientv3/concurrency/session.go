// Copyright 2016 The etcd Authors
//
// Licensed under the Apache License, Version 2.0 (the "License");
// you may not use this file except in compliance with the License.
// You may obtain a copy of the License at
//
//     http://www.apache.org/licenses/LICENSE-2.0
//
// Unless required by applicable law or agreed to in writing, software
// distributed under the License is distributed on an "AS IS" BASIS,
// WITHOUT WARRANTIES OR CONDITIONS OF ANY KIND, either express or implied.
// See the License for the specific language governing permissions and
// limitations under the License.

package concurrency

import (
	"context"
	"time"

	v3 "go.etcd.io/etcd/client/v3"
)

const defaultSessionTTL = 60

// Session represents a lease kept alive for the lifetime of a client.
// Fault-tolerant applications may use sessions to reason about liveness.
type Session struct {
	client *v3.Client
	opts   *sessionOptions
	id     v3.LeaseID

	cancel context.CancelFunc
	donec  <-chan struct{}
}

// NewSession gets the leased session for a client.
func NewSession(client *v3.Client, opts ...SessionOption) (*Session, error) {
	ops := &sessionOptions{ttl: defaultSessionTTL, ctx: client.Ctx()}
	for _, opt := range opts {
		opt(ops)
	}

	id := ops.leaseID
	if id == v3.NoLease {
		resp, err := client.Grant(ops.ctx, int64(ops.ttl))
		if err != nil {
			return nil, err
		}
		id = resp.ID
	}

	ctx, cancel := context.WithCancel(ops.ctx)
	keepAlive, err := client.KeepAlive(ctx, id)
	if err != nil || keepAlive == nil {
		cancel()
		return nil, err
	}

	donec := make(chan struct{})
	s := &Session{client: client, opts: ops, id: id, cancel: cancel, donec: donec}

	// keep the lease alive until client error or cancelled context
	go func() {
		defer close(donec)
		for range keepAlive {
			// eat messages until keep alive channel closes
		}
	}()

	return s, nil
}

// Client is the etcd client that is attached to the session.
func (s *Session) Client() *v3.Client {
	return s.client
}

// Lease is the lease ID for keys bound to the session.
func (s *Session) Lease() v3.LeaseID { return s.id }

// Done returns a channel that closes when the lease is orphaned, expires, or
// is otherwise no longer being refreshed.
func (s *Session) Done() <-chan struct{} { return s.donec }

// Orphan ends the refresh for the session lease. This is useful
// in case the state of the client connection is indeterminate (revoke
// would fail) or when transferring lease ownership.
func (s *Session) Orphan() {
	s.cancel()
	<-s.donec
}

// Close orphans the session and revokes the session lease.
func (s *Session) Close() error {
	s.Orphan()
	// if revoke takes longer than the ttl, lease is expired anyway
	ctx, cancel := context.WithTimeout(s.opts.ctx, time.Duration(s.opts.ttl)*time.Second)
	_, err := s.client.Revoke(ctx, s.id)
	cancel()
	return err
}

type sessionOptions struct {
	ttl     int
	leaseID v3.LeaseID
	ctx     context.Context
}

// SessionOption configures Session.
type SessionOption func(*sessionOptions)

// WithTTL configures the session's TTL in seconds.
// If TTL is <= 0, the default 60 seconds TTL will be used.
func WithTTL(ttl int) SessionOption {
	return func(so *sessionOptions) {
		if ttl > 0 {
			so.ttl = ttl
		}
	}
}

// WithLease specifies the existing leaseID to be used for the session.
// This is useful in process restart scenario, for example, to reclaim
// leadership from an election prior to restart.
func WithLease(leaseID v3.LeaseID) SessionOption {
	return func(so *sessionOptions) {
		so.leaseID = leaseID
	}
}

// WithContext assigns a context to the session instead of defaulting to
// using the client context. This is useful for canceling NewSession and
// Close operations immediately without having to close the client. If the
// context is canceled before Close() completes, the session's lease will be
// abandoned and left to expire instead of being revoked.
func WithContext(ctx context.Context) SessionOption {
	return func(so *sessionOptions) {
		so.ctx = ctx
	}
}
