// Copyright 2016 The etcd Authors
//
// Licensed under the Apache License, Version 2.0 (the "License");
// you may not use this file except in compliance with the License.
// You may obtain a copy of the License at
//
//     http://www.apache.org/licenses/LICENSE-2.0
//
// Unless required by applicable law or agreed to in writing, software
// distributed under the License is distributed on an "AS IS" BASIS,
// WITHOUT WARRANTIES OR CONDITIONS OF ANY KIND, either express or implied.
// See the License for the specific language governing permissions and
// limitations under the License.

package concurrency

import (
	"context"
	"errors"
	"fmt"

	pb "go.etcd.io/etcd/api/v3/etcdserverpb"
	"go.etcd.io/etcd/api/v3/mvccpb"
	v3 "go.etcd.io/etcd/client/v3"
)

var (
	ErrElectionNotLeader = errors.New("election: not leader")
	ErrElectionNoLeader  = errors.New("election: no leader")
)

type Election struct {
	session *Session

	keyPrefix string

	leaderKey     string
	leaderRev     int64
	leaderSession *Session
	hdr           *pb.ResponseHeader
}

// NewElection returns a new election on a given key prefix.
func NewElection(s *Session, pfx string) *Election {
	return &Election{session: s, keyPrefix: pfx + "/"}
}

// ResumeElection initializes an election with a known leader.
func ResumeElection(s *Session, pfx string, leaderKey string, leaderRev int64) *Election {
	return &Election{
		keyPrefix:     pfx,
		session:       s,
		leaderKey:     leaderKey,
		leaderRev:     leaderRev,
		leaderSession: s,
	}
}

// Campaign puts a value as eligible for the election on the prefix
// key.
// Multiple sessions can participate in the election for the
// same prefix, but only one can be the leader at a time.
//
// If the context is 'context.TODO()/context.Background()', the Campaign
// will continue to be blocked for other keys to be deleted, unless server
// returns a non-recoverable error (e.g. ErrCompacted).
// Otherwise, until the context is not cancelled or timed-out, Campaign will
// continue to be blocked until it becomes the leader.
func (e *Election) Campaign(ctx context.Context, val string) error {
	s := e.session
	client := e.session.Client()

	k := fmt.Sprintf("%s%x", e.keyPrefix, s.Lease())
	txn := client.Txn(ctx).If(v3.Compare(v3.CreateRevision(k), "=", 0))
	txn = txn.Then(v3.OpPut(k, val, v3.WithLease(s.Lease())))
	txn = txn.Else(v3.OpGet(k))
	resp, err := txn.Commit()
	if err != nil {
		return err
	}
	e.leaderKey, e.leaderRev, e.leaderSession = k, resp.Header.Revision, s
	if !resp.Succeeded {
		kv := resp.Responses[0].GetResponseRange().Kvs[0]
		e.leaderRev = kv.CreateRevision
		if string(kv.Value) != val {
			if err = e.Proclaim(ctx, val); err != nil {
				e.Resign(ctx)
				return err
			}
		}
	}

	_, err = waitDeletes(ctx, client, e.keyPrefix, e.leaderRev-1)
	if err != nil {
		// clean up in case of context cancel
		select {
		case <-ctx.Done():
			e.Resign(client.Ctx())
		default:
			e.leaderSession = nil
		}
		return err
	}
	e.hdr = resp.Header

	return nil
}

// Proclaim lets the leader announce a new value without another election.
func (e *Election) Proclaim(ctx context.Context, val string) error {
	if e.leaderSession == nil {
		return ErrElectionNotLeader
	}
	client := e.session.Client()
	cmp := v3.Compare(v3.CreateRevision(e.leaderKey), "=", e.leaderRev)
	txn := client.Txn(ctx).If(cmp)
	txn = txn.Then(v3.OpPut(e.leaderKey, val, v3.WithLease(e.leaderSession.Lease())))
	tresp, terr := txn.Commit()
	if terr != nil {
		return terr
	}
	if !tresp.Succeeded {
		e.leaderKey = ""
		return ErrElectionNotLeader
	}

	e.hdr = tresp.Header
	return nil
}

// Resign lets a leader start a new election.
func (e *Election) Resign(ctx context.Context) (err error) {
	if e.leaderSession == nil {
		return nil
	}
	client := e.session.Client()
	cmp := v3.Compare(v3.CreateRevision(e.leaderKey), "=", e.leaderRev)
	resp, err := client.Txn(ctx).If(cmp).Then(v3.OpDelete(e.leaderKey)).Commit()
	if err == nil {
		e.hdr = resp.Header
	}
	e.leaderKey = ""
	e.leaderSession = nil
	return err
}

// Leader returns the leader value for the current election.
func (e *Election) Leader(ctx context.Context) (*v3.GetResponse, error) {
	client := e.session.Client()
	resp, err := client.Get(ctx, e.keyPrefix, v3.WithFirstCreate()...)
	if err != nil {
		return nil, err
	} else if len(resp.Kvs) == 0 {
		// no leader currently elected
		return nil, ErrElectionNoLeader
	}
	return resp, nil
}

// Observe returns a channel that reliably observes ordered leader proposals
// as GetResponse values on every current elected leader key. It will not
// necessarily fetch all historical leader updates, but will always post the
// most recent leader value.
//
// The channel closes when the context is canceled or the underlying watcher
// is otherwise disrupted.
func (e *Election) Observe(ctx context.Context) <-chan v3.GetResponse {
	retc := make(chan v3.GetResponse)
	go e.observe(ctx, retc)
	return retc
}

func (e *Election) observe(ctx context.Context, ch chan<- v3.GetResponse) {
	client := e.session.Client()

	defer close(ch)
	for {
		resp, err := client.Get(ctx, e.keyPrefix, v3.WithFirstCreate()...)
		if err != nil {
			return
		}

		var kv *mvccpb.KeyValue
		var hdr *pb.ResponseHeader

		if len(resp.Kvs) == 0 {
			cctx, cancel := context.WithCancel(ctx)
			// wait for first key put on prefix
			opts := []v3.OpOption{v3.WithRev(resp.Header.Revision), v3.WithPrefix()}
			wch := client.Watch(cctx, e.keyPrefix, opts...)
			for kv == nil {
				wr, ok := <-wch
				if !ok || wr.Err() != nil {
					cancel()
					return
				}
				// only accept puts; a delete will make observe() spin
				for _, ev := range wr.Events {
					if ev.Type == mvccpb.PUT {
						hdr, kv = &wr.Header, ev.Kv
						// may have multiple revs; hdr.rev = the last rev
						// set to kv's rev in case batch has multiple Puts
						hdr.Revision = kv.ModRevision
						break
					}
				}
			}
			cancel()
		} else {
			hdr, kv = resp.Header, resp.Kvs[0]
		}

		select {
		case ch <- v3.GetResponse{Header: hdr, Kvs: []*mvccpb.KeyValue{kv}}:
		case <-ctx.Done():
			return
		}

		cctx, cancel := context.WithCancel(ctx)
		wch := client.Watch(cctx, string(kv.Key), v3.WithRev(hdr.Revision+1))
		keyDeleted := false
		for !keyDeleted {
			wr, ok := <-wch
			if !ok {
				cancel()
				return
			}
			for _, ev := range wr.Events {
				if ev.Type == mvccpb.DELETE {
					keyDeleted = true
					break
				}
				resp.Header = &wr.Header
				resp.Kvs = []*mvccpb.KeyValue{ev.Kv}
				select {
				case ch <- *resp:
				case <-cctx.Done():
					cancel()
					return
				}
			}
		}
		cancel()
	}
}

// Key returns the leader key if elected, empty string otherwise.
func (e *Election) Key() string { return e.leaderKey }

// Rev returns the leader key's creation revision, if elected.
func (e *Election) Rev() int64 { return e.leaderRev }

// Header is the response header from the last successful election proposal.
func (e *Election) Header() *pb.ResponseHeader { return e.hdr }
