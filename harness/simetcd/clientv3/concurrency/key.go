// Copyright 2016 The etcd Authors
//
// Licensed under the Apache License, Version 2.0 (the "License");
// you may not use this file except in compliance with the License.
// You may obtain a copy of the License at
//
//     http://www.apache.org/licenses/LICENSE-2.0
//
// Unless required by applicable law or agreed to in writing, software
// distributed under the License is distributed on an "AS IS" BASIS,
// WITHOUT WARRANTIES OR CONDITIONS OF ANY KIND, either express or implied.
// See the License for the specific language governing permissions and
// limitations under the License.

package concurrency

import (
	"context"
	"fmt"

	pb "go.etcd.io/etcd/api/v3/etcdserverpb"
	"go.etcd.io/etcd/api/v3/mvccpb"
	v3 "go.etcd.io/etcd/client/v3"
)

func waitDelete(ctx context.Context, client *v3.Client, key string, rev int64) error {
	cctx, cancel := context.WithCancel(ctx)
	defer cancel()

	var wr v3.WatchResponse
	wch := client.Watch(cctx, key, v3.WithRev(rev))
	for wr = range wch {
		for _, ev := range wr.Events {
			if ev.Type == mvccpb.DELETE {
				return nil
			}
		}
	}
	if err := wr.Err(); err != nil {
		return err
	}
	if err := ctx.Err(); err != nil {
		return err
	}
	return fmt.Errorf("lost watcher waiting for delete")
}

// waitDeletes efficiently waits until all keys matching the prefix and no greater
// than the create revision.
func waitDeletes(ctx context.Context, client *v3.Client, pfx string, maxCreateRev int64) (*pb.ResponseHeader, error) {
	getOpts := append(v3.WithLastCreate(), v3.WithMaxCreateRev(maxCreateRev))
	for {
		resp, err := client.Get(ctx, pfx, getOpts...)
		if err != nil {
			return nil, err
		}
		if len(resp.Kvs) == 0 {
			return resp.Header, nil
		}
		lastKey := string(resp.Kvs[0].Key)
		if err = waitDelete(ctx, client, lastKey, resp.Header.Revision); err != nil {
			return nil, err
		}
	}
}
