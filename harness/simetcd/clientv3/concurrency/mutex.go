// Copyright 2016 The etcd Authors
//
// Licensed under the Apache License, Version 2.0 (the "License");
// you may not use this file except in compliance with the License.
// You may obtain a copy of the License at
//
//     http://www.apache.org/licenses/LICENSE-2.0
//
// Unless required by applicable law or agreed to in writing, software
// distributed under the License is distributed on an "AS IS" BASIS,
// WITHOUT WARRANTIES OR CONDITIONS OF ANY KIND, either express or implied.
// See the License for the specific language governing permissions and
// limitations under the License.

package concurrency

import (
	"context"
	"errors"
	"fmt"
	"sync"

	pb "go.etcd.io/etcd/api/v3/etcdserverpb"
	v3 "go.etcd.io/etcd/client/v3"
)

// ErrLocked is returned by TryLock when Mutex is already locked by another session.
var ErrLocked = errors.New("mutex: Locked by another session")
var ErrSessionExpired = errors.New("mutex: session is expired")

// Mutex implements the sync Locker interface with etcd
type Mutex struct {
	s *Session

	pfx   string
	myKey string
	myRev int64
	hdr   *pb.ResponseHeader
}

func NewMutex(s *Session, pfx string) *Mutex {
	return &Mutex{s, pfx + "/", "", -1, nil}
}

// TryLock locks the mutex if not already locked by another session.
// If lock is held by another session, return immediately after attempting necessary cleanup
// The ctx argument is used for the sending/receiving Txn RPC.
func (m *Mutex) TryLock(ctx context.Context) error {
	resp, err := m.tryAcquire(ctx)
	if err != nil {
		return err
	}
	// if no key on prefix / the minimum rev is key, already hold the lock
	ownerKey := resp.Responses[1].GetResponseRange().Kvs
	if len(ownerKey) == 0 || ownerKey[0].CreateRevision == m.myRev {
		m.hdr = resp.Header
		return nil
	}
	client := m.s.Client()
	// Cannot lock, so delete the key
	if _, err := client.Delete(ctx, m.myKey); err != nil {
		return err
	}
	m.myKey = "\x00"
	m.myRev = -1
	return ErrLocked
}

// Lock locks the mutex with a cancelable context. If the context is canceled
// while trying to acquire the lock, the mutex tries to clean its stale lock entry.
func (m *Mutex) Lock(ctx context.Context) error {
	resp, err := m.tryAcquire(ctx)
	if err != nil {
		return err
	}
	// if no key on prefix / the minimum rev is key, already hold the lock
	ownerKey := resp.Responses[1].GetResponseRange().Kvs
	if len(ownerKey) == 0 || ownerKey[0].CreateRevision == m.myRev {
		m.hdr = resp.Header
		return nil
	}
	client := m.s.Client()
	// wait for deletion revisions prior to myKey
	// TODO: early termination if the session key is deleted before other session keys with smaller revisions.
	_, werr := waitDeletes(ctx, client, m.pfx, m.myRev-1)
	// release lock key if wait failed
	if werr != nil {
		m.Unlock(client.Ctx())
		return werr
	}

	// make sure the session is not expired, and the owner key still exists.
	gresp, werr := client.Get(ctx, m.myKey)
	if werr != nil {
		m.Unlock(client.Ctx())
		return werr
	}

	if len(gresp.Kvs) == 0 { // is the session key lost?
		return ErrSessionExpired
	}
	m.hdr = gresp.Header

	return nil
}

func (m *Mutex) tryAcquire(ctx context.Context) (*v3.TxnResponse, error) {
	s := m.s
	client := m.s.Client()

	m.myKey = fmt.Sprintf("%s%x", m.pfx, s.Lease())
	cmp := v3.Compare(v3.CreateRevision(m.myKey), "=", 0)
	// put self in lock waiters via myKey; oldest waiter holds lock
	put := v3.OpPut(m.myKey, "", v3.WithLease(s.Lease()))
	// reuse key in case this session already holds the lock
	get := v3.OpGet(m.myKey)
	// fetch current holder to complete uncontended path with only one RPC
	getOwner := v3.OpGet(m.pfx, v3.WithFirstCreate()...)
	resp, err := client.Txn(ctx).If(cmp).Then(put, getOwner).Else(get, getOwner).Commit()
	if err != nil {
		return nil, err
	}
	m.myRev = resp.Header.Revision
	if !resp.Succeeded {
		m.myRev = resp.Responses[0].GetResponseRange().Kvs[0].CreateRevision
	}
	return resp, nil
}

func (m *Mutex) Unlock(ctx context.Context) error {
	client := m.s.Client()
	if _, err := client.Delete(ctx, m.myKey); err != nil {
		return err
	}
	m.myKey = "\x00"
	m.myRev = -1
	return nil
}

func (m *Mutex) IsOwner() v3.Cmp {
	return v3.Compare(v3.CreateRevision(m.myKey), "=", m.myRev)
}

func (m *Mutex) Key() string { return m.myKey }

// Header is the response header received from etcd on acquiring the lock.
func (m *Mutex) Header() *pb.ResponseHeader { return m.hdr }

type lockerMutex struct{ *Mutex }

func (lm *lockerMutex) Lock() {
	client := lm.s.Client()
	if err := lm.Mutex.Lock(client.Ctx()); err != nil {
		panic(err)
	}
}
func (lm *lockerMutex) Unlock() {
	client := lm.s.Client()
	if err := lm.Mutex.Unlock(client.Ctx()); err != nil {
		panic(err)
	}
}

// NewLocker creates a sync.Locker backed by an etcd mutex.
func NewLocker(s *Session, pfx string) sync.Locker {
	return &lockerMutex{NewMutex(s, pfx)}
}
