// Copyright 2018 The etcd Authors
//
// Licensed under the Apache License, Version 2.0 (the "License");
// you may not use this file except in compliance with the License.
// You may obtain a copy of the License at
//
//     http://www.apache.org/licenses/LICENSE-2.0
//
// Unless required by applicable law or agreed to in writing, software
// distributed under the License is distributed on an "AS IS" BASIS,
// WITHOUT WARRANTIES OR CONDITIONS OF ANY KIND, either express or implied.
// See the License for the specific language governing permissions and
// limitations under the License.

package mockserver

import (
	"context"
	"fmt"
	"io/ioutil"
	"net"
	"os"
	"sync"

	pb "go.etcd.io/etcd/api/v3/etcdserverpb"

	"google.golang.org/grpc"
	"google.golang.org/grpc/resolver"
)

// MockServer provides a mocked out grpc server of the etcdserver interface.
type MockServer struct {
	ln         net.Listener
	Network    string
	Address    string
	GrpcServer *grpc.Server
}

func (ms *MockServer) ResolverAddress() resolver.Address {
	switch ms.Network {
	case "unix":
		return resolver.Address{Addr: fmt.Sprintf("unix://%s", ms.Address)}
	case "tcp":
		return resolver.Address{Addr: ms.Address}
	default:
		panic("illegal network type: " + ms.Network)
	}
}

// MockServers provides a cluster of mocket out gprc servers of the etcdserver interface.
type MockServers struct {
	mu      sync.RWMutex
	Servers []*MockServer
	wg      sync.WaitGroup
}

// StartMockServers creates the desired count of mock servers
// and starts them.
func StartMockServers(count int) (ms *MockServers, err error) {
	return StartMockServersOnNetwork(count, "tcp")
}

// StartMockServersOnNetwork creates mock servers on either 'tcp' or 'unix' sockets.
func StartMockServersOnNetwork(count int, network string) (ms *MockServers, err error) {
	switch network {
	case "tcp":
		return startMockServersTcp(count)
	case "unix":
		return startMockServersUnix(count)
	default:
		return nil, fmt.Errorf("unsupported network type: %s", network)
	}
}

func startMockServersTcp(count int) (ms *MockServers, err error) {
	addrs := make([]string, 0, count)
	for i := 0; i < count; i++ {
		addrs = append(addrs, "localhost:0")
	}
	return startMockServers("tcp", addrs)
}

func startMockServersUnix(count int) (ms *MockServers, err error) {
	dir := os.TempDir()
	addrs := make([]string, 0, count)
	for i := 0; i < count; i++ {
		f, err := ioutil.TempFile(dir, "etcd-unix-so-")
		if err != nil {
			return nil, fmt.Errorf("failed to allocate temp file for unix socket: %v", err)
		}
		fn := f.Name()
		err = os.Remove(fn)
		if err != nil {
			return nil, fmt.Errorf("failed to remove temp file before creating unix socket: %v", err)
		}
		addrs = append(addrs, fn)
	}
	return startMockServers("unix", addrs)
}

func startMockServers(network string, addrs []string) (ms *MockServers, err error) {
	ms = &MockServers{
		Servers: make([]*MockServer, len(addrs)),
		wg:      sync.WaitGroup{},
	}
	defer func() {
		if err != nil {
			ms.Stop()
		}
	}()
	for idx, addr := range addrs {
		ln, err := net.Listen(network, addr)
		if err != nil {
			return nil, fmt.Errorf("failed to listen %v", err)
		}
		ms.Servers[idx] = &MockServer{ln: ln, Network: network, Address: ln.Addr().String()}
		ms.StartAt(idx)
	}
	return ms, nil
}

// StartAt restarts mock server at given index.
func (ms *MockServers) StartAt(idx int) (err error) {
	ms.mu.Lock()
	defer ms.mu.Unlock()

	if ms.Servers[idx].ln == nil {
		ms.Servers[idx].ln, err = net.Listen(ms.Servers[idx].Network, ms.Servers[idx].Address)
		if err != nil {
			return fmt.Errorf("failed to listen %v", err)
		}
	}

	svr := grpc.NewServer()
	pb.RegisterKVServer(svr, &mockKVServer{})
	ms.Servers[idx].GrpcServer = svr

	ms.wg.Add(1)
	go func(svr *grpc.Server, l net.Listener) {
		svr.Serve(l)
	}(ms.Servers[idx].GrpcServer, ms.Servers[idx].ln)
	return nil
}

// StopAt stops mock server at given index.
func (ms *MockServers) StopAt(idx int) {
	ms.mu.Lock()
	defer ms.mu.Unlock()

	if ms.Servers[idx].ln == nil {
		return
	}

	ms.Servers[idx].GrpcServer.Stop()
	ms.Servers[idx].GrpcServer = nil
	ms.Servers[idx].ln = nil
	ms.wg.Done()
}

// Stop stops the mock server, immediately closing all open connections and listeners.
func (ms *MockServers) Stop() {
	for idx := range ms.Servers {
		ms.StopAt(idx)
	}
	ms.wg.Wait()
}

type mockKVServer struct{}

func (m *mockKVServer) Range(context.Context, *pb.RangeRequest) (*pb.RangeResponse, error) {
	return &pb.RangeResponse{}, nil
}

func (m *mockKVServer) Put(context.Context, *pb.PutRequest) (*pb.PutResponse, error) {
	return &pb.PutResponse{}, nil
}

func (m *mockKVServer) DeleteRange(context.Context, *pb.DeleteRangeRequest) (*pb.DeleteRangeResponse, error) {
	return &pb.DeleteRangeResponse{}, nil
}

func (m *mockKVServer) Txn(context.Context, *pb.TxnRequest) (*pb.TxnResponse, error) {
	return &pb.TxnResponse{}, nil
}

func (m *mockKVServer) Compact(context.Context, *pb.CompactionRequest) (*pb.CompactionResponse, error) {
	return &pb.CompactionResponse{}, nil
}
