// Copyright 2016 The etcd Authors
//
// Licensed under the Apache License, Version 2.0 (the "License");
// you may not use this file except in compliance with the License.
// You may obtain a copy of the License at
//
//     http://www.apache.org/licenses/LICENSE-2.0
//
// Unless required by applicable law or agreed to in writing, software
// distributed under the License is distributed on an "AS IS" BASIS,
// WITHOUT WARRANTIES OR CONDITIONS OF ANY KIND, either express or implied.
// See the License for the specific language governing permissions and
// limitations under the License.

package clientv3

import (
	"context"
	"errors"
	"fmt"
	"sync"
	"time"

	pb "go.etcd.io/etcd/api/v3/etcdserverpb"
	"go.etcd.io/etcd/api/v3/mvccpb"
	v3rpc "go.etcd.io/etcd/api/v3/v3rpc/rpctypes"

	"go.uber.org/zap"
	"google.golang.org/grpc"
	"google.golang.org/grpc/codes"
	"google.golang.org/grpc/metadata"
	"google.golang.org/grpc/status"
)

const (
	EventTypeDelete = mvccpb.DELETE
	EventTypePut    = mvccpb.PUT

	closeSendErrTimeout = 250 * time.Millisecond
)

type Event mvccpb.Event

type WatchChan <-chan WatchResponse

type Watcher interface {
	// Watch watches on a key or prefix. The watched events will be returned
	// through the returned channel. If revisions waiting to be sent over the
	// watch are compacted, then the watch will be canceled by the server, the
	// client will post a compacted error watch response, and the channel will close.
	// If the requested revision is 0 or unspecified, the returned channel will
	// return watch events that happen after the server receives the watch request.
	// If the context "ctx" is canceled or timed out, returned "WatchChan" is closed,
	// and "WatchResponse" from this closed channel has zero events and nil "Err()".
	// The context "ctx" MUST be canceled, as soon as watcher is no longer being used,
	// to release the associated resources.
	//
	// If the context is "context.Background/TODO", returned "WatchChan" will
	// not be closed and block until event is triggered, except when server
	// returns a non-recoverable error (e.g. ErrCompacted).
	// For example, when context passed with "WithRequireLeader" and the
	// connected server has no leader (e.g. due to network partition),
	// error "etcdserver: no leader" (ErrNoLeader) will be returned,
	// and then "WatchChan" is closed with non-nil "Err()".
	// In order to prevent a watch stream being stuck in a partitioned node,
	// make sure to wrap context with "WithRequireLeader".
	//
	// Otherwise, as long as the context has not been canceled or timed out,
	// watch will retry on other recoverable errors forever until reconnected.
	//
	// TODO: explicitly set context error in the last "WatchResponse" message and close channel?
	// Currently, client contexts are overwritten with "valCtx" that never closes.
	// TODO(v3.4): configure watch retry policy, limit maximum retry number
	// (see https://github.com/etcd-io/etcd/issues/8980)
	Watch(ctx context.Context, key string, opts ...OpOption) WatchChan

	// RequestProgress requests a progress notify response be sent in all watch channels.
	RequestProgress(ctx context.Context) error

	// Close closes the watcher and cancels all watch requests.
	Close() error
}

type WatchResponse struct {
	Header pb.ResponseHeader
	Events []*Event

	// CompactRevision is the minimum revision the watcher may receive.
	CompactRevision int64

	// Canceled is used to indicate watch failure.
	// If the watch failed and the stream was about to close, before the channel is closed,
	// the channel sends a final response that has Canceled set to true with a non-nil Err().
	Canceled bool

	// Created is used to indicate the creation of the watcher.
	Created bool

	closeErr error

	// cancelReason is a reason of canceling watch
	cancelReason string
}

// IsCreate returns true if the event tells that the key is newly created.
func (e *Event) IsCreate() bool {
	return e.Type == EventTypePut && e.Kv.CreateRevision == e.Kv.ModRevision
}

// IsModify returns true if the event tells that a new value is put on existing key.
func (e *Event) IsModify() bool {
	return e.Type == EventTypePut && e.Kv.CreateRevision != e.Kv.ModRevision
}

// Err is the error value if this WatchResponse holds an error.
func (wr *WatchResponse) Err() error {
	switch {
	case wr.closeErr != nil:
		return v3rpc.Error(wr.closeErr)
	case wr.CompactRevision != 0:
		return v3rpc.ErrCompacted
	case wr.Canceled:
		if len(wr.cancelReason) != 0 {
			return v3rpc.Error(status.Error(codes.FailedPrecondition, wr.cancelReason))
		}
		return v3rpc.ErrFutureRev
	}
	return nil
}

// IsProgressNotify returns true if the WatchResponse is progress notification.
func (wr *WatchResponse) IsProgressNotify() bool {
	return len(wr.Events) == 0 && !wr.Canceled && !wr.Created && wr.CompactRevision == 0 && wr.Header.Revision != 0
}

// watcher implements the Watcher interface
type watcher struct {
	remote   pb.WatchClient
	callOpts []grpc.CallOption

	// mu protects the grpc streams map
	mu sync.Mutex

	// streams holds all the active grpc streams keyed by ctx value.
	streams map[string]*watchGrpcStream
	lg      *zap.Logger
}

// watchGrpcStream tracks all watch resources attached to a single grpc stream.
type watchGrpcStream struct {
	owner    *watcher
	remote   pb.WatchClient
	callOpts []grpc.CallOption

	// ctx controls internal remote.Watch requests
	ctx context.Context
	// ctxKey is the key used when looking up this stream's context
	ctxKey string
	cancel context.CancelFunc

	// substreams holds all active watchers on this grpc stream
	substreams map[int64]*watcherStream
	// resuming holds all resuming watchers on this grpc stream
	resuming []*watcherStream

	// reqc sends a watch request from Watch() to the main goroutine
	reqc chan watchStreamRequest
	// respc receives data from the watch client
	respc chan *pb.WatchResponse
	// donec closes to broadcast shutdown
	donec chan struct{}
	// errc transmits errors from grpc Recv to the watch stream reconnect logic
	errc chan error
	// closingc gets the watcherStream of closing watchers
	closingc chan *watcherStream
	// wg is Done when all substream goroutines have exited
	wg sync.WaitGroup

	// resumec closes to signal that all substreams should begin resuming
	resumec chan struct{}
	// closeErr is the error that closed the watch stream
	closeErr error

	lg *zap.Logger
}

// watchStreamRequest is a union of the supported watch request operation types
type watchStreamRequest interface {
	toPB() *pb.WatchRequest
}

// watchRequest is issued by the subscriber to start a new watcher
type watchRequest struct {
	ctx context.Context
	key string
	end string
	rev int64

	// send created notification event if this field is true
	createdNotify bool
	// progressNotify is for progress updates
	progressNotify bool
	// fragmentation should be disabled by default
	// if true, split watch events when total exceeds
	// "--max-request-bytes" flag value + 512-byte
	fragment bool

	// filters is the list of events to filter out
	filters []pb.WatchCreateRequest_FilterType
	// get the previous key-value pair before the event happens
	prevKV bool
	// retc receives a chan WatchResponse once the watcher is established
	retc chan chan WatchResponse
}

// progressRequest is issued by the subscriber to request watch progress
type progressRequest struct {
}

// watcherStream represents a registered watcher
type watcherStream struct {
	// initReq is the request that initiated this request
	initReq watchRequest

	// outc publishes watch responses to subscriber
	outc chan WatchResponse
	// recvc buffers watch responses before publishing
	recvc chan *WatchResponse
	// donec closes when the watcherStream goroutine stops.
	donec chan struct{}
	// closing is set to true when stream should be scheduled to shutdown.
	closing bool
	// id is the registered watch id on the grpc stream
	id int64

	// buf holds all events received from etcd but not yet consumed by the client
	buf []*WatchResponse
}

func NewWatcher(c *Client) Watcher {
	return NewWatchFromWatchClient(pb.NewWatchClient(c.conn), c)
}

func NewWatchFromWatchClient(wc pb.WatchClient, c *Client) Watcher {
	w := &watcher{
		remote:  wc,
		streams: make(map[string]*watchGrpcStream),
	}
	if c != nil {
		w.callOpts = c.callOpts
		w.lg = c.lg
	}
	return w
}

// never closes
var valCtxCh = make(chan struct{})
var zeroTime = time.Unix(0, 0)

// ctx with only the values; never Done
type valCtx struct{ context.Context }

func (vc *valCtx) Deadline() (time.Time, bool) { return zeroTime, false }
func (vc *valCtx) Done() <-chan struct{}       { return nil } // simetcd patch, see README.simetcd
func (vc *valCtx) Err() error                  { return nil }

func (w *watcher) newWatcherGrpcStream(inctx context.Context) *watchGrpcStream {
	ctx, cancel := context.WithCancel(&valCtx{inctx})
	wgs := &watchGrpcStream{
		owner:      w,
		remote:     w.remote,
		callOpts:   w.callOpts,
		ctx:        ctx,
		ctxKey:     streamKeyFromCtx(inctx),
		cancel:     cancel,
		substreams: make(map[int64]*watcherStream),
		respc:      make(chan *pb.WatchResponse),
		reqc:       make(chan watchStreamRequest),
		donec:      make(chan struct{}),
		errc:       make(chan error, 1),
		closingc:   make(chan *watcherStream),
		resumec:    make(chan struct{}),
		lg:         w.lg,
	}
	go wgs.run()
	return wgs
}

// Watch posts a watch request to run() and waits for a new watcher channel
func (w *watcher) Watch(ctx context.Context, key string, opts ...OpOption) WatchChan {
	ow := opWatch(key, opts...)

	var filters []pb.WatchCreateRequest_FilterType
	if ow.filterPut {
		filters = append(filters, pb.WatchCreateRequest_NOPUT)
	}
	if ow.filterDelete {
		filters = append(filters, pb.WatchCreateRequest_NODELETE)
	}

	wr := &watchRequest{
		ctx:            ctx,
		createdNotify:  ow.createdNotify,
		key:            string(ow.key),
		end:            string(ow.end),
		rev:            ow.rev,
		progressNotify: ow.progressNotify,
		fragment:       ow.fragment,
		filters:        filters,
		prevKV:         ow.prevKV,
		retc:           make(chan chan WatchResponse, 1),
	}

	ok := false
	ctxKey := streamKeyFromCtx(ctx)

	var closeCh chan WatchResponse
	for {
		// find or allocate appropriate grpc watch stream
		w.mu.Lock()
		if w.streams == nil {
			// closed
			w.mu.Unlock()
			ch := make(chan WatchResponse)
			close(ch)
			return ch
		}
		wgs := w.streams[ctxKey]
		if wgs == nil {
			wgs = w.newWatcherGrpcStream(ctx)
			w.streams[ctxKey] = wgs
		}
		donec := wgs.donec
		reqc := wgs.reqc
		w.mu.Unlock()

		// couldn't create channel; return closed channel
		if closeCh == nil {
			closeCh = make(chan WatchResponse, 1)
		}

		// submit request
		select {
		case reqc <- wr:
			ok = true
		case <-wr.ctx.Done():
			ok = false
		case <-donec:
			ok = false
			if wgs.closeErr != nil {
				closeCh <- WatchResponse{Canceled: true, closeErr: wgs.closeErr}
				break
			}
			// retry; may have dropped stream from no ctxs
			continue
		}

		// receive channel
		if ok {
			select {
			case ret := <-wr.retc:
				return ret
			case <-ctx.Done():
			case <-donec:
				if wgs.closeErr != nil {
					closeCh <- WatchResponse{Canceled: true, closeErr: wgs.closeErr}
					break
				}
				// retry; may have dropped stream from no ctxs
				continue
			}
		}
		break
	}

	close(closeCh)
	return closeCh
}

func (w *watcher) Close() (err error) {
	w.mu.Lock()
	streams := w.streams
	w.streams = nil
	w.mu.Unlock()
	for _, wgs := range streams {
		if werr := wgs.close(); werr != nil {
			err = werr
		}
	}
	// Consider context.Canceled as a successful close
	if err == context.Canceled {
		err = nil
	}
	return err
}

// RequestProgress requests a progress notify response be sent in all watch channels.
func (w *watcher) RequestProgress(ctx context.Context) (err error) {
	ctxKey := streamKeyFromCtx(ctx)

	w.mu.Lock()
	if w.streams == nil {
		w.mu.Unlock()
		return fmt.Errorf("no stream found for context")
	}
	wgs := w.streams[ctxKey]
	if wgs == nil {
		wgs = w.newWatcherGrpcStream(ctx)
		w.streams[ctxKey] = wgs
	}
	donec := wgs.donec
	reqc := wgs.reqc
	w.mu.Unlock()

	pr := &progressRequest{}

	select {
	case reqc <- pr:
		return nil
	case <-ctx.Done():
		return ctx.Err()
	case <-donec:
		if wgs.closeErr != nil {
			return wgs.closeErr
		}
		// retry; may have dropped stream from no ctxs
		return w.RequestProgress(ctx)
	}
}

func (w *watchGrpcStream) close() (err error) {
	w.cancel()
	<-w.donec
	select {
	case err = <-w.errc:
	default:
	}
	return toErr(w.ctx, err)
}

func (w *watcher) closeStream(wgs *watchGrpcStream) {
	w.mu.Lock()
	close(wgs.donec)
	wgs.cancel()
	if w.streams != nil {
		delete(w.streams, wgs.ctxKey)
	}
	w.mu.Unlock()
}

func (w *watchGrpcStream) addSubstream(resp *pb.WatchResponse, ws *watcherStream) {
	// check watch ID for backward compatibility (<= v3.3)
	if resp.WatchId == -1 || (resp.Canceled && resp.CancelReason != "") {
		w.closeErr = v3rpc.Error(errors.New(resp.CancelReason))
		// failed; no channel
		close(ws.recvc)
		return
	}
	ws.id = resp.WatchId
	w.substreams[ws.id] = ws
}

func (w *watchGrpcStream) sendCloseSubstream(ws *watcherStream, resp *WatchResponse) {
	select {
	case ws.outc <- *resp:
	case <-ws.initReq.ctx.Done():
	case <-time.After(closeSendErrTimeout):
	}
	close(ws.outc)
}

func (w *watchGrpcStream) closeSubstream(ws *watcherStream) {
	// send channel response in case stream was never established
	select {
	case ws.initReq.retc <- ws.outc:
	default:
	}
	// close subscriber's channel
	if closeErr := w.closeErr; closeErr != nil && ws.initReq.ctx.Err() == nil {
		go w.sendCloseSubstream(ws, &WatchResponse{Canceled: true, closeErr: w.closeErr})
	} else if ws.outc != nil {
		close(ws.outc)
	}
	if ws.id != -1 {
		delete(w.substreams, ws.id)
		return
	}
	for i := range w.resuming {
		if w.resuming[i] == ws {
			w.resuming[i] = nil
			return
		}
	}
}

// run is the root of the goroutines for managing a watcher client
func (w *watchGrpcStream) run() {
	var wc pb.Watch_WatchClient
	var closeErr error

	// substreams marked to close but goroutine still running; needed for
	// avoiding double-closing recvc on grpc stream teardown
	closing := make(map[*watcherStream]struct{})

	defer func() {
		w.closeErr = closeErr
		// shutdown substreams and resuming substreams
		for _, ws := range w.substreams {
			if _, ok := closing[ws]; !ok {
				close(ws.recvc)
				closing[ws] = struct{}{}
			}
		}
		for _, ws := range w.resuming {
			if _, ok := closing[ws]; ws != nil && !ok {
				close(ws.recvc)
				closing[ws] = struct{}{}
			}
		}
		w.joinSubstreams()
		for range closing {
			w.closeSubstream(<-w.closingc)
		}
		w.wg.Wait()
		w.owner.closeStream(w)
	}()

	// start a stream with the etcd grpc server
	if wc, closeErr = w.newWatchClient(); closeErr != nil {
		return
	}

	cancelSet := make(map[int64]struct{})

	var cur *pb.WatchResponse
	for {
		select {
		// Watch() requested
		case req := <-w.reqc:
			switch wreq := req.(type) {
			case *watchRequest:
				outc := make(chan WatchResponse, 1)
				// TODO: pass custom watch ID?
				ws := &watcherStream{
					initReq: *wreq,
					id:      -1,
					outc:    outc,
					// unbuffered so resumes won't cause repeat events
					recvc: make(chan *WatchResponse),
				}

				ws.donec = make(chan struct{})
				w.wg.Add(1)
				go w.serveSubstream(ws, w.resumec)

				// queue up for watcher creation/resume
				w.resuming = append(w.resuming, ws)
				if len(w.resuming) == 1 {
					// head of resume queue, can register a new watcher
					if err := wc.Send(ws.initReq.toPB()); err != nil {
						w.lg.Debug("error when sending request", zap.Error(err))
					}
				}
			case *progressRequest:
				if err := wc.Send(wreq.toPB()); err != nil {
					w.lg.Debug("error when sending request", zap.Error(err))
				}
			}

		// new events from the watch client
		case pbresp := <-w.respc:
			if cur == nil || pbresp.Created || pbresp.Canceled {
				cur = pbresp
			} else if cur != nil && cur.WatchId == pbresp.WatchId {
				// merge new events
				cur.Events = append(cur.Events, pbresp.Events...)
				// update "Fragment" field; last response with "Fragment" == false
				cur.Fragment = pbresp.Fragment
			}

			switch {
			case pbresp.Created:
				// response to head of queue creation
				if len(w.resuming) != 0 {
					if ws := w.resuming[0]; ws != nil {
						w.addSubstream(pbresp, ws)
						w.dispatchEvent(pbresp)
						w.resuming[0] = nil
					}
				}

				if ws := w.nextResume(); ws != nil {
					if err := wc.Send(ws.initReq.toPB()); err != nil {
						w.lg.Debug("error when sending request", zap.Error(err))
					}
				}

				// reset for next iteration
				cur = nil

			case pbresp.Canceled && pbresp.CompactRevision == 0:
				delete(cancelSet, pbresp.WatchId)
				if ws, ok := w.substreams[pbresp.WatchId]; ok {
					// signal to stream goroutine to update closingc
					close(ws.recvc)
					closing[ws] = struct{}{}
				}

				// reset for next iteration
				cur = nil

			case cur.Fragment:
				// watch response events are still fragmented
				// continue to fetch next fragmented event arrival
				continue

			default:
				// dispatch to appropriate watch stream
				ok := w.dispatchEvent(cur)

				// reset for next iteration
				cur = nil

				if ok {
					break
				}

				// watch response on unexpected watch id; cancel id
				if _, ok := cancelSet[pbresp.WatchId]; ok {
					break
				}

				cancelSet[pbresp.WatchId] = struct{}{}
				cr := &pb.WatchRequest_CancelRequest{
					CancelRequest: &pb.WatchCancelRequest{
						WatchId: pbresp.WatchId,
					},
				}
				req := &pb.WatchRequest{RequestUnion: cr}
				w.lg.Debug("sending watch cancel request for failed dispatch", zap.Int64("watch-id", pbresp.WatchId))
				if err := wc.Send(req); err != nil {
					w.lg.Debug("failed to send watch cancel request", zap.Int64("watch-id", pbresp.WatchId), zap.Error(err))
				}
			}

		// watch client failed on Recv; spawn another if possible
		case err := <-w.errc:
			if isHaltErr(w.ctx, err) || toErr(w.ctx, err) == v3rpc.ErrNoLeader {
				closeErr = err
				return
			}
			if wc, closeErr = w.newWatchClient(); closeErr != nil {
				return
			}
			if ws := w.nextResume(); ws != nil {
				if err := wc.Send(ws.initReq.toPB()); err != nil {
					w.lg.Debug("error when sending request", zap.Error(err))
				}
			}
			cancelSet = make(map[int64]struct{})

		case <-w.ctx.Done():
			return

		case ws := <-w.closingc:
			w.closeSubstream(ws)
			delete(closing, ws)
			// no more watchers on this stream, shutdown, skip cancellation
			if len(w.substreams)+len(w.resuming) == 0 {
				return
			}
			if ws.id != -1 {
				// client is closing an established watch; close it on the server proactively instead of waiting
				// to close when the next message arrives
				cancelSet[ws.id] = struct{}{}
				cr := &pb.WatchRequest_CancelRequest{
					CancelRequest: &pb.WatchCancelRequest{
						WatchId: ws.id,
					},
				}
				req := &pb.WatchRequest{RequestUnion: cr}
				w.lg.Debug("sending watch cancel request for closed watcher", zap.Int64("watch-id", ws.id))
				if err := wc.Send(req); err != nil {
					w.lg.Debug("failed to send watch cancel request", zap.Int64("watch-id", ws.id), zap.Error(err))
				}
			}
		}
	}
}

// nextResume chooses the next resuming to register with the grpc stream. Abandoned
// streams are marked as nil in the queue since the head must wait for its inflight registration.
func (w *watchGrpcStream) nextResume() *watcherStream {
	for len(w.resuming) != 0 {
		if w.resuming[0] != nil {
			return w.resuming[0]
		}
		w.resuming = w.resuming[1:len(w.resuming)]
	}
	return nil
}

// dispatchEvent sends a WatchResponse to the appropriate watcher stream
func (w *watchGrpcStream) dispatchEvent(pbresp *pb.WatchResponse) bool {
	events := make([]*Event, len(pbresp.Events))
	for i, ev := range pbresp.Events {
		events[i] = (*Event)(ev)
	}
	// TODO: return watch ID?
	wr := &WatchResponse{
		Header:          *pbresp.Header,
		Events:          events,
		CompactRevision: pbresp.CompactRevision,
		Created:         pbresp.Created,
		Canceled:        pbresp.Canceled,
		cancelReason:    pbresp.CancelReason,
	}

	// watch IDs are zero indexed, so request notify watch responses are assigned a watch ID of -1 to
	// indicate they should be broadcast.
	if wr.IsProgressNotify() && pbresp.WatchId == -1 {
		return w.broadcastResponse(wr)
	}

	return w.unicastResponse(wr, pbresp.WatchId)

}

// broadcastResponse send a watch response to all watch substreams.
func (w *watchGrpcStream) broadcastResponse(wr *WatchResponse) bool {
	for _, ws := range w.substreams {
		select {
		case ws.recvc <- wr:
		case <-ws.donec:
		}
	}
	return true
}

// unicastResponse sends a watch response to a specific watch substream.
func (w *watchGrpcStream) unicastResponse(wr *WatchResponse, watchId int64) bool {
	ws, ok := w.substreams[watchId]
	if !ok {
		return false
	}
	select {
	case ws.recvc <- wr:
	case <-ws.donec:
		return false
	}
	return true
}

// serveWatchClient forwards messages from the grpc stream to run()
func (w *watchGrpcStream) serveWatchClient(wc pb.Watch_WatchClient) {
	for {
		resp, err := wc.Recv()
		if err != nil {
			select {
			case w.errc <- err:
			case <-w.donec:
			}
			return
		}
		select {
		case w.respc <- resp:
		case <-w.donec:
			return
		}
	}
}

// serveSubstream forwards watch responses from run() to the subscriber
func (w *watchGrpcStream) serveSubstream(ws *watcherStream, resumec chan struct{}) {
	if ws.closing {
		panic("created substream goroutine but substream is closing")
	}

	// nextRev is the minimum expected next revision
	nextRev := ws.initReq.rev
	resuming := false
	defer func() {
		if !resuming {
			ws.closing = true
		}
		close(ws.donec)
		if !resuming {
			w.closingc <- ws
		}
		w.wg.Done()
	}()

	emptyWr := &WatchResponse{}
	for {
		curWr := emptyWr
		outc := ws.outc

		if len(ws.buf) > 0 {
			curWr = ws.buf[0]
		} else {
			outc = nil
		}
		select {
		case outc <- *curWr:
			if ws.buf[0].Err() != nil {
				return
			}
			ws.buf[0] = nil
			ws.buf = ws.buf[1:]
		case wr, ok := <-ws.recvc:
			if !ok {
				// shutdown from closeSubstream
				return
			}

			if wr.Created {
				if ws.initReq.retc != nil {
					ws.initReq.retc <- ws.outc
					// to prevent next write from taking the slot in buffered channel
					// and posting duplicate create events
					ws.initReq.retc = nil

					// send first creation event only if requested
					if ws.initReq.createdNotify {
						ws.outc <- *wr
					}
					// once the watch channel is returned, a current revision
					// watch must resume at the store revision. This is necessary
					// for the following case to work as expected:
					//	wch := m1.Watch("a")
					//	m2.Put("a", "b")
					//	<-wch
					// If the revision is only bound on the first observed event,
					// if wch is disconnected before the Put is issued, then reconnects
					// after it is committed, it'll miss the Put.
					if ws.initReq.rev == 0 {
						nextRev = wr.Header.Revision
					}
				}
			} else {
				// current progress of watch; <= store revision
				nextRev = wr.Header.Revision
			}

			if len(wr.Events) > 0 {
				nextRev = wr.Events[len(wr.Events)-1].Kv.ModRevision + 1
			}
			ws.initReq.rev = nextRev

			// created event is already sent above,
			// watcher should not post duplicate events
			if wr.Created {
				continue
			}

			// TODO pause channel if buffer gets too large
			ws.buf = append(ws.buf, wr)
		case <-w.ctx.Done():
			return
		case <-ws.initReq.ctx.Done():
			return
		case <-resumec:
			resuming = true
			return
		}
	}
	// lazily send cancel message if events on missing id
}

func (w *watchGrpcStream) newWatchClient() (pb.Watch_WatchClient, error) {
	// mark all substreams as resuming
	close(w.resumec)
	w.resumec = make(chan struct{})
	w.joinSubstreams()
	for _, ws := range w.substreams {
		ws.id = -1
		w.resuming = append(w.resuming, ws)
	}
	// strip out nils, if any
	var resuming []*watcherStream
	for _, ws := range w.resuming {
		if ws != nil {
			resuming = append(resuming, ws)
		}
	}
	w.resuming = resuming
	w.substreams = make(map[int64]*watcherStream)

	// connect to grpc stream while accepting watcher cancelation
	stopc := make(chan struct{})
	donec := w.waitCancelSubstreams(stopc)
	wc, err := w.openWatchClient()
	close(stopc)
	<-donec

	// serve all non-closing streams, even if there's a client error
	// so that the teardown path can shutdown the streams as expected.
	for _, ws := range w.resuming {
		if ws.closing {
			continue
		}
		ws.donec = make(chan struct{})
		w.wg.Add(1)
		go w.serveSubstream(ws, w.resumec)
	}

	if err != nil {
		return nil, v3rpc.Error(err)
	}

	// receive data from new grpc stream
	go w.serveWatchClient(wc)
	return wc, nil
}

func (w *watchGrpcStream) waitCancelSubstreams(stopc <-chan struct{}) <-chan struct{} {
	var wg sync.WaitGroup
	wg.Add(len(w.resuming))
	donec := make(chan struct{})
	for i := range w.resuming {
		go func(ws *watcherStream) {
			defer wg.Done()
			if ws.closing {
				if ws.initReq.ctx.Err() != nil && ws.outc != nil {
					close(ws.outc)
					ws.outc = nil
				}
				return
			}
			select {
			case <-ws.initReq.ctx.Done():
				// closed ws will be removed from resuming
				ws.closing = true
				close(ws.outc)
				ws.outc = nil
				w.wg.Add(1)
				go func() {
					defer w.wg.Done()
					w.closingc <- ws
				}()
			case <-stopc:
			}
		}(w.resuming[i])
	}
	go func() {
		defer close(donec)
		wg.Wait()
	}()
	return donec
}

// joinSubstreams waits for all substream goroutines to complete.
func (w *watchGrpcStream) joinSubstreams() {
	for _, ws := range w.substreams {
		<-ws.donec
	}
	for _, ws := range w.resuming {
		if ws != nil {
			<-ws.donec
		}
	}
}

var maxBackoff = 100 * time.Millisecond

// openWatchClient retries opening a watch client until success or halt.
// manually retry in case "ws==nil && err==nil"
// TODO: remove FailFast=false
func (w *watchGrpcStream) openWatchClient() (ws pb.Watch_WatchClient, err error) {
	backoff := time.Millisecond
	for {
		select {
		case <-w.ctx.Done():
			if err == nil {
				return nil, w.ctx.Err()
			}
			return nil, err
		default:
		}
		if ws, err = w.remote.Watch(w.ctx, w.callOpts...); ws != nil && err == nil {
			break
		}
		if isHaltErr(w.ctx, err) {
			return nil, v3rpc.Error(err)
		}
		if isUnavailableErr(w.ctx, err) {
			// retry, but backoff
			if backoff < maxBackoff {
				// 25% backoff factor
				backoff = backoff + backoff/4
				if backoff > maxBackoff {
					backoff = maxBackoff
				}
			}
			time.Sleep(backoff)
		}
	}
	return ws, nil
}

// toPB converts an internal watch request structure to its protobuf WatchRequest structure.
func (wr *watchRequest) toPB() *pb.WatchRequest {
	req := &pb.WatchCreateRequest{
		StartRevision:  wr.rev,
		Key:            []byte(wr.key),
		RangeEnd:       []byte(wr.end),
		ProgressNotify: wr.progressNotify,
		Filters:        wr.filters,
		PrevKv:         wr.prevKV,
		Fragment:       wr.fragment,
	}
	cr := &pb.WatchRequest_CreateRequest{CreateRequest: req}
	return &pb.WatchRequest{RequestUnion: cr}
}

// toPB converts an internal progress request structure to its protobuf WatchRequest structure.
func (pr *progressRequest) toPB() *pb.WatchRequest {
	req := &pb.WatchProgressRequest{}
	cr := &pb.WatchRequest_ProgressRequest{ProgressRequest: req}
	return &pb.WatchRequest{RequestUnion: cr}
}

func streamKeyFromCtx(ctx context.Context) string {
	if md, ok := metadata.FromOutgoingContext(ctx); ok {
		return fmt.Sprintf("%+v", md)
	}
	return ""
}
