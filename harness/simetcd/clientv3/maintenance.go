// Copyright 2016 The etcd Authors
//
// Licensed under the Apache License, Version 2.0 (the "License");
// you may not use this file except in compliance with the License.
// You may obtain a copy of the License at
//
//     http://www.apache.org/licenses/LICENSE-2.0
//
// Unless required by applicable law or agreed to in writing, software
// distributed under the License is distributed on an "AS IS" BASIS,
// WITHOUT WARRANTIES OR CONDITIONS OF ANY KIND, either express or implied.
// See the License for the specific language governing permissions and
// limitations under the License.

package clientv3

import (
	"context"
	"fmt"
	"io"

	pb "go.etcd.io/etcd/api/v3/etcdserverpb"
	"go.uber.org/zap"
	"google.golang.org/grpc"
)

type (
	DefragmentResponse pb.DefragmentResponse
	AlarmResponse      pb.AlarmResponse
	AlarmMember        pb.AlarmMember
	StatusResponse     pb.StatusResponse
	HashKVResponse     pb.HashKVResponse
	MoveLeaderResponse pb.MoveLeaderResponse
)

type Maintenance interface {
	// AlarmList gets all active alarms.
	AlarmList(ctx context.Context) (*AlarmResponse, error)

	// AlarmDisarm disarms a given alarm.
	AlarmDisarm(ctx context.Context, m *AlarmMember) (*AlarmResponse, error)

	// Defragment releases wasted space from internal fragmentation on a given etcd member.
	// Defragment is only needed when deleting a large number of keys and want to reclaim
	// the resources.
	// Defragment is an expensive operation. User should avoid defragmenting multiple members
	// at the same time.
	// To defragment multiple members in the cluster, user need to call defragment multiple
	// times with different endpoints.
	Defragment(ctx context.Context, endpoint string) (*DefragmentResponse, error)

	// Status gets the status of the endpoint.
	Status(ctx context.Context, endpoint string) (*StatusResponse, error)

	// HashKV returns a hash of the KV state at the time of the RPC.
	// If revision is zero, the hash is computed on all keys. If the revision
	// is non-zero, the hash is computed on all keys at or below the given revision.
	HashKV(ctx context.Context, endpoint string, rev int64) (*HashKVResponse, error)

	// Snapshot provides a reader for a point-in-time snapshot of etcd.
	// If the context "ctx" is canceled or timed out, reading from returned
	// "io.ReadCloser" would error out (e.g. context.Canceled, context.DeadlineExceeded).
	Snapshot(ctx context.Context) (io.ReadCloser, error)

	// MoveLeader requests current leader to transfer its leadership to the transferee.
	// Request must be made to the leader.
	MoveLeader(ctx context.Context, transfereeID uint64) (*MoveLeaderResponse, error)
}

type maintenance struct {
	lg       *zap.Logger
	dial     func(endpoint string) (pb.MaintenanceClient, func(), error)
	remote   pb.MaintenanceClient
	callOpts []grpc.CallOption
}

func NewMaintenance(c *Client) Maintenance {
	api := &maintenance{
		lg: c.lg,
		dial: func(endpoint string) (pb.MaintenanceClient, func(), error) {
			conn, err := c.Dial(endpoint)
			if err != nil {
				return nil, nil, fmt.Errorf("failed to dial endpoint %s with maintenance client: %v", endpoint, err)
			}

			//get token with established connection
			dctx := c.ctx
			cancel := func() {}
			if c.cfg.DialTimeout > 0 {
				dctx, cancel = context.WithTimeout(c.ctx, c.cfg.DialTimeout)
			}
			err = c.getToken(dctx)
			cancel()
			if err != nil {
				return nil, nil, fmt.Errorf("failed to getToken from endpoint %s with maintenance client: %v", endpoint, err)
			}
			cancel = func() { conn.Close() }
			return RetryMaintenanceClient(c, conn), cancel, nil
		},
		remote: RetryMaintenanceClient(c, c.conn),
	}
	if c != nil {
		api.callOpts = c.callOpts
	}
	return api
}

func NewMaintenanceFromMaintenanceClient(remote pb.MaintenanceClient, c *Client) Maintenance {
	api := &maintenance{
		lg: c.lg,
		dial: func(string) (pb.MaintenanceClient, func(), error) {
			return remote, func() {}, nil
		},
		remote: remote,
	}
	if c != nil {
		api.callOpts = c.callOpts
	}
	return api
}

func (m *maintenance) AlarmList(ctx context.Context) (*AlarmResponse, error) {
	req := &pb.AlarmRequest{
		Action:   pb.AlarmRequest_GET,
		MemberID: 0,                 // all
		Alarm:    pb.AlarmType_NONE, // all
	}
	resp, err := m.remote.Alarm(ctx, req, m.callOpts...)
	if err == nil {
		return (*AlarmResponse)(resp), nil
	}
	return nil, toErr(ctx, err)
}

func (m *maintenance) AlarmDisarm(ctx context.Context, am *AlarmMember) (*AlarmResponse, error) {
	req := &pb.AlarmRequest{
		Action:   pb.AlarmRequest_DEACTIVATE,
		MemberID: am.MemberID,
		Alarm:    am.Alarm,
	}

	if req.MemberID == 0 && req.Alarm == pb.AlarmType_NONE {
		ar, err := m.AlarmList(ctx)
		if err != nil {
			return nil, toErr(ctx, err)
		}
		ret := AlarmResponse{}
		for _, am := range ar.Alarms {
			dresp, derr := m.AlarmDisarm(ctx, (*AlarmMember)(am))
			if derr != nil {
				return nil, toErr(ctx, derr)
			}
			ret.Alarms = append(ret.Alarms, dresp.Alarms...)
		}
		return &ret, nil
	}

	resp, err := m.remote.Alarm(ctx, req, m.callOpts...)
	if err == nil {
		return (*AlarmResponse)(resp), nil
	}
	return nil, toErr(ctx, err)
}

func (m *maintenance) Defragment(ctx context.Context, endpoint string) (*DefragmentResponse, error) {
	remote, cancel, err := m.dial(endpoint)
	if err != nil {
		return nil, toErr(ctx, err)
	}
	defer cancel()
	resp, err := remote.Defragment(ctx, &pb.DefragmentRequest{}, m.callOpts...)
	if err != nil {
		return nil, toErr(ctx, err)
	}
	return (*DefragmentResponse)(resp), nil
}

func (m *maintenance) Status(ctx context.Context, endpoint string) (*StatusResponse, error) {
	remote, cancel, err := m.dial(endpoint)
	if err != nil {
		return nil, toErr(ctx, err)
	}
	defer cancel()
	resp, err := remote.Status(ctx, &pb.StatusRequest{}, m.callOpts...)
	if err != nil {
		return nil, toErr(ctx, err)
	}
	return (*StatusResponse)(resp), nil
}

func (m *maintenance) HashKV(ctx context.Context, endpoint string, rev int64) (*HashKVResponse, error) {
	remote, cancel, err := m.dial(endpoint)
	if err != nil {

		return nil, toErr(ctx, err)
	}
	defer cancel()
	resp, err := remote.HashKV(ctx, &pb.HashKVRequest{Revision: rev}, m.callOpts...)
	if err != nil {
		return nil, toErr(ctx, err)
	}
	return (*HashKVResponse)(resp), nil
}

func (m *maintenance) Snapshot(ctx context.Context) (io.ReadCloser, error) {
	ss, err := m.remote.Snapshot(ctx, &pb.SnapshotRequest{}, append(m.callOpts, withMax(defaultStreamMaxRetries))...)
	if err != nil {
		return nil, toErr(ctx, err)
	}

	m.lg.Info("opened snapshot stream; downloading")
	pr, pw := io.Pipe()
	go func() {
		for {
			resp, err := ss.Recv()
			if err != nil {
				switch err {
				case io.EOF:
					m.lg.Info("completed snapshot read; closing")
				default:
					m.lg.Warn("failed to receive from snapshot stream; closing", zap.Error(err))
				}
				pw.CloseWithError(err)
				return
			}

			// can "resp == nil && err == nil"
			// before we receive snapshot SHA digest?
			// No, server sends EOF with an empty response
			// after it sends SHA digest at the end

			if _, werr := pw.Write(resp.Blob); werr != nil {
				pw.CloseWithError(werr)
				return
			}
		}
	}()
	return &snapshotReadCloser{ctx: ctx, ReadCloser: pr}, nil
}

type snapshotReadCloser struct {
	ctx context.Context
	io.ReadCloser
}

func (rc *snapshotReadCloser) Read(p []byte) (n int, err error) {
	n, err = rc.ReadCloser.Read(p)
	return n, toErr(rc.ctx, err)
}

func (m *maintenance) MoveLeader(ctx context.Context, transfereeID uint64) (*MoveLeaderResponse, error) {
	resp, err := m.remote.MoveLeader(ctx, &pb.MoveLeaderRequest{TargetID: transfereeID}, m.callOpts...)
	return (*MoveLeaderResponse)(resp), toErr(ctx, err)
}
