// Copyright 2021 The etcd Authors
//
// Licensed under the Apache License, Version 2.0 (the "License");
// you may not use this file except in compliance with the License.
// You may obtain a copy of the License at
//
//     http://www.apache.org/licenses/LICENSE-2.0
//
// Unless required by applicable law or agreed to in writing, software
// distributed under the License is distributed on an "AS IS" BASIS,
// WITHOUT WARRANTIES OR CONDITIONS OF ANY KIND, either express or implied.
// See the License for the specific language governing permissions and
// limitations under the License.

package resolver

import (
	"go.etcd.io/etcd/client/v3/internal/endpoint"
	"google.golang.org/grpc/resolver"
	"google.golang.org/grpc/resolver/manual"
	"google.golang.org/grpc/serviceconfig"
)

const (
	Schema = "etcd-endpoints"
)

// EtcdManualResolver is a Resolver (and resolver.Builder) that can be updated
// using SetEndpoints.
type EtcdManualResolver struct {
	*manual.Resolver
	endpoints     []string
	serviceConfig *serviceconfig.ParseResult
}

func New(endpoints ...string) *EtcdManualResolver {
	r := manual.NewBuilderWithScheme(Schema)
	return &EtcdManualResolver{Resolver: r, endpoints: endpoints, serviceConfig: nil}
}

// Build returns itself for Resolver, because it's both a builder and a resolver.
func (r *EtcdManualResolver) Build(target resolver.Target, cc resolver.ClientConn, opts resolver.BuildOptions) (resolver.Resolver, error) {
	r.serviceConfig = cc.ParseServiceConfig(`{"loadBalancingPolicy": "round_robin"}`)
	if r.serviceConfig.Err != nil {
		return nil, r.serviceConfig.Err
	}
	res, err := r.Resolver.Build(target, cc, opts)
	if err != nil {
		return nil, err
	}
	// Populates endpoints stored in r into ClientConn (cc).
	r.updateState()
	return res, nil
}

func (r *EtcdManualResolver) SetEndpoints(endpoints []string) {
	r.endpoints = endpoints
	r.updateState()
}

func (r EtcdManualResolver) updateState() {
	if r.CC != nil {
		addresses := make([]resolver.Address, len(r.endpoints))
		for i, ep := range r.endpoints {
			addr, serverName := endpoint.Interpret(ep)
			addresses[i] = resolver.Address{Addr: addr, ServerName: serverName}
		}
		state := resolver.State{
			Addresses:     addresses,
			ServiceConfig: r.serviceConfig,
		}
		r.UpdateState(state)
	}
}
