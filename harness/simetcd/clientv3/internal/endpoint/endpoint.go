// Copyright 2021 The etcd Authors
//
// Licensed under the Apache License, Version 2.0 (the "License");
// you may not use this file except in compliance with the License.
// You may obtain a copy of the License at
//
//     http://www.apache.org/licenses/LICENSE-2.0
//
// Unless required by applicable law or agreed to in writing, software
// distributed under the License is distributed on an "AS IS" BASIS,
// WITHOUT WARRANTIES OR CONDITIONS OF ANY KIND, either express or implied.
// See the License for the specific language governing permissions and
// limitations under the License.

package endpoint

import (
	"fmt"
	"net"
	"net/url"
	"path"
	"strings"
)

type CredsRequirement int

const (
	// CREDS_REQUIRE - Credentials/certificate required for thi type of connection.
	CREDS_REQUIRE CredsRequirement = iota
	// CREDS_DROP - Credentials/certificate not needed and should get ignored.
	CREDS_DROP
	// CREDS_OPTIONAL - Credentials/certificate might be used if supplied
	CREDS_OPTIONAL
)

func extractHostFromHostPort(ep string) string {
	host, _, err := net.SplitHostPort(ep)
	if err != nil {
		return ep
	}
	return host
}

func extractHostFromPath(pathStr string) string {
	return extractHostFromHostPort(path.Base(pathStr))
}

//mustSplit2 returns the values from strings.SplitN(s, sep, 2).
//If sep is not found, it returns ("", "", false) instead.
func mustSplit2(s, sep string) (string, string) {
	spl := strings.SplitN(s, sep, 2)
	if len(spl) < 2 {
		panic(fmt.Errorf("token '%v' expected to have separator sep: `%v`", s, sep))
	}
	return spl[0], spl[1]
}

func schemeToCredsRequirement(schema string) CredsRequirement {
	switch schema {
	case "https", "unixs":
		return CREDS_REQUIRE
	case "http":
		return CREDS_DROP
	case "unix":
		// Preserving previous behavior from:
		// https://github.com/etcd-io/etcd/blob/dae29bb719dd69dc119146fc297a0628fcc1ccf8/client/v3/client.go#L212
		// that likely was a bug due to missing 'fallthrough'.
		// At the same time it seems legit to let the users decide whether they
		// want credential control or not (and 'unixs' schema is not a standard thing).
		return CREDS_OPTIONAL
	case "":
		return CREDS_OPTIONAL
	default:
		return CREDS_OPTIONAL
	}
}

// This function translates endpoints names supported by etcd server into
// endpoints as supported by grpc with additional information
// (server_name for cert validation, requireCreds - whether certs are needed).
// The main differences:
//   - etcd supports unixs & https names as opposed to unix & http to
//     distinguish need to configure certificates.
//  -  etcd support http(s) names as opposed to tcp supported by grpc/dial method.
//  -  etcd supports unix(s)://local-file naming schema
//     (as opposed to unix:local-file canonical name used by grpc for current dir files).
//  - Within the unix(s) schemas, the last segment (filename) without 'port' (content after colon)
//    is considered serverName - to allow local testing of cert-protected communication.
// See more:
//   - https://github.com/grpc/grpc-go/blob/26c143bd5f59344a4b8a1e491e0f5e18aa97abc7/internal/grpcutil/target.go#L47
//   - https://golang.org/pkg/net/#Dial
//   - https://github.com/grpc/grpc/blob/master/doc/naming.md
func translateEndpoint(ep string) (addr string, serverName string, requireCreds CredsRequirement) {
	if strings.HasPrefix(ep, "unix:") || strings.HasPrefix(ep, "unixs:") {
		if strings.HasPrefix(ep, "unix:///") || strings.HasPrefix(ep, "unixs:///") {
			// absolute path case
			schema, absolutePath := mustSplit2(ep, "://")
			return "unix://" + absolutePath, extractHostFromPath(absolutePath), schemeToCredsRequirement(schema)
		}
		if strings.HasPrefix(ep, "unix://") || strings.HasPrefix(ep, "unixs://") {
			// legacy etcd local path
			schema, localPath := mustSplit2(ep, "://")
			return "unix:" + localPath, extractHostFromPath(localPath), schemeToCredsRequirement(schema)
		}
		schema, localPath := mustSplit2(ep, ":")
		return "unix:" + localPath, extractHostFromPath(localPath), schemeToCredsRequirement(schema)
	}

	if strings.Contains(ep, "://") {
		url, err := url.Parse(ep)
		if err != nil {
			return ep, extractHostFromHostPort(ep), CREDS_OPTIONAL
		}
		if url.Scheme == "http" || url.Scheme == "https" {
			return url.Host, url.Hostname(), schemeToCredsRequirement(url.Scheme)
		}
		return ep, url.Hostname(), schemeToCredsRequirement(url.Scheme)
	}
	// Handles plain addresses like 10.0.0.44:437.
	return ep, extractHostFromHostPort(ep), CREDS_OPTIONAL
}

// RequiresCredentials returns whether given endpoint requires
// credentials/certificates for connection.
func RequiresCredentials(ep string) CredsRequirement {
	_, _, requireCreds := translateEndpoint(ep)
	return requireCreds
}

// Interpret endpoint parses an endpoint of the form
// (http|https)://<host>*|(unix|unixs)://<path>)
// and returns low-level address (supported by 'net') to connect to,
// and a server name used for x509 certificate matching.
func Interpret(ep string) (address string, serverName string) {
	addr, serverName, _ := translateEndpoint(ep)
	return addr, serverName
}
