// Copyright 2017 The etcd Authors
//
// Licensed under the Apache License, Version 2.0 (the "License");
// you may not use this file except in compliance with the License.
// You may obtain a copy of the License at
//
//     http://www.apache.org/licenses/LICENSE-2.0
//
// Unless required by applicable law or agreed to in writing, software
// distributed under the License is distributed on an "AS IS" BASIS,
// WITHOUT WARRANTIES OR CONDITIONS OF ANY KIND, either express or implied.
// See the License for the specific language governing permissions and
// limitations under the License.

package leasing

import (
	"context"
	"strings"
	"sync"
	"time"

	pb "go.etcd.io/etcd/api/v3/etcdserverpb"
	"go.etcd.io/etcd/api/v3/mvccpb"
	"go.etcd.io/etcd/api/v3/v3rpc/rpctypes"
	v3 "go.etcd.io/etcd/client/v3"
	"go.etcd.io/etcd/client/v3/concurrency"

	"google.golang.org/grpc/codes"
	"google.golang.org/grpc/status"
)

type leasingKV struct {
	cl     *v3.Client
	kv     v3.KV
	pfx    string
	leases leaseCache

	ctx    context.Context
	cancel context.CancelFunc
	wg     sync.WaitGroup

	sessionOpts []concurrency.SessionOption
	session     *concurrency.Session
	sessionc    chan struct{}
}

var closedCh chan struct{}

func init() {
	closedCh = make(chan struct{})
	close(closedCh)
}

// NewKV wraps a KV instance so that all requests are wired through a leasing protocol.
func NewKV(cl *v3.Client, pfx string, opts ...concurrency.SessionOption) (v3.KV, func(), error) {
	cctx, cancel := context.WithCancel(cl.Ctx())
	lkv := &leasingKV{
		cl:          cl,
		kv:          cl.KV,
		pfx:         pfx,
		leases:      leaseCache{revokes: make(map[string]time.Time)},
		ctx:         cctx,
		cancel:      cancel,
		sessionOpts: opts,
		sessionc:    make(chan struct{}),
	}
	lkv.wg.Add(2)
	go func() {
		defer lkv.wg.Done()
		lkv.monitorSession()
	}()
	go func() {
		defer lkv.wg.Done()
		lkv.leases.clearOldRevokes(cctx)
	}()
	return lkv, lkv.Close, lkv.waitSession(cctx)
}

func (lkv *leasingKV) Close() {
	lkv.cancel()
	lkv.wg.Wait()
}

func (lkv *leasingKV) Get(ctx context.Context, key string, opts ...v3.OpOption) (*v3.GetResponse, error) {
	return lkv.get(ctx, v3.OpGet(key, opts...))
}

func (lkv *leasingKV) Put(ctx context.Context, key, val string, opts ...v3.OpOption) (*v3.PutResponse, error) {
	return lkv.put(ctx, v3.OpPut(key, val, opts...))
}

func (lkv *leasingKV) Delete(ctx context.Context, key string, opts ...v3.OpOption) (*v3.DeleteResponse, error) {
	return lkv.delete(ctx, v3.OpDelete(key, opts...))
}

func (lkv *leasingKV) Do(ctx context.Context, op v3.Op) (v3.OpResponse, error) {
	switch {
	case op.IsGet():
		resp, err := lkv.get(ctx, op)
		return resp.OpResponse(), err
	case op.IsPut():
		resp, err := lkv.put(ctx, op)
		return resp.OpResponse(), err
	case op.IsDelete():
		resp, err := lkv.delete(ctx, op)
		return resp.OpResponse(), err
	case op.IsTxn():
		cmps, thenOps, elseOps := op.Txn()
		resp, err := lkv.Txn(ctx).If(cmps...).Then(thenOps...).Else(elseOps...).Commit()
		return resp.OpResponse(), err
	}
	return v3.OpResponse{}, nil
}

func (lkv *leasingKV) Compact(ctx context.Context, rev int64, opts ...v3.CompactOption) (*v3.CompactResponse, error) {
	return lkv.kv.Compact(ctx, rev, opts...)
}

func (lkv *leasingKV) Txn(ctx context.Context) v3.Txn {
	return &txnLeasing{Txn: lkv.kv.Txn(ctx), lkv: lkv, ctx: ctx}
}

func (lkv *leasingKV) monitorSession() {
	for lkv.ctx.Err() == nil {
		if lkv.session != nil {
			select {
			case <-lkv.session.Done():
			case <-lkv.ctx.Done():
				return
			}
		}
		lkv.leases.mu.Lock()
		select {
		case <-lkv.sessionc:
			lkv.sessionc = make(chan struct{})
		default:
		}
		lkv.leases.entries = make(map[string]*leaseKey)
		lkv.leases.mu.Unlock()

		s, err := concurrency.NewSession(lkv.cl, lkv.sessionOpts...)
		if err != nil {
			continue
		}

		lkv.leases.mu.Lock()
		lkv.session = s
		close(lkv.sessionc)
		lkv.leases.mu.Unlock()
	}
}

func (lkv *leasingKV) monitorLease(ctx context.Context, key string, rev int64) {
	cctx, cancel := context.WithCancel(lkv.ctx)
	defer cancel()
	for cctx.Err() == nil {
		if rev == 0 {
			resp, err := lkv.kv.Get(ctx, lkv.pfx+key)
			if err != nil {
				continue
			}
			rev = resp.Header.Revision
			if len(resp.Kvs) == 0 || string(resp.Kvs[0].Value) == "REVOKE" {
				lkv.rescind(cctx, key, rev)
				return
			}
		}
		wch := lkv.cl.Watch(cctx, lkv.pfx+key, v3.WithRev(rev+1))
		for resp := range wch {
			for _, ev := range resp.Events {
				if string(ev.Kv.Value) != "REVOKE" {
					continue
				}
				if v3.LeaseID(ev.Kv.Lease) == lkv.leaseID() {
					lkv.rescind(cctx, key, ev.Kv.ModRevision)
				}
				return
			}
		}
		rev = 0
	}
}

// rescind releases a lease from this client.
func (lkv *leasingKV) rescind(ctx context.Context, key string, rev int64) {
	if lkv.leases.Evict(key) > rev {
		return
	}
	cmp := v3.Compare(v3.CreateRevision(lkv.pfx+key), "<", rev)
	op := v3.OpDelete(lkv.pfx + key)
	for ctx.Err() == nil {
		if _, err := lkv.kv.Txn(ctx).If(cmp).Then(op).Commit(); err == nil {
			return
		}
	}
}

func (lkv *leasingKV) waitRescind(ctx context.Context, key string, rev int64) error {
	cctx, cancel := context.WithCancel(ctx)
	defer cancel()
	wch := lkv.cl.Watch(cctx, lkv.pfx+key, v3.WithRev(rev+1))
	for resp := range wch {
		for _, ev := range resp.Events {
			if ev.Type == v3.EventTypeDelete {
				return ctx.Err()
			}
		}
	}
	return ctx.Err()
}

func (lkv *leasingKV) tryModifyOp(ctx context.Context, op v3.Op) (*v3.TxnResponse, chan<- struct{}, error) {
	key := string(op.KeyBytes())
	wc, rev := lkv.leases.Lock(key)
	cmp := v3.Compare(v3.CreateRevision(lkv.pfx+key), "<", rev+1)
	resp, err := lkv.kv.Txn(ctx).If(cmp).Then(op).Commit()
	switch {
	case err != nil:
		lkv.leases.Evict(key)
		fallthrough
	case !resp.Succeeded:
		if wc != nil {
			close(wc)
		}
		return nil, nil, err
	}
	return resp, wc, nil
}

func (lkv *leasingKV) put(ctx context.Context, op v3.Op) (pr *v3.PutResponse, err error) {
	if err := lkv.waitSession(ctx); err != nil {
		return nil, err
	}
	for ctx.Err() == nil {
		resp, wc, err := lkv.tryModifyOp(ctx, op)
		if err != nil || wc == nil {
			resp, err = lkv.revoke(ctx, string(op.KeyBytes()), op)
		}
		if err != nil {
			return nil, err
		}
		if resp.Succeeded {
			lkv.leases.mu.Lock()
			lkv.leases.Update(op.KeyBytes(), op.ValueBytes(), resp.Header)
			lkv.leases.mu.Unlock()
			pr = (*v3.PutResponse)(resp.Responses[0].GetResponsePut())
			pr.Header = resp.Header
		}
		if wc != nil {
			close(wc)
		}
		if resp.Succeeded {
			return pr, nil
		}
	}
	return nil, ctx.Err()
}

func (lkv *leasingKV) acquire(ctx context.Context, key string, op v3.Op) (*v3.TxnResponse, error) {
	for ctx.Err() == nil {
		if err := lkv.waitSession(ctx); err != nil {
			return nil, err
		}
		lcmp := v3.Cmp{Key: []byte(key), Target: pb.Compare_LEASE}
		resp, err := lkv.kv.Txn(ctx).If(
			v3.Compare(v3.CreateRevision(lkv.pfx+key), "=", 0),
			v3.Compare(lcmp, "=", 0)).
			Then(
				op,
				v3.OpPut(lkv.pfx+key, "", v3.WithLease(lkv.leaseID()))).
			Else(
				op,
				v3.OpGet(lkv.pfx+key),
			).Commit()
		if err == nil {
			if !resp.Succeeded {
				kvs := resp.Responses[1].GetResponseRange().Kvs
				// if txn failed since already owner, lease is acquired
				resp.Succeeded = len(kvs) > 0 && v3.LeaseID(kvs[0].Lease) == lkv.leaseID()
			}
			return resp, nil
		}
		// retry if transient error
		if _, ok := err.(rpctypes.EtcdError); ok {
			return nil, err
		}
		if ev, ok := status.FromError(err); ok && ev.Code() != codes.Unavailable {
			return nil, err
		}
	}
	return nil, ctx.Err()
}

func (lkv *leasingKV) get(ctx context.Context, op v3.Op) (*v3.GetResponse, error) {
	do := func() (*v3.GetResponse, error) {
		r, err := lkv.kv.Do(ctx, op)
		return r.Get(), err
	}
	if !lkv.readySession() {
		return do()
	}

	if resp, ok := lkv.leases.Get(ctx, op); resp != nil {
		return resp, nil
	} else if !ok || op.IsSerializable() {
		// must be handled by server or can skip linearization
		return do()
	}

	key := string(op.KeyBytes())
	if !lkv.leases.MayAcquire(key) {
		resp, err := lkv.kv.Do(ctx, op)
		return resp.Get(), err
	}

	resp, err := lkv.acquire(ctx, key, v3.OpGet(key))
	if err != nil {
		return nil, err
	}
	getResp := (*v3.GetResponse)(resp.Responses[0].GetResponseRange())
	getResp.Header = resp.Header
	if resp.Succeeded {
		getResp = lkv.leases.Add(key, getResp, op)
		lkv.wg.Add(1)
		go func() {
			defer lkv.wg.Done()
			lkv.monitorLease(ctx, key, resp.Header.Revision)
		}()
	}
	return getResp, nil
}

func (lkv *leasingKV) deleteRangeRPC(ctx context.Context, maxLeaseRev int64, key, end string) (*v3.DeleteResponse, error) {
	lkey, lend := lkv.pfx+key, lkv.pfx+end
	resp, err := lkv.kv.Txn(ctx).If(
		v3.Compare(v3.CreateRevision(lkey).WithRange(lend), "<", maxLeaseRev+1),
	).Then(
		v3.OpGet(key, v3.WithRange(end), v3.WithKeysOnly()),
		v3.OpDelete(key, v3.WithRange(end)),
	).Commit()
	if err != nil {
		lkv.leases.EvictRange(key, end)
		return nil, err
	}
	if !resp.Succeeded {
		return nil, nil
	}
	for _, kv := range resp.Responses[0].GetResponseRange().Kvs {
		lkv.leases.Delete(string(kv.Key), resp.Header)
	}
	delResp := (*v3.DeleteResponse)(resp.Responses[1].GetResponseDeleteRange())
	delResp.Header = resp.Header
	return delResp, nil
}

func (lkv *leasingKV) deleteRange(ctx context.Context, op v3.Op) (*v3.DeleteResponse, error) {
	key, end := string(op.KeyBytes()), string(op.RangeBytes())
	for ctx.Err() == nil {
		maxLeaseRev, err := lkv.revokeRange(ctx, key, end)
		if err != nil {
			return nil, err
		}
		wcs := lkv.leases.LockRange(key, end)
		delResp, err := lkv.deleteRangeRPC(ctx, maxLeaseRev, key, end)
		closeAll(wcs)
		if err != nil || delResp != nil {
			return delResp, err
		}
	}
	return nil, ctx.Err()
}

func (lkv *leasingKV) delete(ctx context.Context, op v3.Op) (dr *v3.DeleteResponse, err error) {
	if err := lkv.waitSession(ctx); err != nil {
		return nil, err
	}
	if len(op.RangeBytes()) > 0 {
		return lkv.deleteRange(ctx, op)
	}
	key := string(op.KeyBytes())
	for ctx.Err() == nil {
		resp, wc, err := lkv.tryModifyOp(ctx, op)
		if err != nil || wc == nil {
			resp, err = lkv.revoke(ctx, key, op)
		}
		if err != nil {
			// don't know if delete was processed
			lkv.leases.Evict(key)
			return nil, err
		}
		if resp.Succeeded {
			dr = (*v3.DeleteResponse)(resp.Responses[0].GetResponseDeleteRange())
			dr.Header = resp.Header
			lkv.leases.Delete(key, dr.Header)
		}
		if wc != nil {
			close(wc)
		}
		if resp.Succeeded {
			return dr, nil
		}
	}
	return nil, ctx.Err()
}

func (lkv *leasingKV) revoke(ctx context.Context, key string, op v3.Op) (*v3.TxnResponse, error) {
	rev := lkv.leases.Rev(key)
	txn := lkv.kv.Txn(ctx).If(v3.Compare(v3.CreateRevision(lkv.pfx+key), "<", rev+1)).Then(op)
	resp, err := txn.Else(v3.OpPut(lkv.pfx+key, "REVOKE", v3.WithIgnoreLease())).Commit()
	if err != nil || resp.Succeeded {
		return resp, err
	}
	return resp, lkv.waitRescind(ctx, key, resp.Header.Revision)
}

func (lkv *leasingKV) revokeRange(ctx context.Context, begin, end string) (int64, error) {
	lkey, lend := lkv.pfx+begin, ""
	if len(end) > 0 {
		lend = lkv.pfx + end
	}
	leaseKeys, err := lkv.kv.Get(ctx, lkey, v3.WithRange(lend))
	if err != nil {
		return 0, err
	}
	return lkv.revokeLeaseKvs(ctx, leaseKeys.Kvs)
}

func (lkv *leasingKV) revokeLeaseKvs(ctx context.Context, kvs []*mvccpb.KeyValue) (int64, error) {
	maxLeaseRev := int64(0)
	for _, kv := range kvs {
		if rev := kv.CreateRevision; rev > maxLeaseRev {
			maxLeaseRev = rev
		}
		if v3.LeaseID(kv.Lease) == lkv.leaseID() {
			// don't revoke own keys
			continue
		}
		key := strings.TrimPrefix(string(kv.Key), lkv.pfx)
		if _, err := lkv.revoke(ctx, key, v3.OpGet(key)); err != nil {
			return 0, err
		}
	}
	return maxLeaseRev, nil
}

func (lkv *leasingKV) waitSession(ctx context.Context) error {
	lkv.leases.mu.RLock()
	sessionc := lkv.sessionc
	lkv.leases.mu.RUnlock()
	select {
	case <-sessionc:
		return nil
	case <-lkv.ctx.Done():
		return lkv.ctx.Err()
	case <-ctx.Done():
		return ctx.Err()
	}
}

func (lkv *leasingKV) readySession() bool {
	lkv.leases.mu.RLock()
	defer lkv.leases.mu.RUnlock()
	if lkv.session == nil {
		return false
	}
	select {
	case <-lkv.session.Done():
	default:
		return true
	}
	return false
}

func (lkv *leasingKV) leaseID() v3.LeaseID {
	lkv.leases.mu.RLock()
	defer lkv.leases.mu.RUnlock()
	return lkv.session.Lease()
}
