// Copyright 2017 The etcd Authors
//
// Licensed under the Apache License, Version 2.0 (the "License");
// you may not use this file except in compliance with the License.
// You may obtain a copy of the License at
//
//     http://www.apache.org/licenses/LICENSE-2.0
//
// Unless required by applicable law or agreed to in writing, software
// distributed under the License is distributed on an "AS IS" BASIS,
// WITHOUT WARRANTIES OR CONDITIONS OF ANY KIND, either express or implied.
// See the License for the specific language governing permissions and
// limitations under the License.

package leasing

import (
	"context"
	"strings"
	"sync"
	"time"

	v3pb "go.etcd.io/etcd/api/v3/etcdserverpb"
	"go.etcd.io/etcd/api/v3/mvccpb"
	v3 "go.etcd.io/etcd/client/v3"
)

const revokeBackoff = 2 * time.Second

type leaseCache struct {
	mu      sync.RWMutex
	entries map[string]*leaseKey
	revokes map[string]time.Time
	header  *v3pb.ResponseHeader
}

type leaseKey struct {
	response *v3.GetResponse
	// rev is the leasing key revision.
	rev   int64
	waitc chan struct{}
}

func (lc *leaseCache) Rev(key string) int64 {
	lc.mu.RLock()
	defer lc.mu.RUnlock()
	if li := lc.entries[key]; li != nil {
		return li.rev
	}
	return 0
}

func (lc *leaseCache) Lock(key string) (chan<- struct{}, int64) {
	lc.mu.Lock()
	defer lc.mu.Unlock()
	if li := lc.entries[key]; li != nil {
		li.waitc = make(chan struct{})
		return li.waitc, li.rev
	}
	return nil, 0
}

func (lc *leaseCache) LockRange(begin, end string) (ret []chan<- struct{}) {
	lc.mu.Lock()
	defer lc.mu.Unlock()
	for k, li := range lc.entries {
		if inRange(k, begin, end) {
			li.waitc = make(chan struct{})
			ret = append(ret, li.waitc)
		}
	}
	return ret
}

func inRange(k, begin, end string) bool {
	if strings.Compare(k, begin) < 0 {
		return false
	}
	if end != "\x00" && strings.Compare(k, end) >= 0 {
		return false
	}
	return true
}

func (lc *leaseCache) LockWriteOps(ops []v3.Op) (ret []chan<- struct{}) {
	for _, op := range ops {
		if op.IsGet() {
			continue
		}
		key := string(op.KeyBytes())
		if end := string(op.RangeBytes()); end == "" {
			if wc, _ := lc.Lock(key); wc != nil {
				ret = append(ret, wc)
			}
		} else {
			for k := range lc.entries {
				if !inRange(k, key, end) {
					continue
				}
				if wc, _ := lc.Lock(k); wc != nil {
					ret = append(ret, wc)
				}
			}
		}
	}
	return ret
}

func (lc *leaseCache) NotifyOps(ops []v3.Op) (wcs []<-chan struct{}) {
	for _, op := range ops {
		if op.IsGet() {
			if _, wc := lc.notify(string(op.KeyBytes())); wc != nil {
				wcs = append(wcs, wc)
			}
		}
	}
	return wcs
}

func (lc *leaseCache) MayAcquire(key string) bool {
	lc.mu.RLock()
	lr, ok := lc.revokes[key]
	lc.mu.RUnlock()
	return !ok || time.Since(lr) > revokeBackoff
}

func (lc *leaseCache) Add(key string, resp *v3.GetResponse, op v3.Op) *v3.GetResponse {
	lk := &leaseKey{resp, resp.Header.Revision, closedCh}
	lc.mu.Lock()
	if lc.header == nil || lc.header.Revision < resp.Header.Revision {
		lc.header = resp.Header
	}
	lc.entries[key] = lk
	ret := lk.get(op)
	lc.mu.Unlock()
	return ret
}

func (lc *leaseCache) Update(key, val []byte, respHeader *v3pb.ResponseHeader) {
	li := lc.entries[string(key)]
	if li == nil {
		return
	}
	cacheResp := li.response
	if len(cacheResp.Kvs) == 0 {
		kv := &mvccpb.KeyValue{
			Key:            key,
			CreateRevision: respHeader.Revision,
		}
		cacheResp.Kvs = append(cacheResp.Kvs, kv)
		cacheResp.Count = 1
	}
	cacheResp.Kvs[0].Version++
	if cacheResp.Kvs[0].ModRevision < respHeader.Revision {
		cacheResp.Header = respHeader
		cacheResp.Kvs[0].ModRevision = respHeader.Revision
		cacheResp.Kvs[0].Value = val
	}
}

func (lc *leaseCache) Delete(key string, hdr *v3pb.ResponseHeader) {
	lc.mu.Lock()
	defer lc.mu.Unlock()
	lc.delete(key, hdr)
}

func (lc *leaseCache) delete(key string, hdr *v3pb.ResponseHeader) {
	if li := lc.entries[key]; li != nil && hdr.Revision >= li.response.Header.Revision {
		li.response.Kvs = nil
		li.response.Header = copyHeader(hdr)
	}
}

func (lc *leaseCache) Evict(key string) (rev int64) {
	lc.mu.Lock()
	defer lc.mu.Unlock()
	if li := lc.entries[key]; li != nil {
		rev = li.rev
		delete(lc.entries, key)
		lc.revokes[key] = time.Now()
	}
	return rev
}

func (lc *leaseCache) EvictRange(key, end string) {
	lc.mu.Lock()
	defer lc.mu.Unlock()
	for k := range lc.entries {
		if inRange(k, key, end) {
			delete(lc.entries, key)
			lc.revokes[key] = time.Now()
		}
	}
}

func isBadOp(op v3.Op) bool { return op.Rev() > 0 || len(op.RangeBytes()) > 0 }

func (lc *leaseCache) Get(ctx context.Context, op v3.Op) (*v3.GetResponse, bool) {
	if isBadOp(op) {
		return nil, false
	}
	key := string(op.KeyBytes())
	li, wc := lc.notify(key)
	if li == nil {
		return nil, true
	}
	select {
	case <-wc:
	case <-ctx.Done():
		return nil, true
	}
	lc.mu.RLock()
	lk := *li
	ret := lk.get(op)
	lc.mu.RUnlock()
	return ret, true
}

func (lk *leaseKey) get(op v3.Op) *v3.GetResponse {
	ret := *lk.response
	ret.Header = copyHeader(ret.Header)
	empty := len(ret.Kvs) == 0 || op.IsCountOnly()
	empty = empty || (op.MinModRev() > ret.Kvs[0].ModRevision)
	empty = empty || (op.MaxModRev() != 0 && op.MaxModRev() < ret.Kvs[0].ModRevision)
	empty = empty || (op.MinCreateRev() > ret.Kvs[0].CreateRevision)
	empty = empty || (op.MaxCreateRev() != 0 && op.MaxCreateRev() < ret.Kvs[0].CreateRevision)
	if empty {
		ret.Kvs = nil
	} else {
		kv := *ret.Kvs[0]
		kv.Key = make([]byte, len(kv.Key))
		copy(kv.Key, ret.Kvs[0].Key)
		if !op.IsKeysOnly() {
			kv.Value = make([]byte, len(kv.Value))
			copy(kv.Value, ret.Kvs[0].Value)
		}
		ret.Kvs = []*mvccpb.KeyValue{&kv}
	}
	return &ret
}

func (lc *leaseCache) notify(key string) (*leaseKey, <-chan struct{}) {
	lc.mu.RLock()
	defer lc.mu.RUnlock()
	if li := lc.entries[key]; li != nil {
		return li, li.waitc
	}
	return nil, nil
}

func (lc *leaseCache) clearOldRevokes(ctx context.Context) {
	for {
		select {
		case <-ctx.Done():
			return
		case <-time.After(time.Second):
			lc.mu.Lock()
			for k, lr := range lc.revokes {
				if time.Since(lr.Add(revokeBackoff)) > 0 {
					delete(lc.revokes, k)
				}
			}
			lc.mu.Unlock()
		}
	}
}

func (lc *leaseCache) evalCmp(cmps []v3.Cmp) (cmpVal bool, ok bool) {
	for _, cmp := range cmps {
		if len(cmp.RangeEnd) > 0 {
			return false, false
		}
		lk := lc.entries[string(cmp.Key)]
		if lk == nil {
			return false, false
		}
		if !evalCmp(lk.response, cmp) {
			return false, true
		}
	}
	return true, true
}

func (lc *leaseCache) evalOps(ops []v3.Op) ([]*v3pb.ResponseOp, bool) {
	resps := make([]*v3pb.ResponseOp, len(ops))
	for i, op := range ops {
		if !op.IsGet() || isBadOp(op) {
			// TODO: support read-only Txn
			return nil, false
		}
		lk := lc.entries[string(op.KeyBytes())]
		if lk == nil {
			return nil, false
		}
		resp := lk.get(op)
		if resp == nil {
			return nil, false
		}
		resps[i] = &v3pb.ResponseOp{
			Response: &v3pb.ResponseOp_ResponseRange{
				ResponseRange: (*v3pb.RangeResponse)(resp),
			},
		}
	}
	return resps, true
}
