// Copyright 2017 The etcd Authors
//
// Licensed under the Apache License, Version 2.0 (the "License");
// you may not use this file except in compliance with the License.
// You may obtain a copy of the License at
//
//     http://www.apache.org/licenses/LICENSE-2.0
//
// Unless required by applicable law or agreed to in writing, software
// distributed under the License is distributed on an "AS IS" BASIS,
// WITHOUT WARRANTIES OR CONDITIONS OF ANY KIND, either express or implied.
// See the License for the specific language governing permissions and
// limitations under the License.

package leasing

import (
	"context"
	"strings"

	v3pb "go.etcd.io/etcd/api/v3/etcdserverpb"
	v3 "go.etcd.io/etcd/client/v3"
)

type txnLeasing struct {
	v3.Txn
	lkv  *leasingKV
	ctx  context.Context
	cs   []v3.Cmp
	opst []v3.Op
	opse []v3.Op
}

func (txn *txnLeasing) If(cs ...v3.Cmp) v3.Txn {
	txn.cs = append(txn.cs, cs...)
	txn.Txn = txn.Txn.If(cs...)
	return txn
}

func (txn *txnLeasing) Then(ops ...v3.Op) v3.Txn {
	txn.opst = append(txn.opst, ops...)
	txn.Txn = txn.Txn.Then(ops...)
	return txn
}

func (txn *txnLeasing) Else(ops ...v3.Op) v3.Txn {
	txn.opse = append(txn.opse, ops...)
	txn.Txn = txn.Txn.Else(ops...)
	return txn
}

func (txn *txnLeasing) Commit() (*v3.TxnResponse, error) {
	if resp, err := txn.eval(); resp != nil || err != nil {
		return resp, err
	}
	return txn.serverTxn()
}

func (txn *txnLeasing) eval() (*v3.TxnResponse, error) {
	// TODO: wait on keys in comparisons
	thenOps, elseOps := gatherOps(txn.opst), gatherOps(txn.opse)
	ops := make([]v3.Op, 0, len(thenOps)+len(elseOps))
	ops = append(ops, thenOps...)
	ops = append(ops, elseOps...)

	for _, ch := range txn.lkv.leases.NotifyOps(ops) {
		select {
		case <-ch:
		case <-txn.ctx.Done():
			return nil, txn.ctx.Err()
		}
	}

	txn.lkv.leases.mu.RLock()
	defer txn.lkv.leases.mu.RUnlock()
	succeeded, ok := txn.lkv.leases.evalCmp(txn.cs)
	if !ok || txn.lkv.leases.header == nil {
		return nil, nil
	}
	if ops = txn.opst; !succeeded {
		ops = txn.opse
	}

	resps, ok := txn.lkv.leases.evalOps(ops)
	if !ok {
		return nil, nil
	}
	return &v3.TxnResponse{Header: copyHeader(txn.lkv.leases.header), Succeeded: succeeded, Responses: resps}, nil
}

// fallback computes the ops to fetch all possible conflicting
// leasing keys for a list of ops.
func (txn *txnLeasing) fallback(ops []v3.Op) (fbOps []v3.Op) {
	for _, op := range ops {
		if op.IsGet() {
			continue
		}
		lkey, lend := txn.lkv.pfx+string(op.KeyBytes()), ""
		if len(op.RangeBytes()) > 0 {
			lend = txn.lkv.pfx + string(op.RangeBytes())
		}
		fbOps = append(fbOps, v3.OpGet(lkey, v3.WithRange(lend)))
	}
	return fbOps
}

func (txn *txnLeasing) guardKeys(ops []v3.Op) (cmps []v3.Cmp) {
	seen := make(map[string]bool)
	for _, op := range ops {
		key := string(op.KeyBytes())
		if op.IsGet() || len(op.RangeBytes()) != 0 || seen[key] {
			continue
		}
		rev := txn.lkv.leases.Rev(key)
		cmps = append(cmps, v3.Compare(v3.CreateRevision(txn.lkv.pfx+key), "<", rev+1))
		seen[key] = true
	}
	return cmps
}

func (txn *txnLeasing) guardRanges(ops []v3.Op) (cmps []v3.Cmp, err error) {
	for _, op := range ops {
		if op.IsGet() || len(op.RangeBytes()) == 0 {
			continue
		}

		key, end := string(op.KeyBytes()), string(op.RangeBytes())
		maxRevLK, err := txn.lkv.revokeRange(txn.ctx, key, end)
		if err != nil {
			return nil, err
		}

		opts := append(v3.WithLastRev(), v3.WithRange(end))
		getResp, err := txn.lkv.kv.Get(txn.ctx, key, opts...)
		if err != nil {
			return nil, err
		}
		maxModRev := int64(0)
		if len(getResp.Kvs) > 0 {
			maxModRev = getResp.Kvs[0].ModRevision
		}

		noKeyUpdate := v3.Compare(v3.ModRevision(key).WithRange(end), "<", maxModRev+1)
		noLeaseUpdate := v3.Compare(
			v3.CreateRevision(txn.lkv.pfx+key).WithRange(txn.lkv.pfx+end),
			"<",
			maxRevLK+1)
		cmps = append(cmps, noKeyUpdate, noLeaseUpdate)
	}
	return cmps, nil
}

func (txn *txnLeasing) guard(ops []v3.Op) ([]v3.Cmp, error) {
	cmps := txn.guardKeys(ops)
	rangeCmps, err := txn.guardRanges(ops)
	return append(cmps, rangeCmps...), err
}

func (txn *txnLeasing) commitToCache(txnResp *v3pb.TxnResponse, userTxn v3.Op) {
	ops := gatherResponseOps(txnResp.Responses, []v3.Op{userTxn})
	txn.lkv.leases.mu.Lock()
	for _, op := range ops {
		key := string(op.KeyBytes())
		if op.IsDelete() && len(op.RangeBytes()) > 0 {
			end := string(op.RangeBytes())
			for k := range txn.lkv.leases.entries {
				if inRange(k, key, end) {
					txn.lkv.leases.delete(k, txnResp.Header)
				}
			}
		} else if op.IsDelete() {
			txn.lkv.leases.delete(key, txnResp.Header)
		}
		if op.IsPut() {
			txn.lkv.leases.Update(op.KeyBytes(), op.ValueBytes(), txnResp.Header)
		}
	}
	txn.lkv.leases.mu.Unlock()
}

func (txn *txnLeasing) revokeFallback(fbResps []*v3pb.ResponseOp) error {
	for _, resp := range fbResps {
		_, err := txn.lkv.revokeLeaseKvs(txn.ctx, resp.GetResponseRange().Kvs)
		if err != nil {
			return err
		}
	}
	return nil
}

func (txn *txnLeasing) serverTxn() (*v3.TxnResponse, error) {
	if err := txn.lkv.waitSession(txn.ctx); err != nil {
		return nil, err
	}

	userOps := gatherOps(append(txn.opst, txn.opse...))
	userTxn := v3.OpTxn(txn.cs, txn.opst, txn.opse)
	fbOps := txn.fallback(userOps)

	defer closeAll(txn.lkv.leases.LockWriteOps(userOps))
	for {
		cmps, err := txn.guard(userOps)
		if err != nil {
			return nil, err
		}
		resp, err := txn.lkv.kv.Txn(txn.ctx).If(cmps...).Then(userTxn).Else(fbOps...).Commit()
		if err != nil {
			for _, cmp := range cmps {
				txn.lkv.leases.Evict(strings.TrimPrefix(string(cmp.Key), txn.lkv.pfx))
			}
			return nil, err
		}
		if resp.Succeeded {
			txn.commitToCache((*v3pb.TxnResponse)(resp), userTxn)
			userResp := resp.Responses[0].GetResponseTxn()
			userResp.Header = resp.Header
			return (*v3.TxnResponse)(userResp), nil
		}
		if err := txn.revokeFallback(resp.Responses); err != nil {
			return nil, err
		}
	}
}
