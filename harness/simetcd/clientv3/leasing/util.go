// Copyright 2017 The etcd Authors
//
// Licensed under the Apache License, Version 2.0 (the "License");
// you may not use this file except in compliance with the License.
// You may obtain a copy of the License at
//
//     http://www.apache.org/licenses/LICENSE-2.0
//
// Unless required by applicable law or agreed to in writing, software
// distributed under the License is distributed on an "AS IS" BASIS,
// WITHOUT WARRANTIES OR CONDITIONS OF ANY KIND, either express or implied.
// See the License for the specific language governing permissions and
// limitations under the License.

package leasing

import (
	"bytes"

	v3pb "go.etcd.io/etcd/api/v3/etcdserverpb"
	v3 "go.etcd.io/etcd/client/v3"
)

func compareInt64(a, b int64) int {
	switch {
	case a < b:
		return -1
	case a > b:
		return 1
	default:
		return 0
	}
}

func evalCmp(resp *v3.GetResponse, tcmp v3.Cmp) bool {
	var result int
	if len(resp.Kvs) != 0 {
		kv := resp.Kvs[0]
		switch tcmp.Target {
		case v3pb.Compare_VALUE:
			if tv, _ := tcmp.TargetUnion.(*v3pb.Compare_Value); tv != nil {
				result = bytes.Compare(kv.Value, tv.Value)
			}
		case v3pb.Compare_CREATE:
			if tv, _ := tcmp.TargetUnion.(*v3pb.Compare_CreateRevision); tv != nil {
				result = compareInt64(kv.CreateRevision, tv.CreateRevision)
			}
		case v3pb.Compare_MOD:
			if tv, _ := tcmp.TargetUnion.(*v3pb.Compare_ModRevision); tv != nil {
				result = compareInt64(kv.ModRevision, tv.ModRevision)
			}
		case v3pb.Compare_VERSION:
			if tv, _ := tcmp.TargetUnion.(*v3pb.Compare_Version); tv != nil {
				result = compareInt64(kv.Version, tv.Version)
			}
		}
	}
	switch tcmp.Result {
	case v3pb.Compare_EQUAL:
		return result == 0
	case v3pb.Compare_NOT_EQUAL:
		return result != 0
	case v3pb.Compare_GREATER:
		return result > 0
	case v3pb.Compare_LESS:
		return result < 0
	}
	return true
}

func gatherOps(ops []v3.Op) (ret []v3.Op) {
	for _, op := range ops {
		if !op.IsTxn() {
			ret = append(ret, op)
			continue
		}
		_, thenOps, elseOps := op.Txn()
		ret = append(ret, gatherOps(append(thenOps, elseOps...))...)
	}
	return ret
}

func gatherResponseOps(resp []*v3pb.ResponseOp, ops []v3.Op) (ret []v3.Op) {
	for i, op := range ops {
		if !op.IsTxn() {
			ret = append(ret, op)
			continue
		}
		_, thenOps, elseOps := op.Txn()
		if txnResp := resp[i].GetResponseTxn(); txnResp.Succeeded {
			ret = append(ret, gatherResponseOps(txnResp.Responses, thenOps)...)
		} else {
			ret = append(ret, gatherResponseOps(txnResp.Responses, elseOps)...)
		}
	}
	return ret
}

func copyHeader(hdr *v3pb.ResponseHeader) *v3pb.ResponseHeader {
	h := *hdr
	return &h
}

func closeAll(chs []chan<- struct{}) {
	for _, ch := range chs {
		close(ch)
	}
}
