// Copyright 2017 The etcd Authors
//
// Licensed under the Apache License, Version 2.0 (the "License");
// you may not use this file except in compliance with the License.
// You may obtain a copy of the License at
//
//     http://www.apache.org/licenses/LICENSE-2.0
//
// Unless required by applicable law or agreed to in writing, software
// distributed under the License is distributed on an "AS IS" BASIS,
// WITHOUT WARRANTIES OR CONDITIONS OF ANY KIND, either express or implied.
// See the License for the specific language governing permissions and
// limitations under the License.

// Package leasing serves linearizable reads from a local cache by acquiring
// exclusive write access to keys through a client-side leasing protocol. This
// leasing layer can either directly wrap the etcd client or it can be exposed
// through the etcd grpc proxy server, granting multiple clients write access.
//
// First, create a leasing KV from a clientv3.Client 'cli':
//
//     lkv, err := leasing.NewKV(cli, "leasing-prefix")
//     if err != nil {
//         // handle error
//     }
//
// A range request for a key "abc" tries to acquire a leasing key so it can cache the range's
// key locally. On the server, the leasing key is stored to "leasing-prefix/abc":
//
//     resp, err := lkv.Get(context.TODO(), "abc")
//
// Future linearized read requests using 'lkv' will be served locally for the lease's lifetime:
//
//     resp, err = lkv.Get(context.TODO(), "abc")
//
// If another leasing client writes to a leased key, then the owner relinquishes its exclusive
// access, permitting the writer to modify the key:
//
//     lkv2, err := leasing.NewKV(cli, "leasing-prefix")
//     if err != nil {
//         // handle error
//     }
//     lkv2.Put(context.TODO(), "abc", "456")
//     resp, err = lkv.Get("abc")
//
package leasing
