// Copyright 2017 The etcd Authors
//
// Licensed under the Apache License, Version 2.0 (the "License");
// you may not use this file except in compliance with the License.
// You may obtain a copy of the License at
//
//     http://www.apache.org/licenses/LICENSE-2.0
//
// Unless required by applicable law or agreed to in writing, software
// distributed under the License is distributed on an "AS IS" BASIS,
// WITHOUT WARRANTIES OR CONDITIONS OF ANY KIND, either express or implied.
// See the License for the specific language governing permissions and
// limitations under the License.

// Package naming provides:
//	- subpackage endpoints: an abstraction layer to store and read endpoints
//		information from etcd.
//	- subpackage resolver: an etcd-backed gRPC resolver for discovering gRPC
//		services based on the endpoints configuration
//
// To use, first import the packages:
//
//	import (
//		"go.etcd.io/etcd/client/v3"
//		"go.etcd.io/etcd/client/v3/naming/endpoints"
//		"go.etcd.io/etcd/client/v3/naming/resolver"
//		"google.golang.org/grpc"
//	)
//
// First, register new endpoint addresses for a service:
//
//	func etcdAdd(c *clientv3.Client, service, addr string) error {
//		em := endpoints.NewManager(c, service)
//		return em.AddEndpoint(c.Ctx(), service+"/"+addr, endpoints.Endpoint{Addr:addr});
//	}
//
// Dial an RPC service using the etcd gRPC resolver and a gRPC Balancer:
//
//	func etcdDial(c *clientv3.Client, service string) (*grpc.ClientConn, error) {
//		etcdResolver, err := resolver.NewBuilder(c);
//		if err { return nil, err }
//		return  grpc.Dial("etcd:///" + service, grpc.WithResolvers(etcdResolver))
//	}
//
// Optionally, force delete an endpoint:
//
//	func etcdDelete(c *clientv3, service, addr string) error {
//		em := endpoints.NewManager(c, service)
//		return em.DeleteEndpoint(c.Ctx(), service+"/"+addr)
//	}
//
// Or register an expiring endpoint with a lease:
//
//	func etcdAdd(c *clientv3.Client, lid clientv3.LeaseID, service, addr string) error {
//		em := endpoints.NewManager(c, service)
//		return em.AddEndpoint(c.Ctx(), service+"/"+addr, endpoints.Endpoint{Addr:addr}, clientv3.WithLease(lid));
//	}
//
package naming
