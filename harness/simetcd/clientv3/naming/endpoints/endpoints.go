package endpoints

import (
	"context"

	clientv3 "go.etcd.io/etcd/client/v3"
)

// Endpoint represents a single address the connection can be established with.
//
// Inspired by: https://pkg.go.dev/google.golang.org/grpc/resolver#Address.
// Please document etcd version since which version each field is supported.
type Endpoint struct {
	// Addr is the server address on which a connection will be established.
	// Since etcd 3.1
	Addr string

	// Metadata is the information associated with Addr, which may be used
	// to make load balancing decision.
	// Since etcd 3.1
	Metadata interface{}
}

type Operation uint8

const (
	// Add indicates an Endpoint is added.
	Add Operation = iota
	// Delete indicates an existing address is deleted.
	Delete
)

// Update describes a single edit action of an Endpoint.
type Update struct {
	// Op - action Add or Delete.
	Op       Operation
	Key      string
	Endpoint Endpoint
}

// WatchChannel is used to deliver notifications about endpoints updates.
type WatchChannel <-chan []*Update

// Key2EndpointMap maps etcd key into struct describing the endpoint.
type Key2EndpointMap map[string]Endpoint

// UpdateWithOpts describes endpoint update (add or delete) together
// with etcd options (e.g. to attach an endpoint to a lease).
type UpdateWithOpts struct {
	Update
	Opts []clientv3.OpOption
}

// NewAddUpdateOpts constructs UpdateWithOpts for endpoint registration.
func NewAddUpdateOpts(key string, endpoint Endpoint, opts ...clientv3.OpOption) *UpdateWithOpts {
	return &UpdateWithOpts{Update: Update{Op: Add, Key: key, Endpoint: endpoint}, Opts: opts}
}

// NewDeleteUpdateOpts constructs UpdateWithOpts for endpoint deletion.
func NewDeleteUpdateOpts(key string, opts ...clientv3.OpOption) *UpdateWithOpts {
	return &UpdateWithOpts{Update: Update{Op: Delete, Key: key}, Opts: opts}
}

// Manager can be used to add/remove & inspect endpoints stored in etcd for
// a particular target.
type Manager interface {
	// Update allows to atomically add/remove a few endpoints from etcd.
	Update(ctx context.Context, updates []*UpdateWithOpts) error

	// AddEndpoint registers a single endpoint in etcd.
	// For more advanced use-cases use the Update method.
	AddEndpoint(ctx context.Context, key string, endpoint Endpoint, opts ...clientv3.OpOption) error
	// DeleteEndpoint deletes a single endpoint stored in etcd.
	// For more advanced use-cases use the Update method.
	DeleteEndpoint(ctx context.Context, key string, opts ...clientv3.OpOption) error

	// List returns all the endpoints for the current target as a map.
	List(ctx context.Context) (Key2EndpointMap, error)
	// NewWatchChannel creates a channel that populates or endpoint updates.
	// Cancel the 'ctx' to close the watcher.
	NewWatchChannel(ctx context.Context) (WatchChannel, error)
}
