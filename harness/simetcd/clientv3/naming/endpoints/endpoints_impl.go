package endpoints

// TODO: The API is not yet implemented.

import (
	"context"
	"encoding/json"
	"errors"
	"strings"

	clientv3 "go.etcd.io/etcd/client/v3"
	"go.etcd.io/etcd/client/v3/naming/endpoints/internal"

	"go.uber.org/zap"
	"google.golang.org/grpc/codes"
	"google.golang.org/grpc/status"
)

type endpointManager struct {
	// Client is an initialized etcd client.
	client *clientv3.Client
	target string
}

// NewManager creates an endpoint manager which implements the interface of 'Manager'.
func NewManager(client *clientv3.Client, target string) (Manager, error) {
	if client == nil {
		return nil, errors.New("invalid etcd client")
	}

	if target == "" {
		return nil, errors.New("invalid target")
	}

	em := &endpointManager{
		client: client,
		target: target,
	}
	return em, nil
}

func (m *endpointManager) Update(ctx context.Context, updates []*UpdateWithOpts) (err error) {
	ops := make([]clientv3.Op, 0, len(updates))
	for _, update := range updates {
		if !strings.HasPrefix(update.Key, m.target+"/") {
			return status.Errorf(codes.InvalidArgument, "endpoints: endpoint key should be prefixed with '%s/' got: '%s'", m.target, update.Key)
		}

		switch update.Op {
		case Add:
			internalUpdate := &internal.Update{
				Op:       internal.Add,
				Addr:     update.Endpoint.Addr,
				Metadata: update.Endpoint.Metadata,
			}

			var v []byte
			if v, err = json.Marshal(internalUpdate); err != nil {
				return status.Error(codes.InvalidArgument, err.Error())
			}
			ops = append(ops, clientv3.OpPut(update.Key, string(v), update.Opts...))
		case Delete:
			ops = append(ops, clientv3.OpDelete(update.Key, update.Opts...))
		default:
			return status.Error(codes.InvalidArgument, "endpoints: bad update op")
		}
	}
	_, err = m.client.KV.Txn(ctx).Then(ops...).Commit()
	return err
}

func (m *endpointManager) AddEndpoint(ctx context.Context, key string, endpoint Endpoint, opts ...clientv3.OpOption) error {
	return m.Update(ctx, []*UpdateWithOpts{NewAddUpdateOpts(key, endpoint, opts...)})
}

func (m *endpointManager) DeleteEndpoint(ctx context.Context, key string, opts ...clientv3.OpOption) error {
	return m.Update(ctx, []*UpdateWithOpts{NewDeleteUpdateOpts(key, opts...)})
}

func (m *endpointManager) NewWatchChannel(ctx context.Context) (WatchChannel, error) {
	resp, err := m.client.Get(ctx, m.target, clientv3.WithPrefix(), clientv3.WithSerializable())
	if err != nil {
		return nil, err
	}

	lg := m.client.GetLogger()
	initUpdates := make([]*Update, 0, len(resp.Kvs))
	for _, kv := range resp.Kvs {
		var iup internal.Update
		if err := json.Unmarshal(kv.Value, &iup); err != nil {
			lg.Warn("unmarshal endpoint update failed", zap.String("key", string(kv.Key)), zap.Error(err))
			continue
		}
		up := &Update{
			Op:       Add,
			Key:      string(kv.Key),
			Endpoint: Endpoint{Addr: iup.Addr, Metadata: iup.Metadata},
		}
		initUpdates = append(initUpdates, up)
	}

	upch := make(chan []*Update, 1)
	if len(initUpdates) > 0 {
		upch <- initUpdates
	}
	go m.watch(ctx, resp.Header.Revision+1, upch)
	return upch, nil
}

func (m *endpointManager) watch(ctx context.Context, rev int64, upch chan []*Update) {
	defer close(upch)

	lg := m.client.GetLogger()
	opts := []clientv3.OpOption{clientv3.WithRev(rev), clientv3.WithPrefix()}
	wch := m.client.Watch(ctx, m.target, opts...)
	for {
		select {
		case <-ctx.Done():
			return
		case wresp, ok := <-wch:
			if !ok {
				lg.Warn("watch closed", zap.String("target", m.target))
				return
			}
			if wresp.Err() != nil {
				lg.Warn("watch failed", zap.String("target", m.target), zap.Error(wresp.Err()))
				return
			}

			deltaUps := make([]*Update, 0, len(wresp.Events))
			for _, e := range wresp.Events {
				var iup internal.Update
				var err error
				var op Operation
				switch e.Type {
				case clientv3.EventTypePut:
					err = json.Unmarshal(e.Kv.Value, &iup)
					op = Add
					if err != nil {
						lg.Warn("unmarshal endpoint update failed", zap.String("key", string(e.Kv.Key)), zap.Error(err))
						continue
					}
				case clientv3.EventTypeDelete:
					iup = internal.Update{Op: internal.Delete}
					op = Delete
				default:
					continue
				}
				up := &Update{Op: op, Key: string(e.Kv.Key), Endpoint: Endpoint{Addr: iup.Addr, Metadata: iup.Metadata}}
				deltaUps = append(deltaUps, up)
			}
			if len(deltaUps) > 0 {
				upch <- deltaUps
			}
		}
	}
}

func (m *endpointManager) List(ctx context.Context) (Key2EndpointMap, error) {
	resp, err := m.client.Get(ctx, m.target, clientv3.WithPrefix(), clientv3.WithSerializable())
	if err != nil {
		return nil, err
	}

	eps := make(Key2EndpointMap)
	for _, kv := range resp.Kvs {
		var iup internal.Update
		if err := json.Unmarshal(kv.Value, &iup); err != nil {
			continue
		}

		eps[string(kv.Key)] = Endpoint{Addr: iup.Addr, Metadata: iup.Metadata}
	}
	return eps, nil
}
