package internal

// Operation describes action performed on endpoint (addition vs deletion).
// Must stay JSON-format compatible with:
// https://pkg.go.dev/google.golang.org/grpc@v1.29.1/naming#Operation
type Operation uint8

const (
	// Add indicates a new address is added.
	Add Operation = iota
	// Delete indicates an existing address is deleted.
	Delete
)

// Update defines a persistent (JSON marshalled) format representing
// endpoint within the etcd storage.
//
// As the format can be persisted by one version of etcd client library and
// read by other the format must be kept backward compatible and
// in particular must be superset of the grpc(<=1.29.1) naming.Update structure:
// https://pkg.go.dev/google.golang.org/grpc@v1.29.1/naming#Update
//
// Please document since which version of etcd-client given property is supported.
// Please keep the naming consistent with e.g. https://pkg.go.dev/google.golang.org/grpc/resolver#Address.
//
// Notice that it is not valid having both empty string Addr and nil Metadata in an Update.
type Update struct {
	// Op indicates the operation of the update.
	// Since etcd 3.1.
	Op Operation
	// Addr is the updated address. It is empty string if there is no address update.
	// Since etcd 3.1.
	Addr string
	// Metadata is the updated metadata. It is nil if there is no metadata update.
	// Metadata is not required for a custom naming implementation.
	// Since etcd 3.1.
	Metadata interface{}
}
