package resolver

import (
	"context"
	"sync"

	clientv3 "go.etcd.io/etcd/client/v3"
	"go.etcd.io/etcd/client/v3/naming/endpoints"

	"google.golang.org/grpc/codes"
	gresolver "google.golang.org/grpc/resolver"
	"google.golang.org/grpc/status"
)

type builder struct {
	c *clientv3.Client
}

func (b builder) Build(target gresolver.Target, cc gresolver.ClientConn, opts gresolver.BuildOptions) (gresolver.Resolver, error) {
	r := &resolver{
		c:      b.c,
		target: target.Endpoint,
		cc:     cc,
	}
	r.ctx, r.cancel = context.WithCancel(context.Background())

	em, err := endpoints.NewManager(r.c, r.target)
	if err != nil {
		return nil, status.Errorf(codes.InvalidArgument, "resolver: failed to new endpoint manager: %s", err)
	}
	r.wch, err = em.NewWatchChannel(r.ctx)
	if err != nil {
		return nil, status.Errorf(codes.Internal, "resolver: failed to new watch channer: %s", err)
	}

	r.wg.Add(1)
	go r.watch()
	return r, nil
}

func (b builder) Scheme() string {
	return "etcd"
}

// NewBuilder creates a resolver builder.
func NewBuilder(client *clientv3.Client) (gresolver.Builder, error) {
	return builder{c: client}, nil
}

type resolver struct {
	c      *clientv3.Client
	target string
	cc     gresolver.ClientConn
	wch    endpoints.WatchChannel
	ctx    context.Context
	cancel context.CancelFunc
	wg     sync.WaitGroup
}

func (r *resolver) watch() {
	defer r.wg.Done()

	allUps := make(map[string]*endpoints.Update)
	for {
		select {
		case <-r.ctx.Done():
			return
		case ups, ok := <-r.wch:
			if !ok {
				return
			}

			for _, up := range ups {
				switch up.Op {
				case endpoints.Add:
					allUps[up.Key] = up
				case endpoints.Delete:
					delete(allUps, up.Key)
				}
			}

			addrs := convertToGRPCAddress(allUps)
			r.cc.UpdateState(gresolver.State{Addresses: addrs})
		}
	}
}

func convertToGRPCAddress(ups map[string]*endpoints.Update) []gresolver.Address {
	var addrs []gresolver.Address
	for _, up := range ups {
		addr := gresolver.Address{
			Addr:     up.Endpoint.Addr,
			Metadata: up.Endpoint.Metadata,
		}
		addrs = append(addrs, addr)
	}
	return addrs
}

// ResolveNow is a no-op here.
// It's just a hint, resolver can ignore this if it's not necessary.
func (r *resolver) ResolveNow(gresolver.ResolveNowOptions) {}

func (r *resolver) Close() {
	r.cancel()
	r.wg.Wait()
}
