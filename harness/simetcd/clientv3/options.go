// Copyright 2017 The etcd Authors
//
// Licensed under the Apache License, Version 2.0 (the "License");
// you may not use this file except in compliance with the License.
// You may obtain a copy of the License at
//
//     http://www.apache.org/licenses/LICENSE-2.0
//
// Unless required by applicable law or agreed to in writing, software
// distributed under the License is distributed on an "AS IS" BASIS,
// WITHOUT WARRANTIES OR CONDITIONS OF ANY KIND, either express or implied.
// See the License for the specific language governing permissions and
// limitations under the License.

package clientv3

import (
	"math"
	"time"

	"google.golang.org/grpc"
)

var (
	// client-side handling retrying of request failures where data was not written to the wire or
	// where server indicates it did not process the data. gRPC default is default is "WaitForReady(false)"
	// but for etcd we default to "WaitForReady(true)" to minimize client request error responses due to
	// transient failures.
	defaultWaitForReady = grpc.WaitForReady(true)

	// client-side request send limit, gRPC default is math.MaxInt32
	// Make sure that "client-side send limit < server-side default send/recv limit"
	// Same value as "embed.DefaultMaxRequestBytes" plus gRPC overhead bytes
	defaultMaxCallSendMsgSize = grpc.MaxCallSendMsgSize(2 * 1024 * 1024)

	// client-side response receive limit, gRPC default is 4MB
	// Make sure that "client-side receive limit >= server-side default send/recv limit"
	// because range response can easily exceed request send limits
	// Default to math.MaxInt32; writes exceeding server-side send limit fails anyway
	defaultMaxCallRecvMsgSize = grpc.MaxCallRecvMsgSize(math.MaxInt32)

	// client-side non-streaming retry limit, only applied to requests where server responds with
	// a error code clearly indicating it was unable to process the request such as codes.Unavailable.
	// If set to 0, retry is disabled.
	defaultUnaryMaxRetries uint = 100

	// client-side streaming retry limit, only applied to requests where server responds with
	// a error code clearly indicating it was unable to process the request such as codes.Unavailable.
	// If set to 0, retry is disabled.
	defaultStreamMaxRetries = ^uint(0) // max uint

	// client-side retry backoff wait between requests.
	defaultBackoffWaitBetween = 25 * time.Millisecond

	// client-side retry backoff default jitter fraction.
	defaultBackoffJitterFraction = 0.10
)

// defaultCallOpts defines a list of default "gRPC.CallOption".
// Some options are exposed to "clientv3.Config".
// Defaults will be overridden by the settings in "clientv3.Config".
var defaultCallOpts = []grpc.CallOption{
	defaultWaitForReady,
	defaultMaxCallSendMsgSize,
	defaultMaxCallRecvMsgSize,
}

// MaxLeaseTTL is the maximum lease TTL value
const MaxLeaseTTL = 9000000000
