// Copyright 2016 The etcd Authors
//
// Licensed under the Apache License, Version 2.0 (the "License");
// you may not use this file except in compliance with the License.
// You may obtain a copy of the License at
//
//     http://www.apache.org/licenses/LICENSE-2.0
//
// Unless required by applicable law or agreed to in writing, software
// distributed under the License is distributed on an "AS IS" BASIS,
// WITHOUT WARRANTIES OR CONDITIONS OF ANY KIND, either express or implied.
// See the License for the specific language governing permissions and
// limitations under the License.

package clientv3

import (
	"context"
	"crypto/tls"
	"time"

	"go.uber.org/zap"
	"google.golang.org/grpc"
)

type Config struct {
	// Endpoints is a list of URLs.
	Endpoints []string `json:"endpoints"`

	// AutoSyncInterval is the interval to update endpoints with its latest members.
	// 0 disables auto-sync. By default auto-sync is disabled.
	AutoSyncInterval time.Duration `json:"auto-sync-interval"`

	// DialTimeout is the timeout for failing to establish a connection.
	DialTimeout time.Duration `json:"dial-timeout"`

	// DialKeepAliveTime is the time after which client pings the server to see if
	// transport is alive.
	DialKeepAliveTime time.Duration `json:"dial-keep-alive-time"`

	// DialKeepAliveTimeout is the time that the client waits for a response for the
	// keep-alive probe. If the response is not received in this time, the connection is closed.
	DialKeepAliveTimeout time.Duration `json:"dial-keep-alive-timeout"`

	// MaxCallSendMsgSize is the client-side request send limit in bytes.
	// If 0, it defaults to 2.0 MiB (2 * 1024 * 1024).
	// Make sure that "MaxCallSendMsgSize" < server-side default send/recv limit.
	// ("--max-request-bytes" flag to etcd or "embed.Config.MaxRequestBytes").
	MaxCallSendMsgSize int

	// MaxCallRecvMsgSize is the client-side response receive limit.
	// If 0, it defaults to "math.MaxInt32", because range response can
	// easily exceed request send limits.
	// Make sure that "MaxCallRecvMsgSize" >= server-side default send/recv limit.
	// ("--max-request-bytes" flag to etcd or "embed.Config.MaxRequestBytes").
	MaxCallRecvMsgSize int

	// TLS holds the client secure credentials, if any.
	TLS *tls.Config

	// Username is a user name for authentication.
	Username string `json:"username"`

	// Password is a password for authentication.
	Password string `json:"password"`

	// RejectOldCluster when set will refuse to create a client against an outdated cluster.
	RejectOldCluster bool `json:"reject-old-cluster"`

	// DialOptions is a list of dial options for the grpc client (e.g., for interceptors).
	// For example, pass "grpc.WithBlock()" to block until the underlying connection is up.
	// Without this, Dial returns immediately and connecting the server happens in background.
	DialOptions []grpc.DialOption

	// Context is the default client context; it can be used to cancel grpc dial out and
	// other operations that do not have an explicit context.
	Context context.Context

	// Logger sets client-side logger.
	// If nil, fallback to building LogConfig.
	Logger *zap.Logger

	// LogConfig configures client-side logger.
	// If nil, use the default logger.
	// TODO: configure gRPC logger
	LogConfig *zap.Config

	// PermitWithoutStream when set will allow client to send keepalive pings to server without any active streams(RPCs).
	PermitWithoutStream bool `json:"permit-without-stream"`

	// TODO: support custom balancer picker
}
