// Copyright 2019 The etcd Authors
//
// Licensed under the Apache License, Version 2.0 (the "License");
// you may not use this file except in compliance with the License.
// You may obtain a copy of the License at
//
//     http://www.apache.org/licenses/LICENSE-2.0
//
// Unless required by applicable law or agreed to in writing, software
// distributed under the License is distributed on an "AS IS" BASIS,
// WITHOUT WARRANTIES OR CONDITIONS OF ANY KIND, either express or implied.
// See the License for the specific language governing permissions and
// limitations under the License.

// Package credentials implements gRPC credential interface with etcd specific logic.
// e.g., client handshake with custom authority parameter
package credentials

import (
	"context"
	"crypto/tls"
	"net"
	"sync"

	"go.etcd.io/etcd/api/v3/v3rpc/rpctypes"
	grpccredentials "google.golang.org/grpc/credentials"
)

// Config defines gRPC credential configuration.
type Config struct {
	TLSConfig *tls.Config
}

// Bundle defines gRPC credential interface.
type Bundle interface {
	grpccredentials.Bundle
	UpdateAuthToken(token string)
}

// NewBundle constructs a new gRPC credential bundle.
func NewBundle(cfg Config) Bundle {
	return &bundle{
		tc: newTransportCredential(cfg.TLSConfig),
		rc: newPerRPCCredential(),
	}
}

// bundle implements "grpccredentials.Bundle" interface.
type bundle struct {
	tc *transportCredential
	rc *perRPCCredential
}

func (b *bundle) TransportCredentials() grpccredentials.TransportCredentials {
	return b.tc
}

func (b *bundle) PerRPCCredentials() grpccredentials.PerRPCCredentials {
	return b.rc
}

func (b *bundle) NewWithMode(mode string) (grpccredentials.Bundle, error) {
	// no-op
	return nil, nil
}

// transportCredential implements "grpccredentials.TransportCredentials" interface.
type transportCredential struct {
	gtc grpccredentials.TransportCredentials
}

func newTransportCredential(cfg *tls.Config) *transportCredential {
	return &transportCredential{
		gtc: grpccredentials.NewTLS(cfg),
	}
}

func (tc *transportCredential) ClientHandshake(ctx context.Context, authority string, rawConn net.Conn) (net.Conn, grpccredentials.AuthInfo, error) {
	return tc.gtc.ClientHandshake(ctx, authority, rawConn)
}

func (tc *transportCredential) ServerHandshake(rawConn net.Conn) (net.Conn, grpccredentials.AuthInfo, error) {
	return tc.gtc.ServerHandshake(rawConn)
}

func (tc *transportCredential) Info() grpccredentials.ProtocolInfo {
	return tc.gtc.Info()
}

func (tc *transportCredential) Clone() grpccredentials.TransportCredentials {
	return &transportCredential{
		gtc: tc.gtc.Clone(),
	}
}

func (tc *transportCredential) OverrideServerName(serverNameOverride string) error {
	return tc.gtc.OverrideServerName(serverNameOverride)
}

// perRPCCredential implements "grpccredentials.PerRPCCredentials" interface.
type perRPCCredential struct {
	authToken   string
	authTokenMu sync.RWMutex
}

func newPerRPCCredential() *perRPCCredential { return &perRPCCredential{} }

func (rc *perRPCCredential) RequireTransportSecurity() bool { return false }

func (rc *perRPCCredential) GetRequestMetadata(ctx context.Context, s ...string) (map[string]string, error) {
	rc.authTokenMu.RLock()
	authToken := rc.authToken
	rc.authTokenMu.RUnlock()
	if authToken == "" {
		return nil, nil
	}
	return map[string]string{rpctypes.TokenFieldNameGRPC: authToken}, nil
}

func (b *bundle) UpdateAuthToken(token string) {
	if b.rc == nil {
		return
	}
	b.rc.UpdateAuthToken(token)
}

func (rc *perRPCCredential) UpdateAuthToken(token string) {
	rc.authTokenMu.Lock()
	rc.authToken = token
	rc.authTokenMu.Unlock()
}
