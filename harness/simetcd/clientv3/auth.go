// Copyright 2016 The etcd Authors
//
// Licensed under the Apache License, Version 2.0 (the "License");
// you may not use this file except in compliance with the License.
// You may obtain a copy of the License at
//
//     http://www.apache.org/licenses/LICENSE-2.0
//
// Unless required by applicable law or agreed to in writing, software
// distributed under the License is distributed on an "AS IS" BASIS,
// WITHOUT WARRANTIES OR CONDITIONS OF ANY KIND, either express or implied.
// See the License for the specific language governing permissions and
// limitations under the License.

package clientv3

import (
	"context"
	"fmt"
	"strings"

	"go.etcd.io/etcd/api/v3/authpb"
	pb "go.etcd.io/etcd/api/v3/etcdserverpb"
	"google.golang.org/grpc"
)

type (
	AuthEnableResponse               pb.AuthEnableResponse
	AuthDisableResponse              pb.AuthDisableResponse
	AuthStatusResponse               pb.AuthStatusResponse
	AuthenticateResponse             pb.AuthenticateResponse
	AuthUserAddResponse              pb.AuthUserAddResponse
	AuthUserDeleteResponse           pb.AuthUserDeleteResponse
	AuthUserChangePasswordResponse   pb.AuthUserChangePasswordResponse
	AuthUserGrantRoleResponse        pb.AuthUserGrantRoleResponse
	AuthUserGetResponse              pb.AuthUserGetResponse
	AuthUserRevokeRoleResponse       pb.AuthUserRevokeRoleResponse
	AuthRoleAddResponse              pb.AuthRoleAddResponse
	AuthRoleGrantPermissionResponse  pb.AuthRoleGrantPermissionResponse
	AuthRoleGetResponse              pb.AuthRoleGetResponse
	AuthRoleRevokePermissionResponse pb.AuthRoleRevokePermissionResponse
	AuthRoleDeleteResponse           pb.AuthRoleDeleteResponse
	AuthUserListResponse             pb.AuthUserListResponse
	AuthRoleListResponse             pb.AuthRoleListResponse

	PermissionType authpb.Permission_Type
	Permission     authpb.Permission
)

const (
	PermRead      = authpb.READ
	PermWrite     = authpb.WRITE
	PermReadWrite = authpb.READWRITE
)

type UserAddOptions authpb.UserAddOptions

type Auth interface {
	// Authenticate login and get token
	Authenticate(ctx context.Context, name string, password string) (*AuthenticateResponse, error)

	// AuthEnable enables auth of an etcd cluster.
	AuthEnable(ctx context.Context) (*AuthEnableResponse, error)

	// AuthDisable disables auth of an etcd cluster.
	AuthDisable(ctx context.Context) (*AuthDisableResponse, error)

	// AuthStatus returns the status of auth of an etcd cluster.
	AuthStatus(ctx context.Context) (*AuthStatusResponse, error)

	// UserAdd adds a new user to an etcd cluster.
	UserAdd(ctx context.Context, name string, password string) (*AuthUserAddResponse, error)

	// UserAddWithOptions adds a new user to an etcd cluster with some options.
	UserAddWithOptions(ctx context.Context, name string, password string, opt *UserAddOptions) (*AuthUserAddResponse, error)

	// UserDelete deletes a user from an etcd cluster.
	UserDelete(ctx context.Context, name string) (*AuthUserDeleteResponse, error)

	// UserChangePassword changes a password of a user.
	UserChangePassword(ctx context.Context, name string, password string) (*AuthUserChangePasswordResponse, error)

	// UserGrantRole grants a role to a user.
	UserGrantRole(ctx context.Context, user string, role string) (*AuthUserGrantRoleResponse, error)

	// UserGet gets a detailed information of a user.
	UserGet(ctx context.Context, name string) (*AuthUserGetResponse, error)

	// UserList gets a list of all users.
	UserList(ctx context.Context) (*AuthUserListResponse, error)

	// UserRevokeRole revokes a role of a user.
	UserRevokeRole(ctx context.Context, name string, role string) (*AuthUserRevokeRoleResponse, error)

	// RoleAdd adds a new role to an etcd cluster.
	RoleAdd(ctx context.Context, name string) (*AuthRoleAddResponse, error)

	// RoleGrantPermission grants a permission to a role.
	RoleGrantPermission(ctx context.Context, name string, key, rangeEnd string, permType PermissionType) (*AuthRoleGrantPermissionResponse, error)

	// RoleGet gets a detailed information of a role.
	RoleGet(ctx context.Context, role string) (*AuthRoleGetResponse, error)

	// RoleList gets a list of all roles.
	RoleList(ctx context.Context) (*AuthRoleListResponse, error)

	// RoleRevokePermission revokes a permission from a role.
	RoleRevokePermission(ctx context.Context, role string, key, rangeEnd string) (*AuthRoleRevokePermissionResponse, error)

	// RoleDelete deletes a role.
	RoleDelete(ctx context.Context, role string) (*AuthRoleDeleteResponse, error)
}

type authClient struct {
	remote   pb.AuthClient
	callOpts []grpc.CallOption
}

func NewAuth(c *Client) Auth {
	api := &authClient{remote: RetryAuthClient(c)}
	if c != nil {
		api.callOpts = c.callOpts
	}
	return api
}

func NewAuthFromAuthClient(remote pb.AuthClient, c *Client) Auth {
	api := &authClient{remote: remote}
	if c != nil {
		api.callOpts = c.callOpts
	}
	return api
}

func (auth *authClient) Authenticate(ctx context.Context, name string, password string) (*AuthenticateResponse, error) {
	resp, err := auth.remote.Authenticate(ctx, &pb.AuthenticateRequest{Name: name, Password: password}, auth.callOpts...)
	return (*AuthenticateResponse)(resp), toErr(ctx, err)
}

func (auth *authClient) AuthEnable(ctx context.Context) (*AuthEnableResponse, error) {
	resp, err := auth.remote.AuthEnable(ctx, &pb.AuthEnableRequest{}, auth.callOpts...)
	return (*AuthEnableResponse)(resp), toErr(ctx, err)
}

func (auth *authClient) AuthDisable(ctx context.Context) (*AuthDisableResponse, error) {
	resp, err := auth.remote.AuthDisable(ctx, &pb.AuthDisableRequest{}, auth.callOpts...)
	return (*AuthDisableResponse)(resp), toErr(ctx, err)
}

func (auth *authClient) AuthStatus(ctx context.Context) (*AuthStatusResponse, error) {
	resp, err := auth.remote.AuthStatus(ctx, &pb.AuthStatusRequest{}, auth.callOpts...)
	return (*AuthStatusResponse)(resp), toErr(ctx, err)
}

func (auth *authClient) UserAdd(ctx context.Context, name string, password string) (*AuthUserAddResponse, error) {
	resp, err := auth.remote.UserAdd(ctx, &pb.AuthUserAddRequest{Name: name, Password: password, Options: &authpb.UserAddOptions{NoPassword: false}}, auth.callOpts...)
	return (*AuthUserAddResponse)(resp), toErr(ctx, err)
}

func (auth *authClient) UserAddWithOptions(ctx context.Context, name string, password string, options *UserAddOptions) (*AuthUserAddResponse, error) {
	resp, err := auth.remote.UserAdd(ctx, &pb.AuthUserAddRequest{Name: name, Password: password, Options: (*authpb.UserAddOptions)(options)}, auth.callOpts...)
	return (*AuthUserAddResponse)(resp), toErr(ctx, err)
}

func (auth *authClient) UserDelete(ctx context.Context, name string) (*AuthUserDeleteResponse, error) {
	resp, err := auth.remote.UserDelete(ctx, &pb.AuthUserDeleteRequest{Name: name}, auth.callOpts...)
	return (*AuthUserDeleteResponse)(resp), toErr(ctx, err)
}

func (auth *authClient) UserChangePassword(ctx context.Context, name string, password string) (*AuthUserChangePasswordResponse, error) {
	resp, err := auth.remote.UserChangePassword(ctx, &pb.AuthUserChangePasswordRequest{Name: name, Password: password}, auth.callOpts...)
	return (*AuthUserChangePasswordResponse)(resp), toErr(ctx, err)
}

func (auth *authClient) UserGrantRole(ctx context.Context, user string, role string) (*AuthUserGrantRoleResponse, error) {
	resp, err := auth.remote.UserGrantRole(ctx, &pb.AuthUserGrantRoleRequest{User: user, Role: role}, auth.callOpts...)
	return (*AuthUserGrantRoleResponse)(resp), toErr(ctx, err)
}

func (auth *authClient) UserGet(ctx context.Context, name string) (*AuthUserGetResponse, error) {
	resp, err := auth.remote.UserGet(ctx, &pb.AuthUserGetRequest{Name: name}, auth.callOpts...)
	return (*AuthUserGetResponse)(resp), toErr(ctx, err)
}

func (auth *authClient) UserList(ctx context.Context) (*AuthUserListResponse, error) {
	resp, err := auth.remote.UserList(ctx, &pb.AuthUserListRequest{}, auth.callOpts...)
	return (*AuthUserListResponse)(resp), toErr(ctx, err)
}

func (auth *authClient) UserRevokeRole(ctx context.Context, name string, role string) (*AuthUserRevokeRoleResponse, error) {
	resp, err := auth.remote.UserRevokeRole(ctx, &pb.AuthUserRevokeRoleRequest{Name: name, Role: role}, auth.callOpts...)
	return (*AuthUserRevokeRoleResponse)(resp), toErr(ctx, err)
}

func (auth *authClient) RoleAdd(ctx context.Context, name string) (*AuthRoleAddResponse, error) {
	resp, err := auth.remote.RoleAdd(ctx, &pb.AuthRoleAddRequest{Name: name}, auth.callOpts...)
	return (*AuthRoleAddResponse)(resp), toErr(ctx, err)
}

func (auth *authClient) RoleGrantPermission(ctx context.Context, name string, key, rangeEnd string, permType PermissionType) (*AuthRoleGrantPermissionResponse, error) {
	perm := &authpb.Permission{
		Key:      []byte(key),
		RangeEnd: []byte(rangeEnd),
		PermType: authpb.Permission_Type(permType),
	}
	resp, err := auth.remote.RoleGrantPermission(ctx, &pb.AuthRoleGrantPermissionRequest{Name: name, Perm: perm}, auth.callOpts...)
	return (*AuthRoleGrantPermissionResponse)(resp), toErr(ctx, err)
}

func (auth *authClient) RoleGet(ctx context.Context, role string) (*AuthRoleGetResponse, error) {
	resp, err := auth.remote.RoleGet(ctx, &pb.AuthRoleGetRequest{Role: role}, auth.callOpts...)
	return (*AuthRoleGetResponse)(resp), toErr(ctx, err)
}

func (auth *authClient) RoleList(ctx context.Context) (*AuthRoleListResponse, error) {
	resp, err := auth.remote.RoleList(ctx, &pb.AuthRoleListRequest{}, auth.callOpts...)
	return (*AuthRoleListResponse)(resp), toErr(ctx, err)
}

func (auth *authClient) RoleRevokePermission(ctx context.Context, role string, key, rangeEnd string) (*AuthRoleRevokePermissionResponse, error) {
	resp, err := auth.remote.RoleRevokePermission(ctx, &pb.AuthRoleRevokePermissionRequest{Role: role, Key: []byte(key), RangeEnd: []byte(rangeEnd)}, auth.callOpts...)
	return (*AuthRoleRevokePermissionResponse)(resp), toErr(ctx, err)
}

func (auth *authClient) RoleDelete(ctx context.Context, role string) (*AuthRoleDeleteResponse, error) {
	resp, err := auth.remote.RoleDelete(ctx, &pb.AuthRoleDeleteRequest{Role: role}, auth.callOpts...)
	return (*AuthRoleDeleteResponse)(resp), toErr(ctx, err)
}

func StrToPermissionType(s string) (PermissionType, error) {
	val, ok := authpb.Permission_Type_value[strings.ToUpper(s)]
	if ok {
		return PermissionType(val), nil
	}
	return PermissionType(-1), fmt.Errorf("invalid permission type: %s", s)
}
