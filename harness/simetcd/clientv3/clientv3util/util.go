// Copyright 2017 The etcd Authors
//
// Licensed under the Apache License, Version 2.0 (the "License");
// you may not use this file except in compliance with the License.
// You may obtain a copy of the License at
//
//     http://www.apache.org/licenses/LICENSE-2.0
//
// Unless required by applicable law or agreed to in writing, software
// distributed under the License is distributed on an "AS IS" BASIS,
// WITHOUT WARRANTIES OR CONDITIONS OF ANY KIND, either express or implied.
// See the License for the specific language governing permissions and
// limitations under the License.

// Package clientv3util contains utility functions derived from clientv3.
package clientv3util

import (
	"go.etcd.io/etcd/client/v3"
)

// KeyExists returns a comparison operation that evaluates to true iff the given
// key exists. It does this by checking if the key `Version` is greater than 0.
// It is a useful guard in transaction delete operations.
func KeyExists(key string) clientv3.Cmp {
	return clientv3.Compare(clientv3.Version(key), ">", 0)
}

// KeyMissing returns a comparison operation that evaluates to true iff the
// given key does not exist.
func KeyMissing(key string) clientv3.Cmp {
	return clientv3.Compare(clientv3.Version(key), "=", 0)
}
