// Copyright 2016 The etcd Authors
//
// Licensed under the Apache License, Version 2.0 (the "License");
// you may not use this file except in compliance with the License.
// You may obtain a copy of the License at
//
//     http://www.apache.org/licenses/LICENSE-2.0
//
// Unless required by applicable law or agreed to in writing, software
// distributed under the License is distributed on an "AS IS" BASIS,
// WITHOUT WARRANTIES OR CONDITIONS OF ANY KIND, either express or implied.
// See the License for the specific language governing permissions and
// limitations under the License.

package clientv3

import (
	pb "go.etcd.io/etcd/api/v3/etcdserverpb"
)

// CompactOp represents a compact operation.
type CompactOp struct {
	revision int64
	physical bool
}

// CompactOption configures compact operation.
type CompactOption func(*CompactOp)

func (op *CompactOp) applyCompactOpts(opts []CompactOption) {
	for _, opt := range opts {
		opt(op)
	}
}

// OpCompact wraps slice CompactOption to create a CompactOp.
func OpCompact(rev int64, opts ...CompactOption) CompactOp {
	ret := CompactOp{revision: rev}
	ret.applyCompactOpts(opts)
	return ret
}

func (op CompactOp) toRequest() *pb.CompactionRequest {
	return &pb.CompactionRequest{Revision: op.revision, Physical: op.physical}
}

// WithCompactPhysical makes Compact wait until all compacted entries are
// removed from the etcd server's storage.
func WithCompactPhysical() CompactOption {
	return func(op *CompactOp) { op.physical = true }
}
