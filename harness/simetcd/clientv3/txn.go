// Copyright 2016 The etcd Authors
//
// Licensed under the Apache License, Version 2.0 (the "License");
// you may not use this file except in compliance with the License.
// You may obtain a copy of the License at
//
//     http://www.apache.org/licenses/LICENSE-2.0
//
// Unless required by applicable law or agreed to in writing, software
// distributed under the License is distributed on an "AS IS" BASIS,
// WITHOUT WARRANTIES OR CONDITIONS OF ANY KIND, either express or implied.
// See the License for the specific language governing permissions and
// limitations under the License.

package clientv3

import (
	"context"
	"sync"

	pb "go.etcd.io/etcd/api/v3/etcdserverpb"

	"google.golang.org/grpc"
)

// Txn is the interface that wraps mini-transactions.
//
//	 Txn(context.TODO()).If(
//	  Compare(Value(k1), ">", v1),
//	  Compare(Version(k1), "=", 2)
//	 ).Then(
//	  OpPut(k2,v2), OpPut(k3,v3)
//	 ).Else(
//	  OpPut(k4,v4), OpPut(k5,v5)
//	 ).Commit()
//
type Txn interface {
	// If takes a list of comparison. If all comparisons passed in succeed,
	// the operations passed into Then() will be executed. Or the operations
	// passed into Else() will be executed.
	If(cs ...Cmp) Txn

	// Then takes a list of operations. The Ops list will be executed, if the
	// comparisons passed in If() succeed.
	Then(ops ...Op) Txn

	// Else takes a list of operations. The Ops list will be executed, if the
	// comparisons passed in If() fail.
	Else(ops ...Op) Txn

	// Commit tries to commit the transaction.
	Commit() (*TxnResponse, error)
}

type txn struct {
	kv  *kv
	ctx context.Context

	mu    sync.Mutex
	cif   bool
	cthen bool
	celse bool

	isWrite bool

	cmps []*pb.Compare

	sus []*pb.RequestOp
	fas []*pb.RequestOp

	callOpts []grpc.CallOption
}

func (txn *txn) If(cs ...Cmp) Txn {
	txn.mu.Lock()
	defer txn.mu.Unlock()

	if txn.cif {
		panic("cannot call If twice!")
	}

	if txn.cthen {
		panic("cannot call If after Then!")
	}

	if txn.celse {
		panic("cannot call If after Else!")
	}

	txn.cif = true

	for i := range cs {
		txn.cmps = append(txn.cmps, (*pb.Compare)(&cs[i]))
	}

	return txn
}

func (txn *txn) Then(ops ...Op) Txn {
	txn.mu.Lock()
	defer txn.mu.Unlock()

	if txn.cthen {
		panic("cannot call Then twice!")
	}
	if txn.celse {
		panic("cannot call Then after Else!")
	}

	txn.cthen = true

	for _, op := range ops {
		txn.isWrite = txn.isWrite || op.isWrite()
		txn.sus = append(txn.sus, op.toRequestOp())
	}

	return txn
}

func (txn *txn) Else(ops ...Op) Txn {
	txn.mu.Lock()
	defer txn.mu.Unlock()

	if txn.celse {
		panic("cannot call Else twice!")
	}

	txn.celse = true

	for _, op := range ops {
		txn.isWrite = txn.isWrite || op.isWrite()
		txn.fas = append(txn.fas, op.toRequestOp())
	}

	return txn
}

func (txn *txn) Commit() (*TxnResponse, error) {
	txn.mu.Lock()
	defer txn.mu.Unlock()

	r := &pb.TxnRequest{Compare: txn.cmps, Success: txn.sus, Failure: txn.fas}

	var resp *pb.TxnResponse
	var err error
	resp, err = txn.kv.remote.Txn(txn.ctx, r, txn.callOpts...)
	if err != nil {
		return nil, toErr(txn.ctx, err)
	}
	return (*TxnResponse)(resp), nil
}
