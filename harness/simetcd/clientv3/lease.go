// Copyright 2016 The etcd Authors
//
// Licensed under the Apache License, Version 2.0 (the "License");
// you may not use this file except in compliance with the License.
// You may obtain a copy of the License at
//
//     http://www.apache.org/licenses/LICENSE-2.0
//
// Unless required by applicable law or agreed to in writing, software
// distributed under the License is distributed on an "AS IS" BASIS,
// WITHOUT WARRANTIES OR CONDITIONS OF ANY KIND, either express or implied.
// See the License for the specific language governing permissions and
// limitations under the License.

package clientv3

import (
	"context"
	"sync"
	"time"

	pb "go.etcd.io/etcd/api/v3/etcdserverpb"
	"go.etcd.io/etcd/api/v3/v3rpc/rpctypes"

	"go.uber.org/zap"
	"google.golang.org/grpc"
	"google.golang.org/grpc/metadata"
)

type (
	LeaseRevokeResponse pb.LeaseRevokeResponse
	LeaseID             int64
)

// LeaseGrantResponse wraps the protobuf message LeaseGrantResponse.
type LeaseGrantResponse struct {
	*pb.ResponseHeader
	ID    LeaseID
	TTL   int64
	Error string
}

// LeaseKeepAliveResponse wraps the protobuf message LeaseKeepAliveResponse.
type LeaseKeepAliveResponse struct {
	*pb.ResponseHeader
	ID  LeaseID
	TTL int64
}

// LeaseTimeToLiveResponse wraps the protobuf message LeaseTimeToLiveResponse.
type LeaseTimeToLiveResponse struct {
	*pb.ResponseHeader
	ID LeaseID `json:"id"`

	// TTL is the remaining TTL in seconds for the lease; the lease will expire in under TTL+1 seconds. Expired lease will return -1.
	TTL int64 `json:"ttl"`

	// GrantedTTL is the initial granted time in seconds upon lease creation/renewal.
	GrantedTTL int64 `json:"granted-ttl"`

	// Keys is the list of keys attached to this lease.
	Keys [][]byte `json:"keys"`
}

// LeaseStatus represents a lease status.
type LeaseStatus struct {
	ID LeaseID `json:"id"`
	// TODO: TTL int64
}

// LeaseLeasesResponse wraps the protobuf message LeaseLeasesResponse.
type LeaseLeasesResponse struct {
	*pb.ResponseHeader
	Leases []LeaseStatus `json:"leases"`
}

const (
	// defaultTTL is the assumed lease TTL used for the first keepalive
	// deadline before the actual TTL is known to the client.
	defaultTTL = 5 * time.Second
	// NoLease is a lease ID for the absence of a lease.
	NoLease LeaseID = 0

	// retryConnWait is how long to wait before retrying request due to an error
	retryConnWait = 500 * time.Millisecond
)

// LeaseResponseChSize is the size of buffer to store unsent lease responses.
// WARNING: DO NOT UPDATE.
// Only for testing purposes.
var LeaseResponseChSize = 16

// ErrKeepAliveHalted is returned if client keep alive loop halts with an unexpected error.
//
// This usually means that automatic lease renewal via KeepAlive is broken, but KeepAliveOnce will still work as expected.
type ErrKeepAliveHalted struct {
	Reason error
}

func (e ErrKeepAliveHalted) Error() string {
	s := "etcdclient: leases keep alive halted"
	if e.Reason != nil {
		s += ": " + e.Reason.Error()
	}
	return s
}

type Lease interface {
	// Grant creates a new lease.
	Grant(ctx context.Context, ttl int64) (*LeaseGrantResponse, error)

	// Revoke revokes the given lease.
	Revoke(ctx context.Context, id LeaseID) (*LeaseRevokeResponse, error)

	// TimeToLive retrieves the lease information of the given lease ID.
	TimeToLive(ctx context.Context, id LeaseID, opts ...LeaseOption) (*LeaseTimeToLiveResponse, error)

	// Leases retrieves all leases.
	Leases(ctx context.Context) (*LeaseLeasesResponse, error)

	// KeepAlive attempts to keep the given lease alive forever. If the keepalive responses posted
	// to the channel are not consumed promptly the channel may become full. When full, the lease
	// client will continue sending keep alive requests to the etcd server, but will drop responses
	// until there is capacity on the channel to send more responses.
	//
	// If client keep alive loop halts with an unexpected error (e.g. "etcdserver: no leader") or
	// canceled by the caller (e.g. context.Canceled), KeepAlive returns a ErrKeepAliveHalted error
	// containing the error reason.
	//
	// The returned "LeaseKeepAliveResponse" channel closes if underlying keep
	// alive stream is interrupted in some way the client cannot handle itself;
	// given context "ctx" is canceled or timed out.
	//
	// TODO(v4.0): post errors to last keep alive message before closing
	// (see https://github.com/etcd-io/etcd/pull/7866)
	KeepAlive(ctx context.Context, id LeaseID) (<-chan *LeaseKeepAliveResponse, error)

	// KeepAliveOnce renews the lease once. The response corresponds to the
	// first message from calling KeepAlive. If the response has a recoverable
	// error, KeepAliveOnce will retry the RPC with a new keep alive message.
	//
	// In most of the cases, Keepalive should be used instead of KeepAliveOnce.
	KeepAliveOnce(ctx context.Context, id LeaseID) (*LeaseKeepAliveResponse, error)

	// Close releases all resources Lease keeps for efficient communication
	// with the etcd server.
	Close() error
}

type lessor struct {
	mu sync.Mutex // guards all fields

	// donec is closed and loopErr is set when recvKeepAliveLoop stops
	donec   chan struct{}
	loopErr error

	remote pb.LeaseClient

	stream       pb.Lease_LeaseKeepAliveClient
	streamCancel context.CancelFunc

	stopCtx    context.Context
	stopCancel context.CancelFunc

	keepAlives map[LeaseID]*keepAlive

	// firstKeepAliveTimeout is the timeout for the first keepalive request
	// before the actual TTL is known to the lease client
	firstKeepAliveTimeout time.Duration

	// firstKeepAliveOnce ensures stream starts after first KeepAlive call.
	firstKeepAliveOnce sync.Once

	callOpts []grpc.CallOption

	lg *zap.Logger
}

// keepAlive multiplexes a keepalive for a lease over multiple channels
type keepAlive struct {
	chs  []chan<- *LeaseKeepAliveResponse
	ctxs []context.Context
	// deadline is the time the keep alive channels close if no response
	deadline time.Time
	// nextKeepAlive is when to send the next keep alive message
	nextKeepAlive time.Time
	// donec is closed on lease revoke, expiration, or cancel.
	donec chan struct{}
}

func NewLease(c *Client) Lease {
	return NewLeaseFromLeaseClient(RetryLeaseClient(c), c, c.cfg.DialTimeout+time.Second)
}

func NewLeaseFromLeaseClient(remote pb.LeaseClient, c *Client, keepAliveTimeout time.Duration) Lease {
	l := &lessor{
		donec:                 make(chan struct{}),
		keepAlives:            make(map[LeaseID]*keepAlive),
		remote:                remote,
		firstKeepAliveTimeout: keepAliveTimeout,
		lg:                    c.lg,
	}
	if l.firstKeepAliveTimeout == time.Second {
		l.firstKeepAliveTimeout = defaultTTL
	}
	if c != nil {
		l.callOpts = c.callOpts
	}
	reqLeaderCtx := WithRequireLeader(context.Background())
	l.stopCtx, l.stopCancel = context.WithCancel(reqLeaderCtx)
	return l
}

func (l *lessor) Grant(ctx context.Context, ttl int64) (*LeaseGrantResponse, error) {
	r := &pb.LeaseGrantRequest{TTL: ttl}
	resp, err := l.remote.LeaseGrant(ctx, r, l.callOpts...)
	if err == nil {
		gresp := &LeaseGrantResponse{
			ResponseHeader: resp.GetHeader(),
			ID:             LeaseID(resp.ID),
			TTL:            resp.TTL,
			Error:          resp.Error,
		}
		return gresp, nil
	}
	return nil, toErr(ctx, err)
}

func (l *lessor) Revoke(ctx context.Context, id LeaseID) (*LeaseRevokeResponse, error) {
	r := &pb.LeaseRevokeRequest{ID: int64(id)}
	resp, err := l.remote.LeaseRevoke(ctx, r, l.callOpts...)
	if err == nil {
		return (*LeaseRevokeResponse)(resp), nil
	}
	return nil, toErr(ctx, err)
}

func (l *lessor) TimeToLive(ctx context.Context, id LeaseID, opts ...LeaseOption) (*LeaseTimeToLiveResponse, error) {
	r := toLeaseTimeToLiveRequest(id, opts...)
	resp, err := l.remote.LeaseTimeToLive(ctx, r, l.callOpts...)
	if err != nil {
		return nil, toErr(ctx, err)
	}
	gresp := &LeaseTimeToLiveResponse{
		ResponseHeader: resp.GetHeader(),
		ID:             LeaseID(resp.ID),
		TTL:            resp.TTL,
		GrantedTTL:     resp.GrantedTTL,
		Keys:           resp.Keys,
	}
	return gresp, nil
}

func (l *lessor) Leases(ctx context.Context) (*LeaseLeasesResponse, error) {
	resp, err := l.remote.LeaseLeases(ctx, &pb.LeaseLeasesRequest{}, l.callOpts...)
	if err == nil {
		leases := make([]LeaseStatus, len(resp.Leases))
		for i := range resp.Leases {
			leases[i] = LeaseStatus{ID: LeaseID(resp.Leases[i].ID)}
		}
		return &LeaseLeasesResponse{ResponseHeader: resp.GetHeader(), Leases: leases}, nil
	}
	return nil, toErr(ctx, err)
}

func (l *lessor) KeepAlive(ctx context.Context, id LeaseID) (<-chan *LeaseKeepAliveResponse, error) {
	ch := make(chan *LeaseKeepAliveResponse, LeaseResponseChSize)

	l.mu.Lock()
	// ensure that recvKeepAliveLoop is still running
	select {
	case <-l.donec:
		err := l.loopErr
		l.mu.Unlock()
		close(ch)
		return ch, ErrKeepAliveHalted{Reason: err}
	default:
	}
	ka, ok := l.keepAlives[id]
	if !ok {
		// create fresh keep alive
		ka = &keepAlive{
			chs:           []chan<- *LeaseKeepAliveResponse{ch},
			ctxs:          []context.Context{ctx},
			deadline:      time.Now().Add(l.firstKeepAliveTimeout),
			nextKeepAlive: time.Now(),
			donec:         make(chan struct{}),
		}
		l.keepAlives[id] = ka
	} else {
		// add channel and context to existing keep alive
		ka.ctxs = append(ka.ctxs, ctx)
		ka.chs = append(ka.chs, ch)
	}
	l.mu.Unlock()

	go l.keepAliveCtxCloser(ctx, id, ka.donec)
	l.firstKeepAliveOnce.Do(func() {
		go l.recvKeepAliveLoop()
		go l.deadlineLoop()
	})

	return ch, nil
}

func (l *lessor) KeepAliveOnce(ctx context.Context, id LeaseID) (*LeaseKeepAliveResponse, error) {
	for {
		resp, err := l.keepAliveOnce(ctx, id)
		if err == nil {
			if resp.TTL <= 0 {
				err = rpctypes.ErrLeaseNotFound
			}
			return resp, err
		}
		if isHaltErr(ctx, err) {
			return nil, toErr(ctx, err)
		}
	}
}

func (l *lessor) Close() error {
	l.stopCancel()
	// close for synchronous teardown if stream goroutines never launched
	l.firstKeepAliveOnce.Do(func() { close(l.donec) })
	<-l.donec
	return nil
}

func (l *lessor) keepAliveCtxCloser(ctx context.Context, id LeaseID, donec <-chan struct{}) {
	select {
	case <-donec:
		return
	case <-l.donec:
		return
	case <-ctx.Done():
	}

	l.mu.Lock()
	defer l.mu.Unlock()

	ka, ok := l.keepAlives[id]
	if !ok {
		return
	}

	// close channel and remove context if still associated with keep alive
	for i, c := range ka.ctxs {
		if c == ctx {
			close(ka.chs[i])
			ka.ctxs = append(ka.ctxs[:i], ka.ctxs[i+1:]...)
			ka.chs = append(ka.chs[:i], ka.chs[i+1:]...)
			break
		}
	}
	// remove if no one more listeners
	if len(ka.chs) == 0 {
		delete(l.keepAlives, id)
	}
}

// closeRequireLeader scans keepAlives for ctxs that have require leader
// and closes the associated channels.
func (l *lessor) closeRequireLeader() {
	l.mu.Lock()
	defer l.mu.Unlock()
	for _, ka := range l.keepAlives {
		reqIdxs := 0
		// find all required leader channels, close, mark as nil
		for i, ctx := range ka.ctxs {
			md, ok := metadata.FromOutgoingContext(ctx)
			if !ok {
				continue
			}
			ks := md[rpctypes.MetadataRequireLeaderKey]
			if len(ks) < 1 || ks[0] != rpctypes.MetadataHasLeader {
				continue
			}
			close(ka.chs[i])
			ka.chs[i] = nil
			reqIdxs++
		}
		if reqIdxs == 0 {
			continue
		}
		// remove all channels that required a leader from keepalive
		newChs := make([]chan<- *LeaseKeepAliveResponse, len(ka.chs)-reqIdxs)
		newCtxs := make([]context.Context, len(newChs))
		newIdx := 0
		for i := range ka.chs {
			if ka.chs[i] == nil {
				continue
			}
			newChs[newIdx], newCtxs[newIdx] = ka.chs[i], ka.ctxs[newIdx]
			newIdx++
		}
		ka.chs, ka.ctxs = newChs, newCtxs
	}
}

func (l *lessor) keepAliveOnce(ctx context.Context, id LeaseID) (*LeaseKeepAliveResponse, error) {
	cctx, cancel := context.WithCancel(ctx)
	defer cancel()

	stream, err := l.remote.LeaseKeepAlive(cctx, l.callOpts...)
	if err != nil {
		return nil, toErr(ctx, err)
	}

	err = stream.Send(&pb.LeaseKeepAliveRequest{ID: int64(id)})
	if err != nil {
		return nil, toErr(ctx, err)
	}

	resp, rerr := stream.Recv()
	if rerr != nil {
		return nil, toErr(ctx, rerr)
	}

	karesp := &LeaseKeepAliveResponse{
		ResponseHeader: resp.GetHeader(),
		ID:             LeaseID(resp.ID),
		TTL:            resp.TTL,
	}
	return karesp, nil
}

func (l *lessor) recvKeepAliveLoop() (gerr error) {
	defer func() {
		l.mu.Lock()
		close(l.donec)
		l.loopErr = gerr
		for _, ka := range l.keepAlives {
			ka.close()
		}
		l.keepAlives = make(map[LeaseID]*keepAlive)
		l.mu.Unlock()
	}()

	for {
		stream, err := l.resetRecv()
		if err != nil {
			if canceledByCaller(l.stopCtx, err) {
				return err
			}
		} else {
			for {
				resp, err := stream.Recv()
				if err != nil {
					if canceledByCaller(l.stopCtx, err) {
						return err
					}

					if toErr(l.stopCtx, err) == rpctypes.ErrNoLeader {
						l.closeRequireLeader()
					}
					break
				}

				l.recvKeepAlive(resp)
			}
		}

		select {
		case <-time.After(retryConnWait):
		case <-l.stopCtx.Done():
			return l.stopCtx.Err()
		}
	}
}

// resetRecv opens a new lease stream and starts sending keep alive requests.
func (l *lessor) resetRecv() (pb.Lease_LeaseKeepAliveClient, error) {
	sctx, cancel := context.WithCancel(l.stopCtx)
	stream, err := l.remote.LeaseKeepAlive(sctx, append(l.callOpts, withMax(0))...)
	if err != nil {
		cancel()
		return nil, err
	}

	l.mu.Lock()
	defer l.mu.Unlock()
	if l.stream != nil && l.streamCancel != nil {
		l.streamCancel()
	}

	l.streamCancel = cancel
	l.stream = stream

	go l.sendKeepAliveLoop(stream)
	return stream, nil
}

// recvKeepAlive updates a lease based on its LeaseKeepAliveResponse
func (l *lessor) recvKeepAlive(resp *pb.LeaseKeepAliveResponse) {
	karesp := &LeaseKeepAliveResponse{
		ResponseHeader: resp.GetHeader(),
		ID:             LeaseID(resp.ID),
		TTL:            resp.TTL,
	}

	l.mu.Lock()
	defer l.mu.Unlock()

	ka, ok := l.keepAlives[karesp.ID]
	if !ok {
		return
	}

	if karesp.TTL <= 0 {
		// lease expired; close all keep alive channels
		delete(l.keepAlives, karesp.ID)
		ka.close()
		return
	}

	// send update to all channels
	nextKeepAlive := time.Now().Add((time.Duration(karesp.TTL) * time.Second) / 3.0)
	ka.deadline = time.Now().Add(time.Duration(karesp.TTL) * time.Second)
	for _, ch := range ka.chs {
		select {
		case ch <- karesp:
		default:
			if l.lg != nil {
				l.lg.Warn("lease keepalive response queue is full; dropping response send",
					zap.Int("queue-size", len(ch)),
					zap.Int("queue-capacity", cap(ch)),
				)
			}
		}
		// still advance in order to rate-limit keep-alive sends
		ka.nextKeepAlive = nextKeepAlive
	}
}

// deadlineLoop reaps any keep alive channels that have not received a response
// within the lease TTL
func (l *lessor) deadlineLoop() {
	for {
		select {
		case <-time.After(time.Second):
		case <-l.donec:
			return
		}
		now := time.Now()
		l.mu.Lock()
		for id, ka := range l.keepAlives {
			if ka.deadline.Before(now) {
				// waited too long for response; lease may be expired
				ka.close()
				delete(l.keepAlives, id)
			}
		}
		l.mu.Unlock()
	}
}

// sendKeepAliveLoop sends keep alive requests for the lifetime of the given stream.
func (l *lessor) sendKeepAliveLoop(stream pb.Lease_LeaseKeepAliveClient) {
	for {
		var tosend []LeaseID

		now := time.Now()
		l.mu.Lock()
		for id, ka := range l.keepAlives {
			if ka.nextKeepAlive.Before(now) {
				tosend = append(tosend, id)
			}
		}
		l.mu.Unlock()

		for _, id := range tosend {
			r := &pb.LeaseKeepAliveRequest{ID: int64(id)}
			if err := stream.Send(r); err != nil {
				// TODO do something with this error?
				return
			}
		}

		select {
		case <-time.After(retryConnWait):
		case <-stream.Context().Done():
			return
		case <-l.donec:
			return
		case <-l.stopCtx.Done():
			return
		}
	}
}

func (ka *keepAlive) close() {
	close(ka.donec)
	for _, ch := range ka.chs {
		close(ch)
	}
}
