// Copyright 2017 The etcd Authors
//
// Licensed under the Apache License, Version 2.0 (the "License");
// you may not use this file except in compliance with the License.
// You may obtain a copy of the License at
//
//     http://www.apache.org/licenses/LICENSE-2.0
//
// Unless required by applicable law or agreed to in writing, software
// distributed under the License is distributed on an "AS IS" BASIS,
// WITHOUT WARRANTIES OR CONDITIONS OF ANY KIND, either express or implied.
// See the License for the specific language governing permissions and
// limitations under the License.

package ordering

import (
	"errors"
	"sync/atomic"

	"go.etcd.io/etcd/client/v3"
)

type OrderViolationFunc func(op clientv3.Op, resp clientv3.OpResponse, prevRev int64) error

var ErrNoGreaterRev = errors.New("etcdclient: no cluster members have a revision higher than the previously received revision")

func NewOrderViolationSwitchEndpointClosure(c *clientv3.Client) OrderViolationFunc {
	violationCount := int32(0)
	return func(_ clientv3.Op, _ clientv3.OpResponse, _ int64) error {
		// Each request is assigned by round-robin load-balancer's picker to a different
		// endpoints. If we cycled them 5 times (even with some level of concurrency),
		// with high probability no endpoint points on a member with fresh data.
		// TODO: Ideally we should track members (resp.opp.Header) that returned
		// stale result and explicitly temporarily disable them in 'picker'.
		if atomic.LoadInt32(&violationCount) > int32(5*len(c.Endpoints())) {
			return ErrNoGreaterRev
		}
		atomic.AddInt32(&violationCount, 1)
		return nil
	}
}
