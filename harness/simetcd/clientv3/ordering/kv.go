// Copyright 2017 The etcd Authors
//
// Licensed under the Apache License, Version 2.0 (the "License");
// you may not use this file except in compliance with the License.
// You may obtain a copy of the License at
//
//     http://www.apache.org/licenses/LICENSE-2.0
//
// Unless required by applicable law or agreed to in writing, software
// distributed under the License is distributed on an "AS IS" BASIS,
// WITHOUT WARRANTIES OR CONDITIONS OF ANY KIND, either express or implied.
// See the License for the specific language governing permissions and
// limitations under the License.

package ordering

import (
	"context"
	"sync"

	"go.etcd.io/etcd/client/v3"
)

// kvOrdering ensures that serialized requests do not return
// get with revisions less than the previous
// returned revision.
type kvOrdering struct {
	clientv3.KV
	orderViolationFunc OrderViolationFunc
	prevRev            int64
	revMu              sync.RWMutex
}

func NewKV(kv clientv3.KV, orderViolationFunc OrderViolationFunc) *kvOrdering {
	return &kvOrdering{kv, orderViolationFunc, 0, sync.RWMutex{}}
}

func (kv *kvOrdering) getPrevRev() int64 {
	kv.revMu.RLock()
	defer kv.revMu.RUnlock()
	return kv.prevRev
}

func (kv *kvOrdering) setPrevRev(currRev int64) {
	kv.revMu.Lock()
	defer kv.revMu.Unlock()
	if currRev > kv.prevRev {
		kv.prevRev = currRev
	}
}

func (kv *kvOrdering) Get(ctx context.Context, key string, opts ...clientv3.OpOption) (*clientv3.GetResponse, error) {
	// prevRev is stored in a local variable in order to record the prevRev
	// at the beginning of the Get operation, because concurrent
	// access to kvOrdering could change the prevRev field in the
	// middle of the Get operation.
	prevRev := kv.getPrevRev()
	op := clientv3.OpGet(key, opts...)
	for {
		r, err := kv.KV.Do(ctx, op)
		if err != nil {
			return nil, err
		}
		resp := r.Get()
		if resp.Header.Revision == prevRev {
			return resp, nil
		} else if resp.Header.Revision > prevRev {
			kv.setPrevRev(resp.Header.Revision)
			return resp, nil
		}
		err = kv.orderViolationFunc(op, r, prevRev)
		if err != nil {
			return nil, err
		}
	}
}

func (kv *kvOrdering) Txn(ctx context.Context) clientv3.Txn {
	return &txnOrdering{
		kv.KV.Txn(ctx),
		kv,
		ctx,
		sync.Mutex{},
		[]clientv3.Cmp{},
		[]clientv3.Op{},
		[]clientv3.Op{},
	}
}

// txnOrdering ensures that serialized requests do not return
// txn responses with revisions less than the previous
// returned revision.
type txnOrdering struct {
	clientv3.Txn
	*kvOrdering
	ctx     context.Context
	mu      sync.Mutex
	cmps    []clientv3.Cmp
	thenOps []clientv3.Op
	elseOps []clientv3.Op
}

func (txn *txnOrdering) If(cs ...clientv3.Cmp) clientv3.Txn {
	txn.mu.Lock()
	defer txn.mu.Unlock()
	txn.cmps = cs
	txn.Txn.If(cs...)
	return txn
}

func (txn *txnOrdering) Then(ops ...clientv3.Op) clientv3.Txn {
	txn.mu.Lock()
	defer txn.mu.Unlock()
	txn.thenOps = ops
	txn.Txn.Then(ops...)
	return txn
}

func (txn *txnOrdering) Else(ops ...clientv3.Op) clientv3.Txn {
	txn.mu.Lock()
	defer txn.mu.Unlock()
	txn.elseOps = ops
	txn.Txn.Else(ops...)
	return txn
}

func (txn *txnOrdering) Commit() (*clientv3.TxnResponse, error) {
	// prevRev is stored in a local variable in order to record the prevRev
	// at the beginning of the Commit operation, because concurrent
	// access to txnOrdering could change the prevRev field in the
	// middle of the Commit operation.
	prevRev := txn.getPrevRev()
	opTxn := clientv3.OpTxn(txn.cmps, txn.thenOps, txn.elseOps)
	for {
		opResp, err := txn.KV.Do(txn.ctx, opTxn)
		if err != nil {
			return nil, err
		}
		txnResp := opResp.Txn()
		if txnResp.Header.Revision >= prevRev {
			txn.setPrevRev(txnResp.Header.Revision)
			return txnResp, nil
		}
		err = txn.orderViolationFunc(opTxn, opResp, prevRev)
		if err != nil {
			return nil, err
		}
	}
}
