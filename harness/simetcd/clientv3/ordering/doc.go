// Copyright 2017 The etcd Authors
//
// Licensed under the Apache License, Version 2.0 (the "License");
// you may not use this file except in compliance with the License.
// You may obtain a copy of the License at
//
//     http://www.apache.org/licenses/LICENSE-2.0
//
// Unless required by applicable law or agreed to in writing, software
// distributed under the License is distributed on an "AS IS" BASIS,
// WITHOUT WARRANTIES OR CONDITIONS OF ANY KIND, either express or implied.
// See the License for the specific language governing permissions and
// limitations under the License.

// Package ordering is a clientv3 wrapper that caches response header revisions
// to detect ordering violations from stale responses. Users may define a
// policy on how to handle the ordering violation, but typically the client
// should connect to another endpoint and reissue the request.
//
// The most common situation where an ordering violation happens is a client
// reconnects to a partitioned member and issues a serializable read. Since the
// partitioned member is likely behind the last member, it may return a Get
// response based on a store revision older than the store revision used to
// service a prior Get on the former endpoint.
//
// First, create a client:
//
//	cli, err := clientv3.New(clientv3.Config{Endpoints: []string{"localhost:2379"}})
//	if err != nil {
//		// handle error!
//	}
//
// Next, override the client interface with the ordering wrapper:
//
//	vf := func(op clientv3.Op, resp clientv3.OpResponse, prevRev int64) error {
//		return fmt.Errorf("ordering: issued %+v, got %+v, expected rev=%v", op, resp, prevRev)
//	}
//	cli.KV = ordering.NewKV(cli.KV, vf)
//
// Now calls using 'cli' will reject order violations with an error.
//
package ordering
