// Copyright 2016 The etcd Authors
//
// Licensed under the Apache License, Version 2.0 (the "License");
// you may not use this file except in compliance with the License.
// You may obtain a copy of the License at
//
//     http://www.apache.org/licenses/LICENSE-2.0
//
// Unless required by applicable law or agreed to in writing, software
// distributed under the License is distributed on an "AS IS" BASIS,
// WITHOUT WARRANTIES OR CONDITIONS OF ANY KIND, either express or implied.
// See the License for the specific language governing permissions and
// limitations under the License.

package recipe

import (
	"context"
	"fmt"
	"strings"
	"time"

	v3 "go.etcd.io/etcd/client/v3"
	"go.etcd.io/etcd/client/v3/concurrency"
)

// RemoteKV is a key/revision pair created by the client and stored on etcd
type RemoteKV struct {
	kv  v3.KV
	key string
	rev int64
	val string
}

func newKey(kv v3.KV, key string, leaseID v3.LeaseID) (*RemoteKV, error) {
	return newKV(kv, key, "", leaseID)
}

func newKV(kv v3.KV, key, val string, leaseID v3.LeaseID) (*RemoteKV, error) {
	rev, err := putNewKV(kv, key, val, leaseID)
	if err != nil {
		return nil, err
	}
	return &RemoteKV{kv, key, rev, val}, nil
}

func newUniqueKV(kv v3.KV, prefix string, val string) (*RemoteKV, error) {
	for {
		newKey := fmt.Sprintf("%s/%v", prefix, time.Now().UnixNano())
		rev, err := putNewKV(kv, newKey, val, v3.NoLease)
		if err == nil {
			return &RemoteKV{kv, newKey, rev, val}, nil
		}
		if err != ErrKeyExists {
			return nil, err
		}
	}
}

// putNewKV attempts to create the given key, only succeeding if the key did
// not yet exist.
func putNewKV(kv v3.KV, key, val string, leaseID v3.LeaseID) (int64, error) {
	cmp := v3.Compare(v3.Version(key), "=", 0)
	req := v3.OpPut(key, val, v3.WithLease(leaseID))
	txnresp, err := kv.Txn(context.TODO()).If(cmp).Then(req).Commit()
	if err != nil {
		return 0, err
	}
	if !txnresp.Succeeded {
		return 0, ErrKeyExists
	}
	return txnresp.Header.Revision, nil
}

// newSequentialKV allocates a new sequential key <prefix>/nnnnn with a given
// prefix and value. Note: a bookkeeping node __<prefix> is also allocated.
func newSequentialKV(kv v3.KV, prefix, val string) (*RemoteKV, error) {
	resp, err := kv.Get(context.TODO(), prefix, v3.WithLastKey()...)
	if err != nil {
		return nil, err
	}

	// add 1 to last key, if any
	newSeqNum := 0
	if len(resp.Kvs) != 0 {
		fields := strings.Split(string(resp.Kvs[0].Key), "/")
		_, serr := fmt.Sscanf(fields[len(fields)-1], "%d", &newSeqNum)
		if serr != nil {
			return nil, serr
		}
		newSeqNum++
	}
	newKey := fmt.Sprintf("%s/%016d", prefix, newSeqNum)

	// base prefix key must be current (i.e., <=) with the server update;
	// the base key is important to avoid the following:
	// N1: LastKey() == 1, start txn.
	// N2: new Key 2, new Key 3, Delete Key 2
	// N1: txn succeeds allocating key 2 when it shouldn't
	baseKey := "__" + prefix

	// current revision might contain modification so +1
	cmp := v3.Compare(v3.ModRevision(baseKey), "<", resp.Header.Revision+1)
	reqPrefix := v3.OpPut(baseKey, "")
	reqnewKey := v3.OpPut(newKey, val)

	txn := kv.Txn(context.TODO())
	txnresp, err := txn.If(cmp).Then(reqPrefix, reqnewKey).Commit()
	if err != nil {
		return nil, err
	}
	if !txnresp.Succeeded {
		return newSequentialKV(kv, prefix, val)
	}
	return &RemoteKV{kv, newKey, txnresp.Header.Revision, val}, nil
}

func (rk *RemoteKV) Key() string     { return rk.key }
func (rk *RemoteKV) Revision() int64 { return rk.rev }
func (rk *RemoteKV) Value() string   { return rk.val }

func (rk *RemoteKV) Delete() error {
	if rk.kv == nil {
		return nil
	}
	_, err := rk.kv.Delete(context.TODO(), rk.key)
	rk.kv = nil
	return err
}

func (rk *RemoteKV) Put(val string) error {
	_, err := rk.kv.Put(context.TODO(), rk.key, val)
	return err
}

// EphemeralKV is a new key associated with a session lease
type EphemeralKV struct{ RemoteKV }

// newEphemeralKV creates a new key/value pair associated with a session lease
func newEphemeralKV(s *concurrency.Session, key, val string) (*EphemeralKV, error) {
	k, err := newKV(s.Client(), key, val, s.Lease())
	if err != nil {
		return nil, err
	}
	return &EphemeralKV{*k}, nil
}

// newUniqueEphemeralKey creates a new unique valueless key associated with a session lease
func newUniqueEphemeralKey(s *concurrency.Session, prefix string) (*EphemeralKV, error) {
	return newUniqueEphemeralKV(s, prefix, "")
}

// newUniqueEphemeralKV creates a new unique key/value pair associated with a session lease
func newUniqueEphemeralKV(s *concurrency.Session, prefix, val string) (ek *EphemeralKV, err error) {
	for {
		newKey := fmt.Sprintf("%s/%v", prefix, time.Now().UnixNano())
		ek, err = newEphemeralKV(s, newKey, val)
		if err == nil || err != ErrKeyExists {
			break
		}
	}
	return ek, err
}
