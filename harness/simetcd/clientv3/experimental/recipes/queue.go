// Copyright 2016 The etcd Authors
//
// Licensed under the Apache License, Version 2.0 (the "License");
// you may not use this file except in compliance with the License.
// You may obtain a copy of the License at
//
//     http://www.apache.org/licenses/LICENSE-2.0
//
// Unless required by applicable law or agreed to in writing, software
// distributed under the License is distributed on an "AS IS" BASIS,
// WITHOUT WARRANTIES OR CONDITIONS OF ANY KIND, either express or implied.
// See the License for the specific language governing permissions and
// limitations under the License.

package recipe

import (
	"context"

	"go.etcd.io/etcd/api/v3/mvccpb"
	v3 "go.etcd.io/etcd/client/v3"
)

// Queue implements a multi-reader, multi-writer distributed queue.
type Queue struct {
	client *v3.Client
	ctx    context.Context

	keyPrefix string
}

func NewQueue(client *v3.Client, keyPrefix string) *Queue {
	return &Queue{client, context.TODO(), keyPrefix}
}

func (q *Queue) Enqueue(val string) error {
	_, err := newUniqueKV(q.client, q.keyPrefix, val)
	return err
}

// Dequeue returns Enqueue()'d elements in FIFO order. If the
// queue is empty, Dequeue blocks until elements are available.
func (q *Queue) Dequeue() (string, error) {
	// TODO: fewer round trips by fetching more than one key
	resp, err := q.client.Get(q.ctx, q.keyPrefix, v3.WithFirstRev()...)
	if err != nil {
		return "", err
	}

	kv, err := claimFirstKey(q.client, resp.Kvs)
	if err != nil {
		return "", err
	} else if kv != nil {
		return string(kv.Value), nil
	} else if resp.More {
		// missed some items, retry to read in more
		return q.Dequeue()
	}

	// nothing yet; wait on elements
	ev, err := WaitPrefixEvents(
		q.client,
		q.keyPrefix,
		resp.Header.Revision,
		[]mvccpb.Event_EventType{mvccpb.PUT})
	if err != nil {
		return "", err
	}

	ok, err := deleteRevKey(q.client, string(ev.Kv.Key), ev.Kv.ModRevision)
	if err != nil {
		return "", err
	} else if !ok {
		return q.Dequeue()
	}
	return string(ev.Kv.Value), err
}
