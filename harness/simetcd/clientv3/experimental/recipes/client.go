// Copyright 2016 The etcd Authors
//
// Licensed under the Apache License, Version 2.0 (the "License");
// you may not use this file except in compliance with the License.
// You may obtain a copy of the License at
//
//     http://www.apache.org/licenses/LICENSE-2.0
//
// Unless required by applicable law or agreed to in writing, software
// distributed under the License is distributed on an "AS IS" BASIS,
// WITHOUT WARRANTIES OR CONDITIONS OF ANY KIND, either express or implied.
// See the License for the specific language governing permissions and
// limitations under the License.

package recipe

import (
	"context"
	"errors"

	spb "go.etcd.io/etcd/api/v3/mvccpb"
	v3 "go.etcd.io/etcd/client/v3"
)

var (
	ErrKeyExists      = errors.New("key already exists")
	ErrWaitMismatch   = errors.New("unexpected wait result")
	ErrTooManyClients = errors.New("too many clients")
	ErrNoWatcher      = errors.New("no watcher channel")
)

// deleteRevKey deletes a key by revision, returning false if key is missing
func deleteRevKey(kv v3.KV, key string, rev int64) (bool, error) {
	cmp := v3.Compare(v3.ModRevision(key), "=", rev)
	req := v3.OpDelete(key)
	txnresp, err := kv.Txn(context.TODO()).If(cmp).Then(req).Commit()
	if err != nil {
		return false, err
	} else if !txnresp.Succeeded {
		return false, nil
	}
	return true, nil
}

func claimFirstKey(kv v3.KV, kvs []*spb.KeyValue) (*spb.KeyValue, error) {
	for _, k := range kvs {
		ok, err := deleteRevKey(kv, string(k.Key), k.ModRevision)
		if err != nil {
			return nil, err
		} else if ok {
			return k, nil
		}
	}
	return nil, nil
}
