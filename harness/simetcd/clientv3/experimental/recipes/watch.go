// Copyright 2016 The etcd Authors
//
// Licensed under the Apache License, Version 2.0 (the "License");
// you may not use this file except in compliance with the License.
// You may obtain a copy of the License at
//
//     http://www.apache.org/licenses/LICENSE-2.0
//
// Unless required by applicable law or agreed to in writing, software
// distributed under the License is distributed on an "AS IS" BASIS,
// WITHOUT WARRANTIES OR CONDITIONS OF ANY KIND, either express or implied.
// See the License for the specific language governing permissions and
// limitations under the License.

package recipe

import (
	"context"

	"go.etcd.io/etcd/api/v3/mvccpb"
	"go.etcd.io/etcd/client/v3"
)

// WaitEvents waits on a key until it observes the given events and returns the final one.
func WaitEvents(c *clientv3.Client, key string, rev int64, evs []mvccpb.Event_EventType) (*clientv3.Event, error) {
	ctx, cancel := context.WithCancel(context.Background())
	defer cancel()
	wc := c.Watch(ctx, key, clientv3.WithRev(rev))
	if wc == nil {
		return nil, ErrNoWatcher
	}
	return waitEvents(wc, evs), nil
}

func WaitPrefixEvents(c *clientv3.Client, prefix string, rev int64, evs []mvccpb.Event_EventType) (*clientv3.Event, error) {
	ctx, cancel := context.WithCancel(context.Background())
	defer cancel()
	wc := c.Watch(ctx, prefix, clientv3.WithPrefix(), clientv3.WithRev(rev))
	if wc == nil {
		return nil, ErrNoWatcher
	}
	return waitEvents(wc, evs), nil
}

func waitEvents(wc clientv3.WatchChan, evs []mvccpb.Event_EventType) *clientv3.Event {
	i := 0
	for wresp := range wc {
		for _, ev := range wresp.Events {
			if ev.Type == evs[i] {
				i++
				if i == len(evs) {
					return ev
				}
			}
		}
	}
	return nil
}
