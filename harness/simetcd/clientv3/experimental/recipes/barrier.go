// Copyright 2016 The etcd Authors
//
// Licensed under the Apache License, Version 2.0 (the "License");
// you may not use this file except in compliance with the License.
// You may obtain a copy of the License at
//
//     http://www.apache.org/licenses/LICENSE-2.0
//
// Unless required by applicable law or agreed to in writing, software
// distributed under the License is distributed on an "AS IS" BASIS,
// WITHOUT WARRANTIES OR CONDITIONS OF ANY KIND, either express or implied.
// See the License for the specific language governing permissions and
// limitations under the License.

package recipe

import (
	"context"

	"go.etcd.io/etcd/api/v3/mvccpb"
	v3 "go.etcd.io/etcd/client/v3"
)

// Barrier creates a key in etcd to block processes, then deletes the key to
// release all blocked processes.
type Barrier struct {
	client *v3.Client
	ctx    context.Context

	key string
}

func NewBarrier(client *v3.Client, key string) *Barrier {
	return &Barrier{client, context.TODO(), key}
}

// Hold creates the barrier key causing processes to block on Wait.
func (b *Barrier) Hold() error {
	_, err := newKey(b.client, b.key, v3.NoLease)
	return err
}

// Release deletes the barrier key to unblock all waiting processes.
func (b *Barrier) Release() error {
	_, err := b.client.Delete(b.ctx, b.key)
	return err
}

// Wait blocks on the barrier key until it is deleted. If there is no key, Wait
// assumes Release has already been called and returns immediately.
func (b *Barrier) Wait() error {
	resp, err := b.client.Get(b.ctx, b.key, v3.WithFirstKey()...)
	if err != nil {
		return err
	}
	if len(resp.Kvs) == 0 {
		// key already removed
		return nil
	}
	_, err = WaitEvents(
		b.client,
		b.key,
		resp.Header.Revision,
		[]mvccpb.Event_EventType{mvccpb.PUT, mvccpb.DELETE})
	return err
}
