// Copyright 2016 The etcd Authors
//
// Licensed under the Apache License, Version 2.0 (the "License");
// you may not use this file except in compliance with the License.
// You may obtain a copy of the License at
//
//     http://www.apache.org/licenses/LICENSE-2.0
//
// Unless required by applicable law or agreed to in writing, software
// distributed under the License is distributed on an "AS IS" BASIS,
// WITHOUT WARRANTIES OR CONDITIONS OF ANY KIND, either express or implied.
// See the License for the specific language governing permissions and
// limitations under the License.

package recipe

import (
	"context"

	"go.etcd.io/etcd/api/v3/mvccpb"
	"go.etcd.io/etcd/client/v3"
	"go.etcd.io/etcd/client/v3/concurrency"
)

// DoubleBarrier blocks processes on Enter until an expected count enters, then
// blocks again on Leave until all processes have left.
type DoubleBarrier struct {
	s   *concurrency.Session
	ctx context.Context

	key   string // key for the collective barrier
	count int
	myKey *EphemeralKV // current key for this process on the barrier
}

func NewDoubleBarrier(s *concurrency.Session, key string, count int) *DoubleBarrier {
	return &DoubleBarrier{
		s:     s,
		ctx:   context.TODO(),
		key:   key,
		count: count,
	}
}

// Enter waits for "count" processes to enter the barrier then returns
func (b *DoubleBarrier) Enter() error {
	client := b.s.Client()
	ek, err := newUniqueEphemeralKey(b.s, b.key+"/waiters")
	if err != nil {
		return err
	}
	b.myKey = ek

	resp, err := client.Get(b.ctx, b.key+"/waiters", clientv3.WithPrefix())
	if err != nil {
		return err
	}

	if len(resp.Kvs) > b.count {
		return ErrTooManyClients
	}

	if len(resp.Kvs) == b.count {
		// unblock waiters
		_, err = client.Put(b.ctx, b.key+"/ready", "")
		return err
	}

	_, err = WaitEvents(
		client,
		b.key+"/ready",
		ek.Revision(),
		[]mvccpb.Event_EventType{mvccpb.PUT})
	return err
}

// Leave waits for "count" processes to leave the barrier then returns
func (b *DoubleBarrier) Leave() error {
	client := b.s.Client()
	resp, err := client.Get(b.ctx, b.key+"/waiters", clientv3.WithPrefix())
	if err != nil {
		return err
	}
	if len(resp.Kvs) == 0 {
		return nil
	}

	lowest, highest := resp.Kvs[0], resp.Kvs[0]
	for _, k := range resp.Kvs {
		if k.ModRevision < lowest.ModRevision {
			lowest = k
		}
		if k.ModRevision > highest.ModRevision {
			highest = k
		}
	}
	isLowest := string(lowest.Key) == b.myKey.Key()

	if len(resp.Kvs) == 1 {
		// this is the only node in the barrier; finish up
		if _, err = client.Delete(b.ctx, b.key+"/ready"); err != nil {
			return err
		}
		return b.myKey.Delete()
	}

	// this ensures that if a process fails, the ephemeral lease will be
	// revoked, its barrier key is removed, and the barrier can resume

	// lowest process in node => wait on highest process
	if isLowest {
		_, err = WaitEvents(
			client,
			string(highest.Key),
			highest.ModRevision,
			[]mvccpb.Event_EventType{mvccpb.DELETE})
		if err != nil {
			return err
		}
		return b.Leave()
	}

	// delete self and wait on lowest process
	if err = b.myKey.Delete(); err != nil {
		return err
	}

	key := string(lowest.Key)
	_, err = WaitEvents(
		client,
		key,
		lowest.ModRevision,
		[]mvccpb.Event_EventType{mvccpb.DELETE})
	if err != nil {
		return err
	}
	return b.Leave()
}
