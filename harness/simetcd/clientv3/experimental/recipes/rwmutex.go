// Copyright 2016 The etcd Authors
//
// Licensed under the Apache License, Version 2.0 (the "License");
// you may not use this file except in compliance with the License.
// You may obtain a copy of the License at
//
//     http://www.apache.org/licenses/LICENSE-2.0
//
// Unless required by applicable law or agreed to in writing, software
// distributed under the License is distributed on an "AS IS" BASIS,
// WITHOUT WARRANTIES OR CONDITIONS OF ANY KIND, either express or implied.
// See the License for the specific language governing permissions and
// limitations under the License.

package recipe

import (
	"context"

	"go.etcd.io/etcd/api/v3/mvccpb"
	v3 "go.etcd.io/etcd/client/v3"
	"go.etcd.io/etcd/client/v3/concurrency"
)

type RWMutex struct {
	s   *concurrency.Session
	ctx context.Context

	pfx   string
	myKey *EphemeralKV
}

func NewRWMutex(s *concurrency.Session, prefix string) *RWMutex {
	return &RWMutex{s, context.TODO(), prefix + "/", nil}
}

func (rwm *RWMutex) RLock() error {
	rk, err := newUniqueEphemeralKey(rwm.s, rwm.pfx+"read")
	if err != nil {
		return err
	}
	rwm.myKey = rk
	// wait until nodes with "write-" and a lower revision number than myKey are gone
	for {
		if done, werr := rwm.waitOnLastRev(rwm.pfx + "write"); done || werr != nil {
			return werr
		}
	}
}

func (rwm *RWMutex) Lock() error {
	rk, err := newUniqueEphemeralKey(rwm.s, rwm.pfx+"write")
	if err != nil {
		return err
	}
	rwm.myKey = rk
	// wait until all keys of lower revision than myKey are gone
	for {
		if done, werr := rwm.waitOnLastRev(rwm.pfx); done || werr != nil {
			return werr
		}
		//  get the new lowest key until this is the only one left
	}
}

// waitOnLowest will wait on the last key with a revision < rwm.myKey.Revision with a
// given prefix. If there are no keys left to wait on, return true.
func (rwm *RWMutex) waitOnLastRev(pfx string) (bool, error) {
	client := rwm.s.Client()
	// get key that's blocking myKey
	opts := append(v3.WithLastRev(), v3.WithMaxModRev(rwm.myKey.Revision()-1))
	lastKey, err := client.Get(rwm.ctx, pfx, opts...)
	if err != nil {
		return false, err
	}
	if len(lastKey.Kvs) == 0 {
		return true, nil
	}
	// wait for release on blocking key
	_, err = WaitEvents(
		client,
		string(lastKey.Kvs[0].Key),
		rwm.myKey.Revision(),
		[]mvccpb.Event_EventType{mvccpb.DELETE})
	return false, err
}

func (rwm *RWMutex) RUnlock() error { return rwm.myKey.Delete() }
func (rwm *RWMutex) Unlock() error  { return rwm.myKey.Delete() }
