// Copyright 2016 The etcd Authors
//
// Licensed under the Apache License, Version 2.0 (the "License");
// you may not use this file except in compliance with the License.
// You may obtain a copy of the License at
//
//     http://www.apache.org/licenses/LICENSE-2.0
//
// Unless required by applicable law or agreed to in writing, software
// distributed under the License is distributed on an "AS IS" BASIS,
// WITHOUT WARRANTIES OR CONDITIONS OF ANY KIND, either express or implied.
// See the License for the specific language governing permissions and
// limitations under the License.

// Package clientv3 implements the official Go etcd client for v3.
//
// Create client using `clientv3.New`:
//
//	// expect dial time-out on ipv4 blackhole
//	_, err := clientv3.New(clientv3.Config{
//		Endpoints:   []string{"http://254.0.0.1:12345"},
//		DialTimeout: 2 * time.Second,
//	})
//
//	// etcd clientv3 >= v3.2.10, grpc/grpc-go >= v1.7.3
//	if err == context.DeadlineExceeded {
//		// handle errors
//	}
//
//	// etcd clientv3 <= v3.2.9, grpc/grpc-go <= v1.2.1
//	if err == grpc.ErrClientConnTimeout {
//		// handle errors
//	}
//
//	cli, err := clientv3.New(clientv3.Config{
//		Endpoints:   []string{"localhost:2379", "localhost:22379", "localhost:32379"},
//		DialTimeout: 5 * time.Second,
//	})
//	if err != nil {
//		// handle error!
//	}
//	defer cli.Close()
//
// Make sure to close the client after using it. If the client is not closed, the
// connection will have leaky goroutines.
//
// To specify a client request timeout, wrap the context with context.WithTimeout:
//
//	ctx, cancel := context.WithTimeout(context.Background(), timeout)
//	resp, err := kvc.Put(ctx, "sample_key", "sample_value")
//	cancel()
//	if err != nil {
//	    // handle error!
//	}
//	// use the response
//
// The Client has internal state (watchers and leases), so Clients should be reused instead of created as needed.
// Clients are safe for concurrent use by multiple goroutines.
//
// etcd client returns 2 types of errors:
//
//  1. context error: canceled or deadline exceeded.
//  2. gRPC error: e.g. when clock drifts in server-side before client's context deadline exceeded.
//  See https://github.com/etcd-io/etcd/blob/main/api/v3rpc/rpctypes/error.go
//
// Here is the example code to handle client errors:
//
//	resp, err := kvc.Put(ctx, "", "")
//	if err != nil {
//		if err == context.Canceled {
//			// ctx is canceled by another routine
//		} else if err == context.DeadlineExceeded {
//			// ctx is attached with a deadline and it exceeded
//		} else if err == rpctypes.ErrEmptyKey {
//			// client-side error: key is not provided
//		} else if ev, ok := status.FromError(err); ok {
//			code := ev.Code()
//			if code == codes.DeadlineExceeded {
//				// server-side context might have timed-out first (due to clock skew)
//				// while original client-side context is not timed-out yet
//			}
//		} else {
//			// bad cluster endpoints, which are not etcd servers
//		}
//	}
//
//	go func() { cli.Close() }()
//	_, err := kvc.Get(ctx, "a")
//	if err != nil {
//		// with etcd clientv3 <= v3.3
//		if err == context.Canceled {
//			// grpc balancer calls 'Get' with an inflight client.Close
//		} else if err == grpc.ErrClientConnClosing { // <= gRCP v1.7.x
//			// grpc balancer calls 'Get' after client.Close.
//		}
//		// with etcd clientv3 >= v3.4
//		if clientv3.IsConnCanceled(err) {
//			// gRPC client connection is closed
//		}
//	}
//
// The grpc load balancer is registered statically and is shared across etcd clients.
// To enable detailed load balancer logging, set the ETCD_CLIENT_DEBUG environment
// variable.  E.g. "ETCD_CLIENT_DEBUG=1".
//
package clientv3
