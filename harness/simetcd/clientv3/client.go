// Copyright 2016 The etcd Authors
//
// Licensed under the Apache License, Version 2.0 (the "License");
// you may not use this file except in compliance with the License.
// You may obtain a copy of the License at
//
//     http://www.apache.org/licenses/LICENSE-2.0
//
// Unless required by applicable law or agreed to in writing, software
// distributed under the License is distributed on an "AS IS" BASIS,
// WITHOUT WARRANTIES OR CONDITIONS OF ANY KIND, either express or implied.
// See the License for the specific language governing permissions and
// limitations under the License.

package clientv3

import (
	"context"
	"errors"
	"fmt"
	"strconv"
	"strings"
	"sync"
	"time"

	"go.etcd.io/etcd/api/v3/v3rpc/rpctypes"
	"go.etcd.io/etcd/client/pkg/v3/logutil"
	"go.etcd.io/etcd/client/v3/credentials"
	"go.etcd.io/etcd/client/v3/internal/endpoint"
	"go.etcd.io/etcd/client/v3/internal/resolver"
	"go.uber.org/zap"
	"google.golang.org/grpc"
	"google.golang.org/grpc/codes"
	grpccredentials "google.golang.org/grpc/credentials"
	"google.golang.org/grpc/keepalive"
	"google.golang.org/grpc/status"
)

var (
	ErrNoAvailableEndpoints = errors.New("etcdclient: no available endpoints")
	ErrOldCluster           = errors.New("etcdclient: old cluster version")
)

// Client provides and manages an etcd v3 client session.
type Client struct {
	Cluster
	KV
	Lease
	Watcher
	Auth
	Maintenance

	conn *grpc.ClientConn

	cfg      Config
	creds    grpccredentials.TransportCredentials
	resolver *resolver.EtcdManualResolver
	mu       *sync.RWMutex

	ctx    context.Context
	cancel context.CancelFunc

	// Username is a user name for authentication.
	Username string
	// Password is a password for authentication.
	Password        string
	authTokenBundle credentials.Bundle

	callOpts []grpc.CallOption

	lgMu *sync.RWMutex
	lg   *zap.Logger
}

// New creates a new etcdv3 client from a given configuration.
func New(cfg Config) (*Client, error) {
	if len(cfg.Endpoints) == 0 {
		return nil, ErrNoAvailableEndpoints
	}

	return newClient(&cfg)
}

// NewCtxClient creates a client with a context but no underlying grpc
// connection. This is useful for embedded cases that override the
// service interface implementations and do not need connection management.
func NewCtxClient(ctx context.Context, opts ...Option) *Client {
	cctx, cancel := context.WithCancel(ctx)
	c := &Client{ctx: cctx, cancel: cancel, lgMu: new(sync.RWMutex)}
	for _, opt := range opts {
		opt(c)
	}
	if c.lg == nil {
		c.lg = zap.NewNop()
	}
	return c
}

// Option is a function type that can be passed as argument to NewCtxClient to configure client
type Option func(*Client)

// NewFromURL creates a new etcdv3 client from a URL.
func NewFromURL(url string) (*Client, error) {
	return New(Config{Endpoints: []string{url}})
}

// NewFromURLs creates a new etcdv3 client from URLs.
func NewFromURLs(urls []string) (*Client, error) {
	return New(Config{Endpoints: urls})
}

// WithZapLogger is a NewCtxClient option that overrides the logger
func WithZapLogger(lg *zap.Logger) Option {
	return func(c *Client) {
		c.lg = lg
	}
}

// WithLogger overrides the logger.
//
// Deprecated: Please use WithZapLogger or Logger field in clientv3.Config
//
// Does not changes grpcLogger, that can be explicitly configured
// using grpc_zap.ReplaceGrpcLoggerV2(..) method.
func (c *Client) WithLogger(lg *zap.Logger) *Client {
	c.lgMu.Lock()
	c.lg = lg
	c.lgMu.Unlock()
	return c
}

// GetLogger gets the logger.
// NOTE: This method is for internal use of etcd-client library and should not be used as general-purpose logger.
func (c *Client) GetLogger() *zap.Logger {
	c.lgMu.RLock()
	l := c.lg
	c.lgMu.RUnlock()
	return l
}

// Close shuts down the client's etcd connections.
func (c *Client) Close() error {
	c.cancel()
	if c.Watcher != nil {
		c.Watcher.Close()
	}
	if c.Lease != nil {
		c.Lease.Close()
	}
	if c.conn != nil {
		return toErr(c.ctx, c.conn.Close())
	}
	return c.ctx.Err()
}

// Ctx is a context for "out of band" messages (e.g., for sending
// "clean up" message when another context is canceled). It is
// canceled on client Close().
func (c *Client) Ctx() context.Context { return c.ctx }

// Endpoints lists the registered endpoints for the client.
func (c *Client) Endpoints() []string {
	// copy the slice; protect original endpoints from being changed
	c.mu.RLock()
	defer c.mu.RUnlock()
	eps := make([]string, len(c.cfg.Endpoints))
	copy(eps, c.cfg.Endpoints)
	return eps
}

// SetEndpoints updates client's endpoints.
func (c *Client) SetEndpoints(eps ...string) {
	c.mu.Lock()
	defer c.mu.Unlock()
	c.cfg.Endpoints = eps

	c.resolver.SetEndpoints(eps)
}

// Sync synchronizes client's endpoints with the known endpoints from the etcd membership.
func (c *Client) Sync(ctx context.Context) error {
	mresp, err := c.MemberList(ctx)
	if err != nil {
		return err
	}
	var eps []string
	for _, m := range mresp.Members {
		if len(m.Name) != 0 && !m.IsLearner {
			eps = append(eps, m.ClientURLs...)
		}
	}
	c.SetEndpoints(eps...)
	return nil
}

func (c *Client) autoSync() {
	if c.cfg.AutoSyncInterval == time.Duration(0) {
		return
	}

	for {
		select {
		case <-c.ctx.Done():
			return
		case <-time.After(c.cfg.AutoSyncInterval):
			ctx, cancel := context.WithTimeout(c.ctx, 5*time.Second)
			err := c.Sync(ctx)
			cancel()
			if err != nil && err != c.ctx.Err() {
				c.lg.Info("Auto sync endpoints failed.", zap.Error(err))
			}
		}
	}
}

// dialSetupOpts gives the dial opts prior to any authentication.
func (c *Client) dialSetupOpts(creds grpccredentials.TransportCredentials, dopts ...grpc.DialOption) (opts []grpc.DialOption, err error) {
	if c.cfg.DialKeepAliveTime > 0 {
		params := keepalive.ClientParameters{
			Time:                c.cfg.DialKeepAliveTime,
			Timeout:             c.cfg.DialKeepAliveTimeout,
			PermitWithoutStream: c.cfg.PermitWithoutStream,
		}
		opts = append(opts, grpc.WithKeepaliveParams(params))
	}
	opts = append(opts, dopts...)

	if creds != nil {
		opts = append(opts, grpc.WithTransportCredentials(creds))
	} else {
		opts = append(opts, grpc.WithInsecure())
	}

	// Interceptor retry and backoff.
	// TODO: Replace all of clientv3/retry.go with RetryPolicy:
	// https://github.com/grpc/grpc-proto/blob/cdd9ed5c3d3f87aef62f373b93361cf7bddc620d/grpc/service_config/service_config.proto#L130
	rrBackoff := withBackoff(c.roundRobinQuorumBackoff(defaultBackoffWaitBetween, defaultBackoffJitterFraction))
	opts = append(opts,
		// Disable stream retry by default since go-grpc-middleware/retry does not support client streams.
		// Streams that are safe to retry are enabled individually.
		grpc.WithStreamInterceptor(c.streamClientInterceptor(withMax(0), rrBackoff)),
		grpc.WithUnaryInterceptor(c.unaryClientInterceptor(withMax(defaultUnaryMaxRetries), rrBackoff)),
	)

	return opts, nil
}

// Dial connects to a single endpoint using the client's config.
func (c *Client) Dial(ep string) (*grpc.ClientConn, error) {
	creds := c.credentialsForEndpoint(ep)

	// Using ad-hoc created resolver, to guarantee only explicitly given
	// endpoint is used.
	return c.dial(creds, grpc.WithResolvers(resolver.New(ep)))
}

func (c *Client) getToken(ctx context.Context) error {
	var err error // return last error in a case of fail

	if c.Username == "" || c.Password == "" {
		return nil
	}

	resp, err := c.Auth.Authenticate(ctx, c.Username, c.Password)
	if err != nil {
		if err == rpctypes.ErrAuthNotEnabled {
			return nil
		}
		return err
	}
	c.authTokenBundle.UpdateAuthToken(resp.Token)
	return nil
}

// dialWithBalancer dials the client's current load balanced resolver group.  The scheme of the host
// of the provided endpoint determines the scheme used for all endpoints of the client connection.
func (c *Client) dialWithBalancer(dopts ...grpc.DialOption) (*grpc.ClientConn, error) {
	creds := c.credentialsForEndpoint(c.Endpoints()[0])
	opts := append(dopts, grpc.WithResolvers(c.resolver))
	return c.dial(creds, opts...)
}

// dial configures and dials any grpc balancer target.
func (c *Client) dial(creds grpccredentials.TransportCredentials, dopts ...grpc.DialOption) (*grpc.ClientConn, error) {
	opts, err := c.dialSetupOpts(creds, dopts...)
	if err != nil {
		return nil, fmt.Errorf("failed to configure dialer: %v", err)
	}
	if c.Username != "" && c.Password != "" {
		c.authTokenBundle = credentials.NewBundle(credentials.Config{})
		opts = append(opts, grpc.WithPerRPCCredentials(c.authTokenBundle.PerRPCCredentials()))
	}

	opts = append(opts, c.cfg.DialOptions...)
	opts = append(opts, SimExtraDialOptions...) // C19 harness patch: see the variable's comment

	dctx := c.ctx
	if c.cfg.DialTimeout > 0 {
		var cancel context.CancelFunc
		dctx, cancel = context.WithTimeout(c.ctx, c.cfg.DialTimeout)
		defer cancel() // TODO: Is this right for cases where grpc.WithBlock() is not set on the dial options?
	}
	target := fmt.Sprintf("%s://%p/%s", resolver.Schema, c, authority(c.Endpoints()[0]))
	conn, err := grpc.DialContext(dctx, target, opts...)
	if err != nil {
		return nil, err
	}
	return conn, nil
}

// SimExtraDialOptions (C19 harness patch, the ONLY change to this file besides
// the line in dial that appends it): dial options added to every client. The
// harness sets it to a simnet context dialer (+ a reconnect back-off without
// wall-clock jitter) so that a client created by the UNMODIFIED
// cluster.getClient of easegress (whose clientv3.Config has no DialOptions)
// connects to the simulated etcd server instead of the real network.
var SimExtraDialOptions []grpc.DialOption

func authority(endpoint string) string {
	spl := strings.SplitN(endpoint, "://", 2)
	if len(spl) < 2 {
		if strings.HasPrefix(endpoint, "unix:") {
			return endpoint[len("unix:"):]
		}
		if strings.HasPrefix(endpoint, "unixs:") {
			return endpoint[len("unixs:"):]
		}
		return endpoint
	}
	return spl[1]
}

func (c *Client) credentialsForEndpoint(ep string) grpccredentials.TransportCredentials {
	r := endpoint.RequiresCredentials(ep)
	switch r {
	case endpoint.CREDS_DROP:
		return nil
	case endpoint.CREDS_OPTIONAL:
		return c.creds
	case endpoint.CREDS_REQUIRE:
		if c.creds != nil {
			return c.creds
		}
		return credentials.NewBundle(credentials.Config{}).TransportCredentials()
	default:
		panic(fmt.Errorf("unsupported CredsRequirement: %v", r))
	}
}

func newClient(cfg *Config) (*Client, error) {
	if cfg == nil {
		cfg = &Config{}
	}
	var creds grpccredentials.TransportCredentials
	if cfg.TLS != nil {
		creds = credentials.NewBundle(credentials.Config{TLSConfig: cfg.TLS}).TransportCredentials()
	}

	// use a temporary skeleton client to bootstrap first connection
	baseCtx := context.TODO()
	if cfg.Context != nil {
		baseCtx = cfg.Context
	}

	ctx, cancel := context.WithCancel(baseCtx)
	client := &Client{
		conn:     nil,
		cfg:      *cfg,
		creds:    creds,
		ctx:      ctx,
		cancel:   cancel,
		mu:       new(sync.RWMutex),
		callOpts: defaultCallOpts,
		lgMu:     new(sync.RWMutex),
	}

	var err error
	if cfg.Logger != nil {
		client.lg = cfg.Logger
	} else if cfg.LogConfig != nil {
		client.lg, err = cfg.LogConfig.Build()
	} else {
		client.lg, err = logutil.CreateDefaultZapLogger(etcdClientDebugLevel())
		if client.lg != nil {
			client.lg = client.lg.Named("etcd-client")
		}
	}
	if err != nil {
		return nil, err
	}

	if cfg.Username != "" && cfg.Password != "" {
		client.Username = cfg.Username
		client.Password = cfg.Password
	}
	if cfg.MaxCallSendMsgSize > 0 || cfg.MaxCallRecvMsgSize > 0 {
		if cfg.MaxCallRecvMsgSize > 0 && cfg.MaxCallSendMsgSize > cfg.MaxCallRecvMsgSize {
			return nil, fmt.Errorf("gRPC message recv limit (%d bytes) must be greater than send limit (%d bytes)", cfg.MaxCallRecvMsgSize, cfg.MaxCallSendMsgSize)
		}
		callOpts := []grpc.CallOption{
			defaultWaitForReady,
			defaultMaxCallSendMsgSize,
			defaultMaxCallRecvMsgSize,
		}
		if cfg.MaxCallSendMsgSize > 0 {
			callOpts[1] = grpc.MaxCallSendMsgSize(cfg.MaxCallSendMsgSize)
		}
		if cfg.MaxCallRecvMsgSize > 0 {
			callOpts[2] = grpc.MaxCallRecvMsgSize(cfg.MaxCallRecvMsgSize)
		}
		client.callOpts = callOpts
	}

	client.resolver = resolver.New(cfg.Endpoints...)

	if len(cfg.Endpoints) < 1 {
		client.cancel()
		return nil, fmt.Errorf("at least one Endpoint is required in client config")
	}
	// Use a provided endpoint target so that for https:// without any tls config given, then
	// grpc will assume the certificate server name is the endpoint host.
	conn, err := client.dialWithBalancer()
	if err != nil {
		client.cancel()
		client.resolver.Close()
		// TODO: Error like `fmt.Errorf(dialing [%s] failed: %v, strings.Join(cfg.Endpoints, ";"), err)` would help with debugging a lot.
		return nil, err
	}
	client.conn = conn

	client.Cluster = NewCluster(client)
	client.KV = NewKV(client)
	client.Lease = NewLease(client)
	client.Watcher = NewWatcher(client)
	client.Auth = NewAuth(client)
	client.Maintenance = NewMaintenance(client)

	//get token with established connection
	ctx, cancel = client.ctx, func() {}
	if client.cfg.DialTimeout > 0 {
		ctx, cancel = context.WithTimeout(ctx, client.cfg.DialTimeout)
	}
	err = client.getToken(ctx)
	if err != nil {
		client.Close()
		cancel()
		//TODO: Consider fmt.Errorf("communicating with [%s] failed: %v", strings.Join(cfg.Endpoints, ";"), err)
		return nil, err
	}
	cancel()

	if cfg.RejectOldCluster {
		if err := client.checkVersion(); err != nil {
			client.Close()
			return nil, err
		}
	}

	go client.autoSync()
	return client, nil
}

// roundRobinQuorumBackoff retries against quorum between each backoff.
// This is intended for use with a round robin load balancer.
func (c *Client) roundRobinQuorumBackoff(waitBetween time.Duration, jitterFraction float64) backoffFunc {
	return func(attempt uint) time.Duration {
		// after each round robin across quorum, backoff for our wait between duration
		n := uint(len(c.Endpoints()))
		quorum := (n/2 + 1)
		if attempt%quorum == 0 {
			c.lg.Debug("backoff", zap.Uint("attempt", attempt), zap.Uint("quorum", quorum), zap.Duration("waitBetween", waitBetween), zap.Float64("jitterFraction", jitterFraction))
			return jitterUp(waitBetween, jitterFraction)
		}
		c.lg.Debug("backoff skipped", zap.Uint("attempt", attempt), zap.Uint("quorum", quorum))
		return 0
	}
}

func (c *Client) checkVersion() (err error) {
	var wg sync.WaitGroup

	eps := c.Endpoints()
	errc := make(chan error, len(eps))
	ctx, cancel := context.WithCancel(c.ctx)
	if c.cfg.DialTimeout > 0 {
		cancel()
		ctx, cancel = context.WithTimeout(c.ctx, c.cfg.DialTimeout)
	}

	wg.Add(len(eps))
	for _, ep := range eps {
		// if cluster is current, any endpoint gives a recent version
		go func(e string) {
			defer wg.Done()
			resp, rerr := c.Status(ctx, e)
			if rerr != nil {
				errc <- rerr
				return
			}
			vs := strings.Split(resp.Version, ".")
			maj, min := 0, 0
			if len(vs) >= 2 {
				var serr error
				if maj, serr = strconv.Atoi(vs[0]); serr != nil {
					errc <- serr
					return
				}
				if min, serr = strconv.Atoi(vs[1]); serr != nil {
					errc <- serr
					return
				}
			}
			if maj < 3 || (maj == 3 && min < 2) {
				rerr = ErrOldCluster
			}
			errc <- rerr
		}(ep)
	}
	// wait for success
	for range eps {
		if err = <-errc; err == nil {
			break
		}
	}
	cancel()
	wg.Wait()
	return err
}

// ActiveConnection returns the current in-use connection
func (c *Client) ActiveConnection() *grpc.ClientConn { return c.conn }

// isHaltErr returns true if the given error and context indicate no forward
// progress can be made, even after reconnecting.
func isHaltErr(ctx context.Context, err error) bool {
	if ctx != nil && ctx.Err() != nil {
		return true
	}
	if err == nil {
		return false
	}
	ev, _ := status.FromError(err)
	// Unavailable codes mean the system will be right back.
	// (e.g., can't connect, lost leader)
	// Treat Internal codes as if something failed, leaving the
	// system in an inconsistent state, but retrying could make progress.
	// (e.g., failed in middle of send, corrupted frame)
	// TODO: are permanent Internal errors possible from grpc?
	return ev.Code() != codes.Unavailable && ev.Code() != codes.Internal
}

// isUnavailableErr returns true if the given error is an unavailable error
func isUnavailableErr(ctx context.Context, err error) bool {
	if ctx != nil && ctx.Err() != nil {
		return false
	}
	if err == nil {
		return false
	}
	ev, ok := status.FromError(err)
	if ok {
		// Unavailable codes mean the system will be right back.
		// (e.g., can't connect, lost leader)
		return ev.Code() == codes.Unavailable
	}
	return false
}

func toErr(ctx context.Context, err error) error {
	if err == nil {
		return nil
	}
	err = rpctypes.Error(err)
	if _, ok := err.(rpctypes.EtcdError); ok {
		return err
	}
	if ev, ok := status.FromError(err); ok {
		code := ev.Code()
		switch code {
		case codes.DeadlineExceeded:
			fallthrough
		case codes.Canceled:
			if ctx.Err() != nil {
				err = ctx.Err()
			}
		}
	}
	return err
}

func canceledByCaller(stopCtx context.Context, err error) bool {
	if stopCtx.Err() == nil || err == nil {
		return false
	}

	return err == context.Canceled || err == context.DeadlineExceeded
}

// IsConnCanceled returns true, if error is from a closed gRPC connection.
// ref. https://github.com/grpc/grpc-go/pull/1854
func IsConnCanceled(err error) bool {
	if err == nil {
		return false
	}

	// >= gRPC v1.23.x
	s, ok := status.FromError(err)
	if ok {
		// connection is canceled or server has already closed the connection
		return s.Code() == codes.Canceled || s.Message() == "transport is closing"
	}

	// >= gRPC v1.10.x
	if err == context.Canceled {
		return true
	}

	// <= gRPC v1.7.x returns 'errors.New("grpc: the client connection is closing")'
	return strings.Contains(err.Error(), "grpc: the client connection is closing")
}
