// Copyright 2016 The etcd Authors
//
// Licensed under the Apache License, Version 2.0 (the "License");
// you may not use this file except in compliance with the License.
// You may obtain a copy of the License at
//
//     http://www.apache.org/licenses/LICENSE-2.0
//
// Unless required by applicable law or agreed to in writing, software
// distributed under the License is distributed on an "AS IS" BASIS,
// WITHOUT WARRANTIES OR CONDITIONS OF ANY KIND, either express or implied.
// See the License for the specific language governing permissions and
// limitations under the License.

// Based on github.com/grpc-ecosystem/go-grpc-middleware/retry, but modified to support the more
// fine grained error checking required by write-at-most-once retry semantics of etcd.

package clientv3

import (
	"context"
	"io"
	"sync"
	"time"

	"go.etcd.io/etcd/api/v3/v3rpc/rpctypes"
	"go.uber.org/zap"
	"google.golang.org/grpc"
	"google.golang.org/grpc/codes"
	"google.golang.org/grpc/metadata"
	"google.golang.org/grpc/status"
)

// unaryClientInterceptor returns a new retrying unary client interceptor.
//
// The default configuration of the interceptor is to not retry *at all*. This behaviour can be
// changed through options (e.g. WithMax) on creation of the interceptor or on call (through grpc.CallOptions).
func (c *Client) unaryClientInterceptor(optFuncs ...retryOption) grpc.UnaryClientInterceptor {
	intOpts := reuseOrNewWithCallOptions(defaultOptions, optFuncs)
	return func(ctx context.Context, method string, req, reply interface{}, cc *grpc.ClientConn, invoker grpc.UnaryInvoker, opts ...grpc.CallOption) error {
		ctx = withVersion(ctx)
		grpcOpts, retryOpts := filterCallOptions(opts)
		callOpts := reuseOrNewWithCallOptions(intOpts, retryOpts)
		// short circuit for simplicity, and avoiding allocations.
		if callOpts.max == 0 {
			return invoker(ctx, method, req, reply, cc, grpcOpts...)
		}
		var lastErr error
		for attempt := uint(0); attempt < callOpts.max; attempt++ {
			if err := waitRetryBackoff(ctx, attempt, callOpts); err != nil {
				return err
			}
			c.GetLogger().Debug(
				"retrying of unary invoker",
				zap.String("target", cc.Target()),
				zap.Uint("attempt", attempt),
			)
			lastErr = invoker(ctx, method, req, reply, cc, grpcOpts...)
			if lastErr == nil {
				return nil
			}
			c.GetLogger().Warn(
				"retrying of unary invoker failed",
				zap.String("target", cc.Target()),
				zap.Uint("attempt", attempt),
				zap.Error(lastErr),
			)
			if isContextError(lastErr) {
				if ctx.Err() != nil {
					// its the context deadline or cancellation.
					return lastErr
				}
				// its the callCtx deadline or cancellation, in which case try again.
				continue
			}
			if c.shouldRefreshToken(lastErr, callOpts) {
				// clear auth token before refreshing it.
				// call c.Auth.Authenticate with an invalid token will always fail the auth check on the server-side,
				// if the server has not apply the patch of pr #12165 (https://github.com/etcd-io/etcd/pull/12165)
				// and a rpctypes.ErrInvalidAuthToken will recursively call c.getToken until system run out of resource.
				c.authTokenBundle.UpdateAuthToken("")

				gterr := c.getToken(ctx)
				if gterr != nil {
					c.GetLogger().Warn(
						"retrying of unary invoker failed to fetch new auth token",
						zap.String("target", cc.Target()),
						zap.Error(gterr),
					)
					return gterr // lastErr must be invalid auth token
				}
				continue
			}
			if !isSafeRetry(c.lg, lastErr, callOpts) {
				return lastErr
			}
		}
		return lastErr
	}
}

// streamClientInterceptor returns a new retrying stream client interceptor for server side streaming calls.
//
// The default configuration of the interceptor is to not retry *at all*. This behaviour can be
// changed through options (e.g. WithMax) on creation of the interceptor or on call (through grpc.CallOptions).
//
// Retry logic is available *only for ServerStreams*, i.e. 1:n streams, as the internal logic needs
// to buffer the messages sent by the client. If retry is enabled on any other streams (ClientStreams,
// BidiStreams), the retry interceptor will fail the call.
func (c *Client) streamClientInterceptor(optFuncs ...retryOption) grpc.StreamClientInterceptor {
	intOpts := reuseOrNewWithCallOptions(defaultOptions, optFuncs)
	return func(ctx context.Context, desc *grpc.StreamDesc, cc *grpc.ClientConn, method string, streamer grpc.Streamer, opts ...grpc.CallOption) (grpc.ClientStream, error) {
		ctx = withVersion(ctx)
		// getToken automatically
		// TODO(cfc4n): keep this code block, remove codes about getToken in client.go after pr #12165 merged.
		if c.authTokenBundle != nil {
			// equal to c.Username != "" && c.Password != ""
			err := c.getToken(ctx)
			if err != nil && rpctypes.Error(err) != rpctypes.ErrAuthNotEnabled {
				c.GetLogger().Error("clientv3/retry_interceptor: getToken failed", zap.Error(err))
				return nil, err
			}
		}
		grpcOpts, retryOpts := filterCallOptions(opts)
		callOpts := reuseOrNewWithCallOptions(intOpts, retryOpts)
		// short circuit for simplicity, and avoiding allocations.
		if callOpts.max == 0 {
			return streamer(ctx, desc, cc, method, grpcOpts...)
		}
		if desc.ClientStreams {
			return nil, status.Errorf(codes.Unimplemented, "clientv3/retry_interceptor: cannot retry on ClientStreams, set Disable()")
		}
		newStreamer, err := streamer(ctx, desc, cc, method, grpcOpts...)
		if err != nil {
			c.GetLogger().Error("streamer failed to create ClientStream", zap.Error(err))
			return nil, err // TODO(mwitkow): Maybe dial and transport errors should be retriable?
		}
		retryingStreamer := &serverStreamingRetryingStream{
			client:       c,
			ClientStream: newStreamer,
			callOpts:     callOpts,
			ctx:          ctx,
			streamerCall: func(ctx context.Context) (grpc.ClientStream, error) {
				return streamer(ctx, desc, cc, method, grpcOpts...)
			},
		}
		return retryingStreamer, nil
	}
}

// shouldRefreshToken checks whether there's a need to refresh the token based on the error and callOptions,
// and returns a boolean value.
func (c *Client) shouldRefreshToken(err error, callOpts *options) bool {
	if rpctypes.Error(err) == rpctypes.ErrUserEmpty {
		// refresh the token when username, password is present but the server returns ErrUserEmpty
		// which is possible when the client token is cleared somehow
		return c.authTokenBundle != nil // equal to c.Username != "" && c.Password != ""
	}

	return callOpts.retryAuth &&
		(rpctypes.Error(err) == rpctypes.ErrInvalidAuthToken || rpctypes.Error(err) == rpctypes.ErrAuthOldRevision)
}

// type serverStreamingRetryingStream is the implementation of grpc.ClientStream that acts as a
// proxy to the underlying call. If any of the RecvMsg() calls fail, it will try to reestablish
// a new ClientStream according to the retry policy.
type serverStreamingRetryingStream struct {
	grpc.ClientStream
	client        *Client
	bufferedSends []interface{} // single message that the client can sen
	receivedGood  bool          // indicates whether any prior receives were successful
	wasClosedSend bool          // indicates that CloseSend was closed
	ctx           context.Context
	callOpts      *options
	streamerCall  func(ctx context.Context) (grpc.ClientStream, error)
	mu            sync.RWMutex
}

func (s *serverStreamingRetryingStream) setStream(clientStream grpc.ClientStream) {
	s.mu.Lock()
	s.ClientStream = clientStream
	s.mu.Unlock()
}

func (s *serverStreamingRetryingStream) getStream() grpc.ClientStream {
	s.mu.RLock()
	defer s.mu.RUnlock()
	return s.ClientStream
}

func (s *serverStreamingRetryingStream) SendMsg(m interface{}) error {
	s.mu.Lock()
	s.bufferedSends = append(s.bufferedSends, m)
	s.mu.Unlock()
	return s.getStream().SendMsg(m)
}

func (s *serverStreamingRetryingStream) CloseSend() error {
	s.mu.Lock()
	s.wasClosedSend = true
	s.mu.Unlock()
	return s.getStream().CloseSend()
}

func (s *serverStreamingRetryingStream) Header() (metadata.MD, error) {
	return s.getStream().Header()
}

func (s *serverStreamingRetryingStream) Trailer() metadata.MD {
	return s.getStream().Trailer()
}

func (s *serverStreamingRetryingStream) RecvMsg(m interface{}) error {
	attemptRetry, lastErr := s.receiveMsgAndIndicateRetry(m)
	if !attemptRetry {
		return lastErr // success or hard failure
	}

	// We start off from attempt 1, because zeroth was already made on normal SendMsg().
	for attempt := uint(1); attempt < s.callOpts.max; attempt++ {
		if err := waitRetryBackoff(s.ctx, attempt, s.callOpts); err != nil {
			return err
		}
		newStream, err := s.reestablishStreamAndResendBuffer(s.ctx)
		if err != nil {
			s.client.lg.Error("failed reestablishStreamAndResendBuffer", zap.Error(err))
			return err // TODO(mwitkow): Maybe dial and transport errors should be retriable?
		}
		s.setStream(newStream)

		s.client.lg.Warn("retrying RecvMsg", zap.Error(lastErr))
		attemptRetry, lastErr = s.receiveMsgAndIndicateRetry(m)
		if !attemptRetry {
			return lastErr
		}
	}
	return lastErr
}

func (s *serverStreamingRetryingStream) receiveMsgAndIndicateRetry(m interface{}) (bool, error) {
	s.mu.RLock()
	wasGood := s.receivedGood
	s.mu.RUnlock()
	err := s.getStream().RecvMsg(m)
	if err == nil || err == io.EOF {
		s.mu.Lock()
		s.receivedGood = true
		s.mu.Unlock()
		return false, err
	} else if wasGood {
		// previous RecvMsg in the stream succeeded, no retry logic should interfere
		return false, err
	}
	if isContextError(err) {
		if s.ctx.Err() != nil {
			return false, err
		}
		// its the callCtx deadline or cancellation, in which case try again.
		return true, err
	}
	if s.client.shouldRefreshToken(err, s.callOpts) {
		// clear auth token to avoid failure when call getToken
		s.client.authTokenBundle.UpdateAuthToken("")

		gterr := s.client.getToken(s.ctx)
		if gterr != nil {
			s.client.lg.Warn("retry failed to fetch new auth token", zap.Error(gterr))
			return false, err // return the original error for simplicity
		}
		return true, err

	}
	return isSafeRetry(s.client.lg, err, s.callOpts), err
}

func (s *serverStreamingRetryingStream) reestablishStreamAndResendBuffer(callCtx context.Context) (grpc.ClientStream, error) {
	s.mu.RLock()
	bufferedSends := s.bufferedSends
	s.mu.RUnlock()
	newStream, err := s.streamerCall(callCtx)
	if err != nil {
		return nil, err
	}
	for _, msg := range bufferedSends {
		if err := newStream.SendMsg(msg); err != nil {
			return nil, err
		}
	}
	if err := newStream.CloseSend(); err != nil {
		return nil, err
	}
	return newStream, nil
}

func waitRetryBackoff(ctx context.Context, attempt uint, callOpts *options) error {
	waitTime := time.Duration(0)
	if attempt > 0 {
		waitTime = callOpts.backoffFunc(attempt)
	}
	if waitTime > 0 {
		timer := time.NewTimer(waitTime)
		select {
		case <-ctx.Done():
			timer.Stop()
			return contextErrToGrpcErr(ctx.Err())
		case <-timer.C:
		}
	}
	return nil
}

// isSafeRetry returns "true", if request is safe for retry with the given error.
func isSafeRetry(lg *zap.Logger, err error, callOpts *options) bool {
	if isContextError(err) {
		return false
	}
	switch callOpts.retryPolicy {
	case repeatable:
		return isSafeRetryImmutableRPC(err)
	case nonRepeatable:
		return isSafeRetryMutableRPC(err)
	default:
		lg.Warn("unrecognized retry policy", zap.String("retryPolicy", callOpts.retryPolicy.String()))
		return false
	}
}

func isContextError(err error) bool {
	return status.Code(err) == codes.DeadlineExceeded || status.Code(err) == codes.Canceled
}

func contextErrToGrpcErr(err error) error {
	switch err {
	case context.DeadlineExceeded:
		return status.Errorf(codes.DeadlineExceeded, err.Error())
	case context.Canceled:
		return status.Errorf(codes.Canceled, err.Error())
	default:
		return status.Errorf(codes.Unknown, err.Error())
	}
}

var (
	defaultOptions = &options{
		retryPolicy: nonRepeatable,
		max:         0, // disable
		backoffFunc: backoffLinearWithJitter(50*time.Millisecond /*jitter*/, 0.10),
		retryAuth:   true,
	}
)

// backoffFunc denotes a family of functions that control the backoff duration between call retries.
//
// They are called with an identifier of the attempt, and should return a time the system client should
// hold off for. If the time returned is longer than the `context.Context.Deadline` of the request
// the deadline of the request takes precedence and the wait will be interrupted before proceeding
// with the next iteration.
type backoffFunc func(attempt uint) time.Duration

// withRetryPolicy sets the retry policy of this call.
func withRetryPolicy(rp retryPolicy) retryOption {
	return retryOption{applyFunc: func(o *options) {
		o.retryPolicy = rp
	}}
}

// withMax sets the maximum number of retries on this call, or this interceptor.
func withMax(maxRetries uint) retryOption {
	return retryOption{applyFunc: func(o *options) {
		o.max = maxRetries
	}}
}

// WithBackoff sets the `BackoffFunc `used to control time between retries.
func withBackoff(bf backoffFunc) retryOption {
	return retryOption{applyFunc: func(o *options) {
		o.backoffFunc = bf
	}}
}

type options struct {
	retryPolicy retryPolicy
	max         uint
	backoffFunc backoffFunc
	retryAuth   bool
}

// retryOption is a grpc.CallOption that is local to clientv3's retry interceptor.
type retryOption struct {
	grpc.EmptyCallOption // make sure we implement private after() and before() fields so we don't panic.
	applyFunc            func(opt *options)
}

func reuseOrNewWithCallOptions(opt *options, retryOptions []retryOption) *options {
	if len(retryOptions) == 0 {
		return opt
	}
	optCopy := &options{}
	*optCopy = *opt
	for _, f := range retryOptions {
		f.applyFunc(optCopy)
	}
	return optCopy
}

func filterCallOptions(callOptions []grpc.CallOption) (grpcOptions []grpc.CallOption, retryOptions []retryOption) {
	for _, opt := range callOptions {
		if co, ok := opt.(retryOption); ok {
			retryOptions = append(retryOptions, co)
		} else {
			grpcOptions = append(grpcOptions, opt)
		}
	}
	return grpcOptions, retryOptions
}

// BackoffLinearWithJitter waits a set period of time, allowing for jitter (fractional adjustment).
//
// For example waitBetween=1s and jitter=0.10 can generate waits between 900ms and 1100ms.
func backoffLinearWithJitter(waitBetween time.Duration, jitterFraction float64) backoffFunc {
	return func(attempt uint) time.Duration {
		return jitterUp(waitBetween, jitterFraction)
	}
}
