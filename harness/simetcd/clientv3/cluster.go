// Copyright 2016 The etcd Authors
//
// Licensed under the Apache License, Version 2.0 (the "License");
// you may not use this file except in compliance with the License.
// You may obtain a copy of the License at
//
//     http://www.apache.org/licenses/LICENSE-2.0
//
// Unless required by applicable law or agreed to in writing, software
// distributed under the License is distributed on an "AS IS" BASIS,
// WITHOUT WARRANTIES OR CONDITIONS OF ANY KIND, either express or implied.
// See the License for the specific language governing permissions and
// limitations under the License.

package clientv3

import (
	"context"

	pb "go.etcd.io/etcd/api/v3/etcdserverpb"
	"go.etcd.io/etcd/client/pkg/v3/types"

	"google.golang.org/grpc"
)

type (
	Member                pb.Member
	MemberListResponse    pb.MemberListResponse
	MemberAddResponse     pb.MemberAddResponse
	MemberRemoveResponse  pb.MemberRemoveResponse
	MemberUpdateResponse  pb.MemberUpdateResponse
	MemberPromoteResponse pb.MemberPromoteResponse
)

type Cluster interface {
	// MemberList lists the current cluster membership.
	MemberList(ctx context.Context) (*MemberListResponse, error)

	// MemberAdd adds a new member into the cluster.
	MemberAdd(ctx context.Context, peerAddrs []string) (*MemberAddResponse, error)

	// MemberAddAsLearner adds a new learner member into the cluster.
	MemberAddAsLearner(ctx context.Context, peerAddrs []string) (*MemberAddResponse, error)

	// MemberRemove removes an existing member from the cluster.
	MemberRemove(ctx context.Context, id uint64) (*MemberRemoveResponse, error)

	// MemberUpdate updates the peer addresses of the member.
	MemberUpdate(ctx context.Context, id uint64, peerAddrs []string) (*MemberUpdateResponse, error)

	// MemberPromote promotes a member from raft learner (non-voting) to raft voting member.
	MemberPromote(ctx context.Context, id uint64) (*MemberPromoteResponse, error)
}

type cluster struct {
	remote   pb.ClusterClient
	callOpts []grpc.CallOption
}

func NewCluster(c *Client) Cluster {
	api := &cluster{remote: RetryClusterClient(c)}
	if c != nil {
		api.callOpts = c.callOpts
	}
	return api
}

func NewClusterFromClusterClient(remote pb.ClusterClient, c *Client) Cluster {
	api := &cluster{remote: remote}
	if c != nil {
		api.callOpts = c.callOpts
	}
	return api
}

func (c *cluster) MemberAdd(ctx context.Context, peerAddrs []string) (*MemberAddResponse, error) {
	return c.memberAdd(ctx, peerAddrs, false)
}

func (c *cluster) MemberAddAsLearner(ctx context.Context, peerAddrs []string) (*MemberAddResponse, error) {
	return c.memberAdd(ctx, peerAddrs, true)
}

func (c *cluster) memberAdd(ctx context.Context, peerAddrs []string, isLearner bool) (*MemberAddResponse, error) {
	// fail-fast before panic in rafthttp
	if _, err := types.NewURLs(peerAddrs); err != nil {
		return nil, err
	}

	r := &pb.MemberAddRequest{
		PeerURLs:  peerAddrs,
		IsLearner: isLearner,
	}
	resp, err := c.remote.MemberAdd(ctx, r, c.callOpts...)
	if err != nil {
		return nil, toErr(ctx, err)
	}
	return (*MemberAddResponse)(resp), nil
}

func (c *cluster) MemberRemove(ctx context.Context, id uint64) (*MemberRemoveResponse, error) {
	r := &pb.MemberRemoveRequest{ID: id}
	resp, err := c.remote.MemberRemove(ctx, r, c.callOpts...)
	if err != nil {
		return nil, toErr(ctx, err)
	}
	return (*MemberRemoveResponse)(resp), nil
}

func (c *cluster) MemberUpdate(ctx context.Context, id uint64, peerAddrs []string) (*MemberUpdateResponse, error) {
	// fail-fast before panic in rafthttp
	if _, err := types.NewURLs(peerAddrs); err != nil {
		return nil, err
	}

	// it is safe to retry on update.
	r := &pb.MemberUpdateRequest{ID: id, PeerURLs: peerAddrs}
	resp, err := c.remote.MemberUpdate(ctx, r, c.callOpts...)
	if err == nil {
		return (*MemberUpdateResponse)(resp), nil
	}
	return nil, toErr(ctx, err)
}

func (c *cluster) MemberList(ctx context.Context) (*MemberListResponse, error) {
	// it is safe to retry on list.
	resp, err := c.remote.MemberList(ctx, &pb.MemberListRequest{Linearizable: true}, c.callOpts...)
	if err == nil {
		return (*MemberListResponse)(resp), nil
	}
	return nil, toErr(ctx, err)
}

func (c *cluster) MemberPromote(ctx context.Context, id uint64) (*MemberPromoteResponse, error) {
	r := &pb.MemberPromoteRequest{ID: id}
	resp, err := c.remote.MemberPromote(ctx, r, c.callOpts...)
	if err != nil {
		return nil, toErr(ctx, err)
	}
	return (*MemberPromoteResponse)(resp), nil
}
