// Copyright 2016 The etcd Authors
//
// Licensed under the Apache License, Version 2.0 (the "License");
// you may not use this file except in compliance with the License.
// You may obtain a copy of the License at
//
//     http://www.apache.org/licenses/LICENSE-2.0
//
// Unless required by applicable law or agreed to in writing, software
// distributed under the License is distributed on an "AS IS" BASIS,
// WITHOUT WARRANTIES OR CONDITIONS OF ANY KIND, either express or implied.
// See the License for the specific language governing permissions and
// limitations under the License.

package clientv3

import (
	"log"
	"os"

	"go.etcd.io/etcd/client/pkg/v3/logutil"
	"go.uber.org/zap/zapcore"
	"go.uber.org/zap/zapgrpc"
	"google.golang.org/grpc/grpclog"
)

func init() {
	// We override grpc logger only when the environment variable is set
	// in order to not interfere by default with user's code or other libraries.
	if os.Getenv("ETCD_CLIENT_DEBUG") != "" {
		lg, err := logutil.CreateDefaultZapLogger(etcdClientDebugLevel())
		if err != nil {
			panic(err)
		}
		lg = lg.Named("etcd-client")
		grpclog.SetLoggerV2(zapgrpc.NewLogger(lg))
	}
}

// SetLogger sets grpc logger.
//
// Deprecated: use grpclog.SetLoggerV2 directly or grpc_zap.ReplaceGrpcLoggerV2.
func SetLogger(l grpclog.LoggerV2) {
	grpclog.SetLoggerV2(l)
}

// etcdClientDebugLevel translates ETCD_CLIENT_DEBUG into zap log level.
func etcdClientDebugLevel() zapcore.Level {
	envLevel := os.Getenv("ETCD_CLIENT_DEBUG")
	if envLevel == "" || envLevel == "true" {
		return zapcore.InfoLevel
	}
	var l zapcore.Level
	if err := l.Set(envLevel); err == nil {
		log.Printf("Deprecated env ETCD_CLIENT_DEBUG value. Using default level: 'info'")
		return zapcore.InfoLevel
	}
	return l
}
