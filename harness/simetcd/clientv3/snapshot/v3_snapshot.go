// Copyright 2018 The etcd Authors
//
// Licensed under the Apache License, Version 2.0 (the "License");
// you may not use this file except in compliance with the License.
// You may obtain a copy of the License at
//
//     http://www.apache.org/licenses/LICENSE-2.0
//
// Unless required by applicable law or agreed to in writing, software
// distributed under the License is distributed on an "AS IS" BASIS,
// WITHOUT WARRANTIES OR CONDITIONS OF ANY KIND, either express or implied.
// See the License for the specific language governing permissions and
// limitations under the License.

package snapshot

import (
	"context"
	"crypto/sha256"
	"fmt"
	"io"
	"os"
	"time"

	"github.com/dustin/go-humanize"
	"go.etcd.io/etcd/client/pkg/v3/fileutil"
	"go.etcd.io/etcd/client/v3"
	"go.uber.org/zap"
)

// hasChecksum returns "true" if the file size "n"
// has appended sha256 hash digest.
func hasChecksum(n int64) bool {
	// 512 is chosen because it's a minimum disk sector size
	// smaller than (and multiplies to) OS page size in most systems
	return (n % 512) == sha256.Size
}

// Save fetches snapshot from remote etcd server and saves data
// to target path. If the context "ctx" is canceled or timed out,
// snapshot save stream will error out (e.g. context.Canceled,
// context.DeadlineExceeded). Make sure to specify only one endpoint
// in client configuration. Snapshot API must be requested to a
// selected node, and saved snapshot is the point-in-time state of
// the selected node.
func Save(ctx context.Context, lg *zap.Logger, cfg clientv3.Config, dbPath string) error {
	cfg.Logger = lg.Named("client")
	if len(cfg.Endpoints) != 1 {
		return fmt.Errorf("snapshot must be requested to one selected node, not multiple %v", cfg.Endpoints)
	}
	cli, err := clientv3.New(cfg)
	if err != nil {
		return err
	}
	defer cli.Close()

	partpath := dbPath + ".part"
	defer os.RemoveAll(partpath)

	var f *os.File
	f, err = os.OpenFile(partpath, os.O_WRONLY|os.O_CREATE|os.O_TRUNC, fileutil.PrivateFileMode)
	if err != nil {
		return fmt.Errorf("could not open %s (%v)", partpath, err)
	}
	lg.Info("created temporary db file", zap.String("path", partpath))

	now := time.Now()
	var rd io.ReadCloser
	rd, err = cli.Snapshot(ctx)
	if err != nil {
		return err
	}
	lg.Info("fetching snapshot", zap.String("endpoint", cfg.Endpoints[0]))
	var size int64
	size, err = io.Copy(f, rd)
	if err != nil {
		return err
	}
	if !hasChecksum(size) {
		return fmt.Errorf("sha256 checksum not found [bytes: %d]", size)
	}
	if err = fileutil.Fsync(f); err != nil {
		return err
	}
	if err = f.Close(); err != nil {
		return err
	}
	lg.Info("fetched snapshot",
		zap.String("endpoint", cfg.Endpoints[0]),
		zap.String("size", humanize.Bytes(uint64(size))),
		zap.String("took", humanize.Time(now)),
	)

	if err = os.Rename(partpath, dbPath); err != nil {
		return fmt.Errorf("could not rename %s to %s (%v)", partpath, dbPath, err)
	}
	lg.Info("saved", zap.String("path", dbPath))
	return nil
}
