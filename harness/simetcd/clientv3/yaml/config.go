// Copyright 2017 The etcd Authors
//
// Licensed under the Apache License, Version 2.0 (the "License");
// you may not use this file except in compliance with the License.
// You may obtain a copy of the License at
//
//     http://www.apache.org/licenses/LICENSE-2.0
//
// Unless required by applicable law or agreed to in writing, software
// distributed under the License is distributed on an "AS IS" BASIS,
// WITHOUT WARRANTIES OR CONDITIONS OF ANY KIND, either express or implied.
// See the License for the specific language governing permissions and
// limitations under the License.

// Package yaml handles yaml-formatted clientv3 configuration data.
package yaml

import (
	"crypto/tls"
	"crypto/x509"
	"io/ioutil"

	"sigs.k8s.io/yaml"

	"go.etcd.io/etcd/client/pkg/v3/tlsutil"
	"go.etcd.io/etcd/client/v3"
)

type yamlConfig struct {
	clientv3.Config

	InsecureTransport     bool   `json:"insecure-transport"`
	InsecureSkipTLSVerify bool   `json:"insecure-skip-tls-verify"`
	Certfile              string `json:"cert-file"`
	Keyfile               string `json:"key-file"`
	TrustedCAfile         string `json:"trusted-ca-file"`

	// CAfile is being deprecated. Use 'TrustedCAfile' instead.
	// TODO: deprecate this in v4
	CAfile string `json:"ca-file"`
}

// NewConfig creates a new clientv3.Config from a yaml file.
func NewConfig(fpath string) (*clientv3.Config, error) {
	b, err := ioutil.ReadFile(fpath)
	if err != nil {
		return nil, err
	}

	yc := &yamlConfig{}

	err = yaml.Unmarshal(b, yc)
	if err != nil {
		return nil, err
	}

	if yc.InsecureTransport {
		return &yc.Config, nil
	}

	var (
		cert *tls.Certificate
		cp   *x509.CertPool
	)

	if yc.Certfile != "" && yc.Keyfile != "" {
		cert, err = tlsutil.NewCert(yc.Certfile, yc.Keyfile, nil)
		if err != nil {
			return nil, err
		}
	}

	if yc.TrustedCAfile != "" {
		cp, err = tlsutil.NewCertPool([]string{yc.TrustedCAfile})
		if err != nil {
			return nil, err
		}
	}

	tlscfg := &tls.Config{
		MinVersion:         tls.VersionTLS12,
		InsecureSkipVerify: yc.InsecureSkipTLSVerify,
		RootCAs:            cp,
	}
	if cert != nil {
		tlscfg.Certificates = []tls.Certificate{*cert}
	}
	yc.Config.TLS = tlscfg

	return &yc.Config, nil
}
