// Copyright 2015 The etcd Authors
//
// Licensed under the Apache License, Version 2.0 (the "License");
// you may not use this file except in compliance with the License.
// You may obtain a copy of the License at
//
//     http://www.apache.org/licenses/LICENSE-2.0
//
// Unless required by applicable law or agreed to in writing, software
// distributed under the License is distributed on an "AS IS" BASIS,
// WITHOUT WARRANTIES OR CONDITIONS OF ANY KIND, either express or implied.
// See the License for the specific language governing permissions and
// limitations under the License.

package clientv3

import (
	"context"

	pb "go.etcd.io/etcd/api/v3/etcdserverpb"

	"google.golang.org/grpc"
)

type (
	CompactResponse pb.CompactionResponse
	PutResponse     pb.PutResponse
	GetResponse     pb.RangeResponse
	DeleteResponse  pb.DeleteRangeResponse
	TxnResponse     pb.TxnResponse
)

type KV interface {
	// Put puts a key-value pair into etcd.
	// Note that key,value can be plain bytes array and string is
	// an immutable representation of that bytes array.
	// To get a string of bytes, do string([]byte{0x10, 0x20}).
	Put(ctx context.Context, key, val string, opts ...OpOption) (*PutResponse, error)

	// Get retrieves keys.
	// By default, Get will return the value for "key", if any.
	// When passed WithRange(end), Get will return the keys in the range [key, end).
	// When passed WithFromKey(), Get returns keys greater than or equal to key.
	// When passed WithRev(rev) with rev > 0, Get retrieves keys at the given revision;
	// if the required revision is compacted, the request will fail with ErrCompacted .
	// When passed WithLimit(limit), the number of returned keys is bounded by limit.
	// When passed WithSort(), the keys will be sorted.
	Get(ctx context.Context, key string, opts ...OpOption) (*GetResponse, error)

	// Delete deletes a key, or optionally using WithRange(end), [key, end).
	Delete(ctx context.Context, key string, opts ...OpOption) (*DeleteResponse, error)

	// Compact compacts etcd KV history before the given rev.
	Compact(ctx context.Context, rev int64, opts ...CompactOption) (*CompactResponse, error)

	// Do applies a single Op on KV without a transaction.
	// Do is useful when creating arbitrary operations to be issued at a
	// later time; the user can range over the operations, calling Do to
	// execute them. Get/Put/Delete, on the other hand, are best suited
	// for when the operation should be issued at the time of declaration.
	Do(ctx context.Context, op Op) (OpResponse, error)

	// Txn creates a transaction.
	Txn(ctx context.Context) Txn
}

type OpResponse struct {
	put *PutResponse
	get *GetResponse
	del *DeleteResponse
	txn *TxnResponse
}

func (op OpResponse) Put() *PutResponse    { return op.put }
func (op OpResponse) Get() *GetResponse    { return op.get }
func (op OpResponse) Del() *DeleteResponse { return op.del }
func (op OpResponse) Txn() *TxnResponse    { return op.txn }

func (resp *PutResponse) OpResponse() OpResponse {
	return OpResponse{put: resp}
}
func (resp *GetResponse) OpResponse() OpResponse {
	return OpResponse{get: resp}
}
func (resp *DeleteResponse) OpResponse() OpResponse {
	return OpResponse{del: resp}
}
func (resp *TxnResponse) OpResponse() OpResponse {
	return OpResponse{txn: resp}
}

type kv struct {
	remote   pb.KVClient
	callOpts []grpc.CallOption
}

func NewKV(c *Client) KV {
	api := &kv{remote: RetryKVClient(c)}
	if c != nil {
		api.callOpts = c.callOpts
	}
	return api
}

func NewKVFromKVClient(remote pb.KVClient, c *Client) KV {
	api := &kv{remote: remote}
	if c != nil {
		api.callOpts = c.callOpts
	}
	return api
}

func (kv *kv) Put(ctx context.Context, key, val string, opts ...OpOption) (*PutResponse, error) {
	r, err := kv.Do(ctx, OpPut(key, val, opts...))
	return r.put, toErr(ctx, err)
}

func (kv *kv) Get(ctx context.Context, key string, opts ...OpOption) (*GetResponse, error) {
	r, err := kv.Do(ctx, OpGet(key, opts...))
	return r.get, toErr(ctx, err)
}

func (kv *kv) Delete(ctx context.Context, key string, opts ...OpOption) (*DeleteResponse, error) {
	r, err := kv.Do(ctx, OpDelete(key, opts...))
	return r.del, toErr(ctx, err)
}

func (kv *kv) Compact(ctx context.Context, rev int64, opts ...CompactOption) (*CompactResponse, error) {
	resp, err := kv.remote.Compact(ctx, OpCompact(rev, opts...).toRequest(), kv.callOpts...)
	if err != nil {
		return nil, toErr(ctx, err)
	}
	return (*CompactResponse)(resp), err
}

func (kv *kv) Txn(ctx context.Context) Txn {
	return &txn{
		kv:       kv,
		ctx:      ctx,
		callOpts: kv.callOpts,
	}
}

func (kv *kv) Do(ctx context.Context, op Op) (OpResponse, error) {
	var err error
	switch op.t {
	case tRange:
		var resp *pb.RangeResponse
		resp, err = kv.remote.Range(ctx, op.toRangeRequest(), kv.callOpts...)
		if err == nil {
			return OpResponse{get: (*GetResponse)(resp)}, nil
		}
	case tPut:
		var resp *pb.PutResponse
		r := &pb.PutRequest{Key: op.key, Value: op.val, Lease: int64(op.leaseID), PrevKv: op.prevKV, IgnoreValue: op.ignoreValue, IgnoreLease: op.ignoreLease}
		resp, err = kv.remote.Put(ctx, r, kv.callOpts...)
		if err == nil {
			return OpResponse{put: (*PutResponse)(resp)}, nil
		}
	case tDeleteRange:
		var resp *pb.DeleteRangeResponse
		r := &pb.DeleteRangeRequest{Key: op.key, RangeEnd: op.end, PrevKv: op.prevKV}
		resp, err = kv.remote.DeleteRange(ctx, r, kv.callOpts...)
		if err == nil {
			return OpResponse{del: (*DeleteResponse)(resp)}, nil
		}
	case tTxn:
		var resp *pb.TxnResponse
		resp, err = kv.remote.Txn(ctx, op.toTxnRequest(), kv.callOpts...)
		if err == nil {
			return OpResponse{txn: (*TxnResponse)(resp)}, nil
		}
	default:
		panic("Unknown op")
	}
	return OpResponse{}, toErr(ctx, err)
}
