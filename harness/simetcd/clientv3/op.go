// Copyright 2016 The etcd Authors
//
// Licensed under the Apache License, Version 2.0 (the "License");
// you may not use this file except in compliance with the License.
// You may obtain a copy of the License at
//
//     http://www.apache.org/licenses/LICENSE-2.0
//
// Unless required by applicable law or agreed to in writing, software
// distributed under the License is distributed on an "AS IS" BASIS,
// WITHOUT WARRANTIES OR CONDITIONS OF ANY KIND, either express or implied.
// See the License for the specific language governing permissions and
// limitations under the License.

package clientv3

import pb "go.etcd.io/etcd/api/v3/etcdserverpb"

type opType int

const (
	// A default Op has opType 0, which is invalid.
	tRange opType = iota + 1
	tPut
	tDeleteRange
	tTxn
)

var noPrefixEnd = []byte{0}

// Op represents an Operation that kv can execute.
type Op struct {
	t   opType
	key []byte
	end []byte

	// for range
	limit        int64
	sort         *SortOption
	serializable bool
	keysOnly     bool
	countOnly    bool
	minModRev    int64
	maxModRev    int64
	minCreateRev int64
	maxCreateRev int64

	// for range, watch
	rev int64

	// for watch, put, delete
	prevKV bool

	// for watch
	// fragmentation should be disabled by default
	// if true, split watch events when total exceeds
	// "--max-request-bytes" flag value + 512-byte
	fragment bool

	// for put
	ignoreValue bool
	ignoreLease bool

	// progressNotify is for progress updates.
	progressNotify bool
	// createdNotify is for created event
	createdNotify bool
	// filters for watchers
	filterPut    bool
	filterDelete bool

	// for put
	val     []byte
	leaseID LeaseID

	// txn
	cmps    []Cmp
	thenOps []Op
	elseOps []Op

	isOptsWithFromKey bool
	isOptsWithPrefix  bool
}

// accessors / mutators

// IsTxn returns true if the "Op" type is transaction.
func (op Op) IsTxn() bool {
	return op.t == tTxn
}

// Txn returns the comparison(if) operations, "then" operations, and "else" operations.
func (op Op) Txn() ([]Cmp, []Op, []Op) {
	return op.cmps, op.thenOps, op.elseOps
}

// KeyBytes returns the byte slice holding the Op's key.
func (op Op) KeyBytes() []byte { return op.key }

// WithKeyBytes sets the byte slice for the Op's key.
func (op *Op) WithKeyBytes(key []byte) { op.key = key }

// RangeBytes returns the byte slice holding with the Op's range end, if any.
func (op Op) RangeBytes() []byte { return op.end }

// Rev returns the requested revision, if any.
func (op Op) Rev() int64 { return op.rev }

// IsPut returns true iff the operation is a Put.
func (op Op) IsPut() bool { return op.t == tPut }

// IsGet returns true iff the operation is a Get.
func (op Op) IsGet() bool { return op.t == tRange }

// IsDelete returns true iff the operation is a Delete.
func (op Op) IsDelete() bool { return op.t == tDeleteRange }

// IsSerializable returns true if the serializable field is true.
func (op Op) IsSerializable() bool { return op.serializable }

// IsKeysOnly returns whether keysOnly is set.
func (op Op) IsKeysOnly() bool { return op.keysOnly }

// IsCountOnly returns whether countOnly is set.
func (op Op) IsCountOnly() bool { return op.countOnly }

// MinModRev returns the operation's minimum modify revision.
func (op Op) MinModRev() int64 { return op.minModRev }

// MaxModRev returns the operation's maximum modify revision.
func (op Op) MaxModRev() int64 { return op.maxModRev }

// MinCreateRev returns the operation's minimum create revision.
func (op Op) MinCreateRev() int64 { return op.minCreateRev }

// MaxCreateRev returns the operation's maximum create revision.
func (op Op) MaxCreateRev() int64 { return op.maxCreateRev }

// WithRangeBytes sets the byte slice for the Op's range end.
func (op *Op) WithRangeBytes(end []byte) { op.end = end }

// ValueBytes returns the byte slice holding the Op's value, if any.
func (op Op) ValueBytes() []byte { return op.val }

// WithValueBytes sets the byte slice for the Op's value.
func (op *Op) WithValueBytes(v []byte) { op.val = v }

func (op Op) toRangeRequest() *pb.RangeRequest {
	if op.t != tRange {
		panic("op.t != tRange")
	}
	r := &pb.RangeRequest{
		Key:               op.key,
		RangeEnd:          op.end,
		Limit:             op.limit,
		Revision:          op.rev,
		Serializable:      op.serializable,
		KeysOnly:          op.keysOnly,
		CountOnly:         op.countOnly,
		MinModRevision:    op.minModRev,
		MaxModRevision:    op.maxModRev,
		MinCreateRevision: op.minCreateRev,
		MaxCreateRevision: op.maxCreateRev,
	}
	if op.sort != nil {
		r.SortOrder = pb.RangeRequest_SortOrder(op.sort.Order)
		r.SortTarget = pb.RangeRequest_SortTarget(op.sort.Target)
	}
	return r
}

func (op Op) toTxnRequest() *pb.TxnRequest {
	thenOps := make([]*pb.RequestOp, len(op.thenOps))
	for i, tOp := range op.thenOps {
		thenOps[i] = tOp.toRequestOp()
	}
	elseOps := make([]*pb.RequestOp, len(op.elseOps))
	for i, eOp := range op.elseOps {
		elseOps[i] = eOp.toRequestOp()
	}
	cmps := make([]*pb.Compare, len(op.cmps))
	for i := range op.cmps {
		cmps[i] = (*pb.Compare)(&op.cmps[i])
	}
	return &pb.TxnRequest{Compare: cmps, Success: thenOps, Failure: elseOps}
}

func (op Op) toRequestOp() *pb.RequestOp {
	switch op.t {
	case tRange:
		return &pb.RequestOp{Request: &pb.RequestOp_RequestRange{RequestRange: op.toRangeRequest()}}
	case tPut:
		r := &pb.PutRequest{Key: op.key, Value: op.val, Lease: int64(op.leaseID), PrevKv: op.prevKV, IgnoreValue: op.ignoreValue, IgnoreLease: op.ignoreLease}
		return &pb.RequestOp{Request: &pb.RequestOp_RequestPut{RequestPut: r}}
	case tDeleteRange:
		r := &pb.DeleteRangeRequest{Key: op.key, RangeEnd: op.end, PrevKv: op.prevKV}
		return &pb.RequestOp{Request: &pb.RequestOp_RequestDeleteRange{RequestDeleteRange: r}}
	case tTxn:
		return &pb.RequestOp{Request: &pb.RequestOp_RequestTxn{RequestTxn: op.toTxnRequest()}}
	default:
		panic("Unknown Op")
	}
}

func (op Op) isWrite() bool {
	if op.t == tTxn {
		for _, tOp := range op.thenOps {
			if tOp.isWrite() {
				return true
			}
		}
		for _, tOp := range op.elseOps {
			if tOp.isWrite() {
				return true
			}
		}
		return false
	}
	return op.t != tRange
}

func NewOp() *Op {
	return &Op{key: []byte("")}
}

// OpGet returns "get" operation based on given key and operation options.
func OpGet(key string, opts ...OpOption) Op {
	// WithPrefix and WithFromKey are not supported together
	if IsOptsWithPrefix(opts) && IsOptsWithFromKey(opts) {
		panic("`WithPrefix` and `WithFromKey` cannot be set at the same time, choose one")
	}
	ret := Op{t: tRange, key: []byte(key)}
	ret.applyOpts(opts)
	return ret
}

// OpDelete returns "delete" operation based on given key and operation options.
func OpDelete(key string, opts ...OpOption) Op {
	// WithPrefix and WithFromKey are not supported together
	if IsOptsWithPrefix(opts) && IsOptsWithFromKey(opts) {
		panic("`WithPrefix` and `WithFromKey` cannot be set at the same time, choose one")
	}
	ret := Op{t: tDeleteRange, key: []byte(key)}
	ret.applyOpts(opts)
	switch {
	case ret.leaseID != 0:
		panic("unexpected lease in delete")
	case ret.limit != 0:
		panic("unexpected limit in delete")
	case ret.rev != 0:
		panic("unexpected revision in delete")
	case ret.sort != nil:
		panic("unexpected sort in delete")
	case ret.serializable:
		panic("unexpected serializable in delete")
	case ret.countOnly:
		panic("unexpected countOnly in delete")
	case ret.minModRev != 0, ret.maxModRev != 0:
		panic("unexpected mod revision filter in delete")
	case ret.minCreateRev != 0, ret.maxCreateRev != 0:
		panic("unexpected create revision filter in delete")
	case ret.filterDelete, ret.filterPut:
		panic("unexpected filter in delete")
	case ret.createdNotify:
		panic("unexpected createdNotify in delete")
	}
	return ret
}

// OpPut returns "put" operation based on given key-value and operation options.
func OpPut(key, val string, opts ...OpOption) Op {
	ret := Op{t: tPut, key: []byte(key), val: []byte(val)}
	ret.applyOpts(opts)
	switch {
	case ret.end != nil:
		panic("unexpected range in put")
	case ret.limit != 0:
		panic("unexpected limit in put")
	case ret.rev != 0:
		panic("unexpected revision in put")
	case ret.sort != nil:
		panic("unexpected sort in put")
	case ret.serializable:
		panic("unexpected serializable in put")
	case ret.countOnly:
		panic("unexpected countOnly in put")
	case ret.minModRev != 0, ret.maxModRev != 0:
		panic("unexpected mod revision filter in put")
	case ret.minCreateRev != 0, ret.maxCreateRev != 0:
		panic("unexpected create revision filter in put")
	case ret.filterDelete, ret.filterPut:
		panic("unexpected filter in put")
	case ret.createdNotify:
		panic("unexpected createdNotify in put")
	}
	return ret
}

// OpTxn returns "txn" operation based on given transaction conditions.
func OpTxn(cmps []Cmp, thenOps []Op, elseOps []Op) Op {
	return Op{t: tTxn, cmps: cmps, thenOps: thenOps, elseOps: elseOps}
}

func opWatch(key string, opts ...OpOption) Op {
	ret := Op{t: tRange, key: []byte(key)}
	ret.applyOpts(opts)
	switch {
	case ret.leaseID != 0:
		panic("unexpected lease in watch")
	case ret.limit != 0:
		panic("unexpected limit in watch")
	case ret.sort != nil:
		panic("unexpected sort in watch")
	case ret.serializable:
		panic("unexpected serializable in watch")
	case ret.countOnly:
		panic("unexpected countOnly in watch")
	case ret.minModRev != 0, ret.maxModRev != 0:
		panic("unexpected mod revision filter in watch")
	case ret.minCreateRev != 0, ret.maxCreateRev != 0:
		panic("unexpected create revision filter in watch")
	}
	return ret
}

func (op *Op) applyOpts(opts []OpOption) {
	for _, opt := range opts {
		opt(op)
	}
}

// OpOption configures Operations like Get, Put, Delete.
type OpOption func(*Op)

// WithLease attaches a lease ID to a key in 'Put' request.
func WithLease(leaseID LeaseID) OpOption {
	return func(op *Op) { op.leaseID = leaseID }
}

// WithLimit limits the number of results to return from 'Get' request.
// If WithLimit is given a 0 limit, it is treated as no limit.
func WithLimit(n int64) OpOption { return func(op *Op) { op.limit = n } }

// WithRev specifies the store revision for 'Get' request.
// Or the start revision of 'Watch' request.
func WithRev(rev int64) OpOption { return func(op *Op) { op.rev = rev } }

// WithSort specifies the ordering in 'Get' request. It requires
// 'WithRange' and/or 'WithPrefix' to be specified too.
// 'target' specifies the target to sort by: key, version, revisions, value.
// 'order' can be either 'SortNone', 'SortAscend', 'SortDescend'.
func WithSort(target SortTarget, order SortOrder) OpOption {
	return func(op *Op) {
		if target == SortByKey && order == SortAscend {
			// If order != SortNone, server fetches the entire key-space,
			// and then applies the sort and limit, if provided.
			// Since by default the server returns results sorted by keys
			// in lexicographically ascending order, the client should ignore
			// SortOrder if the target is SortByKey.
			order = SortNone
		}
		op.sort = &SortOption{target, order}
	}
}

// GetPrefixRangeEnd gets the range end of the prefix.
// 'Get(foo, WithPrefix())' is equal to 'Get(foo, WithRange(GetPrefixRangeEnd(foo))'.
func GetPrefixRangeEnd(prefix string) string {
	return string(getPrefix([]byte(prefix)))
}

func getPrefix(key []byte) []byte {
	end := make([]byte, len(key))
	copy(end, key)
	for i := len(end) - 1; i >= 0; i-- {
		if end[i] < 0xff {
			end[i] = end[i] + 1
			end = end[:i+1]
			return end
		}
	}
	// next prefix does not exist (e.g., 0xffff);
	// default to WithFromKey policy
	return noPrefixEnd
}

// WithPrefix enables 'Get', 'Delete', or 'Watch' requests to operate
// on the keys with matching prefix. For example, 'Get(foo, WithPrefix())'
// can return 'foo1', 'foo2', and so on.
func WithPrefix() OpOption {
	return func(op *Op) {
		if len(op.key) == 0 {
			op.key, op.end = []byte{0}, []byte{0}
			return
		}
		op.end = getPrefix(op.key)
		op.isOptsWithPrefix = true
	}
}

// WithRange specifies the range of 'Get', 'Delete', 'Watch' requests.
// For example, 'Get' requests with 'WithRange(end)' returns
// the keys in the range [key, end).
// endKey must be lexicographically greater than start key.
func WithRange(endKey string) OpOption {
	return func(op *Op) { op.end = []byte(endKey) }
}

// WithFromKey specifies the range of 'Get', 'Delete', 'Watch' requests
// to be equal or greater than the key in the argument.
func WithFromKey() OpOption {
	return func(op *Op) {
		if len(op.key) == 0 {
			op.key = []byte{0}
		}
		op.end = []byte("\x00")
		op.isOptsWithFromKey = true
	}
}

// WithSerializable makes 'Get' request serializable. By default,
// it's linearizable. Serializable requests are better for lower latency
// requirement.
func WithSerializable() OpOption {
	return func(op *Op) { op.serializable = true }
}

// WithKeysOnly makes the 'Get' request return only the keys and the corresponding
// values will be omitted.
func WithKeysOnly() OpOption {
	return func(op *Op) { op.keysOnly = true }
}

// WithCountOnly makes the 'Get' request return only the count of keys.
func WithCountOnly() OpOption {
	return func(op *Op) { op.countOnly = true }
}

// WithMinModRev filters out keys for Get with modification revisions less than the given revision.
func WithMinModRev(rev int64) OpOption { return func(op *Op) { op.minModRev = rev } }

// WithMaxModRev filters out keys for Get with modification revisions greater than the given revision.
func WithMaxModRev(rev int64) OpOption { return func(op *Op) { op.maxModRev = rev } }

// WithMinCreateRev filters out keys for Get with creation revisions less than the given revision.
func WithMinCreateRev(rev int64) OpOption { return func(op *Op) { op.minCreateRev = rev } }

// WithMaxCreateRev filters out keys for Get with creation revisions greater than the given revision.
func WithMaxCreateRev(rev int64) OpOption { return func(op *Op) { op.maxCreateRev = rev } }

// WithFirstCreate gets the key with the oldest creation revision in the request range.
func WithFirstCreate() []OpOption { return withTop(SortByCreateRevision, SortAscend) }

// WithLastCreate gets the key with the latest creation revision in the request range.
func WithLastCreate() []OpOption { return withTop(SortByCreateRevision, SortDescend) }

// WithFirstKey gets the lexically first key in the request range.
func WithFirstKey() []OpOption { return withTop(SortByKey, SortAscend) }

// WithLastKey gets the lexically last key in the request range.
func WithLastKey() []OpOption { return withTop(SortByKey, SortDescend) }

// WithFirstRev gets the key with the oldest modification revision in the request range.
func WithFirstRev() []OpOption { return withTop(SortByModRevision, SortAscend) }

// WithLastRev gets the key with the latest modification revision in the request range.
func WithLastRev() []OpOption { return withTop(SortByModRevision, SortDescend) }

// withTop gets the first key over the get's prefix given a sort order
func withTop(target SortTarget, order SortOrder) []OpOption {
	return []OpOption{WithPrefix(), WithSort(target, order), WithLimit(1)}
}

// WithProgressNotify makes watch server send periodic progress updates
// every 10 minutes when there is no incoming events.
// Progress updates have zero events in WatchResponse.
func WithProgressNotify() OpOption {
	return func(op *Op) {
		op.progressNotify = true
	}
}

// WithCreatedNotify makes watch server sends the created event.
func WithCreatedNotify() OpOption {
	return func(op *Op) {
		op.createdNotify = true
	}
}

// WithFilterPut discards PUT events from the watcher.
func WithFilterPut() OpOption {
	return func(op *Op) { op.filterPut = true }
}

// WithFilterDelete discards DELETE events from the watcher.
func WithFilterDelete() OpOption {
	return func(op *Op) { op.filterDelete = true }
}

// WithPrevKV gets the previous key-value pair before the event happens. If the previous KV is already compacted,
// nothing will be returned.
func WithPrevKV() OpOption {
	return func(op *Op) {
		op.prevKV = true
	}
}

// WithFragment to receive raw watch response with fragmentation.
// Fragmentation is disabled by default. If fragmentation is enabled,
// etcd watch server will split watch response before sending to clients
// when the total size of watch events exceed server-side request limit.
// The default server-side request limit is 1.5 MiB, which can be configured
// as "--max-request-bytes" flag value + gRPC-overhead 512 bytes.
// See "etcdserver/api/v3rpc/watch.go" for more details.
func WithFragment() OpOption {
	return func(op *Op) { op.fragment = true }
}

// WithIgnoreValue updates the key using its current value.
// This option can not be combined with non-empty values.
// Returns an error if the key does not exist.
func WithIgnoreValue() OpOption {
	return func(op *Op) {
		op.ignoreValue = true
	}
}

// WithIgnoreLease updates the key using its current lease.
// This option can not be combined with WithLease.
// Returns an error if the key does not exist.
func WithIgnoreLease() OpOption {
	return func(op *Op) {
		op.ignoreLease = true
	}
}

// LeaseOp represents an Operation that lease can execute.
type LeaseOp struct {
	id LeaseID

	// for TimeToLive
	attachedKeys bool
}

// LeaseOption configures lease operations.
type LeaseOption func(*LeaseOp)

func (op *LeaseOp) applyOpts(opts []LeaseOption) {
	for _, opt := range opts {
		opt(op)
	}
}

// WithAttachedKeys makes TimeToLive list the keys attached to the given lease ID.
func WithAttachedKeys() LeaseOption {
	return func(op *LeaseOp) { op.attachedKeys = true }
}

func toLeaseTimeToLiveRequest(id LeaseID, opts ...LeaseOption) *pb.LeaseTimeToLiveRequest {
	ret := &LeaseOp{id: id}
	ret.applyOpts(opts)
	return &pb.LeaseTimeToLiveRequest{ID: int64(id), Keys: ret.attachedKeys}
}

// IsOptsWithPrefix returns true if WithPrefix option is called in the given opts.
func IsOptsWithPrefix(opts []OpOption) bool {
	ret := NewOp()
	for _, opt := range opts {
		opt(ret)
	}

	return ret.isOptsWithPrefix
}

// IsOptsWithFromKey returns true if WithFromKey option is called in the given opts.
func IsOptsWithFromKey(opts []OpOption) bool {
	ret := NewOp()
	for _, opt := range opts {
		opt(ret)
	}

	return ret.isOptsWithFromKey
}
