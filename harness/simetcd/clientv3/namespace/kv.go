// Copyright 2017 The etcd Authors
//
// Licensed under the Apache License, Version 2.0 (the "License");
// you may not use this file except in compliance with the License.
// You may obtain a copy of the License at
//
//     http://www.apache.org/licenses/LICENSE-2.0
//
// Unless required by applicable law or agreed to in writing, software
// distributed under the License is distributed on an "AS IS" BASIS,
// WITHOUT WARRANTIES OR CONDITIONS OF ANY KIND, either express or implied.
// See the License for the specific language governing permissions and
// limitations under the License.

package namespace

import (
	"context"

	pb "go.etcd.io/etcd/api/v3/etcdserverpb"
	"go.etcd.io/etcd/api/v3/v3rpc/rpctypes"
	"go.etcd.io/etcd/client/v3"
)

type kvPrefix struct {
	clientv3.KV
	pfx string
}

// NewKV wraps a KV instance so that all requests
// are prefixed with a given string.
func NewKV(kv clientv3.KV, prefix string) clientv3.KV {
	return &kvPrefix{kv, prefix}
}

func (kv *kvPrefix) Put(ctx context.Context, key, val string, opts ...clientv3.OpOption) (*clientv3.PutResponse, error) {
	if len(key) == 0 {
		return nil, rpctypes.ErrEmptyKey
	}
	op := kv.prefixOp(clientv3.OpPut(key, val, opts...))
	r, err := kv.KV.Do(ctx, op)
	if err != nil {
		return nil, err
	}
	put := r.Put()
	kv.unprefixPutResponse(put)
	return put, nil
}

func (kv *kvPrefix) Get(ctx context.Context, key string, opts ...clientv3.OpOption) (*clientv3.GetResponse, error) {
	if len(key) == 0 && !(clientv3.IsOptsWithFromKey(opts) || clientv3.IsOptsWithPrefix(opts)) {
		return nil, rpctypes.ErrEmptyKey
	}
	r, err := kv.KV.Do(ctx, kv.prefixOp(clientv3.OpGet(key, opts...)))
	if err != nil {
		return nil, err
	}
	get := r.Get()
	kv.unprefixGetResponse(get)
	return get, nil
}

func (kv *kvPrefix) Delete(ctx context.Context, key string, opts ...clientv3.OpOption) (*clientv3.DeleteResponse, error) {
	if len(key) == 0 && !(clientv3.IsOptsWithFromKey(opts) || clientv3.IsOptsWithPrefix(opts)) {
		return nil, rpctypes.ErrEmptyKey
	}
	r, err := kv.KV.Do(ctx, kv.prefixOp(clientv3.OpDelete(key, opts...)))
	if err != nil {
		return nil, err
	}
	del := r.Del()
	kv.unprefixDeleteResponse(del)
	return del, nil
}

func (kv *kvPrefix) Do(ctx context.Context, op clientv3.Op) (clientv3.OpResponse, error) {
	if len(op.KeyBytes()) == 0 && !op.IsTxn() {
		return clientv3.OpResponse{}, rpctypes.ErrEmptyKey
	}
	r, err := kv.KV.Do(ctx, kv.prefixOp(op))
	if err != nil {
		return r, err
	}
	switch {
	case r.Get() != nil:
		kv.unprefixGetResponse(r.Get())
	case r.Put() != nil:
		kv.unprefixPutResponse(r.Put())
	case r.Del() != nil:
		kv.unprefixDeleteResponse(r.Del())
	case r.Txn() != nil:
		kv.unprefixTxnResponse(r.Txn())
	}
	return r, nil
}

type txnPrefix struct {
	clientv3.Txn
	kv *kvPrefix
}

func (kv *kvPrefix) Txn(ctx context.Context) clientv3.Txn {
	return &txnPrefix{kv.KV.Txn(ctx), kv}
}

func (txn *txnPrefix) If(cs ...clientv3.Cmp) clientv3.Txn {
	txn.Txn = txn.Txn.If(txn.kv.prefixCmps(cs)...)
	return txn
}

func (txn *txnPrefix) Then(ops ...clientv3.Op) clientv3.Txn {
	txn.Txn = txn.Txn.Then(txn.kv.prefixOps(ops)...)
	return txn
}

func (txn *txnPrefix) Else(ops ...clientv3.Op) clientv3.Txn {
	txn.Txn = txn.Txn.Else(txn.kv.prefixOps(ops)...)
	return txn
}

func (txn *txnPrefix) Commit() (*clientv3.TxnResponse, error) {
	resp, err := txn.Txn.Commit()
	if err != nil {
		return nil, err
	}
	txn.kv.unprefixTxnResponse(resp)
	return resp, nil
}

func (kv *kvPrefix) prefixOp(op clientv3.Op) clientv3.Op {
	if !op.IsTxn() {
		begin, end := kv.prefixInterval(op.KeyBytes(), op.RangeBytes())
		op.WithKeyBytes(begin)
		op.WithRangeBytes(end)
		return op
	}
	cmps, thenOps, elseOps := op.Txn()
	return clientv3.OpTxn(kv.prefixCmps(cmps), kv.prefixOps(thenOps), kv.prefixOps(elseOps))
}

func (kv *kvPrefix) unprefixGetResponse(resp *clientv3.GetResponse) {
	for i := range resp.Kvs {
		resp.Kvs[i].Key = resp.Kvs[i].Key[len(kv.pfx):]
	}
}

func (kv *kvPrefix) unprefixPutResponse(resp *clientv3.PutResponse) {
	if resp.PrevKv != nil {
		resp.PrevKv.Key = resp.PrevKv.Key[len(kv.pfx):]
	}
}

func (kv *kvPrefix) unprefixDeleteResponse(resp *clientv3.DeleteResponse) {
	for i := range resp.PrevKvs {
		resp.PrevKvs[i].Key = resp.PrevKvs[i].Key[len(kv.pfx):]
	}
}

func (kv *kvPrefix) unprefixTxnResponse(resp *clientv3.TxnResponse) {
	for _, r := range resp.Responses {
		switch tv := r.Response.(type) {
		case *pb.ResponseOp_ResponseRange:
			if tv.ResponseRange != nil {
				kv.unprefixGetResponse((*clientv3.GetResponse)(tv.ResponseRange))
			}
		case *pb.ResponseOp_ResponsePut:
			if tv.ResponsePut != nil {
				kv.unprefixPutResponse((*clientv3.PutResponse)(tv.ResponsePut))
			}
		case *pb.ResponseOp_ResponseDeleteRange:
			if tv.ResponseDeleteRange != nil {
				kv.unprefixDeleteResponse((*clientv3.DeleteResponse)(tv.ResponseDeleteRange))
			}
		case *pb.ResponseOp_ResponseTxn:
			if tv.ResponseTxn != nil {
				kv.unprefixTxnResponse((*clientv3.TxnResponse)(tv.ResponseTxn))
			}
		default:
		}
	}
}

func (kv *kvPrefix) prefixInterval(key, end []byte) (pfxKey []byte, pfxEnd []byte) {
	return prefixInterval(kv.pfx, key, end)
}

func (kv *kvPrefix) prefixCmps(cs []clientv3.Cmp) []clientv3.Cmp {
	newCmps := make([]clientv3.Cmp, len(cs))
	for i := range cs {
		newCmps[i] = cs[i]
		pfxKey, endKey := kv.prefixInterval(cs[i].KeyBytes(), cs[i].RangeEnd)
		newCmps[i].WithKeyBytes(pfxKey)
		if len(cs[i].RangeEnd) != 0 {
			newCmps[i].RangeEnd = endKey
		}
	}
	return newCmps
}

func (kv *kvPrefix) prefixOps(ops []clientv3.Op) []clientv3.Op {
	newOps := make([]clientv3.Op, len(ops))
	for i := range ops {
		newOps[i] = kv.prefixOp(ops[i])
	}
	return newOps
}
