// Copyright 2017 The etcd Authors
//
// Licensed under the Apache License, Version 2.0 (the "License");
// you may not use this file except in compliance with the License.
// You may obtain a copy of the License at
//
//     http://www.apache.org/licenses/LICENSE-2.0
//
// Unless required by applicable law or agreed to in writing, software
// distributed under the License is distributed on an "AS IS" BASIS,
// WITHOUT WARRANTIES OR CONDITIONS OF ANY KIND, either express or implied.
// See the License for the specific language governing permissions and
// limitations under the License.

// Package namespace is a clientv3 wrapper that translates all keys to begin
// with a given prefix.
//
// First, create a client:
//
//	cli, err := clientv3.New(clientv3.Config{Endpoints: []string{"localhost:2379"}})
//	if err != nil {
//		// handle error!
//	}
//
// Next, override the client interfaces:
//
//	unprefixedKV := cli.KV
//	cli.KV = namespace.NewKV(cli.KV, "my-prefix/")
//	cli.Watcher = namespace.NewWatcher(cli.Watcher, "my-prefix/")
//	cli.Lease = namespace.NewLease(cli.Lease, "my-prefix/")
//
// Now calls using 'cli' will namespace / prefix all keys with "my-prefix/":
//
//	cli.Put(context.TODO(), "abc", "123")
//	resp, _ := unprefixedKV.Get(context.TODO(), "my-prefix/abc")
//	fmt.Printf("%s\n", resp.Kvs[0].Value)
//	// Output: 123
//	unprefixedKV.Put(context.TODO(), "my-prefix/abc", "456")
//	resp, _ = cli.Get(context.TODO(), "abc")
//	fmt.Printf("%s\n", resp.Kvs[0].Value)
//	// Output: 456
//
package namespace
