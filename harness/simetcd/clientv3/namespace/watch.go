// Copyright 2017 The etcd Authors
//
// Licensed under the Apache License, Version 2.0 (the "License");
// you may not use this file except in compliance with the License.
// You may obtain a copy of the License at
//
//     http://www.apache.org/licenses/LICENSE-2.0
//
// Unless required by applicable law or agreed to in writing, software
// distributed under the License is distributed on an "AS IS" BASIS,
// WITHOUT WARRANTIES OR CONDITIONS OF ANY KIND, either express or implied.
// See the License for the specific language governing permissions and
// limitations under the License.

package namespace

import (
	"context"
	"sync"

	"go.etcd.io/etcd/client/v3"
)

type watcherPrefix struct {
	clientv3.Watcher
	pfx string

	wg       sync.WaitGroup
	stopc    chan struct{}
	stopOnce sync.Once
}

// NewWatcher wraps a Watcher instance so that all Watch requests
// are prefixed with a given string and all Watch responses have
// the prefix removed.
func NewWatcher(w clientv3.Watcher, prefix string) clientv3.Watcher {
	return &watcherPrefix{Watcher: w, pfx: prefix, stopc: make(chan struct{})}
}

func (w *watcherPrefix) Watch(ctx context.Context, key string, opts ...clientv3.OpOption) clientv3.WatchChan {
	// since OpOption is opaque, determine range for prefixing through an OpGet
	op := clientv3.OpGet(key, opts...)
	end := op.RangeBytes()
	pfxBegin, pfxEnd := prefixInterval(w.pfx, []byte(key), end)
	if pfxEnd != nil {
		opts = append(opts, clientv3.WithRange(string(pfxEnd)))
	}

	wch := w.Watcher.Watch(ctx, string(pfxBegin), opts...)

	// translate watch events from prefixed to unprefixed
	pfxWch := make(chan clientv3.WatchResponse)
	w.wg.Add(1)
	go func() {
		defer func() {
			close(pfxWch)
			w.wg.Done()
		}()
		for wr := range wch {
			for i := range wr.Events {
				wr.Events[i].Kv.Key = wr.Events[i].Kv.Key[len(w.pfx):]
				if wr.Events[i].PrevKv != nil {
					wr.Events[i].PrevKv.Key = wr.Events[i].Kv.Key
				}
			}
			select {
			case pfxWch <- wr:
			case <-ctx.Done():
				return
			case <-w.stopc:
				return
			}
		}
	}()
	return pfxWch
}

func (w *watcherPrefix) Close() error {
	err := w.Watcher.Close()
	w.stopOnce.Do(func() { close(w.stopc) })
	w.wg.Wait()
	return err
}
