// Copyright 2017 The etcd Authors
//
// Licensed under the Apache License, Version 2.0 (the "License");
// you may not use this file except in compliance with the License.
// You may obtain a copy of the License at
//
//     http://www.apache.org/licenses/LICENSE-2.0
//
// Unless required by applicable law or agreed to in writing, software
// distributed under the License is distributed on an "AS IS" BASIS,
// WITHOUT WARRANTIES OR CONDITIONS OF ANY KIND, either express or implied.
// See the License for the specific language governing permissions and
// limitations under the License.

package namespace

func prefixInterval(pfx string, key, end []byte) (pfxKey []byte, pfxEnd []byte) {
	pfxKey = make([]byte, len(pfx)+len(key))
	copy(pfxKey[copy(pfxKey, pfx):], key)

	if len(end) == 1 && end[0] == 0 {
		// the edge of the keyspace
		pfxEnd = make([]byte, len(pfx))
		copy(pfxEnd, pfx)
		ok := false
		for i := len(pfxEnd) - 1; i >= 0; i-- {
			if pfxEnd[i]++; pfxEnd[i] != 0 {
				ok = true
				break
			}
		}
		if !ok {
			// 0xff..ff => 0x00
			pfxEnd = []byte{0}
		}
	} else if len(end) >= 1 {
		pfxEnd = make([]byte, len(pfx)+len(end))
		copy(pfxEnd[copy(pfxEnd, pfx):], end)
	}

	return pfxKey, pfxEnd
}
