// Copyright 2017 The etcd Authors
//
// Licensed under the Apache License, Version 2.0 (the "License");
// you may not use this file except in compliance with the License.
// You may obtain a copy of the License at
//
//     http://www.apache.org/licenses/LICENSE-2.0
//
// Unless required by applicable law or agreed to in writing, software
// distributed under the License is distributed on an "AS IS" BASIS,
// WITHOUT WARRANTIES OR CONDITIONS OF ANY KIND, either express or implied.
// See the License for the specific language governing permissions and
// limitations under the License.

package namespace

import (
	"bytes"
	"context"

	"go.etcd.io/etcd/client/v3"
)

type leasePrefix struct {
	clientv3.Lease
	pfx []byte
}

// NewLease wraps a Lease interface to filter for only keys with a prefix
// and remove that prefix when fetching attached keys through TimeToLive.
func NewLease(l clientv3.Lease, prefix string) clientv3.Lease {
	return &leasePrefix{l, []byte(prefix)}
}

func (l *leasePrefix) TimeToLive(ctx context.Context, id clientv3.LeaseID, opts ...clientv3.LeaseOption) (*clientv3.LeaseTimeToLiveResponse, error) {
	resp, err := l.Lease.TimeToLive(ctx, id, opts...)
	if err != nil {
		return nil, err
	}
	if len(resp.Keys) > 0 {
		var outKeys [][]byte
		for i := range resp.Keys {
			if len(resp.Keys[i]) < len(l.pfx) {
				// too short
				continue
			}
			if !bytes.Equal(resp.Keys[i][:len(l.pfx)], l.pfx) {
				// doesn't match prefix
				continue
			}
			// strip prefix
			outKeys = append(outKeys, resp.Keys[i][len(l.pfx):])
		}
		resp.Keys = outKeys
	}
	return resp, nil
}
