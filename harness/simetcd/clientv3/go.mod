module go.etcd.io/etcd/client/v3

go 1.16

require (
	github.com/dustin/go-humanize v1.0.0
	github.com/grpc-ecosystem/go-grpc-prometheus v1.2.0
	github.com/prometheus/client_golang v1.11.1
	go.etcd.io/etcd/api/v3 v3.5.4
	go.etcd.io/etcd/client/pkg/v3 v3.5.4
	go.uber.org/zap v1.17.0
	google.golang.org/grpc v1.38.0
	sigs.k8s.io/yaml v1.2.0
)
