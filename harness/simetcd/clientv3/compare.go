// Copyright 2016 The etcd Authors
//
// Licensed under the Apache License, Version 2.0 (the "License");
// you may not use this file except in compliance with the License.
// You may obtain a copy of the License at
//
//     http://www.apache.org/licenses/LICENSE-2.0
//
// Unless required by applicable law or agreed to in writing, software
// distributed under the License is distributed on an "AS IS" BASIS,
// WITHOUT WARRANTIES OR CONDITIONS OF ANY KIND, either express or implied.
// See the License for the specific language governing permissions and
// limitations under the License.

package clientv3

import (
	pb "go.etcd.io/etcd/api/v3/etcdserverpb"
)

type CompareTarget int
type CompareResult int

const (
	CompareVersion CompareTarget = iota
	CompareCreated
	CompareModified
	CompareValue
)

type Cmp pb.Compare

func Compare(cmp Cmp, result string, v interface{}) Cmp {
	var r pb.Compare_CompareResult

	switch result {
	case "=":
		r = pb.Compare_EQUAL
	case "!=":
		r = pb.Compare_NOT_EQUAL
	case ">":
		r = pb.Compare_GREATER
	case "<":
		r = pb.Compare_LESS
	default:
		panic("Unknown result op")
	}

	cmp.Result = r
	switch cmp.Target {
	case pb.Compare_VALUE:
		val, ok := v.(string)
		if !ok {
			panic("bad compare value")
		}
		cmp.TargetUnion = &pb.Compare_Value{Value: []byte(val)}
	case pb.Compare_VERSION:
		cmp.TargetUnion = &pb.Compare_Version{Version: mustInt64(v)}
	case pb.Compare_CREATE:
		cmp.TargetUnion = &pb.Compare_CreateRevision{CreateRevision: mustInt64(v)}
	case pb.Compare_MOD:
		cmp.TargetUnion = &pb.Compare_ModRevision{ModRevision: mustInt64(v)}
	case pb.Compare_LEASE:
		cmp.TargetUnion = &pb.Compare_Lease{Lease: mustInt64orLeaseID(v)}
	default:
		panic("Unknown compare type")
	}
	return cmp
}

func Value(key string) Cmp {
	return Cmp{Key: []byte(key), Target: pb.Compare_VALUE}
}

func Version(key string) Cmp {
	return Cmp{Key: []byte(key), Target: pb.Compare_VERSION}
}

func CreateRevision(key string) Cmp {
	return Cmp{Key: []byte(key), Target: pb.Compare_CREATE}
}

func ModRevision(key string) Cmp {
	return Cmp{Key: []byte(key), Target: pb.Compare_MOD}
}

// LeaseValue compares a key's LeaseID to a value of your choosing. The empty
// LeaseID is 0, otherwise known as `NoLease`.
func LeaseValue(key string) Cmp {
	return Cmp{Key: []byte(key), Target: pb.Compare_LEASE}
}

// KeyBytes returns the byte slice holding with the comparison key.
func (cmp *Cmp) KeyBytes() []byte { return cmp.Key }

// WithKeyBytes sets the byte slice for the comparison key.
func (cmp *Cmp) WithKeyBytes(key []byte) { cmp.Key = key }

// ValueBytes returns the byte slice holding the comparison value, if any.
func (cmp *Cmp) ValueBytes() []byte {
	if tu, ok := cmp.TargetUnion.(*pb.Compare_Value); ok {
		return tu.Value
	}
	return nil
}

// WithValueBytes sets the byte slice for the comparison's value.
func (cmp *Cmp) WithValueBytes(v []byte) { cmp.TargetUnion.(*pb.Compare_Value).Value = v }

// WithRange sets the comparison to scan the range [key, end).
func (cmp Cmp) WithRange(end string) Cmp {
	cmp.RangeEnd = []byte(end)
	return cmp
}

// WithPrefix sets the comparison to scan all keys prefixed by the key.
func (cmp Cmp) WithPrefix() Cmp {
	cmp.RangeEnd = getPrefix(cmp.Key)
	return cmp
}

// mustInt64 panics if val isn't an int or int64. It returns an int64 otherwise.
func mustInt64(val interface{}) int64 {
	if v, ok := val.(int64); ok {
		return v
	}
	if v, ok := val.(int); ok {
		return int64(v)
	}
	panic("bad value")
}

// mustInt64orLeaseID panics if val isn't a LeaseID, int or int64. It returns an
// int64 otherwise.
func mustInt64orLeaseID(val interface{}) int64 {
	if v, ok := val.(LeaseID); ok {
		return int64(v)
	}
	return mustInt64(val)
}
