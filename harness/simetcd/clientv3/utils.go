// Copyright 2018 The etcd Authors
//
// Licensed under the Apache License, Version 2.0 (the "License");
// you may not use this file except in compliance with the License.
// You may obtain a copy of the License at
//
//     http://www.apache.org/licenses/LICENSE-2.0
//
// Unless required by applicable law or agreed to in writing, software
// distributed under the License is distributed on an "AS IS" BASIS,
// WITHOUT WARRANTIES OR CONDITIONS OF ANY KIND, either express or implied.
// See the License for the specific language governing permissions and
// limitations under the License.

package clientv3

import (
	"math/rand"
	"time"
)

// jitterUp adds random jitter to the duration.
//
// This adds or subtracts time from the duration within a given jitter fraction.
// For example for 10s and jitter 0.1, it will return a time within [9s, 11s])
//
// Reference: https://godoc.org/github.com/grpc-ecosystem/go-grpc-middleware/util/backoffutils
func jitterUp(duration time.Duration, jitter float64) time.Duration {
	multiplier := jitter * (rand.Float64()*2 - 1)
	return time.Duration(float64(duration) * (1 + multiplier))
}
