// Copyright 2020 The etcd Authors
//
// Licensed under the Apache License, Version 2.0 (the "License");
// you may not use this file except in compliance with the License.
// You may obtain a copy of the License at
//
//     http://www.apache.org/licenses/LICENSE-2.0
//
// Unless required by applicable law or agreed to in writing, software
// distributed under the License is distributed on an "AS IS" BASIS,
// WITHOUT WARRANTIES OR CONDITIONS OF ANY KIND, either express or implied.
// See the License for the specific language governing permissions and
// limitations under the License.

package clientv3

import (
	"context"

	"go.etcd.io/etcd/api/v3/v3rpc/rpctypes"
	"go.etcd.io/etcd/api/v3/version"
	"google.golang.org/grpc/metadata"
)

// WithRequireLeader requires client requests to only succeed
// when the cluster has a leader.
func WithRequireLeader(ctx context.Context) context.Context {
	md, ok := metadata.FromOutgoingContext(ctx)
	if !ok { // no outgoing metadata ctx key, create one
		md = metadata.Pairs(rpctypes.MetadataRequireLeaderKey, rpctypes.MetadataHasLeader)
		return metadata.NewOutgoingContext(ctx, md)
	}
	copied := md.Copy() // avoid racey updates
	// overwrite/add 'hasleader' key/value
	copied.Set(rpctypes.MetadataRequireLeaderKey, rpctypes.MetadataHasLeader)
	return metadata.NewOutgoingContext(ctx, copied)
}

// embeds client version
func withVersion(ctx context.Context) context.Context {
	md, ok := metadata.FromOutgoingContext(ctx)
	if !ok { // no outgoing metadata ctx key, create one
		md = metadata.Pairs(rpctypes.MetadataClientAPIVersionKey, version.APIVersion)
		return metadata.NewOutgoingContext(ctx, md)
	}
	copied := md.Copy() // avoid racey updates
	// overwrite/add version key/value
	copied.Set(rpctypes.MetadataClientAPIVersionKey, version.APIVersion)
	return metadata.NewOutgoingContext(ctx, copied)
}
