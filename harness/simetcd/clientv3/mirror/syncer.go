// Copyright 2016 The etcd Authors
//
// Licensed under the Apache License, Version 2.0 (the "License");
// you may not use this file except in compliance with the License.
// You may obtain a copy of the License at
//
//     http://www.apache.org/licenses/LICENSE-2.0
//
// Unless required by applicable law or agreed to in writing, software
// distributed under the License is distributed on an "AS IS" BASIS,
// WITHOUT WARRANTIES OR CONDITIONS OF ANY KIND, either express or implied.
// See the License for the specific language governing permissions and
// limitations under the License.

// Package mirror implements etcd mirroring operations.
package mirror

import (
	"context"

	clientv3 "go.etcd.io/etcd/client/v3"
)

const (
	batchLimit = 1000
)

// Syncer syncs with the key-value state of an etcd cluster.
type Syncer interface {
	// SyncBase syncs the base state of the key-value state.
	// The key-value state are sent through the returned chan.
	SyncBase(ctx context.Context) (<-chan clientv3.GetResponse, chan error)
	// SyncUpdates syncs the updates of the key-value state.
	// The update events are sent through the returned chan.
	SyncUpdates(ctx context.Context) clientv3.WatchChan
}

// NewSyncer creates a Syncer.
func NewSyncer(c *clientv3.Client, prefix string, rev int64) Syncer {
	return &syncer{c: c, prefix: prefix, rev: rev}
}

type syncer struct {
	c      *clientv3.Client
	rev    int64
	prefix string
}

func (s *syncer) SyncBase(ctx context.Context) (<-chan clientv3.GetResponse, chan error) {
	respchan := make(chan clientv3.GetResponse, 1024)
	errchan := make(chan error, 1)

	// if rev is not specified, we will choose the most recent revision.
	if s.rev == 0 {
		// If len(s.prefix) == 0, we will check a random key to fetch the most recent
		// revision (foo), otherwise we use the provided prefix.
		checkPath := "foo"
		if len(s.prefix) != 0 {
			checkPath = s.prefix
		}
		resp, err := s.c.Get(ctx, checkPath)
		if err != nil {
			errchan <- err
			close(respchan)
			close(errchan)
			return respchan, errchan
		}
		s.rev = resp.Header.Revision
	}

	go func() {
		defer close(respchan)
		defer close(errchan)

		var key string

		opts := []clientv3.OpOption{clientv3.WithLimit(batchLimit), clientv3.WithRev(s.rev)}

		if len(s.prefix) == 0 {
			// If len(s.prefix) == 0, we will sync the entire key-value space.
			// We then range from the smallest key (0x00) to the end.
			opts = append(opts, clientv3.WithFromKey())
			key = "\x00"
		} else {
			// If len(s.prefix) != 0, we will sync key-value space with given prefix.
			// We then range from the prefix to the next prefix if exists. Or we will
			// range from the prefix to the end if the next prefix does not exists.
			opts = append(opts, clientv3.WithRange(clientv3.GetPrefixRangeEnd(s.prefix)))
			key = s.prefix
		}

		for {
			resp, err := s.c.Get(ctx, key, opts...)
			if err != nil {
				errchan <- err
				return
			}

			respchan <- *resp

			if !resp.More {
				return
			}
			// move to next key
			key = string(append(resp.Kvs[len(resp.Kvs)-1].Key, 0))
		}
	}()

	return respchan, errchan
}

func (s *syncer) SyncUpdates(ctx context.Context) clientv3.WatchChan {
	if s.rev == 0 {
		panic("unexpected revision = 0. Calling SyncUpdates before SyncBase finishes?")
	}
	return s.c.Watch(ctx, s.prefix, clientv3.WithPrefix(), clientv3.WithRev(s.rev+1))
}
