//go:build go1.22

package zzsimetcd

// watch.go — the Watch service. One goroutine per stream reads requests, the
// RPC's own goroutine does all sending. They communicate through fields guarded
// by ws.mu and one wake-up channel, so that no select ever has two ready cases.

import (
	"context"
	"io"
	"sync"
	"time"

	pb "go.etcd.io/etcd/api/v3/etcdserverpb"
	"go.etcd.io/etcd/api/v3/mvccpb"
	"go.etcd.io/etcd/api/v3/v3rpc/rpctypes"
)

type watcher struct {
	id       int64
	key, end []byte
	nextRev  int64 // first revision not yet delivered
	noPut    bool
	noDelete bool
	prevKV   bool
	progress bool
	quiet    bool // nothing sent since the last progress tick
}

type watchStream struct {
	srv    *Server
	id     int64
	stream pb.Watch_WatchServer

	mu          sync.Mutex
	wake        chan struct{}
	ctrl        []*pb.WatchResponse
	watchers    map[int64]*watcher
	nextID      int64
	recvDone    bool
	recvErr     error
	failErr     error
	ctxDone     bool
	progressDue bool
}

func (ws *watchStream) poke() {
	select {
	case ws.wake <- struct{}{}:
	default:
	}
}

func (ws *watchStream) fail(err error) {
	ws.mu.Lock()
	if ws.failErr == nil {
		ws.failErr = err
	}
	ws.mu.Unlock()
	ws.poke()
}

// Watch implements the Watch RPC.
func (s *Server) Watch(stream pb.Watch_WatchServer) error {
	ctx := stream.Context()
	if err := s.openStream(ctx, "Watch"); err != nil {
		return err
	}
	ws := &watchStream{srv: s, stream: stream, wake: make(chan struct{}, 1), watchers: map[int64]*watcher{}}
	s.mu.Lock()
	if s.closed {
		s.mu.Unlock()
		return rpctypes.ErrGRPCStopped
	}
	s.nextStream++
	ws.id = s.nextStream
	s.streams[ws.id] = ws
	s.Stats.WatchStreams++
	s.mu.Unlock()

	unsub := s.Store.Subscribe(ws.poke)
	stopCtx := context.AfterFunc(ctx, func() {
		ws.mu.Lock()
		ws.ctxDone = true
		ws.mu.Unlock()
		ws.poke()
	})
	interval := time.Duration(s.ProgressInterval)
	if interval <= 0 {
		interval = 10 * time.Minute
	}
	var ptimer *time.Timer
	ptimer = time.AfterFunc(interval, func() {
		ws.mu.Lock()
		ws.progressDue = true
		ws.mu.Unlock()
		ws.poke()
		ptimer.Reset(interval)
	})
	defer func() {
		ptimer.Stop()
		stopCtx()
		unsub()
		s.mu.Lock()
		delete(s.streams, ws.id)
		s.mu.Unlock()
	}()

	go ws.recvLoop()
	return ws.sendLoop(ctx)
}

func (ws *watchStream) recvLoop() {
	st := ws.srv.Store
	for {
		req, err := ws.stream.Recv()
		if err != nil {
			ws.mu.Lock()
			ws.recvDone = true
			if err != io.EOF {
				ws.recvErr = err
			}
			ws.mu.Unlock()
			ws.poke()
			return
		}
		switch uv := req.RequestUnion.(type) {
		case *pb.WatchRequest_CreateRequest:
			creq := uv.CreateRequest
			if creq == nil {
				continue
			}
			key, end := creq.Key, creq.RangeEnd
			if len(key) == 0 {
				key = []byte{0}
			}
			cur := st.Rev()
			w := &watcher{key: key, end: end, nextRev: creq.StartRevision, prevKV: creq.PrevKv, progress: creq.ProgressNotify, quiet: true}
			if w.nextRev == 0 {
				w.nextRev = cur + 1
			}
			for _, f := range creq.Filters {
				switch f {
				case pb.WatchCreateRequest_NOPUT:
					w.noPut = true
				case pb.WatchCreateRequest_NODELETE:
					w.noDelete = true
				}
			}
			resp := &pb.WatchResponse{Header: st.Header(cur), Created: true}
			ws.mu.Lock()
			if creq.WatchId != 0 {
				if _, dup := ws.watchers[creq.WatchId]; dup {
					resp.WatchId = creq.WatchId
					resp.Canceled = true
					resp.CancelReason = "mvcc: duplicate watch ID provided on the WatchStream"
					w = nil
				} else {
					w.id = creq.WatchId
				}
			} else {
				for {
					if _, used := ws.watchers[ws.nextID]; !used {
						break
					}
					ws.nextID++
				}
				w.id = ws.nextID
				ws.nextID++
			}
			if w != nil {
				resp.WatchId = w.id
				ws.watchers[w.id] = w
				ws.srv.mu.Lock()
				ws.srv.Stats.WatchCreates++
				ws.srv.mu.Unlock()
			}
			ws.ctrl = append(ws.ctrl, resp)
			ws.mu.Unlock()
			ws.poke()
		case *pb.WatchRequest_CancelRequest:
			if uv.CancelRequest == nil {
				continue
			}
			id := uv.CancelRequest.WatchId
			ws.mu.Lock()
			if _, ok := ws.watchers[id]; ok {
				delete(ws.watchers, id)
				ws.ctrl = append(ws.ctrl, &pb.WatchResponse{Header: st.Header(st.Rev()), WatchId: id, Canceled: true})
			}
			ws.mu.Unlock()
			ws.poke()
		case *pb.WatchRequest_ProgressRequest:
			ws.mu.Lock()
			ws.ctrl = append(ws.ctrl, &pb.WatchResponse{Header: st.Header(st.Rev()), WatchId: -1})
			ws.mu.Unlock()
			ws.poke()
		}
	}
}

func (ws *watchStream) sendLoop(ctx context.Context) error {
	st := ws.srv.Store
	for {
		ws.mu.Lock()
		fail, done, rerr, ctxDone := ws.failErr, ws.recvDone, ws.recvErr, ws.ctxDone
		ctrl := ws.ctrl
		ws.ctrl = nil
		progress := ws.progressDue
		ws.progressDue = false
		ids := make([]int64, 0, len(ws.watchers))
		for id := range ws.watchers {
			ids = append(ids, id)
		}
		ws.mu.Unlock()
		sortInt64(ids)
		if fail != nil {
			return fail
		}
		if ctxDone {
			return ctx.Err()
		}
		for _, c := range ctrl {
			if err := ws.stream.Send(c); err != nil {
				return err
			}
		}
		if done {
			return rerr
		}
		// control messages first: events for a watcher are never sent before its
		// "created" response
		for _, id := range ids {
			ws.mu.Lock()
			w := ws.watchers[id]
			ws.mu.Unlock()
			if w == nil {
				continue
			}
			recs, cur, compact := st.EventsSince(w.nextRev)
			if w.nextRev < compact {
				resp := &pb.WatchResponse{Header: st.Header(cur), WatchId: w.id, Canceled: true, CompactRevision: compact}
				ws.mu.Lock()
				delete(ws.watchers, id)
				ws.mu.Unlock()
				if err := ws.hookSend(resp); err != nil {
					return err
				}
				ws.srv.mu.Lock()
				ws.srv.Stats.CompactCancels++
				ws.srv.mu.Unlock()
				if err := ws.stream.Send(resp); err != nil {
					return err
				}
				continue
			}
			var evs []*mvccpb.Event
			for _, rec := range recs {
				for _, ev := range rec.Events {
					if !inRange(ev.Kv.Key, w.key, w.end) {
						continue
					}
					if (ev.Type == mvccpb.PUT && w.noPut) || (ev.Type == mvccpb.DELETE && w.noDelete) {
						continue
					}
					e := &mvccpb.Event{Type: ev.Type, Kv: ev.Kv}
					if w.prevKV {
						e.PrevKv = ev.PrevKv
					}
					evs = append(evs, e)
				}
			}
			w.nextRev = cur + 1
			if len(evs) > 0 {
				resp := &pb.WatchResponse{Header: st.Header(cur), WatchId: w.id, Events: evs}
				if err := ws.hookSend(resp); err != nil {
					return err
				}
				ws.srv.mu.Lock()
				ws.srv.Stats.WatchResponses++
				ws.srv.Stats.WatchEvents += len(evs)
				ws.srv.mu.Unlock()
				if err := ws.stream.Send(resp); err != nil {
					return err
				}
				w.quiet = false
			} else if progress && w.progress {
				if w.quiet {
					if err := ws.stream.Send(&pb.WatchResponse{Header: st.Header(cur), WatchId: w.id}); err != nil {
						return err
					}
				}
				w.quiet = true
			}
		}
		<-ws.wake
	}
}

func (ws *watchStream) hookSend(resp *pb.WatchResponse) error {
	if h := ws.srv.Hooks.WatchSend; h != nil {
		if err := h(ws.id, resp); err != nil {
			return err
		}
		// the stream may have been failed while the hook slept
		ws.mu.Lock()
		fail := ws.failErr
		ws.mu.Unlock()
		return fail
	}
	return nil
}
