//go:build go1.22

// Package zzsimetcd is simetcd: a simulated etcd v3 SERVER for deterministic
// simulation. It speaks the real etcd gRPC API (etcdserverpb KV, Watch, Lease,
// Cluster, Maintenance) and is registered on a real grpc.Server, so the real
// etcd clientv3 (retry interceptor, watcher resume logic, lessor,
// concurrency.Session / Mutex / STM) runs unmodified against it. It replaces
// raft + bbolt by a single-copy model: it is a linearizable, durable, never
// failing etcd by construction, and every fault is something the harness adds
// through Hooks or by stopping/breaking things from outside.
//
// The sources live in /verif/harness/simetcd and are injected by check.json
// "files" as the package github.com/megaease/easegress/pkg/cluster/zzsimetcd
// (they need the etcd api and grpc modules, which are requirements of the
// easegress module). The package imports nothing from verif/simkit: it only
// uses package time (virtual inside a synctest bubble) and channels, and it has
// NO select with several ready cases and no map iteration whose order leaks
// (both would make runs irreproducible).
//
// Typical use inside a run (everything must be created inside the bubble):
//
//	st := zzsimetcd.NewStore()                 // durable state, survives restarts
//	srv := zzsimetcd.NewServer(st)             // one "process incarnation"
//	gs := grpc.NewServer(); srv.Register(gs)
//	lis, _ := simnetNet.Listen("tcp", "etcd:2379"); go gs.Serve(lis)
//	cli, _ := clientv3.New(clientv3.Config{Endpoints: []string{"etcd:2379"},
//	    DialOptions: []grpc.DialOption{grpc.WithContextDialer(simnet dial)}})
//	...
//	cli.Close(); gs.Stop(); srv.Close(); st.Close(); simnetNet.Shutdown()
//
// Server stop/start = gs.Stop(); srv.Close(); later a new Server + grpc.Server
// on a new listener around the SAME Store (optionally st.Compact(...) while it
// is down, so that resumed watches are cancelled with the compact revision).
//
// MODELLED
//   - MVCC: store revision starts at 1; per key create_revision, mod_revision,
//     version, lease; one revision per Put / DeleteRange that deleted something /
//     Txn that wrote / lease expiry or revoke that deleted keys; full history.
//   - Range: single key, [key,end), end "\0" (>= key), prefix; revision (0 =
//     current, future -> ErrFutureRev, below compaction -> ErrCompacted); limit +
//     more; count (of the whole range) and count_only; keys_only; sort order and
//     target; min/max mod/create revision filters.
//   - Put: lease (must exist), prev_kv, ignore_value, ignore_lease.
//   - DeleteRange: range conventions as Range, prev_kv, deleted count.
//   - Txn: compares on VALUE / VERSION / CREATE / MOD / LEASE with EQUAL /
//     NOT_EQUAL / GREATER / LESS, also over a range_end; missing key compares as
//     the zero KeyValue, except VALUE which fails; success / failure ops incl.
//     nested Txn; all writes share one revision; reads see the txn's own earlier
//     writes; "duplicate key given in txn request" and "too many operations"
//     (128) checks; a txn that would fail applies nothing.
//   - Compact: moves the compaction revision (errors as etcd); history stays in
//     Store.History() for oracles but is invisible to Range/Watch.
//   - Leases: grant (chosen or given id), revoke, keep-alive stream, time-to-live
//     (with keys), list; TTL runs on package time; expiry and revoke delete the
//     attached keys in ONE revision (key order) and produce DELETE events.
//   - Watch: one bidi stream carries many watchers; create with key / range /
//     prefix, start_revision (0 = next revision; past = replay from history),
//     filters NOPUT / NODELETE, prev_kv, progress_notify (ProgressInterval),
//     explicit progress requests (watch id -1), cancel requests; watch ids are
//     assigned per stream from 0; the created response carries the store revision
//     at creation; all events of a revision arrive in one response; a watcher that
//     lags is sent several revisions batched in one response (like etcd's unsynced
//     watchers); a watcher whose next revision is below the compaction revision is
//     cancelled with compact_revision (client: ErrCompacted).
//   - Cluster.MemberList (one static member), Maintenance.Status / Alarm (none) /
//     Defragment (no-op).
//   - Faults (Hooks): per-RPC latency (sleep in Unary "before"), RPC refused
//     before apply (return an error from "before"), reply lost after apply (error
//     from "after"), slow watch delivery (sleep in WatchSend), watch stream broken
//     with any status (error from WatchSend, or BreakWatchStreams), stream refused
//     at open (StreamOpen).
//
// NOT MODELLED
//   - Raft, several members, leader changes, learner/member reconfiguration
//     (MemberAdd/... are Unimplemented), linearizable-vs-serializable difference
//     (every read is linearizable), require-leader metadata.
//   - Authentication / RBAC, TLS, quotas and alarms (NOSPACE never happens),
//     request size limits, watch response fragmentation (fragment flag ignored:
//     responses are never split), Snapshot / Hash / MoveLeader / Downgrade.
//   - Lease checkpointing and the TTL extension real etcd grants after a leader
//     change: a lease keeps expiring on the clock while the server is "down".
//   - bbolt details: defragmentation effects, db size (Status reports constants).
//   - Minimum lease TTL derived from election ticks (any TTL >= 1 s is accepted).
package zzsimetcd

import (
	"context"
	"io"
	"sync"

	pb "go.etcd.io/etcd/api/v3/etcdserverpb"
	"go.etcd.io/etcd/api/v3/v3rpc/rpctypes"
	"google.golang.org/grpc"
)

// Phase tells a Unary hook where the RPC is.
type Phase int

const (
	// Before the request is applied: an error refuses the RPC (nothing applied);
	// sleeping here is request latency.
	Before Phase = iota
	// After the request was applied: an error loses the reply; sleeping here is
	// response latency.
	After
)

// Hooks are the fault-injection points. Every field may be nil. Hooks run on
// the goroutine of the RPC and may sleep.
type Hooks struct {
	Unary      func(ctx context.Context, phase Phase, method string, req interface{}) error
	StreamOpen func(ctx context.Context, method string) error
	// WatchSend runs before a response with events (or a compaction cancel) is
	// written to a watch stream. An error ends the stream with that error.
	WatchSend func(streamID int64, resp *pb.WatchResponse) error
}

// Server is one incarnation of the etcd process around a Store.
type Server struct {
	pb.UnimplementedClusterServer
	pb.UnimplementedMaintenanceServer

	Store *Store
	Hooks Hooks
	// ProgressInterval is the period of progress notifications for watchers that
	// asked for them (0 = 10 minutes, etcd's default).
	ProgressInterval int64 // nanoseconds

	mu         sync.Mutex
	streams    map[int64]*watchStream
	nextStream int64
	closed     bool

	// Counters (read them after the run; they are only ever incremented).
	Stats struct {
		Unary, WatchStreams, WatchCreates, WatchResponses, WatchEvents, CompactCancels, LeaseStreams int
	}
}

// NewServer creates a server incarnation around st.
func NewServer(st *Store) *Server {
	return &Server{Store: st, streams: map[int64]*watchStream{}}
}

// Register registers all services on g.
func (s *Server) Register(g *grpc.Server) {
	pb.RegisterKVServer(g, s)
	pb.RegisterWatchServer(g, s)
	pb.RegisterLeaseServer(g, s)
	pb.RegisterClusterServer(g, s)
	pb.RegisterMaintenanceServer(g, s)
}

// Close ends every open watch stream (status Unavailable) and makes the server
// refuse new streams. Call it together with grpc.Server.Stop.
func (s *Server) Close() {
	s.mu.Lock()
	s.closed = true
	s.mu.Unlock()
	s.BreakWatchStreams(rpctypes.ErrGRPCStopped)
}

// BreakWatchStreams terminates every open watch stream with err (use a status
// error; codes.Unavailable makes clientv3 resume transparently, most other
// codes make it give up and report a cancelled watch to its user). It returns
// the number of streams hit.
func (s *Server) BreakWatchStreams(err error) int {
	s.mu.Lock()
	ids := make([]int64, 0, len(s.streams))
	for id := range s.streams {
		ids = append(ids, id)
	}
	s.mu.Unlock()
	sortInt64(ids)
	n := 0
	for _, id := range ids {
		s.mu.Lock()
		ws := s.streams[id]
		s.mu.Unlock()
		if ws != nil {
			ws.fail(err)
			n++
		}
	}
	return n
}

// OpenWatchStreams returns the number of open watch streams.
func (s *Server) OpenWatchStreams() int {
	s.mu.Lock()
	defer s.mu.Unlock()
	return len(s.streams)
}

func sortInt64(a []int64) {
	for i := 1; i < len(a); i++ {
		for j := i; j > 0 && a[j] < a[j-1]; j-- {
			a[j], a[j-1] = a[j-1], a[j]
		}
	}
}

func (s *Server) unary(ctx context.Context, ph Phase, method string, req interface{}) error {
	if ph == Before {
		s.mu.Lock()
		s.Stats.Unary++
		s.mu.Unlock()
	}
	if h := s.Hooks.Unary; h != nil {
		return h(ctx, ph, method, req)
	}
	return nil
}

// ---- KV ------------------------------------------------------------------------

func (s *Server) Range(ctx context.Context, r *pb.RangeRequest) (*pb.RangeResponse, error) {
	if err := s.unary(ctx, Before, "Range", r); err != nil {
		return nil, err
	}
	resp, err := s.Store.Range(r)
	if err != nil {
		return nil, err
	}
	if err := s.unary(ctx, After, "Range", r); err != nil {
		return nil, err
	}
	return resp, nil
}

func (s *Server) Put(ctx context.Context, r *pb.PutRequest) (*pb.PutResponse, error) {
	if err := s.unary(ctx, Before, "Put", r); err != nil {
		return nil, err
	}
	resp, err := s.Store.Put(r)
	if err != nil {
		return nil, err
	}
	if err := s.unary(ctx, After, "Put", r); err != nil {
		return nil, err
	}
	return resp, nil
}

func (s *Server) DeleteRange(ctx context.Context, r *pb.DeleteRangeRequest) (*pb.DeleteRangeResponse, error) {
	if err := s.unary(ctx, Before, "DeleteRange", r); err != nil {
		return nil, err
	}
	resp, err := s.Store.DeleteRange(r)
	if err != nil {
		return nil, err
	}
	if err := s.unary(ctx, After, "DeleteRange", r); err != nil {
		return nil, err
	}
	return resp, nil
}

func (s *Server) Txn(ctx context.Context, r *pb.TxnRequest) (*pb.TxnResponse, error) {
	if err := s.unary(ctx, Before, "Txn", r); err != nil {
		return nil, err
	}
	resp, err := s.Store.Txn(r)
	if err != nil {
		return nil, err
	}
	if err := s.unary(ctx, After, "Txn", r); err != nil {
		return nil, err
	}
	return resp, nil
}

func (s *Server) Compact(ctx context.Context, r *pb.CompactionRequest) (*pb.CompactionResponse, error) {
	if err := s.unary(ctx, Before, "Compact", r); err != nil {
		return nil, err
	}
	resp, err := s.Store.Compact(r.Revision)
	if err != nil {
		return nil, err
	}
	if err := s.unary(ctx, After, "Compact", r); err != nil {
		return nil, err
	}
	return resp, nil
}

// ---- Lease -----------------------------------------------------------------------

func (s *Server) LeaseGrant(ctx context.Context, r *pb.LeaseGrantRequest) (*pb.LeaseGrantResponse, error) {
	if err := s.unary(ctx, Before, "LeaseGrant", r); err != nil {
		return nil, err
	}
	resp, err := s.Store.LeaseGrant(r)
	if err != nil {
		return nil, err
	}
	if err := s.unary(ctx, After, "LeaseGrant", r); err != nil {
		return nil, err
	}
	return resp, nil
}

func (s *Server) LeaseRevoke(ctx context.Context, r *pb.LeaseRevokeRequest) (*pb.LeaseRevokeResponse, error) {
	if err := s.unary(ctx, Before, "LeaseRevoke", r); err != nil {
		return nil, err
	}
	resp, err := s.Store.LeaseRevoke(r)
	if err != nil {
		return nil, err
	}
	if err := s.unary(ctx, After, "LeaseRevoke", r); err != nil {
		return nil, err
	}
	return resp, nil
}

func (s *Server) LeaseTimeToLive(ctx context.Context, r *pb.LeaseTimeToLiveRequest) (*pb.LeaseTimeToLiveResponse, error) {
	if err := s.unary(ctx, Before, "LeaseTimeToLive", r); err != nil {
		return nil, err
	}
	resp, err := s.Store.LeaseTimeToLive(r)
	if err != nil {
		return nil, err
	}
	if err := s.unary(ctx, After, "LeaseTimeToLive", r); err != nil {
		return nil, err
	}
	return resp, nil
}

func (s *Server) LeaseLeases(ctx context.Context, r *pb.LeaseLeasesRequest) (*pb.LeaseLeasesResponse, error) {
	if err := s.unary(ctx, Before, "LeaseLeases", r); err != nil {
		return nil, err
	}
	resp := s.Store.LeaseLeases()
	if err := s.unary(ctx, After, "LeaseLeases", r); err != nil {
		return nil, err
	}
	return resp, nil
}

// LeaseKeepAlive answers every request on the stream with the renewed TTL.
// The Unary hook is consulted per request with method "LeaseKeepAlive".
func (s *Server) LeaseKeepAlive(stream pb.Lease_LeaseKeepAliveServer) error {
	ctx := stream.Context()
	if err := s.openStream(ctx, "LeaseKeepAlive"); err != nil {
		return err
	}
	s.mu.Lock()
	s.Stats.LeaseStreams++
	s.mu.Unlock()
	for {
		req, err := stream.Recv()
		if err == io.EOF {
			return nil
		}
		if err != nil {
			return err
		}
		if err := s.unary(ctx, Before, "LeaseKeepAlive", req); err != nil {
			return err
		}
		resp := s.Store.LeaseRenew(req.ID)
		if err := s.unary(ctx, After, "LeaseKeepAlive", req); err != nil {
			return err
		}
		if err := stream.Send(resp); err != nil {
			return err
		}
	}
}

func (s *Server) openStream(ctx context.Context, method string) error {
	s.mu.Lock()
	closed := s.closed
	s.mu.Unlock()
	if closed {
		return rpctypes.ErrGRPCStopped
	}
	if h := s.Hooks.StreamOpen; h != nil {
		return h(ctx, method)
	}
	return nil
}

// ---- Cluster / Maintenance ----------------------------------------------------------

func (s *Server) MemberList(ctx context.Context, r *pb.MemberListRequest) (*pb.MemberListResponse, error) {
	if err := s.unary(ctx, Before, "MemberList", r); err != nil {
		return nil, err
	}
	st := s.Store
	return &pb.MemberListResponse{Header: st.Header(st.Rev()), Members: []*pb.Member{{
		ID: st.MemberID, Name: "simetcd", PeerURLs: []string{"http://etcd:2380"}, ClientURLs: []string{"http://etcd:2379"},
	}}}, nil
}

func (s *Server) Status(ctx context.Context, r *pb.StatusRequest) (*pb.StatusResponse, error) {
	if err := s.unary(ctx, Before, "Status", r); err != nil {
		return nil, err
	}
	st := s.Store
	rev := st.Rev()
	return &pb.StatusResponse{Header: st.Header(rev), Version: "3.5.4", DbSize: 1 << 20, DbSizeInUse: 1 << 19, Leader: st.MemberID,
		RaftIndex: uint64(rev) + 7, RaftTerm: st.RaftTerm, RaftAppliedIndex: uint64(rev) + 7}, nil
}

func (s *Server) Alarm(ctx context.Context, r *pb.AlarmRequest) (*pb.AlarmResponse, error) {
	if err := s.unary(ctx, Before, "Alarm", r); err != nil {
		return nil, err
	}
	return &pb.AlarmResponse{Header: s.Store.Header(s.Store.Rev())}, nil
}

func (s *Server) Defragment(ctx context.Context, r *pb.DefragmentRequest) (*pb.DefragmentResponse, error) {
	if err := s.unary(ctx, Before, "Defragment", r); err != nil {
		return nil, err
	}
	return &pb.DefragmentResponse{Header: s.Store.Header(s.Store.Rev())}, nil
}
