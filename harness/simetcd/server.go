package zzsimetcd

import (
	pb "go.etcd.io/etcd/api/v3/etcdserverpb"
	"google.golang.org/grpc"
)

func Hello(s *grpc.Server) string { _ = pb.RangeRequest{}; return "hi" }
