//go:build go1.21

package httpserver

// C11, mode "rt": hot update of a LISTENING HTTPServer.
//
// A real HTTPServer object (runtime, fsm goroutine, net/http server) listens on
// the simulated network (gracenet.ListenHook -> simnet); generation 0 is
// started with Init, every further generation is applied the way
// TrafficController does it: new(HTTPServer).Inherit(spec, previous). Clients
// are raw HTTP/1.1 clients over simnet (one fresh connection per request,
// "Connection: close", 24 h deadlines); backend handlers park, so requests are
// in flight while the updater applies the next generation.
//
// Only fields the runtime documents as hot are changed between generations
// (runtime.go needRestartServer: "The change of options below need not restart
// the HTTP server": maxConnections, cacheSize, xForwardedFor, tracing,
// ipFilter, rules — the harness changes rules incl. path-level body limits and
// rule/path IP filters, the top-level ipFilter, xForwardedFor and cacheSize).
// The server-level clientMaxBodySize is NOT in that list (changing it restarts
// the net/http server on the unchanged tree), so it is kept constant.
//
// ORACLE (from the statement: "updating an HTTPServer ... while traffic flows
// never fails a request because of the update"): once the server listens,
//
//	C11.rt.dial-refused-during-hot-update       a client's dial is refused (the listener was closed: the update restarted the server)
//	C11.rt.inflight-request-aborted-by-update  an established connection ends without a complete response
//	C11.rt.stale-generation / unapplied-generation / mixed-generations
//	                                            as in mode mux: the answer must be the quiescent-twin answer of ONE generation g,
//	                                            (updates applied when the request dialled) <= g <= (updates started when its handler was entered);
//	                                            "applied" = the runtime has stored the new mux instance (polled by the updater)
//
// LISTEN-FAILURE HISTORIES (c11RTDown, 40% of the rt scenarios): the bind of
// the server's port fails for a while ("address already in use", injected in
// the gracenet.ListenHook the harness installs) - either the very first bind
// (From=0) or the bind of a restart-requiring update (keepAliveTimeout changes,
// From=f) - so the runtime is in state failed; hot updates From+1..Until arrive
// while it is failed ("applied" then = the runtime's fsm has processed the
// reload event: runtime.spec is the new spec); the fault ends; the runtime's
// 10 s checkFailed ticker (virtual clock) or a further restart-requiring update
// brings the server back. From then on the unchanged oracle applies: a request
// must be answered by a generation >= the newest one applied when it dialled
// (C11.rt.stale-generation otherwise). While the server is (possibly) down -
// from the start of a restart-requiring update / the failing Init until the
// harness has seen the final server accept a probe connection - a refused dial
// or a connection reset in the accept queue is not judged; the client waits
// 1.3 s and tries the same request again (at most 40 times).
//
//	C11.rt.failed-server-never-recovered        the port is free again, but neither ~80 s of ticker time nor a restart-requiring update brought the server back

import (
	"bufio"
	stdcontext "context"
	"fmt"
	"io"
	"net"
	"net/http"
	"strconv"
	"strings"
	"time"

	"github.com/megaease/grace/gracenet"

	"github.com/megaease/easegress/pkg/protocols/httpprot/httpstat"
	"github.com/megaease/easegress/pkg/supervisor"
	"verif/simkit/sim"
	"verif/simkit/simnet"
)

// c11RTDown is the listen-failure history of an rt scenario.
type c11RTDown struct {
	From    int    `json:"from"`    // binds fail from here on: 0 = the first bind (Init); f >= 1 = from update f on, which needs a restart (keepAliveTimeout changes)
	Until   int    `json:"until"`   // the fault ends after update Until has been processed (updates From+1..Until are hot and arrive while the server is failed)
	Recover string `json:"recover"` // "ticker": the runtime's checkFailed ticker restarts the server; "restart": update Until+1 needs a restart
}

func c11GenRT(rng *sim.Rand) *c11MuxSc {
	sc := c11GenMux(rng)
	withDown := rng.Bool(0.4)
	if withDown {
		for nb := 100; len(sc.Gens) < 3; {
			s := c11EditSrv(rng, &sc.Gens[len(sc.Gens)-1], &nb)
			s.GapUs = int64(rng.Pick(0, 1, 100, 1000, 3000))
			sc.Gens = append(sc.Gens, s)
		}
	}
	for i := range sc.Gens {
		// the server-level body limit is not a hot field
		sc.Gens[i].MaxBody = sc.Gens[0].MaxBody
		sc.Gens[i].Trace = 0 // tracing is generated in mode mux only
		if i > 0 && rng.Bool(0.5) {
			// make sure the top-level IP filter changes often (and stays permissive for some client)
			if sc.Gens[i-1].IPF == nil || rng.Bool(0.5) {
				sc.Gens[i].IPF = c11GenIPF(rng)
			} else {
				sc.Gens[i].IPF = nil
			}
			sc.Gens[i].Edits = append(sc.Gens[i].Edits, "server-ipfilter")
		}
	}
	// maxConnections is a hot field as well
	if rng.Bool(0.4) {
		mc := rng.Pick(0, 0, 1, 2, 100)
		for i := range sc.Gens {
			if i > 0 && rng.Bool(0.4) {
				mc = rng.Pick(0, 1, 2, 3, 100)
				sc.Gens[i].Edits = append(sc.Gens[i].Edits, "maxConnections")
			}
			sc.Gens[i].MaxConn = mc
		}
	}
	for ci := range sc.Clients {
		// half of the clients are keep-alive clients: one source address, most
		// requests leave the connection open for the next one
		keepAlive := rng.Bool(0.5)
		for qi := range sc.Clients[ci].Reqs {
			q := &sc.Clients[ci].Reqs[qi]
			if rng.Bool(0.7) {
				q.Hold = rng.Range(2, 8)
			}
			if keepAlive {
				q.IP = sc.Clients[ci].Reqs[0].IP
				q.KA = rng.Bool(0.8)
			}
		}
	}
	if withDown {
		ng := len(sc.Gens) - 1 // >= 2
		d := &c11RTDown{Recover: "ticker"}
		if rng.Bool(0.5) {
			d.Until = rng.Range(1, ng)
		} else {
			d.From = rng.Range(1, ng-1)
			d.Until = rng.Range(d.From+1, ng)
		}
		if d.Until < ng && rng.Bool(0.5) {
			d.Recover = "restart"
		}
		ka := 0
		for i := 1; i <= ng; i++ {
			if (d.From >= 1 && i == d.From) || (d.Recover == "restart" && i == d.Until+1) {
				ka = 20 + 7*i
				sc.Gens[i].Edits = append(sc.Gens[i].Edits, "keepAliveTimeout(restart)")
			}
			sc.Gens[i].KA = ka
		}
		sc.Down = d
	}
	return sc
}

// c11RawRequest renders the request as HTTP/1.1 bytes.
func c11RawRequest(q *c11Req, id string, keep bool) []byte {
	var sb strings.Builder
	fmt.Fprintf(&sb, "%s %s HTTP/1.1\r\nHost: %s\r\n", q.Method, q.Path, q.Host)
	for _, kv := range q.Hdr {
		if kv.K != "" && !strings.ContainsAny(kv.K+kv.V, "\r\n") {
			fmt.Fprintf(&sb, "%s: %s\r\n", kv.K, kv.V)
		}
	}
	fmt.Fprintf(&sb, "X-C11-Id: %s\r\n", id)
	if !keep {
		sb.WriteString("Connection: close\r\n")
	}
	if q.Body > 0 {
		fmt.Fprintf(&sb, "Content-Length: %d\r\n", q.Body)
	}
	sb.WriteString("\r\n")
	sb.WriteString(c11Body(q.Body))
	return []byte(sb.String())
}

func c11ExecRT(r *sim.Run, sc *c11MuxSc) {
	nreq := 0
	for _, c := range sc.Clients {
		nreq += len(c.Reqs)
	}
	if len(sc.Gens) == 0 || nreq == 0 || len(sc.Gens) > 8 {
		return
	}
	var specs []*supervisor.Spec
	var texts []string
	for i := range sc.Gens {
		g := &sc.Gens[i]
		if !c11SrvValid(g) || g.CacheSize < 0 || g.MaxBody != sc.Gens[0].MaxBody || g.MaxConn < 0 || g.MaxConn > 100000 {
			return
		}
		txt := c11SrvText("c11", g)
		sp, err := c11NewSpec(txt)
		if err != nil || sp == nil {
			r.Probe("c11.rt.spec_rejected")
			return
		}
		specs = append(specs, sp)
		texts = append(texts, txt)
	}
	missing := map[string]bool{}
	for _, b := range sc.Missing {
		missing[b] = true
	}
	type rq struct {
		id string
		q  *c11Req
	}
	var all []rq
	for ci := range sc.Clients {
		for qi := range sc.Clients[ci].Reqs {
			q := &sc.Clients[ci].Reqs[qi]
			if c11ReqOK(q) && !strings.ContainsAny(q.Host+q.Method+q.Path, " \r\n") {
				all = append(all, rq{fmt.Sprintf("c%d.%d", ci, qi), q})
			}
		}
	}
	if len(all) == 0 {
		return
	}
	// quiescent twins (in-process, as in mode mux)
	exp := make([]map[string]string, len(specs))
	for g := range specs {
		tm := &c11Mapper{missing: missing, handlers: map[string]*c11Backend{}}
		t := newMux(httpstat.New(), httpstat.NewTopN(10), tm)
		t.reload(specs[g], tm)
		exp[g] = map[string]string{}
		for _, x := range all {
			rec, pv, _ := c11Serve(t, c11HTTPReq(x.q, x.id))
			if pv != nil {
				r.Probe("c11.rt.twin_panics")
				return
			}
			exp[g][x.id] = c11Outcome(rec)
		}
	}

	// system under test: a listening HTTPServer
	n := simnet.New()
	down := sc.Down
	if down != nil && (down.From < 0 || down.Until < down.From || down.Until >= len(specs)) {
		down = nil
	}
	for g := range sc.Gens {
		if sc.Gens[g].KA < 0 || sc.Gens[g].KA > 3600 {
			return
		}
	}
	failing := false // binds of the server's port fail
	gracenet.ListenHook = func(network, addr string) (net.Listener, error) {
		if failing {
			r.Fault("c11.listen_address_in_use")
			return nil, fmt.Errorf("listen %s %s: bind: address already in use", network, addr)
		}
		return n.Listen(network, addr)
	}
	defer func() { gracenet.ListenHook = nil }()
	mapper := &c11Mapper{missing: missing, handlers: map[string]*c11Backend{}}
	hs := &HTTPServer{}
	if down != nil && down.From == 0 {
		failing = true
	}
	hs.Init(specs[0], mapper)
	rt := hs.runtime
	// maybeDown: the listener may be closed for a reason the scenario contains (failed
	// bind, restart-requiring update in progress); downEpoch counts its changes
	maybeDown, downEpoch := false, 0
	setDown := func(v bool) {
		if maybeDown != v {
			maybeDown = v
			downEpoch++
		}
	}
	kaOf := func(g int) time.Duration {
		if sc.Gens[g].KA > 0 {
			return time.Duration(sc.Gens[g].KA) * time.Second
		}
		return defaultKeepAliveTimeout
	}
	waitFor := func(cond func() bool, steps int, step time.Duration) bool {
		for i := 0; i < steps && !r.Aborted(); i++ {
			if cond() {
				return true
			}
			r.Sleep(step)
		}
		return r.Aborted() || cond()
	}
	// isUp: the net/http server built for generation g's restart-relevant options accepts connections
	isUp := func(g int) bool {
		if rt.spec != specs[g].ObjectSpec().(*Spec) || rt.server == nil || rt.server.IdleTimeout != kaOf(g) || rt.getState() != stateRunning {
			return false
		}
		c, err := n.DialFrom(stdcontext.Background(), "10.9.9.9", "front.test:10080")
		if err != nil {
			return false
		}
		c.Close()
		return true
	}
	applied := func(sp *supervisor.Spec) bool {
		for i := 0; i < 5000 && !r.Aborted(); i++ {
			if inst := rt.mux.inst.Load().(*muxInstance); inst.superSpec == sp && rt.limitListener != nil {
				return true
			}
			r.Sleep(time.Microsecond)
		}
		return r.Aborted()
	}
	cleanup := func() {
		func() {
			defer func() {
				if p := recover(); p != nil {
					r.Violate("C11.rt.panic", "HTTPServer.Close panicked: %v\n%s", p, c11Stack())
				}
			}()
			hs.Close()
		}()
		rt.setState(stateClosed) // lets the runtime's checkFailed ticker goroutine end (easegress never sets it)
		time.Sleep(checkFailedTimeout + time.Second)
		n.Shutdown()
	}
	if failing {
		setDown(true)
		if !waitFor(func() bool { return rt.getState() == stateFailed }, 5000, time.Microsecond) {
			r.Probe("c11.rt.initial_bind_failure_not_observed")
			cleanup()
			return
		}
		r.Probe("c11.rt.server_failed_at_first_bind")
		r.Eventf("the first bind failed: runtime state %s", rt.getState())
	} else if !applied(specs[0]) {
		r.Violate("C11.rt.update-never-applied", "the HTTPServer never started listening with its initial spec")
		cleanup()
		return
	}

	started, done := 0, 0
	type flight struct {
		hold    int
		hiAtHnd int
		entered bool
	}
	flights := map[string]*flight{}
	inflight := 0
	mapper.onHandle = func(id string) {
		f := flights[id]
		if f == nil || f.entered {
			return
		}
		f.entered = true
		f.hiAtHnd = started
		inflight++
		for i := 0; i < f.hold && !r.Aborted(); i++ {
			r.Yield("c11.rt.handler")
		}
		inflight--
	}
	var sig strings.Builder
	interesting := 0
	updating := false

	recovered := false
	// endFault: after update g has been processed the port becomes free, if the scenario says so
	endFault := func(g int) bool {
		if down == nil || g != down.Until || !failing {
			return true
		}
		failing = false
		r.Eventf("the port is free again")
		if down.Recover != "restart" || g+1 >= len(specs) || sc.Gens[g+1].KA == sc.Gens[g].KA {
			if !waitFor(func() bool { return isUp(g) }, 120, 700*time.Millisecond) {
				r.Violate("C11.rt.failed-server-never-recovered", "the port has been free for 84 s (checkFailed period 10 s), the server still accepts no connection (runtime state %s)", rt.getState())
				return false
			}
			r.Probe("c11.rt.failed_server_recovered_by_ticker")
			r.Eventf("the server listens again (runtime state %s)", rt.getState())
			recovered = true
			setDown(false)
		}
		return true
	}
	r.Go("updater", func() {
		if !endFault(0) {
			return
		}
		for g := 1; g < len(specs); g++ {
			if r.Aborted() || r.Violated() {
				return
			}
			gap := sc.Gens[g].GapUs
			if gap < 0 || gap > 10_000_000 {
				gap = 0
			}
			r.Sleep(time.Duration(gap) * time.Microsecond)
			started = g
			updating = true
			r.Eventf("update g%d starts (handlers in flight=%d) edits=%v", g, inflight, sc.Gens[g].Edits)
			if inflight > 0 {
				r.Probe("c11.rt.update_while_handlers_in_flight")
			}
			if fmt.Sprint(sc.Gens[g].IPF) != fmt.Sprint(sc.Gens[g-1].IPF) {
				r.Probe("c11.rt.update_changes_server_ipfilter")
				if inflight > 0 {
					r.Probe("c11.rt.update_changes_server_ipfilter_while_handlers_in_flight")
				}
			}
			if down != nil && g == down.From {
				failing = true
				r.Eventf("binds of the port fail from now on")
			}
			restartType := sc.Gens[g].KA != sc.Gens[g-1].KA
			if sc.Gens[g].MaxConn != sc.Gens[g-1].MaxConn {
				r.Probe("c11.rt.update_changes_max_connections")
			}
			wasFailed := rt.getState() == stateFailed
			if restartType {
				setDown(true)
				r.Probe("c11.rt.update_needs_restart")
			}
			nh := &HTTPServer{}
			var pv interface{}
			func() {
				defer func() { pv = recover() }()
				nh.Inherit(specs[g], hs, mapper)
			}()
			if pv != nil {
				r.Violate("C11.rt.panic", "HTTPServer.Inherit to generation %d panicked: %v", g, pv)
				return
			}
			hs = nh
			switch {
			case restartType && failing:
				if !waitFor(func() bool {
					return rt.spec == specs[g].ObjectSpec().(*Spec) && rt.server != nil && rt.server.IdleTimeout == kaOf(g) && rt.getState() == stateFailed
				}, 200, 500*time.Millisecond) {
					r.Probe("c11.rt.bind_failure_of_restart_not_observed")
					return
				}
				r.Probe("c11.rt.server_failed_by_restart_update")
				r.Eventf("update g%d processed, the restarted server could not bind: runtime state %s", g, rt.getState())
			case restartType:
				if !waitFor(func() bool { return isUp(g) }, 200, 500*time.Millisecond) {
					r.Violate("C11.rt.failed-server-never-recovered", "update to generation %d needs a restart (keepAliveTimeout %v -> %v) and the port is free, but 100 s later the server still accepts no connection (runtime state %s, failed before the update: %v)",
						g, kaOf(g-1), kaOf(g), rt.getState(), wasFailed)
					return
				}
				if wasFailed {
					r.Probe("c11.rt.failed_server_recovered_by_restart_update")
					recovered = true
				}
				setDown(false)
			case wasFailed || maybeDown:
				// hot update while the server is failed: applied = the fsm has processed the event
				if !waitFor(func() bool { return rt.spec == specs[g].ObjectSpec().(*Spec) }, 5000, time.Microsecond) {
					r.Violate("C11.rt.update-never-applied", "HTTPServer.Inherit(generation %d) returned while the server was failed, but the runtime never processed the update", g)
					return
				}
				r.Probe("c11.rt.hot_update_while_server_failed")
			default:
				if !applied(specs[g]) {
					r.Violate("C11.rt.update-never-applied", "HTTPServer.Inherit(generation %d) returned, but the runtime never loaded the spec", g)
					return
				}
			}
			done = g
			updating = false
			r.Eventf("update g%d applied", g)
			if !endFault(g) {
				return
			}
		}
	})
	for ci := range sc.Clients {
		ci := ci
		reqs := sc.Clients[ci].Reqs
		r.Go(fmt.Sprintf("client%d", ci), func() {
			// the connection a keep-alive request left open, its reader and source address
			var kc net.Conn
			var kbr *bufio.Reader
			kIP := ""
			defer func() {
				if kc != nil {
					kc.Close()
				}
			}()
			for qi := range reqs {
				if r.Aborted() {
					return
				}
				q := &reqs[qi]
				if !c11ReqOK(q) || strings.ContainsAny(q.Host+q.Method+q.Path, " \r\n") {
					continue
				}
				gap := q.GapUs
				if gap < 0 || gap > 10_000_000 {
					gap = 0
				}
				r.Sleep(time.Duration(gap) * time.Microsecond)
				id := fmt.Sprintf("c%d.%d", ci, qi)
				hold := q.Hold
				if hold < 0 || hold > 8 {
					hold = 0
				}
				tries := 0
			again:
				if r.Aborted() || r.Violated() {
					return
				}
				tries++
				f := &flight{hold: hold}
				flights[id] = f
				lo := done
				startedAtDial, updatingAtDial := started, updating
				downAtDial, epochAtDial := maybeDown, downEpoch
				var conn net.Conn
				var br *bufio.Reader
				var err error
				reused := false
				if kc != nil && kIP == q.IP {
					conn, br, reused = kc, kbr, true
					kc, kbr = nil, nil
					r.Probe("c11.rt.request_on_kept_alive_connection")
					if lo > 0 {
						r.Probe("c11.rt.request_on_connection_kept_alive_across_update")
					}
				} else {
					if kc != nil {
						kc.Close()
						kc, kbr = nil, nil
					}
					conn, err = n.DialFrom(stdcontext.Background(), q.IP, "front.test:10080")
					if err == nil {
						br = bufio.NewReader(conn)
					}
				}
				if err != nil && (downAtDial || maybeDown || downEpoch != epochAtDial) {
					// the server is down for a reason the scenario contains: not judged
					r.Probe("c11.rt.dial_refused_while_server_down")
					if tries < 40 {
						r.Sleep(1300 * time.Millisecond)
						goto again
					}
					continue
				}
				if err != nil {
					r.Eventf("%s dial: %v", id, err)
					class := "C11.rt.dial-refused"
					if startedAtDial > 0 || started > 0 {
						class = "C11.rt.dial-refused-during-hot-update"
					}
					r.Violate(class, "request {%v}: dial to the HTTPServer's port failed: %v (update to generation %d started, in progress at dial: %v, handlers in flight: %d)\n"+
						"only hot fields differ between the generations (edits of the last started update: %v), so the listener must stay open\n"+
						"code path: httpserver runtime.reload -> needRestartServer -> closeServer (http.Server.Shutdown closes the listener and waits for in-flight requests) -> startServer\nold spec: %s\nnew spec: %s",
						q, err, started, updatingAtDial, inflight, sc.Gens[started].Edits, texts[maxInt(started-1, 0)], texts[started])
					return
				}
				conn.SetDeadline(time.Now().Add(24 * time.Hour))
				var resp *http.Response
				var body []byte
				_, err = conn.Write(c11RawRequest(q, id, q.KA))
				if err == nil {
					resp, err = http.ReadResponse(br, nil)
				}
				if err == nil {
					body, err = io.ReadAll(resp.Body)
				}
				if err == nil && q.KA && !resp.Close && resp.ProtoAtLeast(1, 1) {
					kc, kbr, kIP = conn, br, q.IP
				} else {
					conn.Close()
				}
				r.Yield("c11.rt.after")
				if err != nil && reused && resp == nil && !f.entered && tries < 40 {
					// the server may close an idle kept-alive connection at any time (idle
					// timer during a stall, restart): like every HTTP client, try again on a fresh connection
					r.Probe("c11.rt.kept_alive_connection_found_closed")
					goto again
				}
				hi := started
				if f.entered {
					hi = f.hiAtHnd
				}
				if err != nil && (downAtDial || maybeDown || downEpoch != epochAtDial) {
					// e.g. reset in the accept queue of a listener that a restart closed: not judged
					r.Probe("c11.rt.connection_lost_while_server_restarts")
					if tries < 40 {
						r.Sleep(1300 * time.Millisecond)
						goto again
					}
					continue
				}
				if err != nil {
					r.Eventf("%s aborted: %v", id, err)
					r.Violate("C11.rt.inflight-request-aborted-by-update", "request {%v}: the connection was established but ended without a complete response: %v (generations %d..%d possible, handler entered: %v)", q, err, lo, hi, f.entered)
					return
				}
				got := strconv.Itoa(resp.StatusCode)
				if v := resp.Header.Get(c11SeenHdr); v != "" {
					got += " seen{" + v + "}"
				}
				if len(body) > 0 {
					got += " body=" + strconv.Quote(string(body))
				}
				r.Eventf("%s %v -> %s (window g%d..g%d)", id, q, got, lo, hi)
				fmt.Fprintf(&sig, "%s>%s;", id, got)
				if hi > lo {
					interesting++
					r.Probe("c11.rt.request_overlaps_update")
				}
				if lo > 0 && exp[lo][id] != exp[lo-1][id] {
					interesting++
				}
				if recovered {
					r.Probe("c11.rt.request_answered_after_recovery")
					if from := down.From; lo > from && exp[lo][id] != exp[from][id] {
						interesting++
						r.Probe("c11.rt.request_after_recovery_whose_answer_changed_while_failed")
					}
				}
				ok := false
				for g := lo; g <= hi; g++ {
					if got == exp[g][id] {
						ok = true
					}
				}
				if ok {
					continue
				}
				class, why := "C11.rt.mixed-generations", "the answer equals the quiescent answer of NO generation"
				for g := range exp {
					if got == exp[g][id] {
						if g < lo {
							class, why = "C11.rt.stale-generation", fmt.Sprintf("the answer is the one of generation %d, but generation %d had been applied when the request dialled", g, lo)
						} else {
							class, why = "C11.rt.unapplied-generation", fmt.Sprintf("the answer is the one of generation %d whose update had not started", g)
						}
						break
					}
				}
				var tw []string
				for g := range exp {
					tw = append(tw, fmt.Sprintf("  g%d (%v): %s", g, sc.Gens[g].Edits, exp[g][id]))
				}
				r.Violate(class, "request {%v}: got %s; %s\nallowed generations %d..%d, quiescent twin answers:\n%s", q, got, why, lo, hi, strings.Join(tw, "\n"))
				return
			}
		})
	}
	r.WaitTasks()
	cleanup()
	if interesting > 0 {
		r.Nontrivial()
	}
	r.SetSig("rt|" + strings.Join(texts, "|") + "|" + sig.String())
}

func maxInt(a, b int) int {
	if a > b {
		return a
	}
	return b
}
