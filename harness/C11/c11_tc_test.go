//go:build go1.21

package httpserver

// C11, mode "tc": TrafficController create / apply / update / delete versus
// traffic.
//
// Real trafficcontroller.TrafficController, a real HTTPServer object "g"
// (runtime + fsm goroutine; its listener comes from the stubbed gracenet and
// never accepts: requests enter through runtime.mux.ServeHTTP, exactly what the
// net/http server of the runtime would call) whose MuxMapper is the real
// Namespace, and real Pipelines pa, pb, pc (pre park -> Mock -> post park). Two
// updater tasks own disjoint names (u0: pa and the gate g; u1: pb, pc and a
// bystander gate g2) and issue create / apply / update / delete, including
// re-applying an identical spec, while client tasks send requests (routed
// /x* -> pa, /y* -> pb, the rest -> pc) and bare Namespace.GetHandler lookups.
//
// ORACLE: a reference history per name, kept by the owner task around every
// call (start stamp, end stamp, resulting state by the documented meaning of
// the call). A request running during [t0, t1] (t1 = entry into the pipeline,
// or its return if it never reached one) may see any state of its pipeline and
// of the gate that was possibly in effect during that interval; the answer
// must equal the quiescent-twin answer of ONE such (gate version, pipeline
// version) pair, or the twin's 503 if "absent" is one of the possible states.
//
//	C11.tc.panic                        panic out of ServeHTTP / GetHandler / a controller call
//	C11.tc.untouched-object-unavailable pipeline existed during the whole request and no call on it overlapped, yet 503 / not found
//	C11.tc.unavailable-during-update    pipeline existed in every possible state (apply/update overlapped), yet 503 / not found
//	C11.tc.stale-generation             answer of a version that had been replaced before the request started
//	C11.tc.unapplied-generation         answer of a version whose call had not started
//	C11.tc.mixed-generations            answer equals no (gate, pipeline) pair's twin answer
//	C11.tc.noop-apply-lifecycle/<Kind>  applying an identical spec returned another entity or ran Init/Inherit/Close/reload
//	C11.tc.op-result                    a controller call failed / succeeded against the reference state
//	C11.tc.update-never-applied         HTTPServer update not processed by its runtime
//	C11.tc.kind-change-broken-pipeline  503 for an existing pipeline after an update that kept the name of its filter "m" and changed its kind (Mock / ResponseAdaptor / RateLimiter by version)
//
// NEIGHBOUR OF ANOTHER KIND (c11MQSc, half of the scenarios): a real MQTTProxy
// "mq" is a traffic gate of the same namespace (broker on the simulated network,
// optional Connect pipeline "mqauth" that parks, so that a client stays inside
// its handshake); a fourth updater applies / updates / deletes it (update =
// MQTTProxy.Inherit = close the old broker + start a new one) while the HTTP
// requests above run and raw MQTT clients CONNECT / SUBSCRIBE / PUBLISH / PING.
//
//	C11.process-crash                         (reported by vcheck) a goroutine of the code under test panicked and ended the process,
//	                                          e.g. Broker.handleConn registering a client after Broker.close set clients = nil
//	C11.neighbour.mqtt-unavailable            mq exists, no call on it overlapped, yet dial / CONNECT failed
//	C11.neighbour.mqtt-client-disconnected    mq exists, no call on it overlapped this connection, yet SUBSCRIBE / PUBLISH / PINGREQ got no answer
//	(the HTTP side is judged by the unchanged classes above: calls on mq never touch the reference of g, pa, pb, pc)
//
// Leniency: "applied" for the gate = the runtime's fsm has stored the new mux
// instance (polled by the updater); creating an existing pipeline through
// CreatePipeline is not generated (the API layer refuses it); the traffic gate
// g is never deleted (requests need an entry point), the bystander g2 is.

import (
	stdcontext "context"
	"encoding/json"
	"fmt"
	"net"
	"net/http"
	"sort"
	"strconv"
	"strings"
	"sync"
	"time"

	"github.com/eclipse/paho.mqtt.golang/packets"
	"github.com/megaease/grace/gracenet"

	"github.com/megaease/easegress/pkg/api"
	"github.com/megaease/easegress/pkg/context"
	_ "github.com/megaease/easegress/pkg/object/mqttproxy"
	"github.com/megaease/easegress/pkg/object/pipeline"
	"github.com/megaease/easegress/pkg/object/trafficcontroller"
	"github.com/megaease/easegress/pkg/protocols/httpprot/httpstat"
	"github.com/megaease/easegress/pkg/protocols/mqttprot"
	"github.com/megaease/easegress/pkg/supervisor"
	"verif/simkit/sim"
	"verif/simkit/simnet"
)

type c11TCOp struct {
	GapUs int64  `json:"gap_us,omitempty"`
	Op    string `json:"op"`   // create | apply | update | delete | applygate | deletegate
	Name  string `json:"name"` // pa pb pc g g2
	V     int    `json:"v"`
	Same  bool   `json:"same,omitempty"` // re-apply the spec currently in effect (V ignored)
}

type c11TCUpdater struct {
	Ops []c11TCOp `json:"ops"`
}

type c11TCInit struct {
	Name string `json:"name"`
	V    int    `json:"v"`
}

// c11MQStep is one step of a raw MQTT client of the neighbour MQTTProxy.
type c11MQStep struct {
	Op    string `json:"op"` // connect | sub | pub | ping | disc
	GapUs int64  `json:"gap_us,omitempty"`
}

type c11MQClient struct {
	Steps []c11MQStep `json:"steps"`
	Clean bool        `json:"clean,omitempty"`
}

// c11MQSc: a traffic gate of ANOTHER kind lives next to the HTTP objects: a real
// MQTTProxy "mq" (real broker, listening on the simulated network) in the same
// TrafficController namespace; a fourth updater applies / updates (close old +
// init new) / deletes it while HTTP traffic flows and while raw MQTT clients
// CONNECT / SUBSCRIBE / PUBLISH / PING at scheduler-chosen instants.
type c11MQSc struct {
	InitialV int           `json:"initial_v"` // version the MQTTProxy exists with before the run (-1: absent)
	PubV     int           `json:"pub_v"`     // version the Publish pipeline "mqpub" exists with before the run (-1: absent)
	AuthHold int           `json:"auth_hold"` // gates the Connect pipeline of the broker parks at (keeps a client inside its handshake)
	Clients  []c11MQClient `json:"clients"`
}

const c11NMQV = 6

func c11MQText(v int) string {
	m := c11M{"kind": "MQTTProxy", "name": "mq", "port": 1883, "topicCacheSize": 100 + v%3, "maxAllowedConnection": []int{0, 5, 100}[v%3]}
	rules := []c11M{}
	if v%2 == 1 {
		rules = append(rules, c11M{"when": c11M{"packetType": "Connect"}, "pipeline": "mqauth"})
	}
	if c11MQHasPublishRule(v) {
		rules = append(rules, c11M{"when": c11M{"packetType": "Publish"}, "pipeline": "mqpub"})
	}
	if len(rules) > 0 {
		m["rules"] = rules
	}
	b, _ := json.Marshal(m)
	return string(b)
}

// versions 2.. of the MQTTProxy route PUBLISH packets through pipeline "mqpub"
func c11MQHasPublishRule(v int) bool { return v >= 2 }

// c11MQPubText: the Publish pipeline of the MQTTProxy, its only filter reports
// the version as generation marker of every packet it handles.
func c11MQPubText(v int) string {
	m := c11M{"name": "mqpub", "kind": "Pipeline", "filters": []c11M{{"name": "mark", "kind": "C11Park", "gen": v, "role": "mq", "tag": "mqpub"}}}
	b, _ := json.Marshal(m)
	return string(b)
}

func c11GenMQ(rng *sim.Rand, sc *c11TCSc) {
	mq := &c11MQSc{InitialV: -1, AuthHold: rng.Pick(0, 1, 3, 6)}
	exists := false
	if rng.Bool(0.75) {
		mq.InitialV, exists = rng.Intn(c11NMQV), true
	}
	for len(sc.Updaters) < 4 {
		sc.Updaters = append(sc.Updaters, c11TCUpdater{})
	}
	// the Publish pipeline of the MQTTProxy and its updates (same updater: one name, one owner)
	pubExists, pubV := rng.Bool(0.8), 0
	if pubExists {
		mq.PubV = 0
	} else {
		mq.PubV = -1
	}
	pFocus := rng.Bool(0.5) // mostly pipeline updates, the MQTTProxy itself stays
	for i, n := 0, rng.Range(1, 5); i < n; i++ {
		if rng.Bool(0.45) || (pFocus && rng.Bool(0.8)) {
			pubV++
			op := c11TCOp{Name: "mqpub", GapUs: int64(rng.Pick(0, 1, 10, 100, 1000, 5000)), V: pubV}
			switch x := rng.Intn(10); {
			case !pubExists:
				op.Op, pubExists = rng.PickStr("create", "apply"), true
			case x < 2:
				op.Op, pubExists = "delete", false
			case x < 6:
				op.Op = "update"
			default:
				op.Op = "apply"
			}
			sc.Updaters[3].Ops = append(sc.Updaters[3].Ops, op)
			continue
		}
		op := c11TCOp{Name: "mq", GapUs: int64(rng.Pick(0, 0, 1, 10, 100, 1000, 5000)), V: rng.Intn(c11NMQV)}
		switch x := rng.Intn(10); {
		case exists && x < 3:
			op.Op, exists = "deletegate", false
		case x < 5:
			op.Op = "updategate" // an error if mq does not exist
			op.Same = exists && rng.Bool(0.2)
		default:
			op.Op = "applygate"
			op.Same = exists && rng.Bool(0.2)
			exists = true
		}
		sc.Updaters[3].Ops = append(sc.Updaters[3].Ops, op)
	}
	for c, nc := 0, rng.Range(1, 2); c < nc; c++ {
		cl := c11MQClient{Clean: rng.Bool(0.7)}
		for i, n := 0, rng.Range(2, 8); i < n; i++ {
			st := c11MQStep{GapUs: int64(rng.Pick(0, 0, 1, 10, 100, 1000, 3000))}
			st.Op = rng.PickStr("connect", "connect", "sub", "pub", "pub", "ping", "disc")
			if pFocus {
				st.Op = rng.PickStr("pub", "pub", "pub", "pub", "ping", "sub", "connect")
				st.GapUs = int64(rng.Pick(0, 1, 10, 100, 1000, 3000, 5000))
			}
			if i == 0 {
				st.Op = "connect"
			}
			cl.Steps = append(cl.Steps, st)
		}
		mq.Clients = append(mq.Clients, cl)
	}
	sc.MQ = mq
}

type c11TCSc struct {
	MQ       *c11MQSc       `json:"mq,omitempty"`
	Initial  []c11TCInit    `json:"initial"`
	GateV    int            `json:"gate_v"`
	Updaters []c11TCUpdater `json:"updaters"`
	Clients  []c11Client    `json:"clients"`
}

const c11NGateV = 4

var c11Owner = map[string]int{"pa": 0, "g": 0, "pb": 1, "pc": 1, "g2": 1, "o/pa": 2, "o/pb": 2, "o/*": 2, "tc": 2, "mq": 3, "mqpub": 3}

// c11OtherNS: a second namespace with pipelines of the SAME names as the ones
// requests are routed to; whatever happens there (create / apply / update /
// delete / Clean of the whole namespace, owned by a third updater, which also
// polls TrafficController.Status like the status-sync controller does) must
// not be visible to the requests of the default namespace.
const c11OtherNS = "other"

func c11GenTC(rng *sim.Rand) *c11TCSc {
	sc := &c11TCSc{GateV: rng.Intn(c11NGateV)}
	exists := map[string]bool{}
	ver := map[string]int{}
	for _, n := range []string{"pa", "pb", "pc"} {
		if rng.Bool(0.75) {
			v := rng.Intn(3)
			sc.Initial = append(sc.Initial, c11TCInit{n, v})
			exists[n], ver[n] = true, v
		}
	}
	nextV := 3
	sc.Updaters = make([]c11TCUpdater, 2)
	for u := 0; u < 2; u++ {
		names := []string{"pa", "pa", "pa", "g"}
		if u == 1 {
			names = []string{"pb", "pb", "pc", "g2"}
		}
		n := rng.Range(1, 6)
		for i := 0; i < n; i++ {
			name := names[rng.Intn(len(names))]
			op := c11TCOp{Name: name, GapUs: int64(rng.Pick(0, 0, 1, 10, 100, 1000, 5000))}
			switch name {
			case "g":
				op.Op = rng.PickStr("applygate", "applygate", "updategate")
				if rng.Bool(0.25) {
					op.Same = true
				} else {
					op.V = rng.Intn(c11NGateV)
				}
			case "g2":
				if exists["g2"] && rng.Bool(0.4) {
					op.Op = "deletegate"
					exists["g2"] = false
				} else {
					op.Op = "applygate"
					if rng.Bool(0.25) {
						// UpdateTrafficGate: an error if g2 does not exist
						op.Op = "updategate"
					}
					op.Same = exists["g2"] && rng.Bool(0.3)
					op.V = rng.Intn(c11NGateV)
					if op.Op == "applygate" {
						exists["g2"] = true
					}
				}
			default:
				nextV++
				op.V = nextV
				switch x := rng.Intn(10); {
				case !exists[name]:
					op.Op = rng.PickStr("create", "apply", "apply", "update", "delete")
					if x < 7 {
						op.Op = rng.PickStr("create", "apply")
					}
				case x < 2:
					op.Op = "delete"
				case x < 4:
					op.Op = "apply"
					op.Same = true
				case x < 7:
					op.Op = "apply"
				default:
					op.Op = "update"
				}
				switch op.Op {
				case "create", "apply":
					exists[name] = true
				case "delete":
					exists[name] = false
				}
			}
			sc.Updaters[u].Ops = append(sc.Updaters[u].Ops, op)
		}
	}
	if rng.Bool(0.5) {
		var u c11TCUpdater
		for i, n := 0, rng.Range(2, 7); i < n; i++ {
			op := c11TCOp{GapUs: int64(rng.Pick(0, 0, 1, 10, 100, 1000, 5000))}
			switch x := rng.Intn(10); {
			case x < 2:
				op.Op, op.Name = "status", "tc"
			case x < 3:
				op.Op, op.Name = "clean", "o/*"
				exists["o/pa"], exists["o/pb"] = false, false
			default:
				op.Name = rng.PickStr("o/pa", "o/pa", "o/pb")
				nextV++
				op.V = nextV
				switch {
				case !exists[op.Name]:
					op.Op = rng.PickStr("create", "apply", "apply", "update", "delete")
				case rng.Bool(0.3):
					op.Op = "delete"
				default:
					op.Op = rng.PickStr("apply", "update")
					op.Same = op.Op == "apply" && rng.Bool(0.2)
				}
				switch op.Op {
				case "create", "apply":
					exists[op.Name] = true
				case "delete":
					exists[op.Name] = false
				}
			}
			u.Ops = append(u.Ops, op)
		}
		sc.Updaters = append(sc.Updaters, u)
	}
	if rng.Bool(0.5) {
		c11GenMQ(rng, sc)
	}
	pHold := []float64{0.3, 0.6, 0.9}[rng.Intn(3)]
	sc.Clients = c11GenReqs(rng, rng.Range(1, 3), rng.Range(4, 18), pHold, false)
	for ci := range sc.Clients {
		for qi := range sc.Clients[ci].Reqs {
			q := &sc.Clients[ci].Reqs[qi]
			q.Path = rng.PickStr("/x", "/x/1", "/y", "/y/2", "/z", "/x", "/y")
			q.Lookup = rng.Bool(0.15)
			if rng.Bool(pHold * 0.5) {
				q.Hold2 = rng.Range(1, 3)
			}
			if rng.Bool(0.25) {
				q.WaitUs = int64(rng.Pick(1, 100, 1000, 5000))
			}
		}
	}
	return sc
}

func c11RouteOf(path string) string {
	switch {
	case strings.HasPrefix(path, "/x"):
		return "pa"
	case strings.HasPrefix(path, "/y"):
		return "pb"
	}
	return "pc"
}

func c11GateText(name string, port, v int) string {
	rw := func(p string) c11M {
		m := c11M{"pathPrefix": p, "backend": c11RouteOf(p)}
		if v > 0 && p != "/" {
			m["rewriteTarget"] = fmt.Sprintf("/gv%d%s", v, p)
		}
		return m
	}
	m := c11M{"kind": "HTTPServer", "name": name, "port": port, "keepAlive": true, "https": false,
		"xForwardedFor": v == 1 || v == 3, "rules": []c11M{{"paths": []c11M{rw("/x"), rw("/y"), rw("/")}}}}
	if v == 2 {
		m["cacheSize"] = 16
	}
	if v == 3 {
		m["keepAliveTimeout"] = "30s" // differs from the default: the runtime restarts its net/http server
	}
	b, _ := json.Marshal(m)
	return string(b)
}

// c11TCFutKind: the filter named "m" keeps its name over all versions of a
// pipeline, its kind depends on the version.
func c11TCFutKind(v int) string {
	switch v % 4 {
	case 2:
		return "ResponseAdaptor"
	case 3:
		return "RateLimiter"
	}
	return "Mock"
}

func c11TCPipeText(name string, v int) string { return c11TCPipeTextTag(name, name, v) }

// c11TCPipeTextTag: tag marks answers and lifecycle counters (differs from the
// name for the pipelines of the other namespace).
func c11TCPipeTextTag(name, tag string, v int) string {
	mark := fmt.Sprintf("%s-v%d", tag, v)
	node := c11M{"filter": "m", "jumpIf": c11M{"mocked": "post"}}
	fut := c11M{"name": "m", "kind": "Mock", "rules": []c11M{{"match": c11M{"pathPrefix": "/"}, "code": 200, "body": mark}}}
	switch c11TCFutKind(v) {
	case "ResponseAdaptor":
		node = c11M{"filter": "m"}
		fut = c11M{"name": "m", "kind": "ResponseAdaptor", "header": c11M{"set": c11M{"X-M": mark}}}
	case "RateLimiter":
		node = c11M{"filter": "m", "jumpIf": c11M{"rateLimited": "post"}}
		fut = c11M{"name": "m", "kind": "RateLimiter", "defaultPolicyRef": "p", "urls": []c11M{{"url": c11M{"prefix": "/"}, "policyRef": "p"}},
			"policies": []c11M{{"name": "p", "limitForPeriod": 1000000, "limitRefreshPeriod": "10ms", "timeoutDuration": "100ms"}}}
	}
	m := c11M{"name": name, "kind": "Pipeline",
		"flow": []c11M{{"filter": "pre"}, node, {"filter": "post"}},
		"filters": []c11M{
			{"name": "pre", "kind": "C11Park", "gen": v, "role": "pre", "tag": tag},
			fut,
			{"name": "post", "kind": "C11Park", "gen": v, "role": "post", "tag": tag},
		}}
	b, _ := json.Marshal(m)
	return string(b)
}

// c11Listener never accepts; it only unblocks Accept when closed.
type c11Listener struct {
	ch   chan struct{}
	once sync.Once
}

func (l *c11Listener) Accept() (net.Conn, error) { <-l.ch; return nil, net.ErrClosed }
func (l *c11Listener) Close() error              { l.once.Do(func() { close(l.ch) }); return nil }
func (l *c11Listener) Addr() net.Addr            { return &net.TCPAddr{IP: net.IPv4(127, 0, 0, 1), Port: 10080} }

// reference history of one name
type c11RefState struct {
	start, end uint64 // stamps of the call that produced the state (end = 0: call in progress)
	exists     bool
	v          int
}

type c11RefObj struct {
	hist []c11RefState // hist[0] is the state before any call of the run
}

func (o *c11RefObj) cur() c11RefState { return o.hist[len(o.hist)-1] }

// visible returns the states possibly in effect at some instant of [t0, t1].
func (o *c11RefObj) visible(t0, t1 uint64) []c11RefState {
	var out []c11RefState
	for k := range o.hist {
		s := o.hist[k]
		if s.start > t1 {
			continue // produced by a call that started after the interval
		}
		if k+1 < len(o.hist) {
			nx := o.hist[k+1]
			if nx.end != 0 && nx.end < t0 {
				continue // certainly replaced before the interval
			}
		}
		out = append(out, s)
	}
	return out
}

func c11ExecTC(r *sim.Run, sc *c11TCSc) {
	nreq := 0
	for _, c := range sc.Clients {
		nreq += len(c.Reqs)
	}
	if nreq == 0 || sc.GateV < 0 || sc.GateV >= c11NGateV || len(sc.Updaters) > 4 {
		return
	}
	if sc.MQ != nil && (sc.MQ.InitialV < -1 || sc.MQ.InitialV >= c11NMQV || len(sc.MQ.Clients) > 4 || sc.MQ.PubV < -1 || sc.MQ.PubV > 1000) {
		return
	}
	pipeNames := map[string]bool{"pa": true, "pb": true, "pc": true}
	seenInit := map[string]bool{}
	for _, in := range sc.Initial {
		if !pipeNames[in.Name] || seenInit[in.Name] || in.V < 0 || in.V > 1000 {
			return
		}
		seenInit[in.Name] = true
	}
	for u := range sc.Updaters {
		for _, op := range sc.Updaters[u].Ops {
			if o, ok := c11Owner[op.Name]; !ok || o != u || op.V < 0 || op.V > 1000 {
				return
			}
			isGate := op.Name == "g" || op.Name == "g2" || op.Name == "mq"
			if op.Name == "mq" && (sc.MQ == nil || op.V >= c11NMQV) {
				return
			}
			if op.Name == "mqpub" && sc.MQ == nil {
				return
			}
			switch op.Op {
			case "status":
				if op.Name != "tc" {
					return
				}
			case "clean":
				if op.Name != "o/*" {
					return
				}
			case "create", "apply", "update", "delete":
				if isGate || op.Name == "tc" || op.Name == "o/*" {
					return
				}
			case "applygate", "updategate":
				if !isGate || op.V >= c11NGateV {
					return
				}
			case "deletegate":
				if op.Name != "g2" && op.Name != "mq" {
					return
				}
			default:
				return
			}
		}
	}

	hooks := &c11Hooks{run: r, life: map[string]int{}}
	c11Cur = hooks
	defer func() { c11Cur = nil }()
	var listeners []*c11Listener
	var nn *simnet.Net // network of the neighbour MQTTProxy
	gracenet.ListenHook = func(network, addr string) (net.Listener, error) {
		l := &c11Listener{ch: make(chan struct{})}
		listeners = append(listeners, l)
		return l, nil
	}
	defer func() { gracenet.ListenHook = nil }()

	type rq struct {
		id string
		q  *c11Req
	}
	var all []rq
	for ci := range sc.Clients {
		for qi := range sc.Clients[ci].Reqs {
			q := &sc.Clients[ci].Reqs[qi]
			if c11ReqOK(q) {
				all = append(all, rq{fmt.Sprintf("c%d.%d", ci, qi), q})
			}
		}
	}
	if len(all) == 0 {
		return
	}

	// ---- twins: exp[gv][name][pv][id], exp503[gv][id]
	gvUsed := map[int]bool{sc.GateV: true}
	pvUsed := map[string]map[int]bool{"pa": {}, "pb": {}, "pc": {}}
	for _, in := range sc.Initial {
		pvUsed[in.Name][in.V] = true
	}
	for u := range sc.Updaters {
		for _, op := range sc.Updaters[u].Ops {
			if op.Name == "g" && !op.Same {
				gvUsed[op.V] = true
			}
			if pipeNames[op.Name] && !op.Same && op.Op != "delete" {
				pvUsed[op.Name][op.V] = true
			}
		}
	}
	twinPipes := map[string]*pipeline.Pipeline{}
	// spec objects the twins were built from; each is handed to the system
	// under test at most once, after its twin has been closed
	spare := map[string]*supervisor.Spec{}
	newSpec := func(text string) *supervisor.Spec {
		if sp := spare[text]; sp != nil {
			delete(spare, text)
			return sp
		}
		sp, err := c11NewSpec(text)
		if err != nil || sp == nil {
			r.Probe("c11.tc.spec_rejected")
			r.Eventf("spec rejected: %v\n%s", err, text)
			return nil
		}
		return sp
	}
	for _, name := range []string{"pa", "pb", "pc"} {
		for v := 0; v <= 1000; v++ {
			if !pvUsed[name][v] {
				continue
			}
			sp := newSpec(c11TCPipeText(name, v))
			if sp == nil {
				return
			}
			spare[c11TCPipeText(name, v)] = sp
			tp := &pipeline.Pipeline{}
			tp.Init(sp, nil)
			twinPipes[name+"/"+strconv.Itoa(v)] = tp
		}
	}
	exp := map[string]string{} // "gv/pv/id" or "gv/-/id"
	gateSpare := map[string]*supervisor.Spec{}
	for gv := 0; gv < c11NGateV; gv++ {
		if !gvUsed[gv] {
			continue
		}
		gsp := newSpec(c11GateText("g", 10080, gv))
		if gsp == nil {
			return
		}
		gateSpare[c11GateText("g", 10080, gv)] = gsp
		sel := -1
		tm := &c11FixedMapper{get: func(name string) (context.Handler, bool) {
			if sel < 0 {
				return nil, false
			}
			tp := twinPipes[name+"/"+strconv.Itoa(sel)]
			if tp == nil {
				return nil, false
			}
			return tp, true
		}}
		t := newMux(httpstat.New(), httpstat.NewTopN(10), tm)
		t.reload(gsp, tm)
		for _, x := range all {
			if x.q.Lookup {
				continue
			}
			name := c11RouteOf(x.q.Path)
			for pv := -1; pv <= 1000; pv++ {
				if pv >= 0 && !pvUsed[name][pv] {
					continue
				}
				sel = pv
				rec, pvl, st := c11Serve(t, c11HTTPReq(x.q, x.id, c11ParkExtras(x.q, true)...))
				if pvl != nil {
					r.Probe("c11.tc.twin_panics")
					r.Eventf("twin gv%d pv%d %s panics: %v\n%s", gv, pv, x.id, pvl, st)
					return
				}
				key := fmt.Sprintf("%d/%d/%s", gv, pv, x.id)
				if pv < 0 {
					key = fmt.Sprintf("%d/-/%s", gv, x.id)
				}
				exp[key] = c11FullOutcome(rec)
			}
		}
	}
	for _, tp := range twinPipes {
		tp.Close()
	}
	for text, sp := range gateSpare {
		spare[text] = sp
	}
	hooks.life = map[string]int{}

	// ---- system under test
	tcSpec := newSpec(`{"kind":"TrafficController","name":"tc"}`)
	if tcSpec == nil {
		return
	}
	tc := &trafficcontroller.TrafficController{}
	tc.Init(tcSpec)
	const ns = "default"
	var runtimes []*runtime
	ref := map[string]*c11RefObj{}
	for _, n := range []string{"pa", "pb", "pc", "g", "g2", "o/pa", "o/pb", "mq", "mqpub"} {
		ref[n] = &c11RefObj{hist: []c11RefState{{}}}
	}
	lastEnt := map[string]*supervisor.ObjectEntity{}
	lastText := map[string]string{}
	fail := func(class, format string, a ...interface{}) { r.Violate(class, format, a...) }

	// the gate g
	gtext := c11GateText("g", 10080, sc.GateV)
	gsp := newSpec(gtext)
	if gsp == nil {
		return
	}
	gent, err := tc.ApplyTrafficGateForSpec(ns, gsp)
	if err != nil || gent == nil {
		r.Probe("c11.tc.gate_not_created")
		return
	}
	hs, _ := gent.Instance().(*HTTPServer)
	if hs == nil || hs.runtime == nil {
		r.Probe("c11.tc.gate_not_created")
		return
	}
	rt := hs.runtime
	runtimes = append(runtimes, rt)
	lastEnt["g"], lastText["g"] = gent, gtext
	waitApplied := func(sp *supervisor.Spec) bool {
		for i := 0; i < 5000 && !r.Aborted(); i++ {
			if inst := rt.mux.inst.Load().(*muxInstance); inst.superSpec == sp {
				return true
			}
			r.Sleep(time.Microsecond)
		}
		return r.Aborted()
	}
	cleanup := func() {
		func() {
			defer func() {
				if p := recover(); p != nil {
					fail("C11.tc.panic", "TrafficController.Close panicked: %v\n%s", p, c11Stack())
				}
			}()
			tc.Close()
		}()
		for _, x := range runtimes {
			x.setState(stateClosed) // lets the runtime's checkFailed ticker goroutine end (easegress never sets it)
		}
		for _, l := range listeners {
			l.Close()
		}
		time.Sleep(checkFailedTimeout + time.Second)
		if nn != nil {
			nn.Shutdown()
		}
	}
	if !waitApplied(gsp) {
		fail("C11.tc.update-never-applied", "initial HTTPServer spec not loaded by its runtime")
		cleanup()
		return
	}
	ref["g"].hist[0] = c11RefState{exists: true, v: sc.GateV}
	var mapperNS context.MuxMapper = rt.mux.inst.Load().(*muxInstance).muxMapper

	// the neighbour of another kind: MQTTProxy "mq" on the simulated network
	type touch struct{ start, end uint64 }
	var mqTouches []*touch // every call on mq that may close / restart its broker
	type mqSeenAt struct {
		gen int
		at  uint64
	}
	mqPubSeen := map[string][]mqSeenAt{} // payload of a PUBLISH -> generations of pipeline mqpub that handled it
	mqUntouched := func(t0, t1 uint64) bool {
		for _, t := range mqTouches {
			if t.start <= t1 && (t.end == 0 || t.end >= t0) {
				return false
			}
		}
		return true
	}
	if sc.MQ != nil {
		nn = simnet.New()
		simnet.SetDefault(nn)
		defer simnet.SetDefault(nil)
		api.C11DrainAPIChanges()
		hold := sc.MQ.AuthHold
		if hold < 0 || hold > 8 {
			hold = 0
		}
		hooks.mqPark = func() {
			r.Probe("c11.nb.mqtt_connect_passes_auth_pipeline")
			for i := 0; i < hold && !r.Aborted(); i++ {
				r.Yield("c11.mq.auth")
			}
		}
		asp := newSpec(`{"name":"mqauth","kind":"Pipeline","filters":[{"name":"park","kind":"C11Park","gen":0,"role":"mq","tag":"mqauth"}]}`)
		if asp == nil {
			cleanup()
			return
		}
		if _, err := tc.CreatePipelineForSpec(ns, asp); err != nil {
			r.Probe("c11.nb.auth_pipeline_not_created")
			cleanup()
			return
		}
		if v := sc.MQ.PubV; v >= 0 {
			text := c11MQPubText(v)
			psp := newSpec(text)
			if psp == nil {
				cleanup()
				return
			}
			ent, err := tc.CreatePipelineForSpec(ns, psp)
			if err != nil {
				r.Probe("c11.nb.publish_pipeline_not_created")
				cleanup()
				return
			}
			ref["mqpub"].hist[0] = c11RefState{exists: true, v: v}
			lastEnt["mqpub"], lastText["mqpub"] = ent, text
		}
		hooks.mqSeen = func(tag string, gen int, req *mqttprot.Request) {
			if tag != "mqpub" || req.PacketType() != mqttprot.PublishType {
				return
			}
			if pub := req.PublishPacket(); pub != nil {
				mqPubSeen[string(pub.Payload)] = append(mqPubSeen[string(pub.Payload)], mqSeenAt{gen: gen, at: r.Seq()})
			}
		}
		if v := sc.MQ.InitialV; v >= 0 {
			text := c11MQText(v)
			sp := newSpec(text)
			if sp == nil {
				cleanup()
				return
			}
			ent, err := tc.ApplyTrafficGateForSpec(ns, sp)
			api.C11DrainAPIChanges()
			if err != nil || ent == nil {
				r.Probe("c11.nb.mqttproxy_not_created")
				cleanup()
				return
			}
			ref["mq"].hist[0] = c11RefState{exists: true, v: v}
			lastEnt["mq"], lastText["mq"] = ent, text
		}
	}

	for _, in := range sc.Initial {
		text := c11TCPipeText(in.Name, in.V)
		sp := newSpec(text)
		if sp == nil {
			cleanup()
			return
		}
		ent, err := tc.CreatePipelineForSpec(ns, sp)
		if err != nil {
			r.Probe("c11.tc.initial_pipeline_not_created")
			cleanup()
			return
		}
		ref[in.Name].hist[0] = c11RefState{exists: true, v: in.V}
		lastEnt[in.Name], lastText[in.Name] = ent, text
	}

	enter := map[string]uint64{}
	hooks.park = func(id, role, tag string, gen, hold int, wait time.Duration) {
		if role == "pre" {
			if _, ok := enter[id]; !ok {
				enter[id] = r.Seq()
			}
		}
		for i := 0; i < hold && i < 8 && !r.Aborted(); i++ {
			r.Yield("c11.park." + role)
		}
		if wait > 0 {
			r.Sleep(wait)
		}
	}
	lifeOf := func(tag string) string {
		return fmt.Sprintf("init=%d inherit=%d close=%d", hooks.life[tag+"/init"], hooks.life[tag+"/inherit"], hooks.life[tag+"/close"])
	}
	var sig strings.Builder
	interesting := 0
	opsDone := 0
	kindChanged := map[string]string{} // pipeline -> description of an update that kept the filter name "m" and changed its kind
	changed0 := func(a, b c11RefState) bool { return a.exists != b.exists || a.v != b.v }

	for u := range sc.Updaters {
		u := u
		ops := sc.Updaters[u].Ops
		r.Go(fmt.Sprintf("updater%d", u), func() {
			for oi := range ops {
				if r.Aborted() || r.Violated() {
					return
				}
				op := ops[oi]
				gap := op.GapUs
				if gap < 0 || gap > 10_000_000 {
					gap = 0
				}
				r.Sleep(time.Duration(gap) * time.Microsecond)
				if op.Op == "status" || op.Op == "clean" {
					var pv interface{}
					var st string
					var err error
					anyOther := ref["o/pa"].cur().exists || ref["o/pb"].cur().exists
					var stamps []*c11RefObj
					if op.Op == "clean" {
						for _, n := range []string{"o/pa", "o/pb"} {
							if ref[n].cur().exists {
								ref[n].hist = append(ref[n].hist, c11RefState{start: r.Seq()})
								stamps = append(stamps, ref[n])
							}
						}
					}
					r.Eventf("u%d %s starts", u, op.Op)
					func() {
						defer func() {
							if p := recover(); p != nil {
								pv, st = p, c11Stack()
							}
						}()
						if op.Op == "status" {
							tc.Status()
							r.Probe("c11.tc.status_polled")
						} else {
							err = tc.Clean(c11OtherNS)
							r.Probe("c11.tc.other_namespace_cleaned")
						}
					}()
					if pv != nil {
						fail("C11.tc.panic", "TrafficController.%s panicked: %v\n%s", op.Op, pv, st)
						return
					}
					for _, x := range stamps {
						x.hist[len(x.hist)-1].end = r.Seq()
					}
					if op.Op == "clean" && (err != nil) != !anyOther {
						fail("C11.tc.op-result", "Clean(%s) returned error %v; the namespace had objects: %v", c11OtherNS, err, anyOther)
						return
					}
					opsDone++
					continue
				}
				o := ref[op.Name]
				cur := o.cur()
				isGate := op.Name == "g" || op.Name == "g2" || op.Name == "mq"
				opNS, objName, tag := ns, op.Name, op.Name
				if strings.HasPrefix(op.Name, "o/") {
					opNS, objName = c11OtherNS, strings.TrimPrefix(op.Name, "o/")
					tag = "o-" + objName
					r.Probe("c11.tc.op_on_same_name_in_other_namespace")
				}
				if op.Op == "create" && cur.exists {
					continue // not generated: CreatePipeline on an existing name
				}
				if op.Same && !cur.exists {
					continue
				}
				var text string
				switch {
				case op.Op == "delete" || op.Op == "deletegate":
				case op.Same:
					text = lastText[op.Name]
				case op.Name == "g":
					text = c11GateText("g", 10080, op.V)
				case op.Name == "g2":
					text = c11GateText("g2", 10081, op.V)
				case op.Name == "mq":
					text = c11MQText(op.V)
				case op.Name == "mqpub":
					text = c11MQPubText(op.V)
				default:
					text = c11TCPipeTextTag(objName, tag, op.V)
				}
				var sp *supervisor.Spec
				if text != "" {
					if sp = newSpec(text); sp == nil {
						return
					}
				}
				same := text != "" && cur.exists && text == lastText[op.Name]
				// the state the call produces, by the documented meaning of the call
				next := cur
				wantErr := false
				switch op.Op {
				case "create", "apply", "applygate":
					if !same {
						next = c11RefState{exists: true, v: op.V}
					}
				case "update", "updategate":
					if cur.exists {
						if !same {
							next = c11RefState{exists: true, v: op.V}
						}
					} else {
						wantErr = true
					}
				case "delete", "deletegate":
					if cur.exists {
						next = c11RefState{}
					} else {
						wantErr = true
					}
				}
				if op.Name == "mqpub" && changed0(cur, next) {
					r.Probe("c11.nb.publish_pipeline_changed/" + op.Op)
				}
				if !isGate && op.Name != "mqpub" && cur.exists && next.exists && changed0(cur, next) && c11TCFutKind(cur.v) != c11TCFutKind(next.v) {
					kindChanged[op.Name] = fmt.Sprintf("%s(v%d)->%s(v%d)", c11TCFutKind(cur.v), cur.v, c11TCFutKind(next.v), next.v)
					r.Probe("c11.tc.update_changes_kind_of_named_filter/to-" + c11TCFutKind(next.v))
				}
				lifeBefore := lifeOf(tag)
				var instBefore *muxInstance
				if op.Name == "g" {
					instBefore = rt.mux.inst.Load().(*muxInstance)
				}
				next.start = r.Seq()
				changed := next.exists != cur.exists || next.v != cur.v
				if changed {
					o.hist = append(o.hist, next)
				}
				r.Eventf("u%d %s %s v%d same=%v starts (ref: exists=%v v%d)", u, op.Op, op.Name, op.V, same, cur.exists, cur.v)
				var tch *touch
				if op.Name == "mq" && !(same && op.Op == "applygate") {
					// everything but an apply of an equal spec may close / restart the broker
					tch = &touch{start: r.Seq()}
					mqTouches = append(mqTouches, tch)
					r.Probe("c11.nb.lifecycle_call_on_mqttproxy/" + op.Op)
				}
				var ent *supervisor.ObjectEntity
				var err error
				var pv interface{}
				var st string
				func() {
					defer func() {
						if p := recover(); p != nil {
							pv, st = p, c11Stack()
						}
					}()
					switch op.Op {
					case "create":
						ent, err = tc.CreatePipelineForSpec(opNS, sp)
					case "apply":
						ent, err = tc.ApplyPipelineForSpec(opNS, sp)
					case "update":
						ent, err = tc.UpdatePipelineForSpec(opNS, sp)
					case "delete":
						err = tc.DeletePipeline(opNS, objName)
					case "applygate":
						ent, err = tc.ApplyTrafficGateForSpec(ns, sp)
					case "updategate":
						ent, err = tc.UpdateTrafficGateForSpec(ns, sp)
						r.Probe("c11.tc.update_traffic_gate_called")
					case "deletegate":
						err = tc.DeleteTrafficGate(ns, op.Name)
					}
				}()
				if op.Name == "mq" {
					api.C11DrainAPIChanges()
				}
				if tch != nil {
					tch.end = r.Seq()
				}
				if pv != nil {
					fail("C11.tc.panic", "%s %s panicked: %v\n%s", op.Op, op.Name, pv, st)
					return
				}
				if (err != nil) != wantErr {
					fail("C11.tc.op-result", "%s %s (reference: exists=%v v%d) returned error %v, expected error: %v", op.Op, op.Name, cur.exists, cur.v, err, wantErr)
					return
				}
				opsDone++
				if op.Name == "g2" && ent != nil {
					if h2, ok := ent.Instance().(*HTTPServer); ok && h2.runtime != nil {
						known := false
						for _, x := range runtimes {
							known = known || x == h2.runtime
						}
						if !known {
							runtimes = append(runtimes, h2.runtime)
						}
					}
				}
				// gate g: the update is applied once the runtime has stored the new instance
				if op.Name == "g" && changed {
					if !waitApplied(sp) {
						fail("C11.tc.update-never-applied", "%s(g, version %d) returned, but the runtime never loaded the spec", op.Op, op.V)
						return
					}
				} else if op.Name == "g" && op.Op == "updategate" && err == nil {
					// UpdateTrafficGate with a spec equal to the one in effect: the statement only
					// says that applying an unchanged spec is a no-op, so the runtime may reload
					// it or not. If it does, let the reload finish before the next call (a later
					// identical apply must not see this reload as its own).
					if waitApplied(sp) && rt.mux.inst.Load().(*muxInstance).superSpec == sp {
						r.Probe("c11.tc.update_with_equal_spec_reloaded")
					} else {
						r.Probe("c11.tc.update_with_equal_spec_not_reloaded")
					}
				}
				if changed {
					o.hist[len(o.hist)-1].end = r.Seq()
				}
				if same && err == nil && (op.Op == "apply" || op.Op == "applygate") {
					r.Probe("c11.tc.identical_spec_applied")
					kindName := "Pipeline"
					if isGate {
						kindName = "HTTPServer"
					}
					if ent != lastEnt[op.Name] {
						fail("C11.tc.noop-apply-lifecycle/"+kindName, "%s of %s with a spec equal to the one in effect returned a different entity (generation %d instead of %d)", op.Op, op.Name, ent.Generation(), lastEnt[op.Name].Generation())
						return
					}
					if lb := lifeOf(tag); lb != lifeBefore {
						fail("C11.tc.noop-apply-lifecycle/"+kindName, "%s of %s with a spec equal to the one in effect ran lifecycle calls on its filters: before %s, after %s", op.Op, op.Name, lifeBefore, lb)
						return
					}
					if op.Name == "g" {
						for i := 0; i < 30 && !r.Aborted(); i++ {
							r.Sleep(time.Microsecond)
						}
						if ia := rt.mux.inst.Load().(*muxInstance); ia != instBefore {
							fail("C11.tc.noop-apply-lifecycle/HTTPServer", "ApplyTrafficGate of g with a spec equal to the one in effect made the runtime reload its mux")
							return
						}
					}
				}
				if err == nil && ent != nil {
					lastEnt[op.Name] = ent
					lastText[op.Name] = text
				}
				if op.Op == "delete" || op.Op == "deletegate" {
					if err == nil {
						delete(lastEnt, op.Name)
						delete(lastText, op.Name)
					}
				}
				r.Eventf("u%d %s %s done err=%v", u, op.Op, op.Name, err)
			}
		})
	}

	for ci := range sc.Clients {
		ci := ci
		reqs := sc.Clients[ci].Reqs
		r.Go(fmt.Sprintf("client%d", ci), func() {
			for qi := range reqs {
				if r.Aborted() {
					return
				}
				q := &reqs[qi]
				if !c11ReqOK(q) {
					continue
				}
				gap := q.GapUs
				if gap < 0 || gap > 10_000_000 {
					gap = 0
				}
				r.Sleep(time.Duration(gap) * time.Microsecond)
				id := fmt.Sprintf("c%d.%d", ci, qi)
				name := c11RouteOf(q.Path)
				t0 := r.Seq()
				if q.Lookup {
					var found bool
					var pv interface{}
					var st string
					func() {
						defer func() {
							if p := recover(); p != nil {
								pv, st = p, c11Stack()
							}
						}()
						_, found = mapperNS.GetHandler(name)
					}()
					t1 := r.Seq()
					if pv != nil {
						fail("C11.tc.panic", "Namespace.GetHandler(%s) panicked: %v\n%s", name, pv, st)
						return
					}
					vis := ref[name].visible(t0, t1)
					okF := false
					allExist := true
					for _, s := range vis {
						okF = okF || s.exists == found
						allExist = allExist && s.exists
					}
					r.Eventf("%s lookup %s -> %v", id, name, found)
					fmt.Fprintf(&sig, "%s?%v;", id, found)
					if len(vis) > 1 {
						r.Probe("c11.tc.lookup_overlaps_call_on_its_pipeline")
					}
					if !okF {
						class := "C11.tc.mixed-generations"
						if !found && allExist {
							class = "C11.tc.unavailable-during-update"
							if len(vis) == 1 {
								class = "C11.tc.untouched-object-unavailable"
							}
						}
						fail(class, "Namespace.GetHandler(%q) returned found=%v; reference states possible during the call: %+v\ncode path: trafficcontroller.go Namespace.GetHandler / Apply|Update|Delete Pipeline", name, found, vis)
						return
					}
					continue
				}
				rec, pv, st := c11Serve(rt.mux, c11HTTPReq(q, id, c11ParkExtras(q, false)...))
				r.Yield("c11.tc.after")
				t1 := r.Seq()
				if e, ok := enter[id]; ok {
					t1 = e
				}
				if pv != nil {
					fail("C11.tc.panic", "request {%v} panicked: %v\n%s", q, pv, st)
					return
				}
				got := c11FullOutcome(rec)
				gvis := ref["g"].visible(t0, t1)
				pvis := ref[name].visible(t0, t1)
				r.Eventf("%s %v -> %s (gate states %d, %s states %d)", id, q, got, len(gvis), name, len(pvis))
				fmt.Fprintf(&sig, "%s>%s;", id, got)
				if len(pvis) > 1 {
					interesting++
					r.Probe("c11.tc.request_overlaps_call_on_its_pipeline")
				}
				if len(gvis) > 1 {
					interesting++
					r.Probe("c11.tc.request_overlaps_gate_update")
				}
				if opsDone > 0 {
					r.Probe("c11.tc.request_after_some_call")
				}
				ok := false
				allExist := true
				for _, gs := range gvis {
					for _, ps := range pvis {
						key := fmt.Sprintf("%d/-/%s", gs.v, id)
						if ps.exists {
							key = fmt.Sprintf("%d/%d/%s", gs.v, ps.v, id)
						} else {
							allExist = false
						}
						if e, have := exp[key]; have && e == got {
							ok = true
						}
					}
				}
				if rec.Code == http.StatusServiceUnavailable {
					r.Probe("c11.tc.answer_503")
				}
				if ok {
					continue
				}
				class, why := "C11.tc.mixed-generations", "the answer equals the twin answer of no possible (gate version, pipeline version) pair"
				is503 := false
				for gv := 0; gv < c11NGateV; gv++ {
					if e, have := exp[fmt.Sprintf("%d/-/%s", gv, id)]; have && e == got {
						is503 = true
					}
				}
				switch {
				case is503 && allExist && kindChanged[name] != "":
					class, why = "C11.tc.kind-change-broken-pipeline", fmt.Sprintf("pipeline %s exists in every state possible during the request, but after an update that keeps the name of its filter \"m\" and changes its kind (%s) requests are answered 503: "+
						"pipeline.go reload() looks the previous filter up by name only and calls Inherit(prev) of the new kind, which type-asserts and panics; ObjectEntity.InheritWithRecovery swallows the panic and UpdatePipeline/ApplyPipeline store the half-built pipeline (empty flow, no response)", name, kindChanged[name])
				case is503 && allExist && len(pvis) == 1:
					class, why = "C11.tc.untouched-object-unavailable", fmt.Sprintf("pipeline %s existed during the whole request and no call on it overlapped, but the request was answered as if it did not exist", name)
				case is503 && allExist:
					class, why = "C11.tc.unavailable-during-update", fmt.Sprintf("pipeline %s exists in every state possible during the request (an apply/update overlapped), but the request was answered as if it did not exist", name)
				default:
					var keys []string
					for k := range exp {
						keys = append(keys, k)
					}
					sort.Strings(keys)
					for _, k := range keys {
						if e := exp[k]; e == got && strings.HasSuffix(k, "/"+id) {
							class, why = "C11.tc.stale-generation", "the answer is the twin answer of "+k+" (gate version/pipeline version/request), which is outside the possible window"
							var gvv, pvv int
							if n, _ := fmt.Sscanf(k, "%d/%d/", &gvv, &pvv); n == 2 {
								newer := false
								for _, s := range ref[name].hist {
									if s.v == pvv && s.exists && s.start > t1 {
										newer = true
									}
								}
								for _, s := range ref["g"].hist {
									if s.v == gvv && s.start > t1 {
										newer = true
									}
								}
								if newer {
									class = "C11.tc.unapplied-generation"
								}
							}
						}
					}
				}
				fail(class, "request {%v} routed to %s: got %s\n%s\npossible gate states %+v\npossible %s states %+v\ncode path: trafficcontroller.go Apply/Update/Delete* + Namespace.GetHandler, httpserver runtime.reload -> mux.reload", q, name, got, why, gvis, name, pvis)
				return
			}
		})
	}
	if sc.MQ != nil {
		for ci := range sc.MQ.Clients {
			ci := ci
			cl := sc.MQ.Clients[ci]
			r.Go(fmt.Sprintf("mqtt%d", ci), func() {
				// every connection uses a client id of its own: reconnecting with the same id
				// right after a close is C16's business (known finding
				// C16.reconnect.killed-by-own-delete-event), not this property's
				cid, nconn := fmt.Sprintf("m%d", ci), 0
				npub := 0 // PUBLISH packets acknowledged on the current connection
				var conn net.Conn
				var t0 uint64 // stamp taken before the dial of the current connection
				mid := uint16(0)
				drop := func() {
					if conn != nil {
						conn.Close()
						conn = nil
					}
				}
				defer drop()
				// judge decides what a failed step means: with the MQTTProxy existing and no
				// lifecycle call on it since the connection was begun it is a violation
				judge := func(phase, what string, err error) bool {
					t1 := r.Seq()
					drop()
					st := ref["mq"].cur()
					if st.exists && mqUntouched(t0, t1) {
						class := "C11.neighbour.mqtt-client-disconnected"
						if phase == "connect" {
							class = "C11.neighbour.mqtt-unavailable"
						}
						fail(class, "MQTT client %s: %s failed: %v; MQTTProxy mq exists (version %d) and no create/update/delete of it overlapped this connection (stamps %d..%d, calls on mq: %d); "+
							"calls on the HTTP objects of the same TrafficController must not disturb it", cid, what, err, st.v, t0, t1, len(mqTouches))
						return false
					}
					r.Probe("c11.nb.mqtt_" + phase + "_failed_while_mqttproxy_absent_or_touched")
					return true
				}
				// expect reads until a packet of the wanted type arrives; deliveries are acknowledged on the way
				expect := func(want byte) (packets.ControlPacket, error) {
					for i := 0; i < 64; i++ {
						p, err := packets.ReadPacket(conn)
						if err != nil {
							return nil, err
						}
						if pub, ok := p.(*packets.PublishPacket); ok && want != packets.Publish {
							r.Probe("c11.nb.mqtt_delivery_received")
							if pub.Qos == 1 {
								ack := packets.NewControlPacket(packets.Puback).(*packets.PubackPacket)
								ack.MessageID = pub.MessageID
								if err := ack.Write(conn); err != nil {
									return nil, err
								}
							}
							continue
						}
						switch p.(type) {
						case *packets.ConnackPacket:
							if want == packets.Connack {
								return p, nil
							}
						case *packets.SubackPacket:
							if want == packets.Suback {
								return p, nil
							}
						case *packets.PubackPacket:
							if want == packets.Puback {
								return p, nil
							}
						case *packets.PingrespPacket:
							if want == packets.Pingresp {
								return p, nil
							}
						}
					}
					return nil, fmt.Errorf("no packet of type %d among 64 packets", want)
				}
				for si := range cl.Steps {
					if r.Aborted() || r.Violated() {
						return
					}
					st := cl.Steps[si]
					gap := st.GapUs
					if gap < 0 || gap > 10_000_000 {
						gap = 0
					}
					r.Sleep(time.Duration(gap) * time.Microsecond)
					if st.Op != "connect" && conn == nil {
						continue
					}
					switch st.Op {
					case "connect":
						drop()
						nconn++
						npub = 0
						cid = fmt.Sprintf("m%d-%d", ci, nconn)
						t0 = r.Seq()
						existed := ref["mq"].cur().exists
						c, err := nn.Dial(stdcontext.Background(), "tcp", "mq.test:1883")
						if err != nil {
							if !judge("connect", "dial", err) {
								return
							}
							continue
						}
						conn = c
						conn.SetDeadline(time.Now().Add(24 * time.Hour))
						cp := packets.NewControlPacket(packets.Connect).(*packets.ConnectPacket)
						cp.ClientIdentifier, cp.CleanSession, cp.Keepalive = cid, cl.Clean, 0
						cp.ProtocolName, cp.ProtocolVersion = "MQTT", 4
						r.Eventf("%s CONNECT (mq existed: %v)", cid, existed)
						err = cp.Write(conn)
						var p packets.ControlPacket
						if err == nil {
							p, err = expect(packets.Connack)
						}
						if err == nil && p.(*packets.ConnackPacket).ReturnCode != packets.Accepted {
							err = fmt.Errorf("CONNACK return code %d", p.(*packets.ConnackPacket).ReturnCode)
						}
						if err != nil {
							if !judge("connect", "CONNECT", err) {
								return
							}
							continue
						}
						r.Probe("c11.nb.mqtt_connected")
						if len(mqTouches) > 0 {
							r.Probe("c11.nb.mqtt_connected_after_lifecycle_call")
						}
					case "sub":
						mid++
						sp := packets.NewControlPacket(packets.Subscribe).(*packets.SubscribePacket)
						sp.MessageID, sp.Topics, sp.Qoss = mid, []string{"t/" + cid}, []byte{1}
						err := sp.Write(conn)
						if err == nil {
							_, err = expect(packets.Suback)
						}
						if err != nil {
							if !judge("session", "SUBSCRIBE", err) {
								return
							}
							continue
						}
						r.Probe("c11.nb.mqtt_subscribed")
					case "pub":
						mid++
						pp := packets.NewControlPacket(packets.Publish).(*packets.PublishPacket)
						payload := fmt.Sprintf("%s#%d", cid, mid)
						pp.MessageID, pp.TopicName, pp.Qos, pp.Payload = mid, "t/"+cid, 1, []byte(payload)
						tSend := r.Seq()
						err := pp.Write(conn)
						if err == nil {
							_, err = expect(packets.Puback)
						}
						if err != nil {
							if !judge("session", "PUBLISH", err) {
								return
							}
							continue
						}
						r.Probe("c11.nb.mqtt_published")
						npub++
						// which generation of the Publish pipeline handled the packet: judged when
						// the MQTTProxy was untouched during this connection and routes PUBLISH to mqpub
						if mst := ref["mq"].cur(); mst.exists && c11MQHasPublishRule(mst.v) && mqUntouched(t0, r.Seq()) {
							seen := mqPubSeen[payload]
							tH := r.Seq()
							if len(seen) > 0 {
								tH = seen[0].at
							}
							vis := ref["mqpub"].visible(tSend, tH)
							okGen, mayAbsent, allAbsent := false, false, true
							for _, vs := range vis {
								if vs.exists {
									allAbsent = false
									okGen = okGen || (len(seen) == 1 && seen[0].gen == vs.v)
								} else {
									mayAbsent = true
								}
							}
							if len(ref["mqpub"].hist) > 1 && npub > 1 {
								r.Probe("c11.nb.publish_on_connection_that_published_before_pipeline_update")
							}
							switch {
							case len(seen) == 0 && (mayAbsent || allAbsent):
								// no pipeline of that name: the packet is handled without one
							case okGen:
								r.Probe("c11.nb.publish_handled_by_current_pipeline_generation")
							default:
								fail("C11.neighbour.mqtt-stale-pipeline-generation", "MQTT client %s (connection begun at stamp %d, %d PUBLISH packets so far) sent PUBLISH %q at stamp %d; MQTTProxy mq (version %d, untouched during this connection) routes PUBLISH to pipeline mqpub; "+
									"the packet was handled by generation(s) %+v of mqpub, possible states of mqpub between the send and the handling: %+v (history %+v)\n"+
									"once an update of the pipeline has been applied, a packet sent afterwards must see the new generation, also on a connection that existed before",
									cid, t0, npub, payload, tSend, mst.v, seen, vis, ref["mqpub"].hist)
								return
							}
						}
					case "ping":
						err := packets.NewControlPacket(packets.Pingreq).Write(conn)
						if err == nil {
							_, err = expect(packets.Pingresp)
						}
						if err != nil {
							if !judge("session", "PINGREQ", err) {
								return
							}
							continue
						}
						r.Probe("c11.nb.mqtt_ping_answered")
						if opsDone > 0 {
							r.Probe("c11.nb.mqtt_connection_alive_after_calls_on_other_objects")
						}
					case "disc":
						packets.NewControlPacket(packets.Disconnect).Write(conn)
						drop()
					}
				}
				// a connection that is still open must still be served at the end of the client's script
				if conn != nil {
					err := packets.NewControlPacket(packets.Pingreq).Write(conn)
					if err == nil {
						_, err = expect(packets.Pingresp)
					}
					if err != nil {
						judge("session", "final PINGREQ", err)
					}
				}
			})
		}
	}
	r.WaitTasks()
	if !r.Violated() && !r.Aborted() {
		// final state: every pipeline is there / gone as the reference says, in both namespaces
		for _, n := range []string{"pa", "pb", "pc", "o/pa", "o/pb", "mqpub"} {
			if n == "mqpub" && sc.MQ == nil {
				continue
			}
			qns, qn := ns, n
			if strings.HasPrefix(n, "o/") {
				qns, qn = c11OtherNS, strings.TrimPrefix(n, "o/")
			}
			_, found := tc.GetPipeline(qns, qn)
			if want := ref[n].cur().exists; found != want {
				class := "C11.tc.op-result"
				if want {
					class = "C11.tc.untouched-object-unavailable"
				}
				fail(class, "at the end of the run GetPipeline(%s, %s) found=%v, the reference says exists=%v (history %+v)", qns, qn, found, want, ref[n].hist)
				break
			}
		}
	}
	cleanup()
	if interesting > 0 {
		r.Nontrivial()
	}
	r.SetSig("tc|" + sig.String())
}
