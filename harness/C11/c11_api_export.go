package api

// This file is added by the C11 verification harness; it is not part of
// easegress.

// C11DrainAPIChanges empties the package's change-notification channel the way
// the admin API server's dynamic mux does (dynamicmux.go: case <-apisChangeChan).
// RegisterAPIs / UnregisterAPIs send on that channel (capacity 10) while
// holding the registry mutex; MQTTProxy.Init registers its APIs, and in the
// harness no API server runs, so without a reader the eleventh registration of
// a process would block forever.
func C11DrainAPIChanges() {
	for {
		select {
		case <-apisChangeChan:
		default:
			return
		}
	}
}
