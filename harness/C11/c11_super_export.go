package supervisor

import "github.com/megaease/easegress/pkg/util/yamltool"

// C11Respec is added by the C11 verification harness (it is not part of
// easegress). It returns a fresh, independent Spec equal to proto, which must
// have been produced (and therefore validated) by NewSpec: the object spec is
// decoded again from proto's final YAML into a new DefaultSpec exactly as
// NewSpec does, only the two (expensive, side-effect free) validation passes
// are not repeated. The harness uses it to avoid re-validating a spec text it
// has already put through the real NewSpec in the same process.
func C11Respec(proto *Spec) *Spec {
	root, ok := objectRegistry[proto.meta.Kind]
	if !ok {
		return nil
	}
	meta := *proto.meta
	objectSpec := root.DefaultSpec()
	yamltool.Unmarshal([]byte(proto.yamlConfig), objectSpec)
	var rawSpec map[string]interface{}
	yamltool.Unmarshal([]byte(proto.yamlConfig), &rawSpec)
	return &Spec{super: proto.super, meta: &meta, objectSpec: objectSpec, rawSpec: rawSpec, yamlConfig: proto.yamlConfig}
}
