package proxy

import (
	"net/http"
	"runtime"

	"github.com/megaease/easegress/pkg/filters"
)

// This file is added by the C11 verification harness; it is not part of
// easegress.

// C11SetBackend replaces the package's fnSendRequest variable (which the
// package already provides for its own tests) by a scripted backend, so that a
// Proxy filter can be driven without sockets and a request can be kept "in
// flight at the backend". C11SetBackend(nil) restores client.Do.
func C11SetBackend(f func(r *http.Request) (*http.Response, error)) {
	if f == nil {
		fnSendRequest = func(r *http.Request, client *http.Client) (*http.Response, error) {
			return client.Do(r)
		}
		return
	}
	fnSendRequest = func(r *http.Request, client *http.Client) (*http.Response, error) {
		if client == nil {
			// behave like the real transport would: (*http.Client)(nil).Do panics
			return client.Do(r)
		}
		return f(r)
	}
}

var c11Tracked []*Proxy
var c11Tracking bool

func init() {
	create := kind.CreateInstance
	kind.CreateInstance = func(spec filters.Spec) filters.Filter {
		f := create(spec)
		if c11Tracking {
			if p, ok := f.(*Proxy); ok {
				c11Tracked = append(c11Tracked, p)
			}
		}
		return f
	}
}

// C11Track starts remembering the Proxy instances created from now on.
func C11Track() { c11Tracking, c11Tracked = true, nil }

// C11Release forgets the tracked instances after detaching the finalizers of
// their memory caches: go-cache stops its janitor goroutine from a finalizer,
// by a channel send; for a cache created inside a testing/synctest bubble
// that send would come from outside the bubble and crash the process.
func C11Release() {
	for _, p := range c11Tracked {
		pools := append([]*ServerPool{p.mainPool, p.mirrorPool}, p.candidatePools...)
		for _, sp := range pools {
			if sp != nil && sp.memoryCache != nil && sp.memoryCache.cache != nil {
				runtime.SetFinalizer(sp.memoryCache.cache, nil)
			}
		}
	}
	c11Tracking, c11Tracked = false, nil
}
