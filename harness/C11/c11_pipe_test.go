//go:build go1.21

package httpserver

// C11, mode "pipe": pipeline / filter generations.
//
// One filter kind is under test per run. Generation 0 of a real
// pipeline.Pipeline is built with Init, every further generation with
// new.Inherit(spec, previous) — which, as in TrafficController.UpdatePipeline,
// closes the previous generation — and only then becomes the one new requests
// get. The flow of every generation is
//
//	pre (C11Park) -> fut (the kind under test) [-> extra (ResponseAdaptor)] -> post (C11Park)
//
// C11Park is a filter kind registered by the harness: it stamps its
// generation number on the request (pre) / response (post), echoes what the
// request looks like after the filter under test, and PARKS the request (gates
// and virtual time taken from the request), so that a request that obtained
// generation g is still before, inside (Proxy backend call, RateLimiter wait,
// Mock delay) or behind the filter under test of g when g' inherits from g.
//
// ORACLE: a quiescent twin pipeline per generation (own spec object, Init, no
// Inherit, never used concurrently) answers every request before traffic
// starts. A request that entered generation g must finish without panic and
// with the twin answer of g (status, all headers, body, echo), however many
// newer generations have inherited from g meanwhile. Stateful kinds:
// RateLimiter — twin uses the same spec with an ample limit, and a 429 carrying
// the limiter's marker is accepted as well (limiter state is shared between
// generations by design); Proxy — any server of the held generation's pool.
//
// Proxy variants 6/7 carry a resilience section (retry / circuit breaker
// policies, pool timeout, failureCodes) that changes across the generations and
// requests whose first backend attempts fail; they are judged by the reference
// model in c11_resil_test.go in addition to the twin (classes
// C11.pipe.resilience-*/Proxy).
//
//	C11.old-generation-panic/<Kind>     panic in a request running on a generation some newer generation has inherited from
//	C11.pipe.panic/<Kind>               panic in a request on a generation nobody inherited from yet
//	C11.inherit-panic/<Kind>            Pipeline.Inherit panicked
//	C11.kind-change-inherit-panic/<NewKind>  Pipeline.Inherit panicked for an update that keeps a filter's NAME and changes its KIND (to <NewKind>; the old kind is in the message)
//	C11.old-generation-response/<Kind>  request on an inherited-from generation answered unlike that generation's twin
//	C11.generation-response/<Kind>      request on the current generation answered unlike its twin (new generation does not serve the new spec)
//	C11.pipe.close-panic/<Kind>         closing the last generation panicked

import (
	"compress/gzip"
	"encoding/json"
	"fmt"
	"io"
	"net/http"
	"net/http/httptest"
	"os"
	"sort"
	"strconv"
	"strings"
	"time"

	"github.com/megaease/easegress/pkg/context"
	"github.com/megaease/easegress/pkg/filters"
	_ "github.com/megaease/easegress/pkg/filters/builder"
	_ "github.com/megaease/easegress/pkg/filters/certextractor"
	_ "github.com/megaease/easegress/pkg/filters/corsadaptor"
	_ "github.com/megaease/easegress/pkg/filters/fallback"
	_ "github.com/megaease/easegress/pkg/filters/headertojson"
	_ "github.com/megaease/easegress/pkg/filters/mock"
	"github.com/megaease/easegress/pkg/filters/proxy"
	_ "github.com/megaease/easegress/pkg/filters/ratelimiter"
	_ "github.com/megaease/easegress/pkg/filters/requestadaptor"
	_ "github.com/megaease/easegress/pkg/filters/responseadaptor"
	_ "github.com/megaease/easegress/pkg/filters/validator"
	"github.com/megaease/easegress/pkg/object/pipeline"
	"github.com/megaease/easegress/pkg/protocols/httpprot"
	"github.com/megaease/easegress/pkg/protocols/mqttprot"
	"github.com/megaease/easegress/pkg/protocols/httpprot/httpstat"
	"github.com/megaease/easegress/pkg/supervisor"
	"verif/simkit/sim"
)

// ---- the harness filter kind C11Park -------------------------------------------------

type c11ParkSpec struct {
	filters.BaseSpec `yaml:",inline"`

	Gen  int    `yaml:"gen" jsonschema:"omitempty"`
	Role string `yaml:"role" jsonschema:"omitempty"`
	Tag  string `yaml:"tag" jsonschema:"omitempty"`
}

type c11Park struct {
	spec *c11ParkSpec
}

// c11Hooks is the per-run state the harness-registered kinds report to.
type c11Hooks struct {
	run  *sim.Run
	life map[string]int // "<tag>/<event>" -> count (Init, Inherit, Close of C11Park instances)
	// park is called by a C11Park filter for a non-twin request.
	park func(id, role, tag string, gen int, hold int, wait time.Duration)
	// mqPark is called by a C11Park filter that meets a request which is not an
	// HTTP request (the MQTT CONNECT of the neighbour MQTTProxy's Connect pipeline).
	mqPark func()
	// mqSeen reports (tag, generation) of the C11Park filter an MQTT request passes.
	mqSeen func(tag string, gen int, req *mqttprot.Request)
}

var c11Cur *c11Hooks

var c11ParkKind = &filters.Kind{
	Name:        "C11Park",
	Description: "verification harness filter: stamps its generation, echoes the request, parks",
	Results:     []string{},
	DefaultSpec: func() filters.Spec { return &c11ParkSpec{} },
	CreateInstance: func(spec filters.Spec) filters.Filter {
		return &c11Park{spec: spec.(*c11ParkSpec)}
	},
}

var c11Registered bool

func c11RegisterKinds() {
	if !c11Registered {
		filters.Register(c11ParkKind)
		c11Registered = true
	}
}

func (p *c11Park) Name() string        { return p.spec.Name() }
func (p *c11Park) Kind() *filters.Kind { return c11ParkKind }
func (p *c11Park) Spec() filters.Spec  { return p.spec }
func (p *c11Park) Status() interface{} { return nil }

func (p *c11Park) lifeEvent(ev string) {
	if h := c11Cur; h != nil {
		h.life[p.spec.Tag+"/"+ev]++
	}
}

func (p *c11Park) Init()                    { p.lifeEvent("init") }
func (p *c11Park) Inherit(_ filters.Filter) { p.lifeEvent("inherit") }
func (p *c11Park) Close()                   { p.lifeEvent("close") }

func c11Atoi(s string) int {
	n, err := strconv.Atoi(s)
	if err != nil || n < 0 || n > 1<<30 {
		return 0
	}
	return n
}

func (p *c11Park) Handle(ctx *context.Context) string {
	req, _ := ctx.GetInputRequest().(*httpprot.Request)
	if req == nil {
		mreq, _ := ctx.GetInputRequest().(*mqttprot.Request)
		if hk := c11Cur; hk != nil && mreq != nil && hk.mqSeen != nil {
			hk.mqSeen(p.spec.Tag, p.spec.Gen, mreq)
		}
		if hk := c11Cur; hk != nil && hk.mqPark != nil && p.spec.Tag == "mqauth" {
			hk.mqPark()
		}
		return ""
	}
	h := req.HTTPHeader()
	gen := strconv.Itoa(p.spec.Gen)
	hold, wait := 0, time.Duration(0)
	switch p.spec.Role {
	case "pre":
		h.Set("X-C11-Pre-Gen", gen)
		resp, _ := httpprot.NewResponse(nil)
		resp.SetStatusCode(http.StatusOK)
		resp.HTTPHeader().Set("X-C11-Base", p.spec.Tag+gen)
		resp.SetPayload([]byte("base"))
		ctx.SetOutputResponse(resp)
		hold = c11Atoi(h.Get("X-C11-Hold"))
		wait = time.Duration(c11Atoi(h.Get("X-C11-Wait"))) * time.Microsecond
	default:
		var resp *httpprot.Response
		if v := ctx.GetInputResponse(); v != nil {
			resp, _ = v.(*httpprot.Response)
		}
		if resp == nil {
			resp, _ = httpprot.NewResponse(nil)
			resp.SetStatusCode(http.StatusOK)
			ctx.SetOutputResponse(resp)
		}
		n := -1
		if !req.IsStream() {
			n = len(req.RawPayload())
		}
		resp.HTTPHeader().Set("X-C11-Post-Gen", p.spec.Tag+gen)
		resp.HTTPHeader().Set("X-C11-Echo", fmt.Sprintf("pre=%s %s %s host=%s reqa=%q user=%q xv=%q cn=%q body=%d", h.Get("X-C11-Pre-Gen"), req.Method(), req.Path(), req.Host(),
			strings.Join(h.Values("X-Req-A"), ";"), h.Get("X-Auth-User"), h.Get("X-V"), h.Get("X-Cn"), n))
		hold = c11Atoi(h.Get("X-C11-Hold2"))
	}
	if hk := c11Cur; hk != nil && hk.park != nil && h.Get("X-C11-Twin") == "" {
		hk.park(h.Get("X-C11-Id"), p.spec.Role, p.spec.Tag, p.spec.Gen, hold, wait)
	}
	return ""
}

// ---- scenario -------------------------------------------------------------------------

type c11PipeGen struct {
	GapUs   int64  `json:"gap_us,omitempty"`
	V       int    `json:"v"`                  // configuration variant of the filter under test
	FutName string `json:"fut_name"`           // name of the filter under test (a new name means Init instead of Inherit)
	Jump    bool   `json:"jump,omitempty"`     // every result of the filter under test jumps to the post filter
	Extra   bool   `json:"extra,omitempty"`    // a ResponseAdaptor between the filter under test and post
	Resil   bool   `json:"resil,omitempty"`    // Proxy: retry + circuit breaker policies on the main pool
	Kind    string `json:"kind,omitempty"`     // kind of the filter under test in this generation (empty: the scenario's kind); a generation may keep the NAME and change the KIND
	NoFlow  bool   `json:"no_flow,omitempty"`  // the spec has no flow section: the order of the filters is the flow (no jumpIf)
	JumpEnd bool   `json:"jump_end,omitempty"` // Jump: the results of the filter under test jump to END instead of the post filter
	Res     *c11Resil `json:"res,omitempty"`   // Proxy variants 6/7: pools, policies, timeouts (c11_resil_test.go)
}

type c11PipeSc struct {
	Kind    string       `json:"kind"`
	Gens    []c11PipeGen `json:"gens"`
	Clients []c11Client  `json:"clients"`
}

var c11Kinds = []string{"RateLimiter", "RateLimiter", "RateLimiter", "Proxy", "Proxy", "Proxy", "Mock", "ResponseAdaptor", "RequestAdaptor", "Validator",
	"Fallback", "CORSAdaptor", "ResponseBuilder", "RequestBuilder", "HeaderToJSON", "CertExtractor"}

var c11NVariants = map[string]int{"RateLimiter": 4, "Proxy": 8, "Mock": 4, "ResponseAdaptor": 4, "RequestAdaptor": 5, "Validator": 3,
	"Fallback": 2, "CORSAdaptor": 3, "ResponseBuilder": 2, "RequestBuilder": 2, "HeaderToJSON": 2, "CertExtractor": 1}

func c11GenPipe(rng *sim.Rand) *c11PipeSc {
	sc := &c11PipeSc{Kind: c11Kinds[rng.Intn(len(c11Kinds))]}
	if skip := os.Getenv("VERIF_C11_SKIP"); skip != "" && strings.Contains(skip, sc.Kind) {
		// development aid for mutation experiments: keep a known finding of one
		// kind from ending the quick tier before other kinds are exercised
		sc.Kind = "Mock"
	}
	nv := c11NVariants[sc.Kind]
	g := c11PipeGen{V: rng.Intn(nv), FutName: "fut", Jump: rng.Bool(0.5), Extra: rng.Bool(0.3), Resil: rng.Bool(0.3), NoFlow: rng.Bool(0.15), JumpEnd: rng.Bool(0.3)}
	// resilience-observable flavour: every Proxy generation is variant 6 or 7,
	// requests carry fail scripts for the backend
	resObs := sc.Kind == "Proxy" && rng.Bool(0.65)
	if os.Getenv("VERIF_C11_ONLYRES") != "" {
		sc.Kind, resObs = "Proxy", true
	}
	if os.Getenv("VERIF_C11_NORES") != "" {
		resObs = false // development aid: run-rate comparison without the resilience flavour
	}
	pTight := []float64{0, 0.15, 0.5}[rng.Intn(3)]
	// breaker focus: the tight breaker is ADDED (and removed again) by updates, so
	// that its reference state is exact in the generation built by Inherit
	cbFocus := resObs && pTight >= 0.5
	if resObs {
		g.V = 6 + rng.Intn(2)
		g.Res = c11GenResil(rng, pTight)
		if cbFocus {
			g.Res.Main.CB, g.Res.Cand.CB = rng.PickStr("", "ample"), rng.PickStr("", "ample", "tight")
		}
	}
	sc.Gens = append(sc.Gens, g)
	ng := rng.Pick(1, 1, 2, 2, 3)
	pSame := []float64{0.3, 0.6, 0.9}[rng.Intn(3)]
	for i := 0; i < ng; i++ {
		n := sc.Gens[len(sc.Gens)-1]
		if n.Kind == "" && !rng.Bool(pSame) {
			n.V = rng.Intn(nv)
			if resObs {
				n.V = 6 + rng.Intn(2)
			}
		}
		if resObs {
			// keep / add / remove / change the policies (also while the kind is
			// temporarily another one: the next Proxy generation then starts afresh)
			prevRes := sc.Gens[len(sc.Gens)-1].Res
			n.Res = c11EditResil(rng, prevRes, pTight)
			if cbFocus {
				for _, pl := range [][2]*c11PoolRes{{&prevRes.Main, &n.Res.Main}, {&prevRes.Cand, &n.Res.Cand}} {
					if pl[0].CB == "tight" {
						if rng.Bool(0.7) {
							pl[1].CB = rng.PickStr("", "ample")
						}
					} else if rng.Bool(0.6) {
						pl[1].CB = "tight"
					}
				}
			}
		}
		if rng.Bool(0.15) {
			// same filter name, another kind
			k := c11Kinds[rng.Intn(len(c11Kinds))]
			if skip := os.Getenv("VERIF_C11_SKIP"); skip != "" && strings.Contains(skip, k) {
				k = "Mock"
			}
			n.Kind = k
			n.V = rng.Intn(c11NVariants[k])
		} else if n.Kind != "" && !rng.Bool(pSame) {
			n.V = rng.Intn(c11NVariants[n.Kind])
		}
		if rng.Bool(0.12) {
			if n.FutName == "fut" {
				n.FutName = "fut2"
			} else {
				n.FutName = "fut"
			}
		}
		if rng.Bool(0.2) {
			n.Jump = !n.Jump
		}
		if rng.Bool(0.1) {
			n.NoFlow = !n.NoFlow
		}
		if rng.Bool(0.15) {
			n.JumpEnd = !n.JumpEnd
		}
		if rng.Bool(0.2) {
			n.Extra = !n.Extra
		}
		if rng.Bool(0.15) {
			n.Resil = !n.Resil
		}
		n.GapUs = int64(rng.Pick(0, 0, 1, 10, 100, 1000, 5000, 20000))
		sc.Gens = append(sc.Gens, n)
	}
	pHold := []float64{0.3, 0.6, 0.9}[rng.Intn(3)]
	sc.Clients = c11GenReqs(rng, rng.Range(1, 4), rng.Range(3, 16), pHold, true)
	for ci := range sc.Clients {
		for qi := range sc.Clients[ci].Reqs {
			q := &sc.Clients[ci].Reqs[qi]
			if rng.Bool(pHold * 0.6) {
				q.Hold2 = rng.Range(1, 3)
			}
			if rng.Bool(0.3) {
				q.WaitUs = int64(rng.Pick(1, 100, 1000, 5000, 30000))
			}
			if sc.Kind == "CORSAdaptor" && rng.Bool(0.7) {
				q.Hdr = append(q.Hdr, c11KV{"Origin", rng.PickStr("http://a.test", "http://evil.test")})
				if rng.Bool(0.5) {
					q.Method = "OPTIONS"
					q.Body = 0
					q.Hdr = append(q.Hdr, c11KV{"Access-Control-Request-Method", rng.PickStr("GET", "POST", "DELETE")})
				}
			}
			if sc.Kind == "HeaderToJSON" && q.Body > 0 && rng.Bool(0.7) {
				q.Body = 0
			}
			if resObs && rng.Bool(0.75) {
				q.FailN = rng.Pick(1, 1, 1, 2, 2, 3)
				q.FailKind = rng.PickStr("conn", "conn", "code", "code", "code", "slow")
				if cbFocus && rng.Bool(0.6) {
					// breaker focus: calls that fail whatever the retry policy is
					q.FailN, q.FailKind = 3, "conn"
				}
			}
		}
	}
	if cbFocus && rng.Bool(0.6) {
		// breaker focus: one client, strictly sequential calls (the reference
		// state of a tight breaker is exact only as long as calls do not overlap)
		var one c11Client
		for _, c := range sc.Clients {
			one.Reqs = append(one.Reqs, c.Reqs...)
		}
		sc.Clients = []c11Client{one}
	}
	return sc
}

// ---- filter-under-test specs ---------------------------------------------------------

type c11M = map[string]interface{}

// c11FutSpec returns the spec of the filter under test for (kind, variant). It
// depends on nothing else, so two generations with the same variant carry an
// identical filter spec (the case in which filters move state across
// generations). ample (RateLimiter twins only) lifts the limits.
func c11FutSpec(kind string, v int, name string, ample bool) c11M {
	m := c11M{"name": name, "kind": kind}
	switch kind {
	case "RateLimiter":
		pol := func(n string, limit int, refresh, timeout string) c11M {
			if ample {
				limit = 1000000
			}
			return c11M{"name": n, "limitForPeriod": limit, "limitRefreshPeriod": refresh, "timeoutDuration": timeout}
		}
		switch v {
		case 0:
			m["policies"] = []c11M{pol("p", 50, "10ms", "100ms")}
			m["defaultPolicyRef"] = "p"
			m["urls"] = []c11M{{"url": c11M{"prefix": "/"}, "policyRef": "p"}}
		case 1:
			m["policies"] = []c11M{pol("p", 1, "1s", "0ms")}
			m["defaultPolicyRef"] = "p"
			m["urls"] = []c11M{{"url": c11M{"prefix": "/"}}}
		case 2:
			m["policies"] = []c11M{pol("p", 50, "10ms", "100ms"), pol("q", 2, "50ms", "200ms")}
			m["defaultPolicyRef"] = "p"
			m["urls"] = []c11M{{"url": c11M{"exact": "/x"}, "policyRef": "p"}, {"url": c11M{"prefix": "/"}, "policyRef": "q"}}
		default:
			m["policies"] = []c11M{pol("p", 3, "20ms", "50ms")}
			m["defaultPolicyRef"] = "p"
			m["urls"] = []c11M{{"methods": []string{"GET", "POST"}, "url": c11M{"regex": "^/x"}, "policyRef": "p"}}
		}
	case "Proxy":
		servers := func(pfx string, n int) []c11M {
			var s []c11M
			for i := 0; i < n; i++ {
				s = append(s, c11M{"url": fmt.Sprintf("http://v%d%s%d.test:8080", v, pfx, i)})
			}
			return s
		}
		pool := c11M{"servers": servers("s", 2), "loadBalance": c11M{"policy": "roundRobin"}}
		switch v {
		case 1:
			pool = c11M{"servers": servers("s", 3), "loadBalance": c11M{"policy": "random"}}
		case 2:
			pool["memoryCache"] = c11M{"expiration": "10s", "maxEntryBytes": 4096, "codes": []int{200}, "methods": []string{"GET"}}
		case 3:
			pool = c11M{"servers": servers("f", 2), "loadBalance": c11M{"policy": "ipHash"}, "failureCodes": []int{503}, "timeout": "1000h"}
		case 4:
			pool = c11M{"servers": servers("s", 2), "loadBalance": c11M{"policy": "headerHash", "headerHashKey": "X-V"}}
		case 5:
			m["compression"] = c11M{"minLength": 4}
		}
		pools := []c11M{pool}
		if v == 4 {
			pools = append(pools, c11M{"servers": servers("c", 1), "filter": c11M{"headers": c11M{"X-V": c11M{"exact": "1"}}}})
		}
		m["pools"] = pools
	case "Mock":
		switch v {
		case 0:
			m["rules"] = []c11M{{"match": c11M{"pathPrefix": "/"}, "code": 203, "body": "mock-v0", "headers": c11M{"X-Mock": "v0"}}}
		case 1:
			m["rules"] = []c11M{{"match": c11M{"pathPrefix": "/"}, "code": 200, "body": "mock-v1", "delay": "5ms"}}
		case 2:
			m["rules"] = []c11M{{"match": c11M{"path": "/x"}, "code": 201, "body": "x"}, {"match": c11M{"pathPrefix": "/"}, "code": 202, "delay": "1ms"}}
		default:
			m["rules"] = []c11M{{"match": c11M{"headers": c11M{"X-V": c11M{"exact": "1"}}}, "code": 204, "headers": c11M{"X-Mock": "v3"}}}
		}
	case "ResponseAdaptor":
		switch v {
		case 0:
			m["header"] = c11M{"set": c11M{"X-RA": "v0"}}
		case 1:
			m["body"] = "ra-v1"
		case 2:
			m["header"] = c11M{"add": c11M{"X-RA": "v2"}, "del": []string{"X-C11-Base"}}
		default:
			m["compress"] = "gzip"
		}
	case "RequestAdaptor":
		switch v {
		case 0:
			m["header"] = c11M{"set": c11M{"X-Req-A": "v0"}}
		case 1:
			m["method"] = "PUT"
		case 2:
			m["path"] = c11M{"addPrefix": "/pre"}
		case 3:
			m["path"] = c11M{"replace": "/replaced"}
			m["header"] = c11M{"add": c11M{"X-Req-A": "v3"}}
		default:
			m["body"] = "ra-body-v4"
		}
	case "Validator":
		switch v {
		case 0:
			m["headers"] = c11M{"X-V": c11M{"values": []string{"1"}}}
		case 1:
			m["headers"] = c11M{"X-V": c11M{"regexp": "^[12]$"}}
		default:
			m["headers"] = c11M{"X-W": c11M{"regexp": "^a"}}
		}
	case "Fallback":
		if v == 0 {
			m["mockCode"] = 200
			m["mockBody"] = "fb-v0"
		} else {
			m["mockCode"] = 503
			m["mockHeaders"] = c11M{"X-FB": "v1"}
		}
	case "CORSAdaptor":
		switch v {
		case 0:
			m["allowedOrigins"] = []string{"http://a.test"}
		case 1:
			m["supportCORSRequest"] = true
			m["allowedOrigins"] = []string{"*"}
		default:
			m["allowedMethods"] = []string{"GET", "POST"}
			m["maxAge"] = 10
		}
	case "ResponseBuilder":
		m["protocol"] = "http"
		if v == 0 {
			m["template"] = "statusCode: 201\nheaders:\n  X-RB:\n  - v0\nbody: rb-v0\n"
		} else {
			m["template"] = "statusCode: 202\nbody: \"rb-v1 {{.requests.DEFAULT.Method}}\"\n"
		}
	case "RequestBuilder":
		m["protocol"] = "http"
		if v == 0 {
			m["template"] = "method: POST\nurl: http://rb.test/built-v0\nbody: b0\n"
		} else {
			m["template"] = "method: DELETE\nurl: http://rb.test/built-v1\nheaders:\n  X-Req-A:\n  - built\n"
		}
	case "HeaderToJSON":
		if v == 0 {
			m["headerMap"] = []c11M{{"header": "X-V", "json": "v"}}
		} else {
			m["headerMap"] = []c11M{{"header": "X-W", "json": "w"}, {"header": "X-V", "json": "vv"}}
		}
	case "CertExtractor":
		m["certIndex"] = -1
		m["target"] = "subject"
		m["field"] = "CommonName"
		m["headerKey"] = "X-Cn"
	}
	return m
}

// c11PipeText renders generation gi of the pipeline.
func c11PipeText(name, kind string, gi int, g *c11PipeGen, ample bool) string {
	fut := g.FutName
	if fut == "" {
		fut = "fut"
	}
	futNode := c11M{"filter": fut}
	if g.Jump {
		if k := filters.GetKind(kind); k != nil && len(k.Results) > 0 {
			j := c11M{}
			for _, res := range k.Results {
				j[res] = "post"
				if g.JumpEnd {
					j[res] = "END"
				}
			}
			futNode["jumpIf"] = j
		}
	}
	flow := []c11M{{"filter": "pre"}, futNode}
	fs := []c11M{{"name": "pre", "kind": "C11Park", "gen": gi, "role": "pre", "tag": name}, c11FutSpec(kind, g.V, fut, ample)}
	if g.Extra {
		flow = append(flow, c11M{"filter": "extra"})
		fs = append(fs, c11M{"name": "extra", "kind": "ResponseAdaptor", "header": c11M{"set": c11M{"X-Extra": fmt.Sprintf("g%d", gi)}}})
	}
	flow = append(flow, c11M{"filter": "post"})
	fs = append(fs, c11M{"name": "post", "kind": "C11Park", "gen": gi, "role": "post", "tag": name})
	m := c11M{"name": name, "kind": "Pipeline", "flow": flow, "filters": fs}
	if g.NoFlow {
		delete(m, "flow")
	}
	if c11ResVariant(kind, g.V) {
		c11ResApply(m, fs[1], g.V, g.Res, ample)
	} else if kind == "Proxy" && g.Resil {
		m["resilience"] = []c11M{
			{"name": "retry", "kind": "Retry", "maxAttempts": 2, "waitDuration": "1ms"},
			{"name": "cb", "kind": "CircuitBreaker", "slidingWindowType": "COUNT_BASED", "slidingWindowSize": 10, "failureRateThreshold": 50, "minimumNumberOfCalls": 10, "slowCallDurationThreshold": "1000h"},
		}
		p0 := fs[1]["pools"].([]c11M)[0]
		p0["retryPolicy"] = "retry"
		if g.V != 3 {
			// variant 3 has failing backends: a breaker would make answers depend on history
			p0["circuitBreakerPolicy"] = "cb"
		}
	}
	b, _ := json.Marshal(m)
	return string(b)
}

// ---- outcome --------------------------------------------------------------------------

// c11FullOutcome renders status, every response header and the body.
func c11FullOutcome(rec *httptest.ResponseRecorder) string {
	var ks []string
	for k := range rec.Header() {
		ks = append(ks, k)
	}
	sort.Strings(ks)
	var sb strings.Builder
	sb.WriteString(strconv.Itoa(rec.Code))
	for _, k := range ks {
		sb.WriteString(" " + k + "=" + strings.Join(rec.Header()[k], ","))
	}
	b := rec.Body.String()
	if rec.Header().Get("Content-Encoding") == "gzip" {
		// show (and compare) what a client would decode
		if zr, err := gzip.NewReader(strings.NewReader(b)); err == nil {
			if d, err := io.ReadAll(zr); err == nil {
				b = "gunzip:" + string(d)
			}
		}
	}
	if len(b) > 120 {
		b = fmt.Sprintf("%s...(%d bytes)", b[:60], len(b))
	}
	sb.WriteString(" body=" + strconv.Quote(b))
	return sb.String()
}

// c11NormProxy replaces the name of every backend server that belongs to
// variant v by "S": the statement does not say which server of the pool serves.
func c11NormProxy(s string, v int) string {
	pfx := fmt.Sprintf("v%d", v)
	for _, kind := range []string{"s", "f", "c", "r"} {
		for i := 0; i < 8; i++ {
			s = strings.ReplaceAll(s, fmt.Sprintf("%s%s%d.test:8080", pfx, kind, i), "S")
		}
	}
	return s
}

// c11FilterOf names the filter kind whose package is innermost on a stack.
func c11FilterOf(stack string) string {
	names := map[string]string{"ratelimiter": "RateLimiter", "proxy": "Proxy", "mock": "Mock", "responseadaptor": "ResponseAdaptor", "requestadaptor": "RequestAdaptor",
		"validator": "Validator", "fallback": "Fallback", "corsadaptor": "CORSAdaptor", "builder": "Builder", "headertojson": "HeaderToJSON", "certextractor": "CertExtractor"}
	best, bestAt := "", -1
	for dir, n := range names {
		for _, pat := range []string{"/pkg/filters/" + dir + ".", "/pkg/filters/" + dir + "/", "/pkg/util/" + dir + "."} {
			if i := strings.Index(stack, pat); i >= 0 && (bestAt < 0 || i < bestAt) {
				best, bestAt = n, i
			}
		}
	}
	return best
}

// c11ScriptedBackend is installed as the Proxy filters' transport.
func c11ScriptedBackend(r *sim.Run, log *c11BackendLog, onCall func(id string)) func(req *http.Request) (*http.Response, error) {
	return func(req *http.Request) (*http.Response, error) {
		id := req.Header.Get("X-C11-Id")
		key, twin := c11BackendKey(req)
		log.attempts[key] = append(log.attempts[key], req.URL.Host)
		attempt := len(log.attempts[key])
		if !twin {
			if onCall != nil {
				onCall(id)
			}
			n := c11Atoi(req.Header.Get("X-C11-Holdb"))
			for i := 0; i < n && i < 8 && !r.Aborted(); i++ {
				r.Yield("c11.backend")
			}
		}
		if err := req.Context().Err(); err != nil {
			return nil, err
		}
		server := req.URL.Host
		status, ferr := c11BackendFail(r, req, attempt, twin)
		if ferr != nil {
			return nil, ferr
		}
		if strings.Contains(server, "f") && strings.HasPrefix(req.URL.Path, "/y") {
			status = 503
		}
		n := 0
		if req.Body != nil {
			b, _ := io.ReadAll(req.Body)
			n = len(b)
		}
		body := fmt.Sprintf("from %s %s %s body=%d reqa=%s", server, req.Method, req.URL.Path, n, strings.Join(req.Header.Values("X-Req-A"), ";"))
		return &http.Response{StatusCode: status, Status: http.StatusText(status), Proto: "HTTP/1.1", ProtoMajor: 1, ProtoMinor: 1,
			Header:        http.Header{"X-Backend": []string{server}, "Content-Type": []string{"text/plain"}},
			Body:          io.NopCloser(strings.NewReader(body)),
			ContentLength: int64(len(body)), Request: req}, nil
	}
}

// c11FrontSpec is the constant HTTPServer spec routing everything to one backend.
func c11FrontSpec(backend string) (*supervisor.Spec, error) {
	if sp := c11FrontCache[backend]; sp != nil {
		return sp, nil
	}
	sp, err := c11FrontSpecNew(backend)
	if err == nil && sp != nil {
		c11FrontCache[backend] = sp
	}
	return sp, err
}

// the front spec is constant, read-only data (one path, no header conditions)
var c11FrontCache = map[string]*supervisor.Spec{}

func c11FrontSpecNew(backend string) (*supervisor.Spec, error) {
	return c11NewSpec(fmt.Sprintf(`{"kind":"HTTPServer","name":"front","port":10080,"keepAlive":true,"https":false,"rules":[{"paths":[{"pathPrefix":"/","backend":%q}]}]}`, backend))
}

type c11FixedMapper struct {
	get func(name string) (context.Handler, bool)
}

func (m *c11FixedMapper) GetHandler(name string) (context.Handler, bool) { return m.get(name) }

type c11HandlerFunc func(ctx *context.Context) string

func (f c11HandlerFunc) Handle(ctx *context.Context) string { return f(ctx) }

func c11ReqID(ctx *context.Context) string {
	if req, ok := ctx.GetRequest(context.DefaultNamespace).(*httpprot.Request); ok && req != nil {
		return req.HTTPHeader().Get("X-C11-Id")
	}
	return ""
}

func c11ParkExtras(q *c11Req, twin bool) []c11KV {
	hold := func(n int) string {
		if n < 0 || n > 8 {
			n = 0
		}
		return strconv.Itoa(n)
	}
	w := q.WaitUs
	if w < 0 || w > 10_000_000 {
		w = 0
	}
	kv := []c11KV{{"X-C11-Hold", hold(q.Hold)}, {"X-C11-Hold2", hold(q.Hold2)}, {"X-C11-Holdb", hold(q.Hold2)}, {"X-C11-Wait", strconv.FormatInt(w, 10)}}
	if n, kind := c11FailScript(q); n > 0 {
		kv = append(kv, c11KV{"X-C11-Fail", strconv.Itoa(n) + ":" + kind})
	}
	if twin {
		kv = append(kv, c11KV{"X-C11-Twin", "1"})
	}
	return kv
}

// ---- executor --------------------------------------------------------------------------

func c11ExecPipe(r *sim.Run, sc *c11PipeSc) {
	kind := sc.Kind
	nv, known := c11NVariants[kind]
	nreq := 0
	for _, c := range sc.Clients {
		nreq += len(c.Reqs)
	}
	if !known || len(sc.Gens) == 0 || len(sc.Gens) > 8 || nreq == 0 {
		return
	}
	_ = nv
	kindOf := func(gi int) string {
		if k := sc.Gens[gi].Kind; k != "" {
			return k
		}
		return sc.Kind
	}
	anyProxy := false
	for i := range sc.Gens {
		g := &sc.Gens[i]
		n, ok := c11NVariants[kindOf(i)]
		if !ok || g.V < 0 || g.V >= n || (g.FutName != "fut" && g.FutName != "fut2") {
			return
		}
		anyProxy = anyProxy || kindOf(i) == "Proxy"
	}
	hooks := &c11Hooks{run: r, life: map[string]int{}}
	c11Cur = hooks
	defer func() { c11Cur = nil }()
	if anyProxy {
		proxy.C11Track()
		defer proxy.C11Release()
		defer proxy.C11SetBackend(nil)
	}

	front, err := c11FrontSpec("p")
	if err != nil {
		r.Probe("c11.pipe.front_spec_rejected")
		return
	}
	type rq struct {
		id string
		q  *c11Req
	}
	var all []rq
	for ci := range sc.Clients {
		for qi := range sc.Clients[ci].Reqs {
			q := &sc.Clients[ci].Reqs[qi]
			if c11ReqOK(q) {
				all = append(all, rq{fmt.Sprintf("c%d.%d", ci, qi), q})
			}
		}
	}
	if len(all) == 0 {
		return
	}
	backendCalls := map[string]int{}
	blog := &c11BackendLog{attempts: map[string][]string{}}
	if anyProxy {
		proxy.C11SetBackend(c11ScriptedBackend(r, blog, func(id string) { backendCalls[id]++ }))
	}
	reqOf := map[string]*c11Req{}
	for _, x := range all {
		reqOf[x.id] = x.q
	}
	isRes := func(gi int) bool { return gi >= 0 && gi < len(sc.Gens) && c11ResVariant(kindOf(gi), sc.Gens[gi].V) }

	// specs (one object per pipeline instance: Pipeline.reload binds filters into its spec's flow) and twins
	specs := make([]*supervisor.Spec, len(sc.Gens))
	texts := make([]string, len(sc.Gens))
	exp := make([]map[string]string, len(sc.Gens))
	norm := func(s string, gi int) string {
		if kindOf(gi) == "Proxy" {
			return c11NormProxy(s, sc.Gens[gi].V)
		}
		return s
	}
	for gi := range sc.Gens {
		kind := kindOf(gi)
		texts[gi] = c11PipeText("p", kind, gi, &sc.Gens[gi], false)
		sp, err := c11NewSpec(texts[gi])
		if err != nil || sp == nil {
			r.Probe("c11.pipe.spec_rejected/" + kind)
			r.Eventf("spec rejected: %v\n%s", err, texts[gi])
			return
		}
		specs[gi] = sp
		// Pipeline.reload binds its filters into the flow nodes of its spec, so a
		// spec object serves one pipeline at a time: the twin is closed before the
		// system under test is built from the same object. RateLimiter twins need
		// their own (ample) spec.
		tsp := sp
		if tight := isRes(gi) && sc.Gens[gi].Res != nil && (sc.Gens[gi].Res.Main.CB == "tight" || sc.Gens[gi].Res.Cand.CB == "tight"); kind == "RateLimiter" || tight {
			tsp, err = c11NewSpec(c11PipeText("p", kind, gi, &sc.Gens[gi], true))
			if err != nil || tsp == nil {
				r.Probe("c11.pipe.spec_rejected/" + kind)
				return
			}
		}
		twin := &pipeline.Pipeline{}
		var tpv interface{}
		func() {
			defer func() { tpv = recover() }()
			twin.Init(tsp, nil)
		}()
		if tpv != nil {
			r.Probe("c11.pipe.twin_init_panics/" + kind)
			r.Eventf("twin init panics: %v", tpv)
			return
		}
		tm := &c11FixedMapper{get: func(string) (context.Handler, bool) { return twin, true }}
		t := newMux(httpstat.New(), httpstat.NewTopN(10), tm)
		t.reload(front, tm)
		exp[gi] = map[string]string{}
		for _, x := range all {
			rec, pv, st := c11Serve(t, c11HTTPReq(x.q, x.id, append(c11ParkExtras(x.q, true), c11KV{"X-C11-Twin", fmt.Sprintf("g%d", gi)})...))
			if pv != nil {
				// fails without any update: not this property's business
				r.Probe("c11.pipe.twin_panics/" + kind)
				r.Eventf("twin g%d %s panics: %v\n%s", gi, x.id, pv, st)
				twin.Close()
				return
			}
			exp[gi][x.id] = norm(c11FullOutcome(rec), gi)
		}
		func() {
			defer func() { tpv = recover() }()
			twin.Close()
		}()
		if tpv != nil {
			r.Probe("c11.pipe.twin_close_panics/" + kind)
			r.Eventf("twin close panics: %v", tpv)
			return
		}
	}
	hooks.life = map[string]int{}

	// system under test
	var cur *pipeline.Pipeline
	curGen, started := 0, 0
	held := map[string]int{}
	parkedPre := map[string]bool{}
	// reference state of the circuit breaker of one (generation, pool), see c11_resil_test.go
	type cbTrack struct {
		inflight int
		racy     bool // two calls overlapped, a call was not judged, or the breaker may have been inherited: no exact state
		open     bool
		last     []bool // failed flags of the calls so far (strictly sequential)
	}
	cbTracks := map[string]*cbTrack{}
	cbOf := func(g int, cand bool) *cbTrack {
		key := fmt.Sprintf("%d/%v", g, cand)
		tr := cbTracks[key]
		if tr == nil {
			tr = &cbTrack{}
			if isRes(g-1) && sc.Gens[g-1].Res != nil {
				// the statement does not say whether an unchanged breaker keeps its state across an update
				pp := c11ResClamp(sc.Gens[g-1].Res)
				if (cand && sc.Gens[g-1].V == 7 && pp.Cand.CB == "tight") || (!cand && pp.Main.CB == "tight") {
					tr.racy = true
				}
			}
			cbTracks[key] = tr
		}
		return tr
	}
	cbEntered := map[string]bool{}
	mapper := &c11FixedMapper{}
	mapper.get = func(string) (context.Handler, bool) {
		p, g := cur, curGen
		return c11HandlerFunc(func(ctx *context.Context) string {
			id := c11ReqID(ctx)
			held[id] = g
			if q := reqOf[id]; q != nil && isRes(g) && !cbEntered[id] {
				cbEntered[id] = true
				_, cand, _ := c11ResPoolOf(sc.Gens[g].V, sc.Gens[g].Res, q)
				tr := cbOf(g, cand)
				tr.inflight++
				if tr.inflight > 1 {
					tr.racy = true
				}
			}
			return p.Handle(ctx)
		}), true
	}
	cur = &pipeline.Pipeline{}
	cur.Init(specs[0], mapper)
	m := newMux(httpstat.New(), httpstat.NewTopN(10), mapper)
	m.reload(front, mapper)

	hooks.park = func(id, role, tag string, gen, hold int, wait time.Duration) {
		if gen < 0 || gen >= len(sc.Gens) {
			return
		}
		before := started
		for i := 0; i < hold && i < 8 && !r.Aborted(); i++ {
			r.Yield("c11.park." + role)
		}
		if wait > 0 {
			r.Sleep(wait)
		}
		if started > before && started > gen {
			r.Probe("c11.pipe.inherit_while_parked_" + role + "/" + kindOf(gen))
			if role == "pre" {
				parkedPre[id] = true
			}
		}
	}
	var sig strings.Builder
	interesting := 0

	r.Go("updater", func() {
		for gi := 1; gi < len(specs); gi++ {
			if r.Aborted() || r.Violated() {
				return
			}
			gap := sc.Gens[gi].GapUs
			if gap < 0 || gap > 10_000_000 {
				gap = 0
			}
			r.Sleep(time.Duration(gap) * time.Microsecond)
			started = gi
			kindChange := kindOf(gi) != kindOf(gi-1) && sc.Gens[gi].FutName == sc.Gens[gi-1].FutName
			if kindChange {
				r.Probe("c11.pipe.inherit_changes_kind_of_named_filter/to-" + kindOf(gi))
			}
			if isRes(gi) && isRes(gi-1) && sc.Gens[gi].FutName == sc.Gens[gi-1].FutName {
				a, b := c11ResClamp(sc.Gens[gi-1].Res), c11ResClamp(sc.Gens[gi].Res)
				pools := []struct {
					n    string
					o, n2 c11PoolRes
				}{{"main", a.Main, b.Main}}
				if sc.Gens[gi].V == 7 && sc.Gens[gi-1].V == 7 {
					pools = append(pools, struct {
						n    string
						o, n2 c11PoolRes
					}{"candidate", a.Cand, b.Cand})
				}
				for _, pl := range pools {
					switch {
					case pl.o == pl.n2:
						r.Probe("c11.pipe.resil.update_keeps_policies/" + pl.n)
						if pl.o.Retry > 0 || pl.o.CB != "" {
							r.Probe("c11.pipe.resil.update_changes_something_else_while_policies_stay/" + pl.n)
						}
					default:
						switch {
						case pl.o.Retry == 0 && pl.n2.Retry > 0:
							r.Probe("c11.pipe.resil.update_adds_retry/" + pl.n)
						case pl.o.Retry > 0 && pl.n2.Retry == 0:
							r.Probe("c11.pipe.resil.update_removes_retry/" + pl.n)
						case pl.o.Retry != pl.n2.Retry:
							r.Probe("c11.pipe.resil.update_changes_max_attempts/" + pl.n)
						}
						switch {
						case pl.o.CB == "" && pl.n2.CB != "":
							r.Probe("c11.pipe.resil.update_adds_breaker/" + pl.n)
						case pl.o.CB != "" && pl.n2.CB == "":
							r.Probe("c11.pipe.resil.update_removes_breaker/" + pl.n)
						case pl.o.CB != pl.n2.CB:
							r.Probe("c11.pipe.resil.update_changes_breaker/" + pl.n)
						}
						if pl.o.Timeout != pl.n2.Timeout {
							r.Probe("c11.pipe.resil.update_toggles_timeout/" + pl.n)
						}
						if pl.o.FailCodes != pl.n2.FailCodes {
							r.Probe("c11.pipe.resil.update_toggles_failure_codes/" + pl.n)
						}
					}
				}
				if a.Srv != b.Srv {
					r.Probe("c11.pipe.resil.update_changes_servers")
				}
			}
			if sc.Gens[gi].NoFlow != sc.Gens[gi-1].NoFlow {
				r.Probe("c11.pipe.update_adds_or_removes_flow_section")
			} else if sc.Gens[gi].NoFlow {
				r.Probe("c11.pipe.update_of_pipeline_without_flow_section")
			}
			if sc.Gens[gi].Jump && sc.Gens[gi].JumpEnd && !sc.Gens[gi].NoFlow {
				r.Probe("c11.pipe.generation_jumps_to_END")
			}
			r.Eventf("inherit g%d <- g%d starts (same fut spec: %v, kind %s -> %s)", gi, gi-1, sc.Gens[gi].V == sc.Gens[gi-1].V && sc.Gens[gi].FutName == sc.Gens[gi-1].FutName && kindOf(gi) == kindOf(gi-1), kindOf(gi-1), kindOf(gi))
			n := &pipeline.Pipeline{}
			var pv interface{}
			var st string
			func() {
				defer func() {
					if p := recover(); p != nil {
						pv, st = p, c11Stack()
					}
				}()
				n.Inherit(specs[gi], cur, mapper)
			}()
			if pv != nil {
				if kindChange {
					r.Violate("C11.kind-change-inherit-panic/"+kindOf(gi), "the update keeps the filter name %q and changes its kind %s -> %s: Pipeline.Inherit of generation %d from generation %d panicked: %v\n%s\n"+
						"code path: pipeline.go reload(): prev = previousGeneration.getFilter(spec.Name()) is looked up by NAME only and filter.Inherit(prev) is called although prev is of another kind; "+
						"TrafficController.UpdatePipeline/ApplyPipeline (ObjectEntity.InheritWithRecovery) swallow the panic and store the half-built generation (no flow), the previous one is never closed\nnew spec: %s\nold spec: %s",
						sc.Gens[gi].FutName, kindOf(gi-1), kindOf(gi), gi, gi-1, pv, st, texts[gi], texts[gi-1])
					return
				}
				r.Violate("C11.inherit-panic/"+kindOf(gi), "Pipeline.Inherit of generation %d from generation %d panicked: %v\n%s\nnew spec: %s\nold spec: %s", gi, gi-1, pv, st, texts[gi], texts[gi-1])
				return
			}
			cur, curGen = n, gi
			r.Eventf("inherit g%d done, g%d closed", gi, gi-1)
		}
	})
	for ci := range sc.Clients {
		ci := ci
		reqs := sc.Clients[ci].Reqs
		r.Go(fmt.Sprintf("client%d", ci), func() {
			for qi := range reqs {
				if r.Aborted() {
					return
				}
				q := &reqs[qi]
				if !c11ReqOK(q) {
					continue
				}
				gap := q.GapUs
				if gap < 0 || gap > 10_000_000 {
					gap = 0
				}
				r.Sleep(time.Duration(gap) * time.Microsecond)
				id := fmt.Sprintf("c%d.%d", ci, qi)
				rec, pv, st := c11Serve(m, c11HTTPReq(q, id, c11ParkExtras(q, false)...))
				// production timers may have woken several requests at one instant:
				// pass a gate before touching the history
				r.Yield("c11.pipe.after")
				g, entered := held[id]
				kind := sc.Kind
				if entered {
					kind = kindOf(g)
				}
				old := entered && started > g
				if pv != nil {
					fk := c11FilterOf(st)
					if fk == "" {
						fk = kind
					}
					r.Eventf("%s PANIC on g%d (old=%v): %v", id, g, old, pv)
					if old {
						r.Violate("C11.old-generation-panic/"+fk, "request {%v} obtained pipeline generation %d; generation %d inherited from it (Pipeline.Inherit, which closes the previous generation) while the request was parked before/inside the %s filter; "+
							"resuming on generation %d it panicked: %v\n%s\nspec g%d: %s\nspec g%d: %s", q, g, g+1, fk, g, pv, st, g, texts[g], g+1, texts[g+1])
					} else {
						r.Violate("C11.pipe.panic/"+fk, "request {%v} on pipeline generation %d (nobody inherited from it) panicked: %v\n%s\nspec: %s", q, g, pv, st, texts[g])
					}
					return
				}
				if !entered {
					r.Violate("C11.pipe.other", "request {%v} never reached a pipeline (status %d)", q, rec.Code)
					return
				}
				got := norm(c11FullOutcome(rec), g)
				r.Eventf("%s on g%d (old=%v) %v -> %s", id, g, old, q, got)
				fmt.Fprintf(&sig, "%s@g%d>%s;", id, g, got)
				if old {
					interesting++
					r.Probe("c11.pipe.request_finished_on_inherited_generation/" + kind)
					if parkedPre[id] {
						r.Probe("c11.pipe.entered_filter_under_test_after_inherit/" + kind)
					}
				}
				if g > 0 {
					r.Probe("c11.pipe.request_on_inherited_generation_object/" + kind)
					if exp[g][id] != exp[g-1][id] {
						interesting++
					}
				}
				if rec.Code == 429 {
					r.Probe("c11.pipe.rate_limited")
				}
				if isRes(g) && cbEntered[id] {
					// reference model of the resilience section (c11_resil_test.go)
					gen := &sc.Gens[g]
					pr, cand, judged := c11ResPoolOf(gen.V, gen.Res, q)
					tr := cbOf(g, cand)
					tr.inflight--
					if !judged {
						tr.racy = true
					} else {
						pool := "main"
						if cand {
							pool = "candidate"
							r.Probe("c11.pipe.resil.request_on_candidate_pool")
						}
						want := c11ResModel(pr, q)
						tried := blog.attempts[id]
						inherited := g > 0 && isRes(g-1) && sc.Gens[g-1].FutName == gen.FutName
						if inherited {
							if ppr, pcand, pj := c11ResPoolOf(sc.Gens[g-1].V, sc.Gens[g-1].Res, q); pj && pcand == cand && c11ResModel(ppr, q) != want {
								interesting++
								r.Probe("c11.pipe.resil.answer_depends_on_what_the_update_changed")
								if old {
									r.Probe("c11.pipe.resil.answer_depends_on_what_the_update_changed_and_generation_already_replaced")
								}
							}
						}
						if len(tried) > 1 {
							r.Probe("c11.pipe.resil.retried")
							if inherited {
								r.Probe("c11.pipe.resil.retried_on_generation_built_by_inherit")
							}
							if old {
								r.Probe("c11.pipe.resil.retried_on_replaced_generation")
							}
						}
						if want.final == "timeout" {
							r.Probe("c11.pipe.resil.timeout_decides_answer")
						}
						where := fmt.Sprintf("request {%v} (backend script: first %d attempt(s) fail, kind %q) ran on pipeline generation %d (old=%v), %s pool of that generation: %+v", q, q.FailN, q.FailKind, g, old, pool, pr)
						mustSC := pr.CB == "tight" && !tr.racy && tr.open
						maySC := pr.CB == "tight" && tr.racy
						noAttempt5xx := len(tried) == 0 && rec.Code >= 500
						switch {
						case mustSC:
							r.Probe("c11.pipe.resil.short_circuit_required")
							if !noAttempt5xx {
								r.Violate("C11.pipe.resilience-breaker/Proxy", "%s\nthe two calls before this one on that generation and pool failed (strictly sequential calls, failed flags %v), its circuit breaker (window 2, threshold 100%%, open for 1000h) must short-circuit this call; got status %d after backend attempts %v\nspec g%d: %s",
									where, tr.last, rec.Code, tried, g, texts[g])
								return
							}
							continue
						case maySC && noAttempt5xx:
							r.Probe("c11.pipe.resil.short_circuit_accepted_state_not_exact")
							continue
						}
						if pr.CB == "tight" && !tr.racy {
							r.Probe("c11.pipe.resil.short_circuit_forbidden")
						}
						switch {
						case len(tried) == 0 && pr.CB == "tight":
							r.Violate("C11.pipe.resilience-breaker/Proxy", "%s\nanswered %d without any backend attempt, but the breaker of generation %d cannot be open (failed flags of the strictly sequential calls so far %v); expected %v\nspec g%d: %s",
								where, rec.Code, g, tr.last, want, g, texts[g])
							return
						case len(tried) != want.attempts:
							r.Violate("C11.pipe.resilience-attempts/Proxy", "%s\nthe backend was tried %d time(s) %v, the spec of generation %d requires %v; status %d\nspec g%d: %s",
								where, len(tried), tried, g, want, rec.Code, g, texts[g])
							return
						case !want.statusOK(rec.Code):
							r.Violate("C11.pipe.resilience-status/Proxy", "%s\nstatus %d after backend attempts %v, the spec of generation %d requires %v\nspec g%d: %s",
								where, rec.Code, tried, g, want, g, texts[g])
							return
						}
						allowed := c11ResServers(gen.V, gen.Res, cand)
						for _, sv := range tried {
							if sv != allowed[0] && sv != allowed[len(allowed)-1] {
								r.Violate("C11.pipe.resilience-server/Proxy", "%s\nattempts went to %v, the pool of generation %d lists %v\nspec g%d: %s", where, tried, g, allowed, g, texts[g])
								return
							}
						}
						if pr.CB == "tight" && !tr.racy {
							tr.last = append(tr.last, want.failed)
							if n := len(tr.last); n >= 2 && tr.last[n-1] && tr.last[n-2] {
								tr.open = true
								r.Probe("c11.pipe.resil.breaker_open_by_reference")
							}
						}
					}
				}
				ok := got == exp[g][id]
				if !ok && kind == "RateLimiter" && rec.Code == http.StatusTooManyRequests && rec.Header().Get("X-EG-Rate-Limiter") == "too-many-requests" {
					// rejected by the limiter: fine, as long as whatever ran behind it is generation g
					pg := rec.Header().Get("X-C11-Post-Gen")
					ok = pg == "" || pg == "p"+strconv.Itoa(g)
				}
				if ok {
					continue
				}
				class := "C11.generation-response/" + kind
				what := "the generation new requests get"
				if old {
					class = "C11.old-generation-response/" + kind
					what = fmt.Sprintf("a generation that generation %d had inherited from", g+1)
				}
				other := ""
				for gi := range exp {
					if gi != g && norm(c11FullOutcome(rec), gi) == exp[gi][id] {
						other = fmt.Sprintf(" (it is the twin answer of generation %d)", gi)
						break
					}
				}
				r.Violate(class, "request {%v} ran on pipeline generation %d, %s\n got:  %s%s\n twin: %s\nspec g%d: %s", q, g, what, got, other, exp[g][id], g, texts[g])
				return
			}
		})
	}
	r.WaitTasks()
	func() {
		defer func() {
			if p := recover(); p != nil {
				r.Violate("C11.pipe.close-panic/"+kindOf(curGen), "closing generation %d panicked: %v\n%s", curGen, p, c11Stack())
			}
		}()
		cur.Close()
	}()
	for _, n := range backendCalls {
		if n > 1 {
			r.Probe("c11.pipe.proxy_retried")
		}
	}
	if interesting > 0 {
		r.Nontrivial()
	}
	r.SetSig("pipe|" + kind + "|" + strings.Join(texts, "|") + "|" + sig.String())
}
