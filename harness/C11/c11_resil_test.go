//go:build go1.21

package httpserver

// C11, mode "pipe", Proxy variants 6 and 7: the RESILIENCE section of the
// pipeline spec across hot updates.
//
// "Once the update has been applied every new request sees the new generation"
// includes the resilience section of the Pipeline spec (doc/reference/
// controllers.md: "the pipeline injects the policies into the filter instance
// after creating it") and the pool options that decide what a failed attempt
// is (timeout, failureCodes). They only become observable when attempts fail,
// so in these variants every request carries a script for the backend: the
// first FailN attempts made for this request fail ("conn": the transport
// returns an error, "code": the backend answers 503, "slow": the backend
// answers after 2 h of virtual time), later attempts are served normally.
//
// Variant 6: main pool only. Variant 7: main pool + one candidate pool
// (requests with X-V: 1), each pool with its own policies. A generation carries
// (c11Resil) per pool: retry policy (maxAttempts 2-3, waitDuration 1-5 ms) or
// none, circuit breaker policy (none / "ample": never opens within a run /
// "tight": opens after two consecutive failed calls and stays open), timeout
// 1 h or none, failureCodes [503] or none; plus the server set (Srv) and an
// unreferenced spare policy. Updates keep / add / remove / change each of them,
// or change something else (servers, flow, variant) while the policies stay.
//
// ORACLE (reference model written from the statement and doc/reference, not
// from the twin): a request that entered generation g is judged by the spec of
// g, whatever happened to g meanwhile:
//
//	attempts  the backend is tried until an attempt is not a failure, at most
//	          maxAttempts times (1 without a retry policy); an attempt is a
//	          failure when the transport fails, when it outlasts the pool's
//	          timeout, or when the status is one of the pool's failureCodes
//	status    the client sees the last attempt: 200 / the backend's 503 /
//	          a 5xx for a transport error / a 4xx-5xx for a timeout
//	servers   every attempt goes to a server the pool of g lists
//	breaker   tight breaker, calls of g on that pool strictly sequential so far
//	          and the previous generation had no tight breaker on that pool:
//	          after two consecutive failed calls every later call is answered
//	          5xx without a backend attempt; before that, and always in a
//	          generation whose pool references no tight breaker, a call is never
//	          short-circuited. As soon as two calls of one (generation, pool)
//	          overlap, or the breaker may have been inherited, both are accepted.
//
//	C11.pipe.resilience-attempts/Proxy   number of backend attempts differs from what the spec of the held generation requires
//	C11.pipe.resilience-status/Proxy     final status differs
//	C11.pipe.resilience-server/Proxy     an attempt went to a server the held generation's pool does not list
//	C11.pipe.resilience-breaker/Proxy    short-circuited where the held generation's spec forbids it, or not short-circuited where it requires it
//
// The twin comparison of mode pipe still applies on top (twins get the ample
// breaker instead of the tight one, as RateLimiter twins get ample limits).
//
// Time: the pool timeout is 1 h and a slow attempt takes 2 h because the
// scheduler's stall decisions may let up to 20 x 60 s of virtual time pass at
// any gate; with these values a stall can neither fire the timeout of a fast
// attempt nor save a slow one.

import (
	"context"
	"errors"
	"fmt"
	"net/http"
	"strconv"
	"strings"
	"time"

	"verif/simkit/sim"
)

type c11PoolRes struct {
	Retry     int    `json:"retry,omitempty"`      // maxAttempts of the Retry policy the pool references (0: no retryPolicy)
	CB        string `json:"cb,omitempty"`         // circuitBreakerPolicy: "" none, "ample", "tight"
	Timeout   bool   `json:"timeout,omitempty"`    // timeout: 1h
	FailCodes bool   `json:"fail_codes,omitempty"` // failureCodes: [503]
}

type c11Resil struct {
	Main   c11PoolRes `json:"main"`
	Cand   c11PoolRes `json:"cand"`              // candidate pool (variant 7 only)
	WaitMs int        `json:"wait_ms,omitempty"` // waitDuration of the retry policies
	Expo   bool       `json:"expo,omitempty"`    // backOffPolicy exponential
	Spare  bool       `json:"spare,omitempty"`   // the resilience section also declares policies no pool references
	Srv    int        `json:"srv,omitempty"`     // server set of the pools (0..2)
}

const (
	c11SlowAttempt = 2 * time.Hour
	c11PoolTimeout = "1h"
)

func c11ResVariant(kind string, v int) bool { return kind == "Proxy" && (v == 6 || v == 7) }

func c11GenPoolRes(rng *sim.Rand, pTight float64) c11PoolRes {
	pr := c11PoolRes{}
	if rng.Bool(0.6) {
		pr.Retry = rng.Pick(2, 2, 3)
	}
	switch {
	case rng.Bool(pTight):
		pr.CB = "tight"
	case rng.Bool(0.3):
		pr.CB = "ample"
	}
	pr.Timeout = rng.Bool(0.4)
	pr.FailCodes = rng.Bool(0.6)
	return pr
}

func c11GenResil(rng *sim.Rand, pTight float64) *c11Resil {
	return &c11Resil{Main: c11GenPoolRes(rng, pTight), Cand: c11GenPoolRes(rng, pTight), WaitMs: rng.Pick(1, 1, 2, 5), Expo: rng.Bool(0.2),
		Spare: rng.Bool(0.2), Srv: rng.Intn(3)}
}

// c11EditResil derives the resilience part of the next generation: 0-2 edits,
// each of the kinds the focus names (keep / add / remove / change a policy,
// change something else while the policies stay).
func c11EditResil(rng *sim.Rand, prev *c11Resil, pTight float64) *c11Resil {
	n := *prev
	editPool := func(pr *c11PoolRes) {
		switch rng.Intn(7) {
		case 0, 1: // add / remove the retry policy
			if pr.Retry == 0 {
				pr.Retry = rng.Pick(2, 3)
			} else {
				pr.Retry = 0
			}
		case 2: // change maxAttempts
			if pr.Retry == 2 {
				pr.Retry = 3
			} else {
				pr.Retry = 2
			}
		case 3: // add / remove / change the breaker
			switch {
			case pr.CB != "" && rng.Bool(0.5):
				pr.CB = ""
			case rng.Bool(pTight):
				pr.CB = "tight"
			default:
				pr.CB = "ample"
			}
		case 4:
			pr.Timeout = !pr.Timeout
		case 5:
			pr.FailCodes = !pr.FailCodes
		default:
			pr.Retry = rng.Pick(0, 2, 3)
			pr.FailCodes = !pr.FailCodes
		}
	}
	for k := rng.Pick(0, 1, 1, 1, 2, 2, 3); k > 0; k-- {
		switch rng.Intn(10) {
		case 0, 1, 2, 3, 4:
			editPool(&n.Main)
		case 5, 6, 7:
			editPool(&n.Cand)
		case 8:
			n.Srv = (n.Srv + 1 + rng.Intn(2)) % 3 // other servers, same policies
		default:
			if rng.Bool(0.5) {
				n.Spare = !n.Spare
			} else {
				n.WaitMs = rng.Pick(1, 2, 5)
			}
		}
	}
	return &n
}

func c11ResClamp(rs *c11Resil) c11Resil {
	if rs == nil {
		return c11Resil{}
	}
	n := *rs
	fix := func(pr *c11PoolRes) {
		if pr.Retry < 0 || pr.Retry > 4 {
			pr.Retry = 0
		}
		if pr.CB != "ample" && pr.CB != "tight" {
			pr.CB = ""
		}
	}
	fix(&n.Main)
	fix(&n.Cand)
	if n.WaitMs < 1 || n.WaitMs > 50 {
		n.WaitMs = 1
	}
	if n.Srv < 0 || n.Srv > 2 {
		n.Srv = 0
	}
	return n
}

// c11ResServers lists the server hosts of a pool of variant v.
func c11ResServers(v int, rs *c11Resil, cand bool) []string {
	c := c11ResClamp(rs)
	if cand {
		return []string{fmt.Sprintf("v%dc%d.test:8080", v, c.Srv)}
	}
	return []string{fmt.Sprintf("v%dr%d.test:8080", v, c.Srv*2), fmt.Sprintf("v%dr%d.test:8080", v, c.Srv*2+1)}
}

// c11ResApply writes the pools of variants 6/7 into the Proxy spec fut and the
// resilience section into the pipeline spec pipe. ample: twins never get the
// tight breaker.
func c11ResApply(pipe, fut c11M, v int, rs *c11Resil, ample bool) {
	c := c11ResClamp(rs)
	var policies []c11M
	mkPool := func(pr c11PoolRes, cand bool, retryName, cbName string) c11M {
		var servers []c11M
		for _, h := range c11ResServers(v, &c, cand) {
			servers = append(servers, c11M{"url": "http://" + h})
		}
		p := c11M{"servers": servers, "loadBalance": c11M{"policy": "roundRobin"}}
		if pr.Retry > 0 {
			p["retryPolicy"] = retryName
			rp := c11M{"name": retryName, "kind": "Retry", "maxAttempts": pr.Retry, "waitDuration": fmt.Sprintf("%dms", c.WaitMs)}
			if c.Expo {
				rp["backOffPolicy"] = "exponential"
			}
			policies = append(policies, rp)
		}
		if pr.CB != "" {
			p["circuitBreakerPolicy"] = cbName
			cb := c11M{"name": cbName, "kind": "CircuitBreaker", "slidingWindowType": "COUNT_BASED", "slidingWindowSize": 100, "failureRateThreshold": 50,
				"minimumNumberOfCalls": 100, "slowCallDurationThreshold": "1000h"}
			if pr.CB == "tight" && !ample {
				cb = c11M{"name": cbName, "kind": "CircuitBreaker", "slidingWindowType": "COUNT_BASED", "slidingWindowSize": 2, "failureRateThreshold": 100,
					"minimumNumberOfCalls": 2, "slowCallDurationThreshold": "1000h", "waitDurationInOpenState": "1000h"}
			}
			policies = append(policies, cb)
		}
		if pr.Timeout {
			p["timeout"] = c11PoolTimeout
		}
		if pr.FailCodes {
			p["failureCodes"] = []int{503}
		}
		return p
	}
	pools := []c11M{mkPool(c.Main, false, "retry", "cb")}
	if v == 7 {
		cp := mkPool(c.Cand, true, "retryc", "cbc")
		cp["filter"] = c11M{"headers": c11M{"X-V": c11M{"exact": "1"}}}
		pools = append(pools, cp)
	}
	if c.Spare {
		policies = append(policies, c11M{"name": "spare", "kind": "Retry", "maxAttempts": 3, "waitDuration": "1ms"},
			c11M{"name": "sparecb", "kind": "CircuitBreaker", "slidingWindowSize": 1, "minimumNumberOfCalls": 1, "failureRateThreshold": 1})
	}
	fut["pools"] = pools
	if len(policies) > 0 {
		pipe["resilience"] = policies
	}
}

// c11ResPoolOf says which pool of a variant 6/7 generation serves q (by the
// documented meaning of a candidate pool's header filter). ok=false: the
// request carries several X-V values, not judged.
func c11ResPoolOf(v int, rs *c11Resil, q *c11Req) (pr c11PoolRes, cand, ok bool) {
	c := c11ResClamp(rs)
	var xv []string
	for _, kv := range q.Hdr {
		if strings.EqualFold(kv.K, "X-V") {
			xv = append(xv, kv.V)
		}
	}
	if len(xv) > 1 {
		return c.Main, false, false
	}
	if v == 7 && len(xv) == 1 && xv[0] == "1" {
		return c.Cand, true, true
	}
	return c.Main, false, true
}

type c11ResExp struct {
	attempts int    // backend attempts the generation's spec requires
	final    string // what the last attempt is: "ok", "code" (the backend's 503), "conn", "timeout"
	failed   bool   // the call as a whole failed (what a circuit breaker records)
}

func c11FailScript(q *c11Req) (int, string) {
	n := q.FailN
	if n < 0 || n > 8 {
		n = 0
	}
	switch q.FailKind {
	case "conn", "code", "slow":
		return n, q.FailKind
	}
	return 0, ""
}

// c11ResModel: reference answer of one call that is not short-circuited.
func c11ResModel(pr c11PoolRes, q *c11Req) c11ResExp {
	failN, kind := c11FailScript(q)
	max := pr.Retry
	if max < 1 {
		max = 1
	}
	for a := 1; ; a++ {
		final, failure := "ok", false
		if a <= failN {
			switch kind {
			case "conn":
				final, failure = "conn", true
			case "code":
				final, failure = "code", pr.FailCodes
			case "slow":
				if pr.Timeout {
					final, failure = "timeout", true
				}
			}
		}
		if !failure || a >= max {
			return c11ResExp{attempts: a, final: final, failed: failure}
		}
	}
}

func (e c11ResExp) statusOK(code int) bool {
	switch e.final {
	case "ok":
		return code == http.StatusOK
	case "code":
		return code == http.StatusServiceUnavailable
	case "conn":
		return code >= 500 && code <= 599
	}
	return code >= 400 && code <= 599
}

func (e c11ResExp) String() string {
	return fmt.Sprintf("%d backend attempt(s), the last one: %s", e.attempts, e.final)
}

// ---- scripted backend part -------------------------------------------------------------

type c11BackendLog struct {
	attempts map[string][]string // request key -> server of every attempt, in order
}

func c11BackendKey(req *http.Request) (key string, twin bool) {
	id, tw := req.Header.Get("X-C11-Id"), req.Header.Get("X-C11-Twin")
	if tw != "" {
		return "twin" + tw + "/" + id, true
	}
	return id, false
}

func c11ResServerName(host string) bool {
	return strings.HasPrefix(host, "v6") || strings.HasPrefix(host, "v7")
}

// c11BackendFail plays the request's fail script for attempt number a on a
// server of variants 6/7. It returns (true, err) when the attempt ends with a
// transport error, and status 503 for a "code" failure.
func c11BackendFail(r *sim.Run, req *http.Request, a int, twin bool) (status int, err error) {
	status = http.StatusOK
	if !c11ResServerName(req.URL.Host) {
		return
	}
	parts := strings.SplitN(req.Header.Get("X-C11-Fail"), ":", 2)
	if len(parts) != 2 {
		return
	}
	n, _ := strconv.Atoi(parts[0])
	if a > n {
		return
	}
	switch parts[1] {
	case "conn":
		if !twin {
			r.Fault("c11.backend_connection_error")
		}
		return status, errors.New("c11 scripted backend: connection refused")
	case "code":
		if !twin {
			r.Fault("c11.backend_failure_status")
		}
		return http.StatusServiceUnavailable, nil
	case "slow":
		if !twin {
			r.Fault("c11.backend_slow_attempt")
		}
		t := time.NewTimer(c11SlowAttempt)
		select {
		case <-req.Context().Done():
			t.Stop()
		case <-t.C:
		}
		r.Yield("c11.backend.slow")
		if e := req.Context().Err(); e != nil {
			if !twin && e == context.DeadlineExceeded {
				r.Fault("c11.pool_timeout_fired")
			}
			return status, e
		}
	}
	return
}
