//go:debug asynctimerchan=0
//go:build go1.21

package httpserver

// C11 — hot update: each request sees one consistent generation; none fails
// on update.
//
// One check, three sub-harnesses; a scenario carries a mode and a run executes
// exactly one of them (all of them drive requests through the REAL
// mux.ServeHTTP with httptest recorders, no sockets):
//
//	mode "mux"  (this file)        real mux; an updater task calls mux.reload with
//	                               a drawn chain of HTTPServer specs while 1-4 client
//	                               tasks send requests whose handlers park.
//	mode "pipe" (c11_pipe_test.go) real pipeline.Pipeline generations of one filter
//	                               kind under test: Init, then Inherit chains (which
//	                               close the previous generation) while requests are
//	                               parked inside the flow of the OLD generation.
//	mode "rt"   (c11_rt_test.go)   real HTTPServer object LISTENING on the simulated
//	                               network; raw HTTP/1.1 clients; hot-field updates must
//	                               neither refuse a dial nor abort a request.
//	mode "tc"   (c11_tc_test.go)   real TrafficController + real HTTPServer object
//	                               (runtime/fsm, listener stubbed) + real Pipelines:
//	                               create/apply/update/delete of pipelines A,B,C and
//	                               of traffic gates while requests and GetHandler
//	                               lookups run.
//
// ORACLE for mode "mux" (from the statement): before the run a quiescent twin
// mux is built for every generation spec (same code, never reloaded, never
// used concurrently) and asked every request of the scenario; this gives
// exp[g][request] = (status, backend, handler-visible path, handler-visible
// X-Forwarded-For, handler-visible body length, handler-visible host). A
// request of the run must be answered, in ALL these fields at once, like ONE
// generation g with lo <= g <= hi, where lo = number of reloads that had
// RETURNED when ServeHTTP was called ("once the update has been applied every
// new request sees the new generation") and hi = number of reloads that had
// STARTED when the backend handler was entered (or, for requests answered
// without a backend, when ServeHTTP returned). No panic may escape ServeHTTP.
//
//	C11.mux.panic                panic out of mux.ServeHTTP
//	C11.mux.stale-generation     answer equals only generations older than lo
//	C11.mux.unapplied-generation answer equals only generations newer than hi
//	C11.mux.mixed-generations    answer equals no generation's twin answer (fields of different generations, or a failure no generation gives)
//
// The twin is the SAME routing code, so a plain routing or cache bug (C01 /
// C12 territory) is not reported here unless the update makes it visible.
//
// Leniency / not generated (mode mux): tracing and globalFilter are not
// configured (both need a supervisor); HTTPS off; the MuxMapper is the same for
// all generations; reloads are issued by ONE updater task (the real runtime
// calls mux.reload from its single fsm goroutine); the window [lo,hi] is the
// widest the statement allows, no assertion is made about WHICH generation of
// the window serves an overlapping request; /.well-known/acme-challenge/ is not
// requested.
//
// Mode pipe, Proxy variants 6/7 (c11_resil_test.go): the resilience section of
// the pipeline spec (retry / circuit breaker policies referenced by the pools,
// pool timeout, failureCodes) across hot updates, made observable by backends
// whose first attempts fail, judged by a reference model of the held
// generation's spec; classes C11.pipe.resilience-{attempts,status,server,breaker}/Proxy.
//
// Known finding on the unchanged tree (mode pipe): C11.old-generation-panic/RateLimiter
// (filters/ratelimiter reload() moves the limiter to the new generation and sets
// prev.rl = nil; a request that entered the old generation before the update
// and reaches the RateLimiter afterwards dereferences nil).
//
// Notes: spec texts are validated by the real supervisor.NewSpec once per
// process and decoded again (supervisor.C11Respec, harness export) for every
// further use, because validation dominates the run time; the environment
// variable VERIF_C11_SKIP=<Kind,...> (development aid for mutation experiments
// only) replaces the named filter kinds by Mock in generated scenarios;
// VERIF_C11_NORES=1 / VERIF_C11_ONLYRES=1 (development aids as well) switch the
// resilience-observable Proxy flavour of mode pipe off / make every scenario one.
// Pipeline.Close ranges over a Go map: the order in which the filters of a
// closed generation are closed is not reproducible, nothing observed depends
// on it (map_ranges is deliberately not used: the rewritten range draws from
// the tape inside spec validation, which the memo above skips).

import (
	"encoding/json"
	"fmt"
	"io"
	"net/http"
	"net/http/httptest"
	"net/url"
	"os"
	"regexp"
	"runtime/debug"
	"sort"
	"strconv"
	"strings"
	"sync"
	"testing"
	"time"

	"github.com/megaease/easegress/pkg/context"
	"github.com/megaease/easegress/pkg/logger"
	"github.com/megaease/easegress/pkg/option"
	"github.com/megaease/easegress/pkg/protocols/httpprot"
	"github.com/megaease/easegress/pkg/protocols/httpprot/httpstat"
	"github.com/megaease/easegress/pkg/supervisor"
	"verif/simkit/hdrv"
	"verif/simkit/sim"
)

// ---- scenario (common part) ------------------------------------------------------

type c11Scenario struct {
	Mode string     `json:"mode"`
	Mux  *c11MuxSc  `json:"mux,omitempty"`
	Pipe *c11PipeSc `json:"pipe,omitempty"`
	TC   *c11TCSc   `json:"tc,omitempty"`
	RT   *c11MuxSc  `json:"rt,omitempty"`
}

type c11KV struct {
	K string `json:"k"`
	V string `json:"v"`
}

// c11Req is one client request (all modes).
type c11Req struct {
	Host   string  `json:"host"`
	Method string  `json:"method"`
	Path   string  `json:"path"`
	Hdr    []c11KV `json:"hdr"`
	IP     string  `json:"ip"`
	Body   int     `json:"body,omitempty"`     // request body length
	GapUs  int64   `json:"gap_us,omitempty"`   // virtual time before the request
	Hold   int     `json:"hold,omitempty"`     // gates the backend handler / first park filter parks at
	Hold2  int     `json:"hold2,omitempty"`    // gates the second park point parks at (modes pipe, tc: post filter / backend call)
	WaitUs int64   `json:"wait_us,omitempty"`  // virtual time the request spends parked (modes pipe, tc)
	Lookup bool    `json:"lookup,omitempty"`   // mode tc: a bare Namespace.GetHandler(name) instead of an HTTP request
	// mode pipe, Proxy variants 6/7 (resilience observable): the scripted backend fails
	// the first FailN attempts made for THIS request: "conn" connection error, "code"
	// status 503, "slow" answers after 2 h of virtual time (a pool timeout of 1 h fires)
	KA       bool   `json:"ka,omitempty"` // mode rt: no "Connection: close"; the client keeps the connection for its next request (if that comes from the same IP)
	FailN    int    `json:"fail_n,omitempty"`
	FailKind string `json:"fail_kind,omitempty"`
}

type c11Client struct {
	Reqs []c11Req `json:"reqs"`
}

func (q *c11Req) String() string {
	var hs []string
	for _, kv := range q.Hdr {
		hs = append(hs, kv.K+"="+kv.V)
	}
	return fmt.Sprintf("%s %s%s [%s] body=%d from %s", q.Method, q.Host, q.Path, strings.Join(hs, ","), q.Body, q.IP)
}

// ---- scenario (mode mux) ---------------------------------------------------------

type c11IPF struct {
	BlockByDefault bool     `json:"block_by_default"`
	Allow          []string `json:"allow"`
	Block          []string `json:"block"`
}

type c11Hdr struct {
	Key    string   `json:"key"`
	Values []string `json:"values"`
	Regexp string   `json:"regexp,omitempty"`
}

type c11Path struct {
	Path     string   `json:"path,omitempty"`
	Prefix   string   `json:"prefix,omitempty"`
	Regexp   string   `json:"regexp,omitempty"`
	Rewrite  string   `json:"rewrite,omitempty"`
	Methods  []string `json:"methods"`
	Backend  string   `json:"backend"`
	Headers  []c11Hdr `json:"headers"`
	MatchAll bool     `json:"match_all,omitempty"`
	MaxBody  int64    `json:"max_body,omitempty"`
	IPF      *c11IPF  `json:"ipf,omitempty"`
}

type c11Rule struct {
	Host       string    `json:"host,omitempty"`
	HostRegexp string    `json:"host_regexp,omitempty"`
	IPF        *c11IPF   `json:"ipf,omitempty"`
	Paths      []c11Path `json:"paths"`
}

// c11Srv is one generation of the HTTPServer spec.
type c11Srv struct {
	GapUs     int64     `json:"gap_us,omitempty"` // virtual time the updater waits before applying this generation
	CacheSize int       `json:"cache_size"`
	XFF       bool      `json:"xff,omitempty"`
	MaxBody   int64     `json:"max_body,omitempty"`
	IPF       *c11IPF   `json:"ipf,omitempty"`
	Rules     []c11Rule `json:"rules"`
	Edits     []string  `json:"edits,omitempty"` // how this generation was derived from the previous one (documentation only)
	Trace     int       `json:"trace,omitempty"`    // mode mux: 0 no tracing section, 1 / 2: tracing (zipkin reporter, sampleRate 1) with tag set 1 / 2
	MaxConn   int       `json:"max_conn,omitempty"` // mode rt: maxConnections (0: default), a hot field
	KA        int       `json:"ka_s,omitempty"`  // mode rt: keepAliveTimeout in seconds (0: default); a change makes the runtime restart its net/http server
}

type c11MuxSc struct {
	Gens    []c11Srv    `json:"gens"`    // Gens[0] is loaded before traffic starts, the updater reloads the others in order
	Missing []string    `json:"missing"` // backends the MuxMapper does not know (503)
	Clients []c11Client `json:"clients"`
	Down    *c11RTDown  `json:"down,omitempty"` // mode rt: listen-failure history (c11_rt_test.go)
}

var (
	c11IPs    = []string{"198.51.100.1", "198.51.100.2", "203.0.113.7"}
	c11IPEnts = []string{"198.51.100.1", "198.51.100.2", "203.0.113.7", "198.51.100.0/24"}
	c11Paths  = []string{"/x", "/x/y", "/y", "/xy"}
)

func c11Subset(rng *sim.Rand, from []string, lo, hi int) []string {
	n := rng.Range(lo, hi)
	if n > len(from) {
		n = len(from)
	}
	p := rng.Perm(len(from))[:n]
	sort.Ints(p)
	out := []string{}
	for _, i := range p {
		out = append(out, from[i])
	}
	return out
}

func c11GenIPF(rng *sim.Rand) *c11IPF {
	f := &c11IPF{}
	if rng.Bool(0.35) {
		f.BlockByDefault = true
		f.Allow = c11Subset(rng, c11IPEnts, 1, 3)
		f.Block = c11Subset(rng, c11IPEnts, 0, 1)
	} else {
		f.Block = c11Subset(rng, c11IPEnts, 1, 2)
		f.Allow = c11Subset(rng, c11IPEnts, 0, 1)
	}
	return f
}

func c11GenPath(rng *sim.Rand, backend string, pIPF, pHdr float64) c11Path {
	p := c11Path{Backend: backend, Methods: []string{}, Headers: []c11Hdr{}}
	switch rng.Intn(8) {
	case 0, 1:
		p.Path = rng.PickStr("/x", "/y", "/x/y")
		if rng.Bool(0.4) {
			p.Rewrite = "/e-" + backend
		}
	case 2, 3:
		p.Prefix = rng.PickStr("/x", "/x", "/")
		if rng.Bool(0.4) {
			p.Rewrite = "/p-" + backend
		}
	case 4:
		p.Regexp = "^/x/(.*)$"
		if rng.Bool(0.5) {
			p.Rewrite = "/r-" + backend + "/$1"
		}
	case 5:
		p.Regexp = "^/(x|y)$"
		if rng.Bool(0.5) {
			p.Rewrite = "/r-" + backend + "/$1"
		}
	default:
	}
	if rng.Bool(0.35) {
		p.Methods = c11Subset(rng, []string{"GET", "POST", "PUT"}, 1, 2)
	}
	if rng.Bool(pHdr) {
		opts := []c11Hdr{
			{Key: "X-V", Values: []string{"1"}},
			{Key: "X-V", Values: []string{"1", "2"}},
			{Key: "X-W", Values: []string{}, Regexp: "^a"},
		}
		p.Headers = []c11Hdr{opts[rng.Intn(len(opts))]}
		p.MatchAll = rng.Bool(0.3)
	}
	if rng.Bool(pIPF) {
		p.IPF = c11GenIPF(rng)
	}
	if rng.Bool(0.25) {
		p.MaxBody = int64(rng.Pick(-1, 4, 20, 100))
	}
	return p
}

func c11CloneSrv(s *c11Srv) c11Srv {
	b, _ := json.Marshal(s)
	var c c11Srv
	json.Unmarshal(b, &c)
	return c
}

// c11EditSrv derives the next generation: 0-3 edits of the kinds the statement
// names (rules, rewrite targets, xForwardedFor, body limits, IP filters, cache).
func c11EditSrv(rng *sim.Rand, prev *c11Srv, nb *int) c11Srv {
	s := c11CloneSrv(prev)
	s.Edits = []string{}
	backend := func() string { *nb++; return fmt.Sprintf("b%d", *nb) }
	n := rng.Pick(0, 1, 1, 1, 2, 2, 3)
	anyPath := func() *c11Path {
		var ps []*c11Path
		for i := range s.Rules {
			for j := range s.Rules[i].Paths {
				ps = append(ps, &s.Rules[i].Paths[j])
			}
		}
		if len(ps) == 0 {
			return nil
		}
		return ps[rng.Intn(len(ps))]
	}
	for k := 0; k < n; k++ {
		switch rng.Intn(12) {
		case 0:
			s.XFF = !s.XFF
			s.Edits = append(s.Edits, "xff")
		case 1:
			s.MaxBody = int64(rng.Pick(0, 4, 20, 100, -1))
			s.Edits = append(s.Edits, "server-max-body")
		case 2:
			if p := anyPath(); p != nil {
				p.MaxBody = int64(rng.Pick(0, -1, 4, 20, 100))
				s.Edits = append(s.Edits, "path-max-body")
			}
		case 3:
			if p := anyPath(); p != nil && (p.Path != "" || p.Prefix != "" || p.Regexp != "") {
				if p.Rewrite == "" || rng.Bool(0.7) {
					p.Rewrite = fmt.Sprintf("/w%d-%s", rng.Intn(100), p.Backend)
					if p.Regexp == "^/x/(.*)$" || p.Regexp == "^/(x|y)$" {
						p.Rewrite += "/$1"
					}
				} else {
					p.Rewrite = ""
				}
				s.Edits = append(s.Edits, "rewrite")
			}
		case 4:
			if p := anyPath(); p != nil {
				p.Backend = backend()
				s.Edits = append(s.Edits, "backend")
			}
		case 5:
			if rng.Bool(0.5) {
				s.IPF = c11GenIPF(rng)
			} else {
				s.IPF = nil
			}
			s.Edits = append(s.Edits, "server-ipfilter")
		case 6:
			if len(s.Rules) > 0 {
				ru := &s.Rules[rng.Intn(len(s.Rules))]
				if rng.Bool(0.6) {
					ru.IPF = c11GenIPF(rng)
				} else {
					ru.IPF = nil
				}
				s.Edits = append(s.Edits, "rule-ipfilter")
			}
		case 7:
			if p := anyPath(); p != nil {
				if rng.Bool(0.6) {
					p.IPF = c11GenIPF(rng)
				} else {
					p.IPF = nil
				}
				s.Edits = append(s.Edits, "path-ipfilter")
			}
		case 8:
			s.CacheSize = rng.Pick(0, 1, 2, 16)
			s.Edits = append(s.Edits, "cache-size")
		case 9:
			// delete a path or a rule
			if len(s.Rules) > 0 {
				i := rng.Intn(len(s.Rules))
				if len(s.Rules[i].Paths) > 1 {
					j := rng.Intn(len(s.Rules[i].Paths))
					s.Rules[i].Paths = append(s.Rules[i].Paths[:j], s.Rules[i].Paths[j+1:]...)
					s.Edits = append(s.Edits, "delete-path")
				} else if len(s.Rules) > 1 {
					s.Rules = append(s.Rules[:i], s.Rules[i+1:]...)
					s.Edits = append(s.Edits, "delete-rule")
				}
			}
		case 10:
			// insert a path in front (takes over traffic of the later ones)
			if len(s.Rules) > 0 {
				i := rng.Intn(len(s.Rules))
				p := c11GenPath(rng, backend(), 0.2, 0.2)
				s.Rules[i].Paths = append([]c11Path{p}, s.Rules[i].Paths...)
				s.Edits = append(s.Edits, "insert-path")
			}
		default:
			// swap two paths / methods change
			if p := anyPath(); p != nil {
				if rng.Bool(0.5) {
					p.Methods = c11Subset(rng, []string{"GET", "POST", "PUT"}, 1, 2)
				} else {
					p.Methods = []string{}
				}
				s.Edits = append(s.Edits, "methods")
			}
		}
	}
	if len(s.Edits) == 0 {
		s.Edits = append(s.Edits, "identical")
	}
	return s
}

func c11GenReqs(rng *sim.Rand, nc, total int, pHold float64, withBody bool) []c11Client {
	hosts := []string{"a.test", "a.test", "b.test", "a.test:8080", "c.test"}
	methods := []string{"GET", "GET", "POST", "PUT", "DELETE"}
	cl := make([]c11Client, nc)
	var all []c11Req
	for i := 0; i < total; i++ {
		q := c11Req{Hdr: []c11KV{}}
		if len(all) > 0 && rng.Bool(0.5) {
			e := all[rng.Intn(len(all))]
			q.Host, q.Method, q.Path = e.Host, e.Method, e.Path
		} else {
			q.Host = hosts[rng.Intn(len(hosts))]
			q.Method = methods[rng.Intn(len(methods))]
			q.Path = c11Paths[rng.Intn(len(c11Paths))]
		}
		q.IP = c11IPs[rng.Intn(len(c11IPs))]
		if rng.Bool(0.4) {
			q.Hdr = append(q.Hdr, c11KV{"X-V", rng.PickStr("1", "1", "2", "3")})
		}
		if rng.Bool(0.25) {
			q.Hdr = append(q.Hdr, c11KV{"X-W", rng.PickStr("a", "ab", "b")})
		}
		if rng.Bool(0.2) {
			q.Hdr = append(q.Hdr, c11KV{"X-Forwarded-For", rng.PickStr("192.0.2.9", "198.51.100.2")})
		}
		if withBody && q.Method != "GET" && q.Method != "DELETE" && rng.Bool(0.7) {
			q.Body = rng.Pick(3, 10, 50, 150)
		}
		q.GapUs = int64(rng.Pick(0, 0, 0, 1, 50, 1000))
		if rng.Bool(pHold) {
			q.Hold = rng.Range(1, 4)
		}
		all = append(all, q)
		c := rng.Intn(nc)
		cl[c].Reqs = append(cl[c].Reqs, q)
	}
	return cl
}

func c11GenMux(rng *sim.Rand) *c11MuxSc {
	sc := &c11MuxSc{Missing: []string{}}
	pIPF := []float64{0, 0.15, 0.3}[rng.Intn(3)]
	pHdr := []float64{0, 0.3}[rng.Intn(2)]
	nb := 0
	backend := func() string { nb++; return fmt.Sprintf("b%d", nb) }
	g0 := c11Srv{CacheSize: rng.Pick(0, 0, 1, 2, 16, 16), XFF: rng.Bool(0.4), MaxBody: int64(rng.Pick(0, 0, 20, 100, -1))}
	if rng.Bool(pIPF) {
		g0.IPF = c11GenIPF(rng)
	}
	if rng.Bool(0.3) {
		g0.Trace = 1
	}
	nr := rng.Pick(1, 1, 2, 2, 3)
	for i := 0; i < nr; i++ {
		ru := c11Rule{}
		switch rng.Intn(6) {
		case 0, 1:
			ru.Host = "a.test"
		case 2:
			ru.Host = "b.test"
		case 3:
			ru.HostRegexp = `^a\.`
		default:
		}
		if rng.Bool(pIPF) {
			ru.IPF = c11GenIPF(rng)
		}
		np := rng.Range(1, 3)
		for j := 0; j < np; j++ {
			ru.Paths = append(ru.Paths, c11GenPath(rng, backend(), pIPF, pHdr))
		}
		g0.Rules = append(g0.Rules, ru)
	}
	sc.Gens = append(sc.Gens, g0)
	ng := rng.Pick(1, 1, 2, 2, 3, 4)
	for i := 0; i < ng; i++ {
		s := c11EditSrv(rng, &sc.Gens[len(sc.Gens)-1], &nb)
		s.GapUs = int64(rng.Pick(0, 0, 1, 10, 100, 1000, 3000))
		if c11GenTracingChange && g0.Trace != 0 && rng.Bool(0.15) {
			// mostly the tracing section stays as it is (same content, another spec object)
			s.Trace = rng.Pick(0, 1, 2)
			s.Edits = append(s.Edits, "tracing")
		}
		sc.Gens = append(sc.Gens, s)
	}
	if rng.Bool(0.1) && nb > 0 {
		sc.Missing = append(sc.Missing, fmt.Sprintf("b%d", rng.Range(1, nb)))
	}
	pHold := []float64{0.2, 0.5, 0.8}[rng.Intn(3)]
	sc.Clients = c11GenReqs(rng, rng.Range(1, 4), rng.Range(4, 24), pHold, true)
	return sc
}

// ---- building real specs -----------------------------------------------------------

func c11IPFMap(f *c11IPF) map[string]interface{} {
	m := map[string]interface{}{"blockByDefault": f.BlockByDefault}
	if len(f.Allow) > 0 {
		m["allowIPs"] = f.Allow
	}
	if len(f.Block) > 0 {
		m["blockIPs"] = f.Block
	}
	return m
}

// c11SrvText renders one generation as an HTTPServer spec (JSON, which is YAML).
func c11SrvText(name string, s *c11Srv) string {
	m := map[string]interface{}{"kind": "HTTPServer", "name": name, "port": 10080, "keepAlive": true, "https": false,
		"cacheSize": s.CacheSize, "xForwardedFor": s.XFF}
	if s.MaxBody != 0 {
		m["clientMaxBodySize"] = s.MaxBody
	}
	if s.MaxConn > 0 {
		m["maxConnections"] = s.MaxConn
	}
	if s.Trace == 1 || s.Trace == 2 {
		m["tracing"] = map[string]interface{}{"serviceName": "c11", "tags": map[string]string{"set": strconv.Itoa(s.Trace)},
			"zipkin": map[string]interface{}{"serverURL": "http://zipkin.test:9411/api/v2/spans", "sampleRate": 1}}
	}
	if s.KA > 0 {
		m["keepAliveTimeout"] = fmt.Sprintf("%ds", s.KA)
	}
	if s.IPF != nil {
		m["ipFilter"] = c11IPFMap(s.IPF)
	}
	rules := []interface{}{}
	for _, ru := range s.Rules {
		rm := map[string]interface{}{}
		if ru.Host != "" {
			rm["host"] = ru.Host
		}
		if ru.HostRegexp != "" {
			rm["hostRegexp"] = ru.HostRegexp
		}
		if ru.IPF != nil {
			rm["ipFilter"] = c11IPFMap(ru.IPF)
		}
		paths := []interface{}{}
		for _, p := range ru.Paths {
			pm := map[string]interface{}{"backend": p.Backend}
			if p.Path != "" {
				pm["path"] = p.Path
			}
			if p.Prefix != "" {
				pm["pathPrefix"] = p.Prefix
			}
			if p.Regexp != "" {
				pm["pathRegexp"] = p.Regexp
			}
			if p.Rewrite != "" {
				pm["rewriteTarget"] = p.Rewrite
			}
			if len(p.Methods) > 0 {
				pm["methods"] = p.Methods
			}
			if p.MaxBody != 0 {
				pm["clientMaxBodySize"] = p.MaxBody
			}
			if len(p.Headers) > 0 {
				hs := []interface{}{}
				for _, h := range p.Headers {
					hm := map[string]interface{}{"key": h.Key}
					if len(h.Values) > 0 {
						hm["values"] = h.Values
					}
					if h.Regexp != "" {
						hm["regexp"] = h.Regexp
					}
					hs = append(hs, hm)
				}
				pm["headers"] = hs
				if p.MatchAll {
					pm["matchAllHeader"] = true
				}
			}
			if p.IPF != nil {
				pm["ipFilter"] = c11IPFMap(p.IPF)
			}
			paths = append(paths, pm)
		}
		rm["paths"] = paths
		rules = append(rules, rm)
	}
	m["rules"] = rules
	b, _ := json.Marshal(m)
	return string(b)
}

// c11SrvValid rejects (shrunk) scenarios the documented spec constraints forbid.
func c11SrvValid(s *c11Srv) bool {
	for _, ru := range s.Rules {
		if ru.HostRegexp != "" {
			if _, err := regexp.Compile(ru.HostRegexp); err != nil {
				return false
			}
		}
		for _, p := range ru.Paths {
			if p.Backend == "" {
				return false
			}
			if p.Rewrite != "" && p.Path == "" && p.Prefix == "" && p.Regexp == "" {
				return false
			}
			if p.Regexp != "" {
				if _, err := regexp.Compile(p.Regexp); err != nil {
					return false
				}
			}
			for _, h := range p.Headers {
				if h.Key == "" || (len(h.Values) == 0 && h.Regexp == "") {
					return false
				}
				if _, err := regexp.Compile(h.Regexp); err != nil {
					return false
				}
			}
		}
	}
	return true
}

// c11NewSpec is supervisor.NewSpec with a per-process memo: a text that has
// already passed the real NewSpec (validation takes ~1 ms per filter) is
// decoded again into a fresh, independent Spec without being validated again.
// A prototype is never handed out, every caller gets its own object.
var c11SpecProtos = map[string]*supervisor.Spec{}

// c11MockSuper: MQTTProxy.Init asks its supervisor for the member name and the
// cluster (nil: the package's own in-memory session store is used).
var c11MockSuper = supervisor.NewMock(&option.Options{Name: "c11-eg"}, nil, sync.Map{}, sync.Map{}, nil, nil, false, nil, nil)

func c11NewSpec(text string) (*supervisor.Spec, error) {
	if p := c11SpecProtos[text]; p != nil {
		return supervisor.C11Respec(p), nil
	}
	var sp *supervisor.Spec
	var err error
	if strings.Contains(text, `"kind":"MQTTProxy"`) {
		sp, err = c11MockSuper.NewSpec(text)
	} else {
		sp, err = supervisor.NewSpec(text)
	}
	if err != nil || sp == nil {
		return sp, err
	}
	if len(c11SpecProtos) < 50000 {
		c11SpecProtos[text] = sp
		return supervisor.C11Respec(sp), nil
	}
	return sp, nil
}

// ---- request execution helpers (all modes) -----------------------------------------

const c11SeenHdr = "X-C11-Seen"

func c11Body(n int) string {
	return strings.Repeat("z", n)
}

func c11HTTPReq(q *c11Req, id string, extra ...c11KV) *http.Request {
	h := http.Header{}
	for _, kv := range q.Hdr {
		if kv.K != "" {
			h.Add(kv.K, kv.V)
		}
	}
	for _, kv := range extra {
		h.Set(kv.K, kv.V)
	}
	h.Set("X-C11-Id", id)
	req := &http.Request{Method: q.Method, URL: &url.URL{Path: q.Path}, Host: q.Host, Header: h, RemoteAddr: q.IP + ":40000",
		Body: http.NoBody, Proto: "HTTP/1.1", ProtoMajor: 1, ProtoMinor: 1, RequestURI: q.Path}
	if q.Body > 0 {
		req.Body = io.NopCloser(strings.NewReader(c11Body(q.Body)))
		req.ContentLength = int64(q.Body)
	}
	return req
}

func c11ReqOK(q *c11Req) bool {
	return q.Host != "" && q.Method != "" && strings.HasPrefix(q.Path, "/") && q.IP != "" && !strings.HasPrefix(q.Path, "/.well-known/") && q.Body >= 0 && q.Body < 1<<16
}

// c11Stack returns the easegress frames of the current stack (innermost first).
func c11Stack() string {
	lines := strings.Split(string(debug.Stack()), "\n")
	var out []string
	for i := 0; i+1 < len(lines); i++ {
		if strings.Contains(lines[i], "megaease/easegress/pkg") && !strings.Contains(lines[i+1], "zz_verif") {
			out = append(out, strings.TrimSpace(lines[i])+" "+strings.TrimSpace(lines[i+1]))
		}
		if len(out) >= 10 {
			break
		}
	}
	return strings.Join(out, "\n")
}

// c11Serve calls ServeHTTP and converts an escaping panic into (value, stack).
func c11Serve(h http.Handler, req *http.Request) (rec *httptest.ResponseRecorder, pv interface{}, stack string) {
	rec = httptest.NewRecorder()
	func() {
		defer func() {
			if p := recover(); p != nil {
				pv, stack = p, c11Stack()
			}
		}()
		h.ServeHTTP(rec, req)
	}()
	return
}

// c11Outcome is everything observable about one answered request.
func c11Outcome(rec *httptest.ResponseRecorder, hdrs ...string) string {
	var sb strings.Builder
	sb.WriteString(strconv.Itoa(rec.Code))
	if v := rec.Header().Get(c11SeenHdr); v != "" {
		sb.WriteString(" seen{" + v + "}")
	}
	for _, k := range hdrs {
		if vs := rec.Header().Values(k); len(vs) > 0 {
			sb.WriteString(" " + k + "=" + strings.Join(vs, ","))
		}
	}
	if b := rec.Body.String(); b != "" {
		if len(b) > 80 {
			b = fmt.Sprintf("%s...(%d bytes)", b[:40], len(b))
		}
		sb.WriteString(" body=" + strconv.Quote(b))
	}
	return sb.String()
}

// c11Mapper is the harness MuxMapper of mode mux: every known backend is a
// handler that records what it sees and can park.
type c11Mapper struct {
	missing  map[string]bool
	handlers map[string]*c11Backend
	onHandle func(id string)
}

type c11Backend struct {
	name string
	m    *c11Mapper
}

func (m *c11Mapper) GetHandler(name string) (context.Handler, bool) {
	if m.missing[name] {
		return nil, false
	}
	h := m.handlers[name]
	if h == nil {
		h = &c11Backend{name: name, m: m}
		m.handlers[name] = h
	}
	return h, true
}

func (h *c11Backend) Handle(ctx *context.Context) string {
	req, _ := ctx.GetRequest(context.DefaultNamespace).(*httpprot.Request)
	resp, _ := httpprot.NewResponse(nil)
	resp.SetStatusCode(http.StatusOK)
	id := ""
	if req != nil {
		n := -1
		if !req.IsStream() {
			n = len(req.RawPayload())
		}
		resp.HTTPHeader().Set(c11SeenHdr, fmt.Sprintf("backend=%s path=%s host=%s xff=%q body=%d", h.name, req.Path(), req.Host(),
			strings.Join(req.HTTPHeader().Values("X-Forwarded-For"), ";"), n))
		id = req.HTTPHeader().Get("X-C11-Id")
	}
	ctx.SetResponse(context.DefaultNamespace, resp)
	if h.m.onHandle != nil {
		h.m.onHandle(id)
	}
	return ""
}

// ---- executor, mode mux --------------------------------------------------------------

func c11ExecMux(r *sim.Run, sc *c11MuxSc) {
	nreq := 0
	for _, c := range sc.Clients {
		nreq += len(c.Reqs)
	}
	if len(sc.Gens) == 0 || nreq == 0 || len(sc.Gens) > 8 {
		return
	}
	var specs []*supervisor.Spec
	var texts []string
	for i := range sc.Gens {
		if !c11SrvValid(&sc.Gens[i]) || sc.Gens[i].CacheSize < 0 {
			return
		}
		txt := c11SrvText("c11", &sc.Gens[i])
		sp, err := c11NewSpec(txt)
		if err != nil || sp == nil {
			r.Probe("c11.mux.spec_rejected")
			return
		}
		specs = append(specs, sp)
		texts = append(texts, txt)
	}
	missing := map[string]bool{}
	for _, b := range sc.Missing {
		missing[b] = true
	}
	tracing := false
	for i := range sc.Gens {
		if sc.Gens[i].Trace < 0 || sc.Gens[i].Trace > 2 {
			return
		}
		tracing = tracing || sc.Gens[i].Trace != 0
	}
	if tracing {
		// the zipkin reporter posts its batches with a plain http.Client: keep it off the real network
		oldTransport := http.DefaultTransport
		http.DefaultTransport = c11NoNetwork{r}
		defer func() { http.DefaultTransport = oldTransport }()
		r.Probe("c11.mux.scenario_with_tracing")
	}

	// quiescent twins: exp[g][id]
	type rq struct {
		id string
		q  *c11Req
	}
	var all []rq
	for ci := range sc.Clients {
		for qi := range sc.Clients[ci].Reqs {
			q := &sc.Clients[ci].Reqs[qi]
			if c11ReqOK(q) {
				all = append(all, rq{fmt.Sprintf("c%d.%d", ci, qi), q})
			}
		}
	}
	if len(all) == 0 {
		return
	}
	exp := make([]map[string]string, len(specs))
	for g := range specs {
		tm := &c11Mapper{missing: missing, handlers: map[string]*c11Backend{}}
		t := newMux(httpstat.New(), httpstat.NewTopN(10), tm)
		t.reload(specs[g], tm)
		exp[g] = map[string]string{}
		for _, x := range all {
			rec, pv, st := c11Serve(t, c11HTTPReq(x.q, x.id))
			if pv != nil {
				// a panic without any update is not this property's business
				r.Probe("c11.mux.twin_panics")
				r.Eventf("twin g%d %s panics: %v\n%s", g, x.id, pv, st)
				return
			}
			exp[g][x.id] = c11Outcome(rec)
		}
		t.close()
	}
	for g := 1; g < len(specs); g++ {
		if texts[g] == texts[g-1] {
			r.Probe("c11.mux.reload_with_identical_spec")
		}
	}

	// system under test
	mapper := &c11Mapper{missing: missing, handlers: map[string]*c11Backend{}}
	m := newMux(httpstat.New(), httpstat.NewTopN(10), mapper)
	m.reload(specs[0], mapper)
	started, done := 0, 0 // generation whose reload has started / returned
	type flight struct {
		hold    int
		hiAtHnd int
		entered bool
	}
	flights := map[string]*flight{}
	inflight, maxInflight := 0, 0
	mapper.onHandle = func(id string) {
		f := flights[id]
		if f == nil || f.entered {
			return
		}
		f.entered = true
		f.hiAtHnd = started
		for i := 0; i < f.hold && !r.Aborted(); i++ {
			r.Yield("c11.mux.handler")
		}
	}
	var sig strings.Builder
	overlapDiff, afterDiff := 0, 0
	running := map[string]string{} // requests inside mux.ServeHTTP

	tasksLeft := 1 + len(sc.Clients)
	r.Go("updater", func() {
		defer func() { tasksLeft-- }()
		for g := 1; g < len(specs); g++ {
			if r.Aborted() {
				return
			}
			if sc.Gens[g].Trace != 0 && sc.Gens[g].Trace == sc.Gens[g-1].Trace {
				r.Probe("c11.mux.reload_keeps_tracing_section")
				if inflight > 0 {
					r.Probe("c11.mux.reload_keeps_tracing_section_while_traced_requests_in_flight")
				}
			}
			gap := sc.Gens[g].GapUs
			if gap < 0 || gap > 10_000_000 {
				gap = 0
			}
			r.Sleep(time.Duration(gap) * time.Microsecond)
			started = g
			r.Eventf("reload g%d starts (inflight=%d) edits=%v", g, inflight, sc.Gens[g].Edits)
			if inflight > 0 {
				r.Probe("c11.mux.reload_while_requests_in_flight")
			}
			var pv interface{}
			var st string
			func() {
				defer func() {
					if p := recover(); p != nil {
						pv, st = p, c11Stack()
					}
				}()
				m.reload(specs[g], mapper)
			}()
			if pv != nil {
				r.Violate("C11.mux.reload-panic", "mux.reload to generation %d panicked: %v\n%s\nspec: %s", g, pv, st, texts[g])
				return
			}
			done = g
			r.Eventf("reload g%d returned", g)
		}
	})
	for ci := range sc.Clients {
		ci := ci
		reqs := sc.Clients[ci].Reqs
		r.Go(fmt.Sprintf("client%d", ci), func() {
			defer func() { tasksLeft-- }()
			for qi := range reqs {
				if r.Aborted() {
					return
				}
				q := &reqs[qi]
				if !c11ReqOK(q) {
					continue
				}
				gap := q.GapUs
				if gap < 0 || gap > 10_000_000 {
					gap = 0
				}
				r.Sleep(time.Duration(gap) * time.Microsecond)
				id := fmt.Sprintf("c%d.%d", ci, qi)
				hold := q.Hold
				if hold < 0 || hold > 8 {
					hold = 0
				}
				f := &flight{hold: hold}
				flights[id] = f
				lo := done
				running[id] = fmt.Sprintf("{%v} started with generation %d applied", q, lo)
				inflight++
				if inflight > maxInflight {
					maxInflight = inflight
				}
				rec, pv, st := c11Serve(m, c11HTTPReq(q, id))
				inflight--
				delete(running, id)
				hi := started
				if f.entered {
					hi = f.hiAtHnd
				}
				if pv != nil {
					r.Eventf("%s PANIC %v", id, pv)
					r.Violate("C11.mux.panic", "request {%v} panicked in mux.ServeHTTP while generations %d..%d were possible: %v\n%s", q, lo, hi, pv, st)
					return
				}
				got := c11Outcome(rec)
				r.Eventf("%s %v -> %s (window g%d..g%d)", id, q, got, lo, hi)
				fmt.Fprintf(&sig, "%s>%s;", id, got)
				differ := false
				for g := lo; g <= hi; g++ {
					if exp[g][id] != exp[lo][id] {
						differ = true
					}
				}
				if hi > lo {
					r.Probe("c11.mux.request_overlaps_reload")
					if differ {
						overlapDiff++
						r.Probe("c11.mux.request_overlaps_reload_that_changes_its_answer")
						if got == exp[lo][id] && started > lo && f.entered && f.hold > 0 {
							r.Probe("c11.mux.old_generation_answer_while_newer_exists")
						}
					}
				}
				if lo > 0 && exp[lo][id] != exp[lo-1][id] {
					afterDiff++
					r.Probe("c11.mux.request_after_reload_that_changes_its_answer")
				}
				ok := false
				for g := lo; g <= hi; g++ {
					if got == exp[g][id] {
						ok = true
					}
				}
				if ok {
					continue
				}
				class, why := "C11.mux.mixed-generations", "the answer equals the quiescent answer of NO generation"
				for g := range exp {
					if got == exp[g][id] {
						if g < lo {
							class, why = "C11.mux.stale-generation", fmt.Sprintf("the answer is the one of generation %d, but reload to generation %d had already returned when the request started", g, lo)
						} else {
							class, why = "C11.mux.unapplied-generation", fmt.Sprintf("the answer is the one of generation %d whose reload had not started", g)
						}
						break
					}
				}
				var tw []string
				for g := range exp {
					mark := " "
					if g >= lo && g <= hi {
						mark = "*"
					}
					tw = append(tw, fmt.Sprintf("  %s g%d (%v): %s", mark, g, sc.Gens[g].Edits, exp[g][id]))
				}
				r.Violate(class, "request {%v}: got %s; %s\nallowed generations %d..%d (*), quiescent twin answers:\n%s\ncode path: mux.ServeHTTP -> m.inst.Load().(*muxInstance).serveHTTP (mux.go); mux.reload builds a new muxInstance and Store()s it",
					q, got, why, lo, hi, strings.Join(tw, "\n"))
				return
			}
		})
	}
	if tracing {
		// watchdog: with a tracer a request can get stuck for good (reporter closed under
		// it); nothing in a scenario takes virtual hours, stall decisions add 20 min at most
		waited := time.Duration(0)
		for step := time.Millisecond; tasksLeft > 0 && !r.Aborted() && !r.Violated(); step *= 2 {
			if waited > 3*time.Hour {
				var ids []string
				for id := range running {
					ids = append(ids, id+" "+running[id])
				}
				sort.Strings(ids)
				class := "C11.mux.request-never-finishes"
				for i := 1; i < len(sc.Gens); i++ {
					if sc.Gens[i].Trace != sc.Gens[i-1].Trace {
						// an update changed / removed the tracing section
						class = "C11.mux.tracing-change-hangs-inflight-request"
					}
				}
				r.Violate(class, "%d h of virtual time after the last update (%d of %d applied) these requests are still inside mux.ServeHTTP: %s\n"+
					"tracing sections of the generations: %v\ncode path: mux.reload closes the tracer of the previous generation (oldInst.tracer.Close) when it takes the tracing section for changed; span.Finish of a request that started on it then never returns",
					3, done, len(specs)-1, strings.Join(ids, "; "), func() []int {
						var ts []int
						for i := range sc.Gens {
							ts = append(ts, sc.Gens[i].Trace)
						}
						return ts
					}())
				m.close()
				return
			}
			r.Sleep(step)
			waited += step
		}
	}
	r.WaitTasks()
	m.close()
	if maxInflight >= 2 {
		r.Probe("c11.mux.requests_overlap")
	}
	if overlapDiff+afterDiff > 0 {
		r.Nontrivial()
	}
	r.SetSig("mux|" + strings.Join(texts, "|") + "|" + sig.String())
}

// c11GenTracingChange: generate updates that change or remove the tracing
// section. Before /repo commit 6177db7 such an update hung the sampled requests
// in flight for good (class C11.mux.tracing-change-hangs-inflight-request, a
// genuine defect, repaired); updates that KEEP the tracing section are generated
// regardless of the switch.
const c11GenTracingChange = true

// c11NoNetwork answers every request of the process's default HTTP transport (the
// zipkin reporter of a tracer) without touching a network.
type c11NoNetwork struct{ r *sim.Run }

func (n c11NoNetwork) RoundTrip(req *http.Request) (*http.Response, error) {
	if req.Body != nil {
		io.Copy(io.Discard, req.Body)
		req.Body.Close()
	}
	n.r.Probe("c11.mux.trace_batch_reported")
	return &http.Response{StatusCode: http.StatusAccepted, Status: "202 Accepted", Proto: "HTTP/1.1", ProtoMajor: 1, ProtoMinor: 1,
		Header: http.Header{}, Body: http.NoBody, Request: req}, nil
}

// ---- dispatch -----------------------------------------------------------------------

func c11Gen(rng *sim.Rand, tier string) interface{} {
	sc := &c11Scenario{}
	x := rng.Intn(20)
	if os.Getenv("VERIF_C11_ONLYRES") != "" {
		x = 7
	}
	switch {
	case x < 7:
		sc.Mode = "mux"
		sc.Mux = c11GenMux(rng)
	case x < 14:
		sc.Mode = "pipe"
		sc.Pipe = c11GenPipe(rng)
	case x < 17:
		sc.Mode = "tc"
		sc.TC = c11GenTC(rng)
	default:
		sc.Mode = "rt"
		sc.RT = c11GenRT(rng)
	}
	return sc
}

func c11Exec(r *sim.Run, sci interface{}) {
	sc := sci.(*c11Scenario)
	r.MultiClass = true
	switch {
	case sc.Mode == "mux" && sc.Mux != nil:
		r.Probe("c11.mode.mux")
		c11ExecMux(r, sc.Mux)
	case sc.Mode == "pipe" && sc.Pipe != nil:
		r.Probe("c11.mode.pipe")
		c11ExecPipe(r, sc.Pipe)
	case sc.Mode == "tc" && sc.TC != nil:
		r.Probe("c11.mode.tc")
		c11ExecTC(r, sc.TC)
	case sc.Mode == "rt" && sc.RT != nil:
		r.Probe("c11.mode.rt")
		c11ExecRT(r, sc.RT)
	}
}

func TestVerifC11(t *testing.T) {
	logger.InitNop()
	c11RegisterKinds()
	hdrv.Main(t, &hdrv.Harness{
		ID:            "C11",
		Gen:           c11Gen,
		New:           func() interface{} { return &c11Scenario{} },
		Exec:          c11Exec,
		MaxSteps:      40000,
		DeadlockClass: "C11.deadlock",
		Rule: "a scenario is one of four modes (mux 35%, pipe 35%, tc 15%, rt 15%; rt = the mux scenario shape against a LISTENING HTTPServer runtime over the simulated network: raw HTTP/1.1 clients, only hot fields change, no dial may be refused and no connection may end without a response; 40% of the rt scenarios contain a listen-failure history: the first bind or the bind of a restart-requiring update (keepAliveTimeout) fails with address-in-use, 1-3 hot updates arrive while the runtime is in state failed, the port becomes free, the 10 s checkFailed ticker or a further restart-requiring update brings the server back, clients retry refused dials every 1.3 s and the requests answered after the recovery are judged by the same generation window; half of the rt clients are keep-alive clients that send consecutive requests from one address on one connection across the updates (a kept connection found closed is retried on a fresh one), maxConnections changes as a further hot field in 40% of the scenarios). mux: chain of 2-5 HTTPServer specs derived from one another by 0-3 edits (rules, rewrite targets, xForwardedFor, body limits, IP filters at three levels, cache size, identical re-apply), " +
			"one updater task calling mux.reload, 1-4 client tasks with 4-24 requests whose backend handlers park; pipe: one filter kind under test (RateLimiter, Proxy, Mock, Request/ResponseAdaptor, Validator, Fallback, CORSAdaptor, Request/ResponseBuilder, HeaderToJSON, CertExtractor) in a real Pipeline, " +
			"2-4 generations (Init, then Inherit which closes the previous one; 15% of the updates keep the NAME of the filter under test and change its KIND), requests park before / inside / after the filter under test while the updater inherits; " +
			"65% of the Proxy scenarios are resilience-observable (Proxy variants 6/7: main pool and optional candidate pool, each with retry policy maxAttempts 2-3 / none, circuit breaker none / ample / tight, timeout 1h / none, failureCodes [503] / none, 3 server sets; updates keep / add / remove / change each of them or change something else while they stay; " +
			"75% of the requests carry a backend script: the first 1-3 attempts fail by connection error, status 503 or by answering after 2h), judged by a reference model of the held generation's spec (attempt count, final status, servers, short-circuiting); tc: real TrafficController with a real HTTPServer object and Pipelines A,B,C, two updater tasks issuing create/apply/update/delete (and identical re-apply) on disjoint names, requests and GetHandler lookups; " +
			"pipe also: 15% of the generations have no flow section (the filter order is the flow), jumps go to the post filter or to END, updates add / remove the flow section; tc also: in half of the scenarios a third updater creates / applies / updates / deletes pipelines of the SAME names pa, pb in a second namespace, Cleans that namespace and polls TrafficController.Status; UpdateTrafficGate besides ApplyTrafficGate; the final state of every name in both namespaces is compared with the reference; in half of the tc scenarios a neighbour of ANOTHER kind lives in the same namespace: a real MQTTProxy mq (real broker listening on the simulated network, Connect pipeline that parks 0-6 gates) which a fourth updater applies / updates (close old + init new) / deletes while 1-2 raw MQTT clients CONNECT / SUBSCRIBE / PUBLISH / PING at scheduler-chosen instants (each connection with a client id of its own); versions 2-5 of mq route PUBLISH through pipeline mqpub, whose only filter reports its version as generation marker, and the same updater creates / applies / updates / deletes mqpub, so that a connection that has already published keeps publishing across pipeline updates; 30% of the mux scenarios carry a tracing section (zipkin reporter kept off the network, sampleRate 1) which the updates keep (same content, new spec object); " +
			"non-trivial = a request overlapped an update that changes its answer, or ran on a generation that had already been inherited from / closed, or started after an update that changes its answer; distinct = distinct (specs, ordered request/answer history)",
		Real: []string{"pkg/object/httpserver mux (newMux, reload, ServeHTTP, search, cache), runtime + HTTPServer object (mode tc)", "pkg/object/pipeline Pipeline (Init, Inherit, Close, Handle)", "pkg/object/trafficcontroller (Create/Apply/Update/Delete Pipeline and TrafficGate, Clean, Status, Namespace.GetHandler)", "pkg/object/mqttproxy (MQTTProxy Init/Inherit/Close through the TrafficController, Broker incl. accept loop and CONNECT handshake, Client, SessionManager with the package's in-memory store, TopicManager) as a neighbour traffic gate in mode tc",
			"pkg/filters: ratelimiter, proxy (pools, load balancers, memory cache, resilience wrappers), mock, requestadaptor, responseadaptor, validator, fallback, corsadaptor, builder, headertojson, certextractor", "pkg/supervisor Spec / ObjectEntity", "pkg/util/ratelimiter, pkg/util/ipfilter, pkg/protocols/httpprot, pkg/context"},
		Stub: []string{"clients (harness tasks, httptest recorders, no sockets)", "backends of the Proxy filter (proxy.fnSendRequest replaced by a scripted backend that can park and, per request script, lets the first attempts fail by transport error / status 503 / answering after 2h while honouring the attempt's context)", "MuxMapper + backend handlers in mode mux", "park/echo filter kind C11Park registered by the harness", "TCP of the MQTTProxy: simnet through netshim; MQTT clients: harness tasks speaking the paho packet codec; supervisor of the MQTTProxy specs: supervisor.NewMock with a member name and no cluster; admin API registry: its change channel is drained by the harness (no API server runs)", "listener of the HTTPServer object (gracenet.ListenHook -> idle listener in mode tc, simnet listener in mode rt; in mode rt the hook also injects 'address already in use' bind failures)",
			"sync / sync/atomic / math/rand of the instrumented files -> simsync / simatomic / simrand (same semantics + gates)"},
		Assumptions: []string{
			"oracle = quiescent twins of the same code: one never-updated instance per generation answers every request of the scenario before traffic starts",
			"mode mux: a request may be answered by any ONE generation g with (reloads returned at its start) <= g <= (reloads started when its backend handler was entered); all observed fields must come from that one generation",
			"mode pipe: a request is compared with the twin of the generation whose Handle it entered; for RateLimiter a 429 is accepted besides the permitted answer (limiter state is inherited); for Proxy any server of the held generation's pool is accepted",
			"mode pipe, resilience: a request is judged by the spec of the generation whose Handle it entered (attempts = first non-failing attempt, at most maxAttempts; failing = transport error, attempt longer than the pool timeout, status in failureCodes); final status 200 / the backend's 503 / any 5xx for a transport error / any 4xx-5xx for a timeout (the documents name no status); " +
				"the pool timeout (1h) and a slow attempt (2h) are far apart because stall decisions may add up to 20 min of virtual time anywhere; a tight breaker (window 2, 100%, open 1000h) is judged exactly only while the calls of its (generation, pool) are strictly sequential and the previous generation had no tight breaker on that pool (the statement does not say whether breaker state survives an update), otherwise a 5xx without backend attempt and the normal answer are both accepted; twins get the ample breaker",
			"mode rt, listen failures: 'applied' for a hot update that arrives while the server is failed means the runtime's fsm has processed the reload event (runtime.spec is the new spec); from the start of a restart-requiring update or of the failing Init until the harness has seen the final net/http server accept a probe connection a refused dial or a connection lost in the accept queue is not judged (the client tries again); recovery is expected within 84 s of virtual time after the port is free (checkFailed period 10 s)",
			"mode tc: 'applied' for an HTTPServer update means its runtime has processed the reload event (observed by the updater polling the mux instance); a request that overlaps create/delete of its pipeline may get 503 or an answer",
			"mode rt, keep-alive: a request sent on a kept connection that ends before any response byte and before its handler was entered is sent again on a fresh connection and only that attempt is judged (the server may close an idle connection at any time: idle timer during a stall, restart)",
			"mode tc, neighbour MQTTProxy: an MQTT step (dial, CONNECT accepted, SUBACK, PUBACK, PINGRESP) must succeed when mq exists and no call on mq (other than an apply of an equal spec) overlapped the connection since its dial; otherwise nothing is asserted about it; a panic on a goroutine of the code under test cannot be recovered by the harness (Go offers no hook, the only deferred call of Broker.handleConn is Close of the framework's connection type): it ends the worker process and vcheck reports it as C11.process-crash with the panic value, the stack and a seed replay",
			"mode tc, Publish pipeline of the MQTTProxy: a PUBLISH acknowledged on a connection during which mq was untouched must have been handled by exactly one generation of mqpub that was possibly in effect between the send and the handling (reference history of mqpub: a call that returned before the send has replaced the older state); no pipeline of that name in a possible state: handled without one",
			"mode mux, tracing: requests still inside mux.ServeHTTP 3 h of virtual time after the tasks were started are reported (C11.mux.request-never-finishes; C11.mux.tracing-change-hangs-inflight-request when an update changed or removed the tracing section, a genuine defect, repaired in /repo by 6177db7; such updates are generated because const c11GenTracingChange = true)",
			"mode tc: UpdateTrafficGate with a spec equal to the one in effect may or may not make the runtime reload (the statement only says that applying an unchanged spec is a no-op); if it reloads, the harness lets the reload finish before the next call",
			"mode tc: nothing is asserted about the content of TrafficController.Status, only that the call returns; a panic in it is reported as C11.tc.panic",
			"not generated: tracing, globalFilter, HTTPS, mirror pools, service discovery, filters that need a cluster / broker / wasm runtime / remote endpoint (HeaderLookup, Kafka, MQTT kinds, WasmHost, RemoteFilter), Validator basicAuth (real files)",
		},
	})
}
