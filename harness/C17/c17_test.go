//go:debug asynctimerchan=0
//go:build go1.21

package mqttproxy

// C17 — connection caps hold at every instant for HTTP servers and the MQTT
// proxy. One scenario is one of three kinds:
//
//   http-ll  real limitlistener.LimitListener (+ real sem.Semaphore) around a
//            simnet listener, under a real net/http.Server; the admin task calls
//            the real LimitListener.SetMaxConnection.
//   http-rt  the whole real httpserver.HTTPServer (runtime, fsm goroutine, mux,
//            LimitListener, http.Server), listening through the grace stub's
//            gracenet.ListenHook on simnet; the cap is changed with
//            HTTPServer.Inherit (eventReload through the runtime's event channel).
//   mqtt     the real mqttproxy Broker listening through netshim on simnet; raw
//            MQTT clients (paho packets codec); an admin task sends session
//            deletes to the real httpDeleteSessionHandler (store delete ->
//            delete watch -> Broker.deleteSession); optionally a Disconnect
//            pipeline that takes its time (gates, virtual time) is configured.
//            A scenario family aims session deletes (admin request, or the
//            broker's own removal of a clean session) at the instant the same
//            client id reconnects, with other ids filling the table afterwards.
//            Clients may CONNECT with a last-will message; a Publish pipeline
//            (topic ACL) lets wills pass, drops them or answers Disconnect, so
//            that the teardown of a client that went away without DISCONNECT
//            (close, reset, half-close, takeover) runs through a refused will.
//
//            The admin task may also update the MQTTProxy with an unchanged
//            spec (what MQTTProxy.Inherit does: close the broker, start a new
//            one on the same port, same store) while connections are in their
//            handshake; the table rule (C17.mqtt-cap-exceeded) and the ping
//            evidence count the clients of ALL generations of the broker: a
//            client that a closed broker admitted and serves is a connected
//            client of the proxy.
//
// A second binary, harness/C17L (check.json "also"), drives the LimitListener
// directly (no net/http) with limitlistener.go instrumented: several goroutines
// closing one accepted connection at the same time.
//
// Oracle (written from the property statement, not from the code):
//
// HTTP. A counting listener below the LimitListener records open = accepted by
// the server and not yet closed by the server. A capacity change counts as
// "applied" from the first quiescent instant after the call has returned at
// which open (+1 when the listener has reserved a slot and waits in Accept)
// <= new cap; from then on the cap is strict: an accept that makes open > cap
// is C17.http-cap-exceeded. Between a change and that instant only the weak
// bound open <= max(caps configured since the last applied instant) is
// asserted (C17.http-resize-overshoot). A connection the client has not yet
// closed must not be closed by the server (C17.http-established-dropped), a
// client must eventually be served (C17.http-capacity-not-reused), and after
// everything was closed exactly cap fresh connections are served.
//
// MQTT. len(Broker.clients) <= maxAllowedConnection at every scheduling step
// (C17.mqtt-cap-exceeded); independently, from what the clients see, the
// number of client ids that are certainly connected never exceeds the cap
// (C17.mqtt-over-cap-served); the number of client ids that are open AND
// served at one instant never exceeds the cap (C17.mqtt-over-cap-answering): a
// connection counts as served from the instant its client read CONNACK
// accepted up to the instant it sent a PINGREQ that was answered and followed
// by another answered PINGREQ (evidence from the wire only; every scripted
// connection pings, and at the end all connections still open are pinged in
// two rounds, the "roll call"); a "server unavailable" CONNACK is only legal if
// the ids that may still occupy a slot reach the cap
// (C17.mqtt-refused-below-cap); after every client has gone the broker holds
// no slot any more and admits cap fresh clients (C17.mqtt-capacity-not-released,
// or C17.mqtt-slot-leak-aborted-handshake when the slots that stay occupied
// all belong to clients that went away before reading their CONNACK).
//
// Leniency decisions (statement silent / two readings):
//   * a connection the broker has dropped from its table (session delete,
//     takeover) stays open at TCP level until its next packet arrives, and the
//     broker may still answer that one packet: such a connection is not counted
//     as served (hence two answered pings, not one; probe
//     mqtt.dropped_connection_answered_one_more_ping shows that it happens);
//     connections with the same client id count as one client;
//   * the statement does not say that a session delete frees the slot at once
//     or at all before the connection is really closed: nothing is asserted
//     about admission right after a delete (the client-side "may occupy a slot"
//     set keeps the id until the client has seen the connection closed); ids
//     that were the target of a session delete leave the "certainly connected"
//     set of C17.mqtt-over-cap-served for the rest of the run;
//   * a new connection that is closed by a session-delete event meant for its
//     predecessor (known finding C16.reconnect.killed-by-own-delete-event) is
//     accepted here: it is closed, not served beyond the cap;
//   * every connection whose CONNECT goes out at once must be answered (CONNACK
//     accepted or server-unavailable; C17.mqtt-connect-unanswered). A socket
//     that the broker closes without CONNACK is accepted only if the scheduler
//     stalled during its handshake, i.e. its CONNECT reached the broker an
//     arbitrary time after the socket was opened: a broker may give up on a peer
//     that does not send CONNECT in reasonable time, such a socket is not a
//     connected client (probe mqtt.silent_socket_dropped_before_connack);
//   * an update of the proxy drops what the old broker had: connections begun
//     before the update was over may be closed without CONNACK, refused dials
//     during the update are retried, and such connections leave the
//     CONNACK-based "certainly connected" set;
//   * a takeover of a connected id while the broker is at its cap may be
//     accepted or refused (counted by probes mqtt.takeover_at_cap_*);
//   * ids used with CleanSession=true (ids of their own in most runs, pool ids
//     in the others) are not counted in the client-side "certainly connected"
//     set of C17.mqtt-over-cap-served (the broker's own session-delete watch
//     may disconnect such a client at any time); the ping evidence covers them;
//   * a client that leaves before reading its CONNACK always resets the
//     connection (RST); a plain close is not generated because simnet fails the
//     server's next write at once, which real TCP does not do after a FIN;
//   * SetMaxConnection / reloads come from one admin task (their order is then
//     known); server restarts (port/TLS changes) are not generated;
//   * MaxAllowedConnection = 0 (unlimited), the MQTT connection rate limiter,
//     keep-alive expiry and an interrupted session watch (reconnectWatcher)
//     are not generated;
//   * listener errors: only temporary Accept errors of the inner listener are
//     injected (http-ll), which net/http retries.
//
// Build notes: limitlistener.go is deliberately not instrumented (net/http
// calls Listener.Close / Conn.Close while holding its own real mutex; a gate
// inside sync.Once there would park a goroutine under that mutex and hang the
// bubble) - the gates that matter are in sem.Semaphore and simnet. Every
// connection is dialled from a task with a name of its own (see c17Dial).
// session.go is under "timeshim": the resend tickers of sessions created at the
// same virtual instant otherwise fire in an irreproducible order, which showed
// (1 seed in 500) once such ticker goroutines had queued on the broker lock
// behind a parked holder and then consumed recorded select draws in that order.

import (
	"bufio"
	"bytes"
	stdcontext "context"
	"encoding/json"
	"fmt"
	"io"
	"log"
	"math/rand"
	"net"
	"net/http"
	"net/http/httptest"
	"sort"
	"strconv"
	"strings"
	"testing"
	"time"

	"github.com/eclipse/paho.mqtt.golang/packets"
	"github.com/megaease/grace/gracenet"

	egcontext "github.com/megaease/easegress/pkg/context"
	"github.com/megaease/easegress/pkg/logger"
	"github.com/megaease/easegress/pkg/object/httpserver"
	"github.com/megaease/easegress/pkg/protocols/httpprot"
	"github.com/megaease/easegress/pkg/protocols/mqttprot"
	"github.com/megaease/easegress/pkg/supervisor"
	"github.com/megaease/easegress/pkg/util/limitlistener"
	"verif/simkit/hdrv"
	"verif/simkit/sim"
	"verif/simkit/simnet"
)

func init() { logger.InitNop() }

// ---- scenario ---------------------------------------------------------------

type c17HConn struct {
	GapUs  int64  `json:"gap_us"`
	Reqs   int    `json:"reqs"`
	IdleUs int64  `json:"idle_us"`
	HoldUs int64  `json:"hold_us"`
	End    string `json:"end"`     // close | reset | half
	SlowMs int64  `json:"slow_ms"` // http-rt with rt_rules: the backend takes that long for each request of this connection
}

type c17HClient struct {
	Conns []c17HConn `json:"conns"`
}

type c17Resize struct {
	GapUs   int64 `json:"gap_us"`
	Cap     int   `json:"cap"`
	Restart bool  `json:"restart"` // http-rt: the reload also changes keepAliveTimeout, which makes the runtime restart its http.Server
}

type c17MOp struct {
	GapUs   int64  `json:"gap_us"`
	ID      string `json:"id"`
	Clean   bool   `json:"clean"`
	HoldUs  int64  `json:"hold_us"`
	Pings   int    `json:"pings"`
	End     string `json:"end"` // disconnect | half | close | reset | linger | abort-reset
	AbortUs int64  `json:"abort_us"`
	Will    string `json:"will"` // "" = no last-will; ok | drop | disc = CONNECT carries a will whose topic tells the Publish pipeline what to answer
}

type c17MClient struct {
	Ops []c17MOp `json:"ops"`
}

// c17MDel is one session-delete request sent to the broker's admin handler
// (DELETE /mqttproxy/<name>/sessions): store delete -> delete watch ->
// Broker.deleteSession(id).
type c17MDel struct {
	GapUs   int64  `json:"gap_us"`
	ID      string `json:"id"`
	Restart bool   `json:"restart"` // not a session delete: the MQTTProxy is updated with an unchanged spec (old broker closed, new broker on the same port)
}

type c17Scenario struct {
	Kind        string       `json:"kind"` // http-ll | http-rt | mqtt
	Cap         int          `json:"cap"`
	SegSize     int          `json:"seg_size"`
	DelayUs     int64        `json:"delay_us"`
	DoubleClose int          `json:"double_close"` // http-ll: every k-th accepted connection is closed twice (0 = never)
	AcceptErrs  []int        `json:"accept_errs"`  // ordinals of the listener's Accept calls that fail with a temporary error
	HClients    []c17HClient `json:"h_clients"`
	Admin       []c17Resize  `json:"admin"`
	MClients    []c17MClient `json:"m_clients"`
	MAdmin      []c17MDel    `json:"m_admin"`     // mqtt: session deletes through the admin handler
	DiscYields  int          `json:"disc_yields"` // mqtt: > 0 = a Disconnect pipeline is configured; its handler passes that many gates ...
	DiscUs      int64        `json:"disc_us"`     // ... and takes that long
	RtRules     bool         `json:"rt_rules"`    // http-rt: the server has a rule that routes every path to a backend (harness handler, may be slow)
	PubPipe     bool         `json:"pub_pipe"`    // mqtt: a Publish pipeline is configured; it lets wills on .../ok pass, drops those on .../drop and answers Disconnect to those on .../disc
}

func c17Gen(rng *sim.Rand, tier string) interface{} {
	sc := &c17Scenario{}
	switch x := rng.Intn(100); {
	case x < 40:
		sc.Kind = "http-ll"
	case x < 55:
		sc.Kind = "http-rt"
	default:
		sc.Kind = "mqtt"
	}
	sc.SegSize = rng.Pick(0, 0, 0, 1, 7, 40)
	sc.DelayUs = int64(rng.Pick(0, 0, 0, 1, 50, 2000))
	if sc.Kind == "mqtt" {
		c17GenMQTT(rng, sc)
	} else {
		c17GenHTTP(rng, sc)
	}
	return sc
}

// c17GenRestarts switches the http-rt family "reloads that restart the
// http.Server (keepAliveTimeout changes) while requests are in flight" on.
const c17GenRestarts = true

// c17GenSlowBeyondShutdown lets backend requests outlast the 30 s grace period
// of the runtime's http.Server.Shutdown. Before commit 5e38b14 such a
// connection survived the restart and the new listener admitted maxConnections
// more (C17.http-cap-exceeded-across-restart; closeServer now closes what
// Shutdown left open).
const c17GenSlowBeyondShutdown = true

// c17SerializeRestarts makes the admin task wait for the end of a restart
// before it issues the next reload (see there).
const c17SerializeRestarts = true

func c17GenHTTP(rng *sim.Rand, sc *c17Scenario) {
	sc.Cap = rng.Pick(1, 1, 2, 2, 3, 4, 6)
	if sc.Kind == "http-ll" && rng.Bool(0.5) {
		sc.DoubleClose = rng.Pick(1, 2, 3)
	}
	if sc.Kind == "http-ll" && rng.Bool(0.3) {
		for k, n := 0, rng.Range(1, 3); k < n; k++ {
			sc.AcceptErrs = append(sc.AcceptErrs, rng.Range(1, 12))
		}
	}
	nc := rng.Range(2, 12)
	if sc.Kind == "http-rt" {
		nc = rng.Range(2, 8)
	}
	hold := func() int64 {
		return int64(rng.Pick(0, 0, 1, 50, 1000, 20000, 300000, 2000000))
	}
	for c := 0; c < nc; c++ {
		var cl c17HClient
		for k, n := 0, rng.Pick(1, 1, 2, 3); k < n; k++ {
			cl.Conns = append(cl.Conns, c17HConn{
				GapUs:  hold(),
				Reqs:   rng.Pick(0, 1, 1, 1, 2, 3),
				IdleUs: int64(rng.Pick(0, 1, 1000, 100000)),
				HoldUs: hold(),
				End:    rng.PickStr("close", "close", "close", "half", "reset"),
			})
		}
		sc.HClients = append(sc.HClients, cl)
	}
	na := rng.Pick(0, 1, 1, 2, 2, 3, 4)
	for i := 0; i < na; i++ {
		var cp int
		switch rng.Intn(4) {
		case 0:
			cp = rng.Range(1, 2) // shrink, probably below current usage
		case 1:
			cp = sc.Cap + rng.Range(1, 3) // grow
		case 2:
			cp = sc.Cap // repeat the configured value
		default:
			cp = rng.Range(1, 7)
		}
		sc.Admin = append(sc.Admin, c17Resize{GapUs: int64(rng.Pick(0, 0, 0, 1, 100, 5000, 100000, 1000000)), Cap: cp})
	}
	if c17GenRestarts && sc.Kind == "http-rt" && rng.Bool(0.45) {
		// a backend behind the server, slow for some connections (long poll,
		// streaming, slow upstream), and reloads that restart the http.Server
		sc.RtRules = true
		slowP := float64(rng.Pick(0, 30, 60)) / 100
		for c := range sc.HClients {
			for k := range sc.HClients[c].Conns {
				if rng.Bool(slowP) {
					sc.HClients[c].Conns[k].SlowMs = int64(rng.Pick(1, 100, 3000, 40000, 40000, 100000))
					if !c17GenSlowBeyondShutdown && sc.HClients[c].Conns[k].SlowMs > 3000 {
						sc.HClients[c].Conns[k].SlowMs = int64(rng.Pick(100, 1000, 3000))
					}
					if sc.HClients[c].Conns[k].Reqs == 0 {
						sc.HClients[c].Conns[k].Reqs = 1
					}
				}
			}
		}
		if len(sc.Admin) == 0 {
			sc.Admin = append(sc.Admin, c17Resize{GapUs: int64(rng.Pick(0, 1, 100, 5000, 100000, 1000000)), Cap: sc.Cap})
		}
		for i := range sc.Admin {
			if rng.Bool(0.6) {
				sc.Admin[i].Restart = true
				if rng.Bool(0.5) {
					sc.Admin[i].Cap = sc.Cap // the cap itself stays as it is
				}
			}
		}
	}
}

func c17GenMQTT(rng *sim.Rand, sc *c17Scenario) {
	sc.Cap = rng.Pick(1, 1, 2, 2, 3, 4)
	if rng.Bool(0.3) {
		// a Disconnect pipeline: Client.close() then takes a while (gates and
		// virtual time) after the client has been marked disconnected
		sc.DiscYields = rng.Pick(1, 2, 4)
		sc.DiscUs = int64(rng.Pick(0, 0, 1, 100, 10000))
	}
	withDel := rng.Bool(0.5)
	if withDel && rng.Bool(0.45) {
		c17GenMQTTEvict(rng, sc, rng.PickStr("delete", "delete", "delete", "echo", "echo", "update", "update"))
		return
	}
	pool := sc.Cap + rng.Pick(0, 1, 1, 2)
	nt := rng.Range(2, 6)
	uniq := 0
	cleanP := float64(rng.Pick(0, 0, 0, 20, 50)) / 100
	// CleanSession connections either get an id of their own or (cleanPool) an
	// id of the pool: then they take over / are taken over, and the delete-watch
	// echo of their session's removal can hit a later connection of the id
	cleanPool := rng.Bool(0.4)
	abortP := float64(rng.Pick(0, 5, 5, 15)) / 100
	lingerP := 0.30
	if withDel {
		lingerP = 0.45
	}
	dur := func() int64 { return int64(rng.Pick(0, 0, 1, 10, 1000, 100000, 1000000)) }
	// last-will messages, and a Publish pipeline that refuses some of them
	willP := float64(rng.Pick(0, 0, 30, 70)) / 100
	sc.PubPipe = willP > 0 && rng.Bool(0.85)
	for t := 0; t < nt; t++ {
		var cl c17MClient
		for k, n := 0, rng.Range(1, 4); k < n; k++ {
			op := c17MOp{GapUs: dur(), HoldUs: dur(), Pings: rng.Pick(0, 0, 1, 2)}
			if rng.Bool(willP) {
				op.Will = rng.PickStr("ok", "drop", "drop", "disc")
			}
			if withDel {
				op.Pings = rng.Pick(0, 1, 2, 3)
			}
			op.ID = fmt.Sprintf("c%d", rng.Intn(pool))
			if rng.Bool(cleanP) {
				op.Clean = true
				if !cleanPool {
					uniq++
					op.ID = fmt.Sprintf("u%d", uniq)
				}
			}
			switch x := rng.Float64(); {
			case x < abortP:
				// a client that goes away before it reads the CONNACK gets an id of its own
				uniq++
				op.ID = fmt.Sprintf("x%d", uniq)
				op.Clean = false
				op.End = "abort-reset"
				op.AbortUs = int64(rng.Pick(0, 0, 1, 10, 100, 5000))
			case x < abortP+lingerP:
				op.End = "linger"
			case x < abortP+0.65:
				op.End = "disconnect"
			case x < abortP+0.75:
				op.End = "half"
			case x < abortP+0.92:
				op.End = "close"
			default:
				op.End = "reset"
			}
			cl.Ops = append(cl.Ops, op)
		}
		sc.MClients = append(sc.MClients, cl)
	}
	if withDel {
		// session deletes of pool ids at instants drawn from the same small set
		// as the clients' gaps, so that they coincide with connects of that id
		for k, n := 0, rng.Range(1, 4); k < n; k++ {
			sc.MAdmin = append(sc.MAdmin, c17MDel{GapUs: dur(), ID: fmt.Sprintf("c%d", rng.Intn(pool))})
		}
		if rng.Bool(0.3) {
			// ... one of them is an update of the proxy instead
			k := rng.Intn(len(sc.MAdmin))
			sc.MAdmin[k].ID, sc.MAdmin[k].Restart = "", true
		}
	}
}

// c17GenMQTTEvict draws the family "session delete of a connected id while the
// same id reconnects, then other ids fill the table": the victim id and some
// other ids connect and stay; at one instant T the victim's session is deleted
// through the admin handler and a new connection with the victim's id arrives
// (same instant up to a drawn jitter); later connections with fresh ids arrive
// until the pool exceeds the cap. Everything lingers and pings, so the final
// roll call sees who is served at the same time.
//
// echo = true: no admin request; the victim's first connection has
// CleanSession set and ends at T, so that the broker itself removes the stored
// session and the delete watch reports that removal while the id comes back.
//
// mode "update": instead of a session delete the MQTTProxy is updated at T
// (unchanged spec: the broker is closed and a new one started on the same
// port) while a connection with an id of its own is in its handshake, and as
// many fresh ids as the cap allows arrive afterwards.
func c17GenMQTTEvict(rng *sim.Rand, sc *c17Scenario, mode string) {
	echo := mode == "echo"
	update := mode == "update"
	sc.Cap = rng.Pick(1, 2, 2, 2, 3, 3, 4)
	T := int64(rng.Pick(1, 10, 1000, 100000, 1000000))
	// the CONNECT packet of the harness client (client id "cN") has 16 bytes
	arrive := sc.DelayUs
	if sc.SegSize > 0 {
		arrive = sc.DelayUs * int64((16+sc.SegSize-1)/sc.SegSize)
	}
	jit := func() int64 {
		switch rng.Intn(8) {
		case 0:
			return 1
		case 1:
			return int64(rng.Pick(10, 100))
		case 2, 3, 4:
			return arrive
		}
		return 0
	}
	end := func() string {
		return rng.PickStr("linger", "linger", "linger", "linger", "close", "disconnect", "reset")
	}
	pre := sc.Cap - 2
	if rng.Bool(0.25) {
		pre = sc.Cap - 1 // the table is at its cap when the victim comes back
	}
	if pre < 0 {
		pre = 0
	}
	id := func(i int) string { return fmt.Sprintf("c%d", i) }
	willP := float64(rng.Pick(0, 0, 0, 50)) / 100
	sc.PubPipe = willP > 0
	will := func() string {
		if rng.Bool(willP) {
			return rng.PickStr("ok", "drop", "disc")
		}
		return ""
	}
	// the victim's first connection
	if echo {
		sc.MClients = append(sc.MClients, c17MClient{Ops: []c17MOp{{ID: id(0), Clean: true, HoldUs: T + jit(), End: rng.PickStr("disconnect", "disconnect", "close", "half", "reset")}}})
	} else {
		sc.MClients = append(sc.MClients, c17MClient{Ops: []c17MOp{{GapUs: int64(rng.Pick(0, 0, 1)), ID: id(0), HoldUs: int64(rng.Pick(0, 10, 2000000)), Pings: rng.Pick(0, 0, 1, 2), End: end()}}})
	}
	for i := 1; i <= pre; i++ {
		sc.MClients = append(sc.MClients, c17MClient{Ops: []c17MOp{{GapUs: int64(rng.Pick(0, 0, 1)), ID: id(i), HoldUs: int64(rng.Pick(0, 10, 1000)), Pings: rng.Pick(0, 1, 2), End: end(), Will: will()}}})
	}
	// the delete(s)
	if update {
		sc.MAdmin = append(sc.MAdmin, c17MDel{GapUs: T + jit(), Restart: true})
		if sc.DelayUs > 0 && rng.Bool(0.5) {
			// in the middle of the CONNECT's flight
			sc.MAdmin[0].GapUs = T + arrive/2
		}
	} else if !echo {
		sc.MAdmin = append(sc.MAdmin, c17MDel{GapUs: T + jit(), ID: id(0)})
	}
	if !echo && !update && rng.Bool(0.3) {
		sc.MAdmin = append(sc.MAdmin, c17MDel{GapUs: int64(rng.Pick(0, 0, 1, 10, 1000)), ID: id(rng.Intn(pre + 1))})
	}
	// the victim comes back (once or twice)
	back := c17MClient{Ops: []c17MOp{{GapUs: T + jit(), ID: id(0), HoldUs: int64(rng.Pick(0, 10, 1000)), Pings: rng.Pick(0, 1, 2, 2, 3), End: end()}}}
	if rng.Bool(0.2) {
		back.Ops = append(back.Ops, c17MOp{GapUs: int64(rng.Pick(0, 1, 10, 1000)), ID: id(0), HoldUs: int64(rng.Pick(0, 10, 1000)), Pings: rng.Pick(0, 1, 2), End: end()})
	}
	sc.MClients = append(sc.MClients, back)
	// fresh ids afterwards
	nl := rng.Range(1, 3)
	if update {
		nl = sc.Cap + rng.Range(0, 1)
	}
	for k, n := 0, nl; k < n; k++ {
		sc.MClients = append(sc.MClients, c17MClient{Ops: []c17MOp{{GapUs: T + jit() + int64(rng.Pick(1, 10, 1000, 100000)), ID: id(pre + 1 + k), HoldUs: int64(rng.Pick(0, 10, 1000)), Pings: rng.Pick(0, 1, 2), End: end(), Will: will()}}})
	}
}

const c17Day = 24 * time.Hour

func c17Us(v int64) time.Duration {
	if v < 0 {
		v = 0
	}
	if v > 10_000_000 {
		v = 10_000_000
	}
	return time.Duration(v) * time.Microsecond
}

func c17Net(sc *c17Scenario) *simnet.Net {
	n := simnet.New()
	// Conn.Close passes a gate before the socket is really closed, so that
	// whatever a caller does before closing (e.g. releasing its slot) can be
	// overtaken by other goroutines. Safe here: no connection is closed under
	// a real mutex during a run (no http.Server.Close; switched off again
	// before the HTTP server is shut down).
	n.GateOnClose = true
	seg, delay := sc.SegSize, c17Us(sc.DelayUs)
	if seg > 0 || delay > 0 {
		n.PlanFor = func(id int, addr string) (simnet.DirPlan, simnet.DirPlan) {
			p := simnet.DirPlan{}
			if seg > 0 {
				p.SegSizes = []int{seg}
			}
			if delay > 0 {
				p.Delays = []time.Duration{delay}
			}
			return p, p
		}
	}
	return n
}

// ---- HTTP side --------------------------------------------------------------

type c17H struct {
	r   *sim.Run
	sim *simnet.Listener

	open          map[int]bool // simnet connection id -> accepted by the server and not closed by it
	nOpen         int
	acceptPending int
	accepted      int

	caps      []int // caps configured since the last instant at which the cap was applied (first = that cap)
	lastCap   int
	settled   bool
	adminBusy func() bool

	clientClosing map[int]bool // the client has started to close / abort this connection
	served        map[int]bool // client view: got >= 1 response, not yet closing
	teardown      bool
	silent        bool

	doubleClose int
	acceptErrs  map[int]bool
	acceptCalls int
	hist        []string
	sig         strings.Builder

	sawSaturated, sawHeldBack, sawShrinkBelow, sawUnsettledAccept, sawSettle bool

	// http-rt reloads that restart the http.Server
	seq                int
	restarts           int
	restartPending     bool
	lastRestartDone    int
	restartSinceSettle bool
	born               map[int]int // connection id -> sequence number of its dial / accept
	listens            int         // listeners the runtime has created
	sawDropByRestart   bool
	sawOldAndNew       bool
}

func (h *c17H) tick() int { h.seq++; return h.seq }

func (h *c17H) bear(id int) {
	if _, ok := h.born[id]; !ok {
		h.born[id] = h.tick()
	}
}

// mayDrop: the statement protects established connections against a change
// of maxConnections; it is silent about a reload that restarts the server
// (here: keepAliveTimeout changed). Connections that exist while such a reload
// is under way, or existed before it completed, may be closed by the server.
func (h *c17H) mayDrop(id int) bool {
	if h.restarts == 0 {
		return false
	}
	if h.restartPending {
		return true
	}
	b, ok := h.born[id]
	return ok && b < h.lastRestartDone
}

func (h *c17H) note(format string, a ...interface{}) {
	if h.silent {
		// final tear-down (simnet.Shutdown resets everything at once): the order
		// in which the server's goroutines notice is not part of the history
		return
	}
	s := fmt.Sprintf(format, a...)
	h.r.Eventf("%s", s)
	if len(h.hist) < 400 {
		h.hist = append(h.hist, fmt.Sprintf("%v:%s", h.r.Now(), s))
	}
	if h.sig.Len() < 600 {
		if i := strings.IndexByte(s, ' '); i > 0 {
			h.sig.WriteString(s[:i])
		} else {
			h.sig.WriteString(s)
		}
		h.sig.WriteByte(',')
	}
}

func (h *c17H) history() string { return strings.Join(h.hist, " | ") }

func (h *c17H) bound() int {
	if h.settled {
		return h.lastCap
	}
	m := 0
	for _, c := range h.caps {
		if c > m {
			m = c
		}
	}
	return m
}

// quiescent is evaluated by the scheduler whenever every goroutine is blocked
// or parked at a gate.
func (h *c17H) quiescent() string {
	if h.teardown {
		return ""
	}
	if h.restartPending && !h.adminBusy() {
		h.restartPending = false
		h.lastRestartDone = h.tick()
		h.note("restarted")
	}
	if !h.settled && !h.adminBusy() && h.nOpen+h.acceptPending <= h.lastCap {
		h.settled = true
		h.restartSinceSettle = false
		h.caps = []int{h.lastCap}
		h.sawSettle = true
		h.note("applied cap=%d open=%d", h.lastCap, h.nOpen)
	}
	if h.sim != nil && h.sim.Pending() > 0 && h.nOpen >= h.bound() {
		h.sawHeldBack = true
	}
	return ""
}

func (h *c17H) onAccept(id int) {
	h.bear(id)
	if h.restarts > 0 && !h.restartPending {
		for o := range h.open {
			if b, ok := h.born[o]; ok && b < h.lastRestartDone {
				h.sawOldAndNew = true // a connection of the previous http.Server is still open
			}
		}
	}
	h.open[id] = true
	h.nOpen++
	h.accepted++
	b := h.bound()
	h.note("accept c%d open=%d bound=%d settled=%v", id, h.nOpen, b, h.settled)
	if h.nOpen == b {
		h.sawSaturated = true
	}
	if !h.settled {
		h.sawUnsettledAccept = true
	}
	if h.teardown {
		return
	}
	if h.nOpen > b {
		oldOpen := false
		for o := range h.open {
			if bo, ok := h.born[o]; ok && o != id && h.restarts > 0 && bo < h.lastRestartDone {
				oldOpen = true
			}
		}
		if h.settled && !oldOpen {
			h.r.Violate("C17.http-cap-exceeded", "connection c%d accepted while %d connections were open and maxConnections=%d is in force\nhistory: %s", id, h.nOpen-1, h.lastCap, h.history())
		} else if (h.restartSinceSettle || oldOpen) && !c17GenSlowBeyondShutdown {
			// reported and awaiting a decision; with the switch off it can still be
			// reached when scheduler stalls stretch a request beyond the 30 s
			h.r.Probe("http.cap_exceeded_across_restart_candidate")
		} else if h.restartSinceSettle || oldOpen {
			h.r.Violate("C17.http-cap-exceeded-across-restart", "connection c%d accepted as number %d open at once after a reload that restarted the http.Server; every maxConnections value configured since the last applied one is smaller: %v (connections of the previous http.Server are still open and served, the new listener counts from zero)\nhistory: %s", id, h.nOpen, h.caps, h.history())
		} else {
			h.r.Violate("C17.http-resize-overshoot", "connection c%d accepted as number %d while maxConnections was being changed; every cap configured since the last applied one is smaller: %v\nhistory: %s", id, h.nOpen, h.caps, h.history())
		}
	}
}

func (h *c17H) onServerClose(id int) {
	if !h.open[id] {
		return
	}
	delete(h.open, id)
	h.nOpen--
	h.note("sclose c%d open=%d", id, h.nOpen)
	if !h.teardown && !h.clientClosing[id] && h.mayDrop(id) {
		h.sawDropByRestart = true
		delete(h.served, id)
		return
	}
	if !h.teardown && !h.clientClosing[id] {
		h.r.Violate("C17.http-established-dropped", "the server closed connection c%d although its client had not closed it (caps since last applied: %v)\nhistory: %s", id, h.caps, h.history())
	}
}

// c17Lis sits below the LimitListener: it sees the instants at which a
// connection is handed to the server and at which the server closes it.
type c17Lis struct {
	net.Listener
	h *c17H
}

type c17TempErr struct{}

func (c17TempErr) Error() string   { return "accept: too many open files (injected)" }
func (c17TempErr) Timeout() bool   { return false }
func (c17TempErr) Temporary() bool { return true }

func (l *c17Lis) Accept() (net.Conn, error) {
	l.h.acceptCalls++
	if l.h.acceptErrs[l.h.acceptCalls] && !l.h.teardown {
		// the kernel refuses the accept (EMFILE and the like); net/http retries
		l.h.r.Fault("http.accept_temporary_error")
		l.h.note("accepterr #%d", l.h.acceptCalls)
		return nil, c17TempErr{}
	}
	l.h.acceptPending++
	c, err := l.Listener.Accept()
	l.h.acceptPending--
	if err != nil {
		return nil, err
	}
	id := -1
	if sc, ok := c.(*simnet.Conn); ok {
		id = sc.ID
	}
	l.h.onAccept(id)
	return &c17SrvConn{Conn: c, id: id, h: l.h}, nil
}

type c17SrvConn struct {
	net.Conn
	id int
	h  *c17H
}

func (c *c17SrvConn) Close() error {
	// the connection counts as open until the underlying (simnet) close has
	// really happened; that close passes a gate first (GateOnClose)
	err := c.Conn.Close()
	c.h.onServerClose(c.id)
	return err
}

// c17Outer sits above the LimitListener (http-ll only) and closes some
// connections twice, as callers of net.Conn.Close are allowed to.
type c17Outer struct {
	net.Listener
	h *c17H
	n int
}

func (l *c17Outer) Accept() (net.Conn, error) {
	c, err := l.Listener.Accept()
	if err != nil {
		return nil, err
	}
	l.n++
	if l.h.doubleClose > 0 && l.n%l.h.doubleClose == 0 {
		return &c17TwiceConn{Conn: c, h: l.h}, nil
	}
	return c, nil
}

type c17TwiceConn struct {
	net.Conn
	h *c17H
}

func (c *c17TwiceConn) Close() error {
	err := c.Conn.Close()
	c.Conn.Close()
	c.h.r.Probe("http.double_close")
	return err
}

type c17NoMapper struct{}

func (c17NoMapper) GetHandler(name string) (egcontext.Handler, bool) { return nil, false }

func c17ServerYAML(cap int, kat int, rules bool) string {
	y := fmt.Sprintf("name: c17srv\nkind: HTTPServer\nport: 10080\nkeepAlive: true\nkeepAliveTimeout: %dh\nhttps: false\nmaxConnections: %d\n", 1000+kat, cap)
	if rules {
		y += "rules:\n- paths:\n  - pathPrefix: /\n    backend: c17-backend\n"
	}
	return y
}

// c17Backend is the mux mapper and the handler behind the http-rt server's
// rule: it answers 200 after the time the request path asks for
// (/c17/slow/<ms>).
type c17Backend struct {
	r       *sim.Run
	slowRan bool
}

func (b *c17Backend) GetHandler(name string) (egcontext.Handler, bool) {
	if name == "c17-backend" {
		return b, true
	}
	return nil, false
}

func (b *c17Backend) Handle(ctx *egcontext.Context) string {
	if req, ok := ctx.GetRequest(egcontext.DefaultNamespace).(*httpprot.Request); ok {
		if i := strings.Index(req.Path(), "/slow/"); i >= 0 {
			if ms, err := strconv.Atoi(req.Path()[i+6:]); err == nil && ms > 0 && ms <= 600000 {
				b.slowRan = true
				b.r.Sleep(time.Duration(ms) * time.Millisecond)
			}
		}
	}
	resp, _ := httpprot.NewResponse(nil)
	resp.SetStatusCode(http.StatusOK)
	resp.SetPayload([]byte("ok"))
	ctx.SetResponse(egcontext.DefaultNamespace, resp)
	return ""
}

// settle waits (in simulated time) until cond holds. Every premature wake-up
// of the waiting task costs the scheduler one of its at most 20 stall
// decisions, so 60 rounds are enough for the system to reach quiescence.
func c17Settle(r *sim.Run, d time.Duration, cond func() bool) bool {
	for i := 0; i < 60; i++ {
		if cond() {
			return true
		}
		if r.Aborted() {
			return false
		}
		r.Sleep(d)
	}
	return cond()
}

// c17Dial dials from a short-lived task with a name of its own: the scheduler
// names a connection's delivery goroutines after the goroutine that dialled
// plus an ordinal given at their first gate, and two connections dialled by
// one task can reach their first gates at the same timer instant.
func c17Dial(r *sim.Run, n *simnet.Net, name, addr string) (net.Conn, error) {
	type res struct {
		c   net.Conn
		err error
	}
	ch := make(chan res, 1)
	r.Go(name, func() {
		c, err := n.Dial(stdcontext.Background(), "tcp", addr)
		ch <- res{c, err}
	})
	x := <-ch
	return x.c, x.err
}

func c17ExecHTTP(r *sim.Run, sc *c17Scenario) {
	if sc.Cap < 1 || len(sc.HClients) == 0 {
		return
	}
	n := c17Net(sc)
	simnet.SetDefault(n)
	defer simnet.SetDefault(nil)
	defer n.Shutdown()

	h := &c17H{r: r, open: map[int]bool{}, clientClosing: map[int]bool{}, served: map[int]bool{}, born: map[int]int{},
		caps: []int{sc.Cap}, lastCap: sc.Cap, settled: true, doubleClose: sc.DoubleClose, acceptErrs: map[int]bool{}}
	for _, k := range sc.AcceptErrs {
		h.acceptErrs[k] = true
	}
	h.adminBusy = func() bool { return false }
	const addr = ":10080"

	var resize func(cap int, restart bool)
	var shutdown func()
	backend := &c17Backend{r: r}

	if sc.Kind == "http-rt" {
		for _, op := range sc.Admin {
			if op.Restart {
				// http.Server.Shutdown closes idle connections under its own mutex
				n.GateOnClose = false
				// and polls with a jitter drawn from the global math/rand
				rand.Seed(1)
			}
		}
		gracenet.ListenHook = func(network, a string) (net.Listener, error) {
			l, err := n.Listen(network, a)
			if err != nil {
				return nil, err
			}
			h.listens++
			h.sim, _ = l.(*simnet.Listener)
			return &c17Lis{Listener: l, h: h}, nil
		}
		defer func() { gracenet.ListenHook = nil }()
		spec, err := supervisor.NewSpec(c17ServerYAML(sc.Cap, 0, sc.RtRules))
		if err != nil {
			r.Violate("C17.harness", "server spec: %v", err)
			return
		}
		hs := &httpserver.HTTPServer{}
		hs.Init(spec, backend)
		var want interface{} = spec.ObjectSpec()
		// the runtime records the new spec before it shuts the old http.Server
		// down: a restart is only over when the new listener exists
		h.adminBusy = func() bool {
			return interface{}(httpserver.VerifC17AppliedSpec(hs)) != want || h.listens < 1+h.restarts
		}
		if !c17Settle(r, time.Millisecond, func() bool { return h.sim != nil && !h.adminBusy() }) {
			r.Violate("C17.harness", "the HTTP server runtime did not start listening (state %s)", httpserver.VerifC17State(hs))
			hs.Close()
			return
		}
		kat := 0
		resize = func(cap int, restart bool) {
			if restart {
				kat++
				h.restarts++
				h.restartPending = true
				h.restartSinceSettle = true
			}
			next, err := supervisor.NewSpec(c17ServerYAML(cap, kat, sc.RtRules))
			if err != nil {
				r.Violate("C17.harness", "server spec: %v", err)
				return
			}
			want = next.ObjectSpec()
			nhs := &httpserver.HTTPServer{}
			nhs.Inherit(next, hs, backend)
			hs = nhs
		}
		shutdown = func() { hs.Close() }
	} else {
		l, err := n.Listen("tcp", addr)
		if err != nil {
			r.Violate("C17.harness", "listen: %v", err)
			return
		}
		h.sim, _ = l.(*simnet.Listener)
		ll := limitlistener.NewLimitListener(&c17Lis{Listener: l, h: h}, uint32(sc.Cap))
		srv := &http.Server{ErrorLog: log.New(io.Discard, "", 0), Handler: http.HandlerFunc(func(w http.ResponseWriter, req *http.Request) {
			w.Header().Set("Content-Length", "2")
			w.Write([]byte("ok"))
		})}
		go srv.Serve(&c17Outer{Listener: ll, h: h})
		busy := false
		h.adminBusy = func() bool { return busy }
		resize = func(cap int, restart bool) {
			busy = true
			ll.SetMaxConnection(uint32(cap))
			busy = false
		}
		// not srv.Close(): it would run the listener's Close under net/http's
		// own (real) mutex; the connections are torn down by simnet.Shutdown
		shutdown = func() { ll.Close() }
	}
	r.SetInvariant(h.quiescent)

	// one request/response exchange on a raw client connection
	exchange := func(conn net.Conn, br *bufio.Reader, path string) error {
		if _, err := conn.Write([]byte("GET " + path + " HTTP/1.1\r\nHost: c17\r\n\r\n")); err != nil {
			return err
		}
		resp, err := http.ReadResponse(br, nil)
		if err != nil {
			return err
		}
		_, err = io.Copy(io.Discard, resp.Body)
		resp.Body.Close()
		return err
	}
	isTimeout := func(err error) bool {
		ne, ok := err.(net.Error)
		return ok && ne.Timeout()
	}

	for ci := range sc.HClients {
		ci := ci
		conns := sc.HClients[ci].Conns
		r.Go(fmt.Sprintf("hclient%02d", ci), func() {
			for oi, op := range conns {
				if r.Violated() || r.Aborted() {
					return
				}
				r.Sleep(c17Us(op.GapUs))
				conn, err := c17Dial(r, n, fmt.Sprintf("hdial%02d.%d", ci, oi), "c17:10080")
				for try := 1; err != nil && h.restarts > 0 && try <= 3 && !r.Violated() && !r.Aborted(); try++ {
					// the listener is away while the server restarts: come back later
					r.Probe("http.dial_refused_during_restart")
					c17Settle(r, time.Second, func() bool { return !h.restartPending })
					conn, err = c17Dial(r, n, fmt.Sprintf("hdial%02d.%d.%d", ci, oi, try), "c17:10080")
				}
				if err != nil {
					r.Violate("C17.http-established-dropped", "client %d could not even connect: %v", ci, err)
					return
				}
				scn := conn.(*simnet.Conn)
				id := scn.ID
				h.bear(id)
				h.note("dial c%d", id)
				path := "/c17"
				if op.SlowMs > 0 {
					path = fmt.Sprintf("/c17/slow/%d", op.SlowMs)
				}
				conn.SetDeadline(time.Now().Add(c17Day))
				br := bufio.NewReader(conn)
				for i := 0; i < op.Reqs && i < 8; i++ {
					if err := exchange(conn, br, path); err != nil {
						if r.Violated() || r.Aborted() {
							conn.Close()
							return
						}
						if h.mayDrop(id) && !isTimeout(err) {
							// cut by a restart of the server: not this property's matter
							h.sawDropByRestart = true
							delete(h.served, id)
							h.note("cut c%d", id)
							break
						}
						if isTimeout(err) {
							r.Violate("C17.http-capacity-not-reused", "client connection c%d was not served within 24h although every other client finished long ago (open=%d caps=%v)\nhistory: %s", id, h.nOpen, h.caps, h.history())
						} else {
							r.Violate("C17.http-established-dropped", "client connection c%d (request %d) was cut by the server: %v (open=%d caps=%v)\nhistory: %s", id, i, err, h.nOpen, h.caps, h.history())
						}
						h.clientClosing[id] = true
						conn.Close()
						return
					}
					if !h.served[id] && (h.restarts == 0 || h.open[id]) {
						h.served[id] = true
						h.note("served c%d", id)
						if len(h.served) > h.bound() {
							r.Violate("C17.http-over-cap-served", "%d client connections are being served at once, bound is %d (caps %v)\nhistory: %s", len(h.served), h.bound(), h.caps, h.history())
						}
					}
					r.Sleep(c17Us(op.IdleUs))
				}
				r.Sleep(c17Us(op.HoldUs))
				h.clientClosing[id] = true
				delete(h.served, id)
				h.note("cclose c%d %s", id, op.End)
				switch op.End {
				case "reset":
					scn.Reset()
					conn.Close()
				case "half":
					scn.CloseWrite()
					io.Copy(io.Discard, br)
					conn.Close()
				default:
					conn.Close()
				}
			}
		})
	}
	if len(sc.Admin) > 0 {
		ops := sc.Admin
		r.Go("admin", func() {
			for _, op := range ops {
				if r.Violated() || r.Aborted() {
					return
				}
				r.Sleep(c17Us(op.GapUs))
				if op.Cap < 1 || op.Cap > 64 {
					continue
				}
				if op.Cap < h.nOpen {
					h.sawShrinkBelow = true
				}
				h.caps = append(h.caps, op.Cap)
				h.lastCap = op.Cap
				h.settled = false
				h.note("setmax %d open=%d restart=%v", op.Cap, h.nOpen, op.Restart && sc.Kind == "http-rt")
				resize(op.Cap, op.Restart)
				if op.Restart && sc.Kind == "http-rt" && c17SerializeRestarts {
					// the next reload is only issued once this restart is over: a
					// reload that arrives while the freshly started serve goroutine
					// has not run yet shuts down / serves the wrong http.Server
					// (runHTTP1And2Server reads r.server late) - reported
					// separately, not a matter of this property
					c17Settle(r, time.Second, func() bool { return !h.restartPending })
				}
			}
		})
	}
	r.WaitTasks()

	// everything the clients opened is closed now: the last cap must come
	// into force, and exactly that many fresh connections must be served
	if !r.Violated() && !r.Aborted() {
		ok := c17Settle(r, time.Second, func() bool { return h.settled && h.nOpen == 0 })
		if !ok && !r.Violated() && !r.Aborted() {
			if !h.settled {
				r.Violate("C17.http-resize-not-applied", "all clients have gone but maxConnections=%d is still not in force (open=%d, reserved accept=%d, listeners created=%d, restarting reloads=%d)\nhistory: %s", h.lastCap, h.nOpen, h.acceptPending, h.listens, h.restarts, h.history())
			} else {
				r.Violate("C17.http-capacity-not-reused", "all clients have gone but the server still holds %d connections open\nhistory: %s", h.nOpen, h.history())
			}
		}
	}
	heldBack := h.sawHeldBack
	if !r.Violated() && !r.Aborted() {
		want := h.lastCap
		got := 0
		var probes []net.Conn
		for i := 0; i <= want; i++ {
			// every probe dials from a task of its own: the delivery goroutines of
			// a connection are named after the task that dialled
			r.Go(fmt.Sprintf("probe%02d", i), func() {
				conn, err := n.Dial(stdcontext.Background(), "tcp", "c17:10080")
				if err != nil {
					return
				}
				probes = append(probes, conn)
				id := conn.(*simnet.Conn).ID
				h.note("dial c%d probe", id)
				conn.SetDeadline(time.Now().Add(c17Day))
				if exchange(conn, bufio.NewReader(conn), "/c17") == nil {
					got++
					h.note("served c%d probe", id)
				}
			})
		}
		ok := c17Settle(r, time.Second, func() bool { return got >= want })
		if !ok && !r.Violated() && !r.Aborted() {
			r.Violate("C17.http-capacity-not-reused", "after all connections were closed only %d of maxConnections=%d fresh connections are served\nhistory: %s", got, want, h.history())
		}
		h.teardown = true
		for _, c := range probes {
			c.Close()
		}
		r.WaitTasks()
	}
	h.teardown = true
	h.silent = true
	r.SetInvariant(nil)
	n.GateOnClose = false // http.Server.Shutdown closes idle connections under its own mutex
	shutdown()

	if h.sawSaturated {
		r.Probe("http.open_reached_cap")
	}
	if heldBack {
		r.Probe("http.client_held_back_at_cap")
	}
	if h.sawShrinkBelow {
		r.Probe("http.shrink_below_usage")
	}
	if h.sawUnsettledAccept {
		r.Probe("http.accept_while_resize_pending")
	}
	if h.sawSettle {
		r.Probe("http.resize_applied")
	}
	if len(sc.Admin) >= 2 {
		r.Probe("http.repeated_resize")
	}
	if h.restarts > 0 {
		r.Probe("http.reload_restarted_server")
	}
	if h.sawDropByRestart {
		r.Probe("http.connection_dropped_by_restart")
	}
	if h.sawOldAndNew {
		r.Probe("http.old_server_connection_open_while_new_accepts")
	}
	if backend.slowRan {
		r.Probe("http.slow_backend_request")
	}
	if heldBack {
		r.Nontrivial()
	}
	r.SetSig(sc.Kind + "|" + h.sig.String())
}

// ---- MQTT side --------------------------------------------------------------

type c17MC struct {
	sid       int
	id        string
	sentSeq   int
	resSeq    int // CONNACK read
	reapedSeq int // the client saw the server close the connection
	state     string
	gone      bool // closed / aborted by the client, or seen closed
	aborted   bool
	takeAtCap bool
	conn      net.Conn
	lingering bool
	pingSent  []int // sequence numbers at which this connection's PINGREQs were sent
	answered  int   // how many of them were answered with a PINGRESP
	clean     bool
	dialSeq   int // taken before the socket is opened
}

type c17M struct {
	r       *sim.Run
	b       *Broker
	cap     int
	seq     int
	conns   []*c17MC
	tainted map[string]bool
	hist    []string
	sig     strings.Builder
	maxLen  int
	lastDel map[string]time.Duration // id -> instant of the last session delete issued for it
	delSeq  map[string][]int         // id -> sequence numbers of the session deletes issued for it

	sawRefused, sawFull, sawTakeover bool
	sawZombiePong, sawServedAtCap    bool

	// MQTTProxy updates: m.b is the running broker, old the closed ones
	old          []*Broker
	restarts     int
	restartSeq   int // sequence number at which the last update was completed
	restarting   bool
	hasRestart   bool // the scenario contains an update
	sawStraggler bool
}

// begunBeforeUpdate: the socket was opened before the last update of the
// proxy was over, i.e. possibly to the broker that the update closed.
func (m *c17M) begunBeforeUpdate(c *c17MC) bool {
	return m.restarting || c.dialSeq <= m.restartSeq
}

func (m *c17M) brokers() []*Broker { return append(append([]*Broker{}, m.old...), m.b) }

func (m *c17M) next() int { m.seq++; return m.seq }

func (m *c17M) note(format string, a ...interface{}) {
	s := fmt.Sprintf(format, a...)
	m.r.Eventf("%s", s)
	if len(m.hist) < 400 {
		m.hist = append(m.hist, fmt.Sprintf("%v:%s", m.r.Now(), s))
	}
	if m.sig.Len() < 600 {
		m.sig.WriteString(s)
		m.sig.WriteByte(',')
	}
}

func (m *c17M) history() string { return strings.Join(m.hist, " | ") }

// definite returns the ids that are certainly connected from what the clients
// have seen: an accepted connection the client has not ended and has not seen
// closed, every other connection with the same id either refused or answered
// before this one was started (so none of them can have replaced it).
func (m *c17M) definite() []string {
	set := map[string]bool{}
	for _, c := range m.conns {
		if c.state != "accepted" || c.gone || m.tainted[c.id] || m.begunBeforeUpdate(c) {
			// (an update of the proxy closes the broker: connections begun before
			// it are dropped by it sooner or later)
			continue
		}
		ok := true
		for _, d := range m.conns {
			if d == c || d.id != c.id || d.state == "refused" {
				continue
			}
			if d.resSeq != 0 && d.resSeq < c.sentSeq {
				continue
			}
			ok = false
			break
		}
		if ok {
			set[c.id] = true
		}
	}
	var ids []string
	for id := range set {
		ids = append(ids, id)
	}
	sort.Strings(ids)
	return ids
}

// occupants returns the ids that may hold a slot at some instant since seq.
func (m *c17M) occupants(except *c17MC, since int) []string {
	set := map[string]bool{}
	for _, d := range m.conns {
		if d == except || d.state == "refused" {
			continue
		}
		if d.reapedSeq != 0 && d.reapedSeq < since {
			continue
		}
		set[d.id] = true
	}
	var ids []string
	for id := range set {
		ids = append(ids, id)
	}
	sort.Strings(ids)
	return ids
}

func (m *c17M) brokerIDs() []string {
	var ids []string
	for i, b := range m.brokers() {
		for id := range b.clients {
			if b != m.b {
				id = fmt.Sprintf("%s(closed broker #%d)", id, i)
			}
			ids = append(ids, id)
		}
	}
	sort.Strings(ids)
	return ids
}

func (m *c17M) tableSize() int {
	n := 0
	for _, b := range m.brokers() {
		n += len(b.clients)
	}
	return n
}

// registered tells (white box, used for probes and messages only) whether the
// broker's table maps the connection's client id to this very connection.
func (m *c17M) registered(c *c17MC) bool {
	for _, b := range m.brokers() {
		if cl := b.clients[c.id]; cl != nil {
			if sc, ok := cl.conn.(*simnet.Conn); ok && sc.ID == c.sid {
				return true
			}
		}
	}
	return false
}

// servedUntil returns the latest sequence number up to which the connection
// was certainly served as a connected client: it was admitted (CONNACK
// accepted read at resSeq) and, after that instant, the broker answered two
// successive PINGREQs, the first of which was sent at the returned instant.
// Two, because a broker that has just dropped a connection (session delete,
// takeover) may still answer the one packet it was waiting for, but it cannot
// carry on a conversation with a client it no longer counts. 0 = no evidence.
func (c *c17MC) servedUntil() int {
	if c.state != "accepted" || c.answered < 2 {
		return 0
	}
	return c.pingSent[c.answered-2]
}

// servedTogether returns the largest set of client ids that were certainly
// served at one and the same instant (see servedUntil). Connections of one id
// count once: a takeover replaces a connection, it does not add a client.
func (m *c17M) servedTogether() (ids []string, at int) {
	var best map[string]bool
	for _, p := range m.conns {
		t := p.servedUntil()
		if t == 0 {
			continue
		}
		// candidate instants: the end points of the intervals (an interval
		// [resSeq, servedUntil] that overlaps a maximal set contains one of them)
		set := map[string]bool{}
		for _, c := range m.conns {
			if u := c.servedUntil(); u != 0 && c.resSeq <= t && t <= u {
				set[c.id] = true
			}
		}
		if len(set) > len(best) {
			best, at = set, t
		}
	}
	for id := range best {
		ids = append(ids, id)
	}
	sort.Strings(ids)
	return ids, at
}

func (m *c17M) checkServed() {
	ids, at := m.servedTogether()
	if len(ids) == m.cap {
		m.sawServedAtCap = true
	}
	if len(ids) <= m.cap || m.r.Violated() {
		return
	}
	var det []string
	for _, c := range m.conns {
		if u := c.servedUntil(); u != 0 && c.resSeq <= at && at <= u {
			det = append(det, fmt.Sprintf("s%d(%s: admitted at #%d, answering pings sent until #%d and later, in the broker's table now: %v)", c.sid, c.id, c.resSeq, u, m.registered(c)))
		}
	}
	m.r.Violate("C17.mqtt-over-cap-answering", "at instant #%d the broker was serving %d client ids %v at once (each had got CONNACK accepted before and answered two successive PINGREQs sent at or after that instant), maxAllowedConnection=%d; connections: %v; broker's own table now: %v\nhistory: %s",
		at, len(ids), ids, m.cap, det, m.brokerIDs(), m.history())
}

// ping does one PINGREQ/PINGRESP exchange; false = the connection is dead.
func (m *c17M) ping(c *c17MC) bool {
	reg := m.registered(c)
	at := m.next()
	if err := packets.NewControlPacket(packets.Pingreq).Write(c.conn); err != nil {
		return false
	}
	c.pingSent = append(c.pingSent, at)
	for {
		pk, err := packets.ReadPacket(c.conn)
		if err != nil {
			return false
		}
		if _, ok := pk.(*packets.PingrespPacket); ok {
			break
		}
	}
	c.answered = len(c.pingSent)
	m.next()
	m.note("pong s%d %s #%d", c.sid, c.id, c.answered)
	if !reg {
		// the leniency of servedUntil is needed: the broker answered a packet
		// of a connection it had already dropped from its table
		m.sawZombiePong = true
	}
	if c.answered >= 2 {
		m.checkServed()
	}
	return true
}

func (m *c17M) quiescent() string {
	// the tables of all generations of the proxy's broker count: a client that
	// a closed broker still serves is a connected client of this MQTTProxy
	n := m.tableSize()
	if n > m.maxLen {
		m.maxLen = n
	}
	if n >= m.cap {
		m.sawFull = true
	}
	if n > m.cap {
		return fmt.Sprintf("C17.mqtt-cap-exceeded: the broker holds %d clients %v, maxAllowedConnection=%d\nhistory: %s", n, m.brokerIDs(), m.cap, m.history())
	}
	return ""
}

func c17Connect(id string, clean bool, will string) *packets.ConnectPacket {
	cp := packets.NewControlPacket(packets.Connect).(*packets.ConnectPacket)
	cp.ProtocolName = "MQTT"
	cp.ProtocolVersion = 4
	cp.ClientIdentifier = id
	cp.CleanSession = clean
	cp.Keepalive = 0
	if will == "ok" || will == "drop" || will == "disc" {
		cp.WillFlag = true
		cp.WillQos = 0
		cp.WillTopic = "c17/will/" + will
		cp.WillMessage = []byte("gone:" + id)
	}
	return cp
}

// drain reads until the server closes the connection.
func c17Drain(conn net.Conn) {
	for {
		if _, err := packets.ReadPacket(conn); err != nil {
			return
		}
	}
}

// connect runs the handshake of one client connection and applies the
// client-side rules. It returns nil when the connection is not established.
func (m *c17M) connect(n *simnet.Net, op c17MOp, who string) *c17MC {
	r := m.r
	// virtual time the scheduler has spent in stall decisions so far: if it
	// grows during the handshake, this connection's CONNECT reached the broker
	// an arbitrary time after the socket was opened (the client task or the
	// delivery of its bytes was held back), through no doing of the scenario
	stalled0 := r.StalledFor()
	dialSeq := m.next()
	conn, err := c17Dial(r, n, "mdial-"+who, "c17:1883")
	for try := 1; err != nil && m.hasRestart && try <= 5 && !r.Violated() && !r.Aborted(); try++ {
		// the port is away for a moment while the proxy is being updated
		r.Probe("mqtt.dial_refused_during_proxy_update")
		r.Sleep(time.Millisecond)
		c17Settle(r, time.Second, func() bool { return !m.restarting })
		dialSeq = m.next()
		conn, err = c17Dial(r, n, fmt.Sprintf("mdial-%s.r%d", who, try), "c17:1883")
	}
	if err != nil {
		r.Violate("C17.other", "%s: dial failed: %v", who, err)
		return nil
	}
	scn := conn.(*simnet.Conn)
	conn.SetDeadline(time.Now().Add(c17Day))
	c := &c17MC{sid: scn.ID, id: op.ID, state: "sent", conn: conn, clean: op.Clean, dialSeq: dialSeq}
	for _, d := range m.conns {
		if d.id == op.ID && d.clean && d.state == "accepted" {
			// the removal of d's session is (or will be) reported by the delete
			// watch, possibly while this connection is being set up or later
			r.Probe("mqtt.reconnect_of_clean_session_id")
			break
		}
	}
	def := m.definite()
	for _, d := range def {
		if d == op.ID {
			m.sawTakeover = true
			c.takeAtCap = len(def) >= m.cap
		}
	}
	if op.Clean {
		m.tainted[op.ID] = true
	}
	if at, ok := m.lastDel[op.ID]; ok && at == r.Now() {
		r.Probe("mqtt.connect_same_instant_as_session_delete")
	}
	c.sentSeq = m.next()
	m.conns = append(m.conns, c)
	m.note("connect s%d %s clean=%v will=%q", c.sid, c.id, op.Clean, op.Will)
	if err := c17Connect(op.ID, op.Clean, op.Will).Write(conn); err != nil {
		c.gone = true
		c.reapedSeq = m.next()
		c.state = "failed"
		if r.StalledFor() != stalled0 || m.begunBeforeUpdate(c) {
			c.state = "dropped"
			m.note("dropped s%d %s before CONNECT", c.sid, c.id)
			r.Probe("mqtt.silent_socket_dropped_before_connack")
		}
		conn.Close()
		return nil
	}
	if strings.HasPrefix(op.End, "abort") {
		r.Sleep(c17Us(op.AbortUs))
		c.aborted, c.gone = true, true
		m.note("abort s%d %s", c.sid, op.End)
		if op.End == "abort-reset" {
			scn.Reset()
		}
		conn.Close()
		r.Probe("mqtt.client_left_before_connack")
		return nil
	}
	pk, err := packets.ReadPacket(conn)
	if err != nil {
		c.state, c.gone = "failed", true
		c.reapedSeq = m.next()
		conn.Close()
		if r.Violated() || r.Aborted() {
			return nil
		}
		if ne, ok := err.(net.Error); (!ok || !ne.Timeout()) && m.begunBeforeUpdate(c) {
			// the socket was opened to a broker that was closed by an update of
			// the proxy before its CONNECT was handled
			c.state = "dropped"
			m.note("dropped s%d %s by the proxy update", c.sid, c.id)
			r.Probe("mqtt.handshake_cut_by_proxy_update")
			return nil
		}
		if ne, ok := err.(net.Error); (!ok || !ne.Timeout()) && r.StalledFor() != stalled0 {
			// the broker closed a socket whose CONNECT was late: the statement is
			// about connected clients, and this one never became one (no CONNACK,
			// closed: it is never counted as connected by any rule here)
			c.state = "dropped"
			m.note("dropped s%d %s without CONNACK", c.sid, c.id)
			r.Probe("mqtt.silent_socket_dropped_before_connack")
			return nil
		}
		r.Violate("C17.mqtt-connect-unanswered", "%s: connection s%d (%s) sent its CONNECT without delay (no scheduler stall between opening the socket and now) and got neither CONNACK accepted nor server-unavailable: %v\nhistory: %s", who, c.sid, c.id, err, m.history())
		return nil
	}
	ack, ok := pk.(*packets.ConnackPacket)
	if !ok {
		r.Violate("C17.other", "%s: first packet on s%d is %s", who, c.sid, pk.String())
		c.gone = true
		conn.Close()
		return nil
	}
	c.resSeq = m.next()
	switch ack.ReturnCode {
	case packets.Accepted:
		c.state = "accepted"
		m.note("accepted s%d %s", c.sid, c.id)
		if m.begunBeforeUpdate(c) {
			// admitted by a broker that had been closed meanwhile: it is a
			// connected client of the proxy all the same (counted by the ping
			// evidence and the table rule)
			m.sawStraggler = true
		}
		for _, d := range m.conns {
			if d == c || d.id != c.id || d.state != "accepted" || d.gone {
				continue
			}
			for _, ds := range m.delSeq[c.id] {
				if ds > d.resSeq && ds < c.resSeq {
					// an older connection of this id is still open at the client's
					// end, the id's session was deleted, and the id is admitted again
					r.Probe("mqtt.deleted_id_admitted_again_while_old_connection_open")
				}
			}
		}
		if c.takeAtCap {
			r.Probe("mqtt.takeover_at_cap_accepted")
		}
		if def := m.definite(); len(def) > m.cap {
			r.Violate("C17.mqtt-over-cap-served", "client ids %v are all connected (accepted, not closed, not replaced) but maxAllowedConnection=%d; broker's own table: %v\nhistory: %s", def, m.cap, m.brokerIDs(), m.history())
		}
		return c
	case packets.ErrRefusedServerUnavailable:
		c.state = "refused"
		m.sawRefused = true
		m.note("refused s%d %s", c.sid, c.id)
		if c.takeAtCap {
			r.Probe("mqtt.takeover_at_cap_refused")
		}
		if m.begunBeforeUpdate(c) {
			// the socket was opened to a broker that an update of the proxy closed
			// before its CONNECT was handled: that broker may drop it (see above) or
			// tell it that the server is unavailable - it is (found by a legal
			// alternative, DESIGN §16: the drop had been accepted, the refusal not)
			r.Probe("mqtt.handshake_refused_by_proxy_update")
		} else if occ := m.occupants(c, c.sentSeq); len(occ) < m.cap {
			r.Violate("C17.mqtt-refused-below-cap", "connection s%d (%s) was refused with server-unavailable although at most the ids %v could occupy a slot while it was connecting, maxAllowedConnection=%d; broker's own table: %v\nhistory: %s", c.sid, c.id, occ, m.cap, m.brokerIDs(), m.history())
		}
		c17Drain(conn)
		c.gone = true
		c.reapedSeq = m.next()
		conn.Close()
		return nil
	default:
		r.Violate("C17.other", "%s: connection s%d (%s) got CONNACK code %d", who, c.sid, c.id, ack.ReturnCode)
		c.gone = true
		conn.Close()
		return nil
	}
}

func (m *c17M) sawClosed(c *c17MC) {
	if !c.gone {
		c.gone = true
	}
	if c.reapedSeq == 0 {
		c.reapedSeq = m.next()
	}
	m.note("eof s%d %s", c.sid, c.id)
}

func (m *c17M) end(c *c17MC, how string) {
	scn, _ := c.conn.(*simnet.Conn)
	switch how {
	case "disconnect":
		m.note("disconnect s%d %s", c.sid, c.id)
		c.gone = true
		packets.NewControlPacket(packets.Disconnect).Write(c.conn)
		c17Drain(c.conn)
		m.sawClosed(c)
		c.conn.Close()
	case "half":
		m.note("halfclose s%d %s", c.sid, c.id)
		c.gone = true
		if scn != nil {
			scn.CloseWrite()
		}
		c17Drain(c.conn)
		m.sawClosed(c)
		c.conn.Close()
	case "reset":
		m.note("reset s%d %s", c.sid, c.id)
		c.gone = true
		if scn != nil {
			scn.Reset()
		}
		c.conn.Close()
	default:
		m.note("close s%d %s", c.sid, c.id)
		c.gone = true
		c.conn.Close()
	}
}

// c17Disc is the mux mapper and the handler of the Disconnect pipeline: it
// only takes its time (gates, virtual time), as a pipeline with a filter that
// calls a backend would.
type c17Disc struct {
	r      *sim.Run
	yields int
	d      time.Duration
	off    bool
	ran    bool
	pub    c17Pub
}

func (x *c17Disc) GetHandler(name string) (egcontext.Handler, bool) {
	switch name {
	case "c17-disconnect":
		return x, true
	case "c17-publish":
		return &x.pub, true
	}
	return nil, false
}

// c17Pub is the handler of the Publish pipeline: a topic ACL that lets
// messages on ".../ok" pass, drops those on ".../drop" and answers Disconnect
// to those on ".../disc". The only publishes of a run are last-will messages.
type c17Pub struct {
	x        *c17Disc
	rejected int
	passed   int
}

func (p *c17Pub) Handle(ctx *egcontext.Context) string {
	req, _ := ctx.GetRequest(egcontext.DefaultNamespace).(*mqttprot.Request)
	resp, _ := ctx.GetResponse(egcontext.DefaultNamespace).(*mqttprot.Response)
	if req == nil || resp == nil || req.PublishPacket() == nil {
		return ""
	}
	if !p.x.off {
		p.x.r.Yield("c17.publish-pipeline")
	}
	switch topic := req.PublishPacket().TopicName; {
	case strings.HasSuffix(topic, "/drop"):
		resp.SetDrop()
		p.rejected++
		p.x.r.Fault("mqtt.will_rejected_by_publish_pipeline")
	case strings.HasSuffix(topic, "/disc"):
		resp.SetDisconnect()
		p.rejected++
		p.x.r.Fault("mqtt.will_rejected_by_publish_pipeline")
	default:
		p.passed++
	}
	return ""
}

func (x *c17Disc) Handle(ctx *egcontext.Context) string {
	if x.off {
		return ""
	}
	x.ran = true
	for i := 0; i < x.yields && i < 8; i++ {
		x.r.Yield("c17.disconnect-pipeline")
	}
	if x.d > 0 {
		x.r.Sleep(x.d)
	}
	return ""
}

func c17ExecMQTT(r *sim.Run, sc *c17Scenario) {
	if sc.Cap < 1 || len(sc.MClients) == 0 {
		return
	}
	n := c17Net(sc)
	simnet.SetDefault(n)
	defer simnet.SetDefault(nil)
	defer n.Shutdown()

	spec := &Spec{Name: "c17", EGName: "c17", Port: 1883, MaxAllowedConnection: sc.Cap}
	disc := &c17Disc{r: r, yields: sc.DiscYields, d: c17Us(sc.DiscUs)}
	disc.pub.x = disc
	if sc.DiscYields > 0 {
		spec.Rules = append(spec.Rules, &Rule{When: &When{PacketType: Disconnect}, Pipeline: "c17-disconnect"})
	}
	if sc.PubPipe {
		spec.Rules = append(spec.Rules, &Rule{When: &When{PacketType: Publish}, Pipeline: "c17-publish"})
	}
	store := newStorage(nil) // outlives the broker, like the cluster store
	memberURL := func(string, string) ([]string, error) { return nil, nil }
	b := newBroker(spec, store, disc, memberURL)
	if b == nil {
		r.Violate("C17.harness", "newBroker returned nil")
		return
	}
	m := &c17M{r: r, b: b, cap: sc.Cap, tainted: map[string]bool{}, lastDel: map[string]time.Duration{}, delSeq: map[string][]int{}}
	for _, op := range sc.MAdmin {
		if op.Restart {
			m.hasRestart = true
		}
	}
	r.SetInvariant(m.quiescent)
	var lingering []*c17MC

	for ti := range sc.MClients {
		ti := ti
		ops := sc.MClients[ti].Ops
		r.Go(fmt.Sprintf("mclient%02d", ti), func() {
			for oi, op := range ops {
				if r.Violated() || r.Aborted() {
					return
				}
				if op.ID == "" {
					continue
				}
				r.Sleep(c17Us(op.GapUs))
				c := m.connect(n, op, fmt.Sprintf("c%02d.%d", ti, oi))
				if c == nil {
					continue
				}
				r.Sleep(c17Us(op.HoldUs))
				alive := true
				for p := 0; p < op.Pings && p < 6 && alive; p++ {
					if alive = m.ping(c); alive {
						r.Sleep(c17Us(op.HoldUs))
					}
				}
				if !alive {
					// replaced by a later connection with the same id, or disconnected
					// by the broker's session watch: not a matter of this property
					m.sawClosed(c)
					c.conn.Close()
					r.Probe("mqtt.server_closed_established")
					continue
				}
				if op.End == "linger" {
					c.lingering = true
					lingering = append(lingering, c)
					continue
				}
				m.end(c, op.End)
			}
		})
	}
	if len(sc.MAdmin) > 0 {
		dels := sc.MAdmin
		r.Go("madmin", func() {
			for _, op := range dels {
				if r.Violated() || r.Aborted() {
					return
				}
				if op.ID == "" && !op.Restart {
					continue
				}
				r.Sleep(c17Us(op.GapUs))
				if op.Restart {
					// what MQTTProxy.Inherit does: Close() of the previous generation,
					// then Init: a new broker from the (unchanged) spec on the same port
					m.note("update-proxy")
					r.Fault("mqtt.proxy_update")
					old := m.b
					m.restarting = true
					m.restartSeq = m.next()
					old.close()
					nb := newBroker(spec, store, disc, memberURL)
					if nb == nil {
						r.Violate("C17.harness", "newBroker returned nil after the update")
						return
					}
					m.b = nb
					m.old = append(m.old, old)
					m.restarts++
					m.restartSeq = m.next()
					m.restarting = false
					continue
				}
				// from now on the clients cannot tell any more whether a connection
				// with this id is still counted by the broker
				m.tainted[op.ID] = true
				m.lastDel[op.ID] = r.Now()
				m.delSeq[op.ID] = append(m.delSeq[op.ID], m.next())
				m.note("delete-session %s", op.ID)
				r.Fault("mqtt.session_delete")
				if cl := m.b.clients[op.ID]; cl != nil && !cl.disconnected() {
					r.Probe("mqtt.session_delete_of_connected_id")
				}
				for _, c := range m.conns {
					if c.id == op.ID && c.state == "sent" && !c.gone {
						r.Probe("mqtt.session_delete_while_id_is_connecting")
					}
				}
				body, _ := json.Marshal(HTTPSessions{Sessions: []*HTTPSession{{SessionID: op.ID}}})
				req := httptest.NewRequest(http.MethodDelete, "/mqttproxy/c17/sessions", bytes.NewReader(body))
				m.b.httpDeleteSessionHandler(httptest.NewRecorder(), req)
			}
		})
	}
	r.WaitTasks()

	if !r.Violated() && !r.Aborted() {
		// roll call: every connection that is still open is pinged twice, one
		// round after the other; those that answer both rounds were all served
		// at the instant the roll call began (checked in m.ping)
		answering := 0
		for round := 0; round < 2 && !r.Violated() && !r.Aborted(); round++ {
			answering = 0
			for _, c := range lingering {
				if c.gone {
					continue
				}
				if m.ping(c) {
					answering++
					continue
				}
				if r.Violated() || r.Aborted() {
					break
				}
				m.sawClosed(c)
				c.conn.Close()
				r.Probe("mqtt.server_closed_established")
			}
		}
		if answering > 0 {
			r.Probe("mqtt.rollcall_answered")
		}
	}
	if !r.Violated() && !r.Aborted() {
		for _, c := range lingering {
			if !c.gone {
				m.end(c, "close")
			}
		}
		// a CONNECT of a client that has already gone may still be on its way:
		// let 25 s pass (more rounds than the scheduler has stall decisions)
		// before looking at the broker's table
		for i := 0; i < 25 && !r.Aborted(); i++ {
			r.Sleep(time.Second)
		}
		empty := func() bool { return m.tableSize() == 0 }
		if !c17Settle(r, time.Second, empty) && !r.Violated() && !r.Aborted() {
			left := m.brokerIDs()
			allAborted := true
			for _, id := range left {
				ab := false
				for _, c := range m.conns {
					if c.id == id && c.aborted {
						ab = true
					}
				}
				if !ab {
					allAborted = false
				}
			}
			if allAborted {
				r.Violate("C17.mqtt-slot-leak-aborted-handshake", "every client has gone, but the broker still counts %v as connected (maxAllowedConnection=%d): these clients went away after sending CONNECT and before reading the CONNACK, and their slots are never released\nhistory: %s", left, m.cap, m.history())
			} else {
				r.Violate("C17.mqtt-capacity-not-released", "every client has gone, but the broker still counts %v as connected (maxAllowedConnection=%d)\nhistory: %s", left, m.cap, m.history())
			}
		}
	}
	refused, full := m.sawRefused, m.sawFull
	disc.off = true
	if !r.Violated() && !r.Aborted() {
		// black-box confirmation: exactly cap fresh clients are admitted now
		var fresh []*c17MC
		for i := 0; i <= m.cap; i++ {
			op := c17MOp{ID: fmt.Sprintf("z%d", i)}
			var c *c17MC
			st := ""
			for try := 0; try < 8; try++ {
				before := len(m.conns)
				c = m.connect(n, op, fmt.Sprintf("final%d.%d", i, try))
				st = ""
				if len(m.conns) > before {
					st = m.conns[before].state
				}
				if st != "dropped" || r.Violated() || r.Aborted() {
					break
				}
			}
			if r.Violated() || r.Aborted() {
				break
			}
			if i < m.cap && st != "accepted" {
				r.Violate("C17.mqtt-capacity-not-released", "after every client had gone, fresh client %d of %d was not admitted (%s)\nhistory: %s", i+1, m.cap, st, m.history())
				break
			}
			if i == m.cap && st != "refused" {
				r.Violate("C17.mqtt-over-cap-served", "fresh client number %d was admitted, maxAllowedConnection=%d\nhistory: %s", i+1, m.cap, m.history())
				break
			}
			if c != nil {
				fresh = append(fresh, c)
			}
		}
		for _, c := range fresh {
			m.end(c, "close")
		}
	} else {
		for _, c := range m.conns {
			if !c.gone {
				c.conn.Close()
			}
		}
	}
	r.SetInvariant(nil)
	if r.Violated() || r.Aborted() {
		// connections may still be in their handshake: Broker.close sets the
		// client table to nil and a handleConn arriving afterwards would panic
		// the process (not this property's business), so stop the broker by hand
		m.b.setClose()
		close(m.b.done)
		m.b.listener.Close()
		m.b.sessMgr.close()
	} else {
		m.b.close()
	}

	if refused {
		r.Probe("mqtt.connect_refused_at_cap")
	}
	if full {
		r.Probe("mqtt.broker_reached_cap")
	}
	if m.sawTakeover {
		r.Probe("mqtt.takeover_of_connected_id")
	}
	if m.sawZombiePong {
		r.Probe("mqtt.dropped_connection_answered_one_more_ping")
	}
	if m.sawServedAtCap {
		r.Probe("mqtt.ids_answering_together_eq_cap")
	}
	if disc.ran {
		r.Probe("mqtt.disconnect_pipeline_ran")
	}
	if m.restarts > 0 {
		r.Probe("mqtt.proxy_updated")
	}
	if m.sawStraggler {
		r.Probe("mqtt.connack_of_previous_broker_read_after_update")
	}
	if disc.pub.rejected > 0 {
		r.Probe("mqtt.will_of_departed_client_rejected")
	}
	if disc.pub.passed > 0 {
		r.Probe("mqtt.will_of_departed_client_published")
	}
	if refused {
		r.Nontrivial()
	}
	r.SetSig("mqtt|" + m.sig.String())
}

func c17Exec(r *sim.Run, sci interface{}) {
	sc := sci.(*c17Scenario)
	switch sc.Kind {
	case "http-ll", "http-rt":
		c17ExecHTTP(r, sc)
	case "mqtt":
		c17ExecMQTT(r, sc)
	}
}

func TestVerifC17(t *testing.T) {
	hdrv.Main(t, &hdrv.Harness{
		ID:       "C17",
		Gen:      c17Gen,
		New:      func() interface{} { return &c17Scenario{} },
		Exec:     c17Exec,
		MaxSteps: 60000,
		Rule: "scenario = kind (LimitListener under net/http | whole HTTPServer runtime | MQTT broker) + drawn cap 1-6 + 2-12 client tasks with drawn connection scripts (requests, idle, hold, close/reset/half-close; MQTT: ids from a pool slightly larger than the cap, takeovers with and without CleanSession, pings, lingering connections, clients leaving before CONNACK, last-will messages with a Publish pipeline that passes / drops / disconnects them, 0-4 session deletes through the admin handler, updates of the MQTTProxy (broker closed and restarted on the same port with the same cap) while connections are in their handshake, optional slow Disconnect pipeline; a family aims a session delete at the instant the same id reconnects and lets fresh ids fill the table afterwards; final two-round ping roll call) + 0-4 cap changes (HTTP) + temporary Accept errors (http-ll); " +
			"non-trivial = a client was held back at the cap (HTTP) / a CONNECT was refused with server-unavailable (MQTT); distinct = distinct histories of connect/accept/refuse/close/resize events",
		Real: []string{"pkg/util/limitlistener (LimitListener, limitListenerConn)", "pkg/util/sem (Semaphore.SetMaxCount)", "golang.org/x/sync/semaphore", "net/http.Server",
			"pkg/object/httpserver (HTTPServer.Init/Inherit/Close, runtime fsm, reload, startServer, mux)", "pkg/object/mqttproxy (Broker incl. httpDeleteSessionHandler / watchDelete / deleteSession, Client incl. the Disconnect pipeline hook, SessionManager, Session, TopicManager, mock storage with its delete watch)", "paho packets codec"},
		Stub: []string{"TCP: simnet (listeners, connections, close/reset/half-close, segmentation, latency)", "github.com/megaease/grace (ListenHook hands the runtime a simnet listener)", "quic-go (not used)",
			"sync/atomic of the instrumented files -> simsync/simatomic (same semantics + gates)", "multi-case selects of mqttproxy polled in a recorded order", "HTTP and MQTT clients (harness)", "MQTT Disconnect pipeline: a handler that only passes gates / lets virtual time pass", "MQTT Publish pipeline: a handler that decides by the topic suffix (pass / Drop / Disconnect); the only publishes are last-will messages", "admin API transport: httpDeleteSessionHandler is called with an httptest request"},
		Assumptions: []string{
			"a maxConnections change counts as applied from the first quiescent instant after the call at which open connections (+1 for a slot reserved by the waiting Accept) <= new cap; until then only open <= max(caps configured since the last applied one) is asserted",
			"cap changes are issued by one admin task; server restarts (port / TLS / keep-alive changes) are not generated",
			"a takeover of a connected MQTT client id while the broker is at its cap may be accepted or refused (statement silent); counted by probes",
			"ids used with CleanSession=true or targeted by a session delete are not counted in the client-side CONNACK-based connected set (the broker's session-delete watch may disconnect them at any time); they are covered by the ping evidence",
			"a connection counts as open-and-served at an instant only if, after that instant, it got answers to two successive PINGREQs (a connection just dropped by the broker may still get its one outstanding packet answered); connections of one client id count once",
			"nothing is asserted about how soon a session delete frees its slot; a reconnect killed by a delete event meant for its predecessor is accepted (C16 known finding)",
			"a client leaving before its CONNACK resets the connection (RST); plain close before CONNACK is not generated (simnet fails the peer's next write immediately, TCP does not)",
			"an MQTTProxy update (unchanged spec) may drop every connection begun before it was over, with or without CONNACK; clients admitted or still served by the closed broker count as connected clients of the proxy",
			"a socket closed by the broker without CONNACK is accepted if (and only if) a scheduler stall fell into its handshake (late CONNECT); it never counts as connected",
			"maxAllowedConnection=0 (unlimited), the MQTT connection rate limiter, keep-alive expiry and session-watch interruptions are not generated",
		},
	})
}
