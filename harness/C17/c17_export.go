package httpserver

// Export helper of the C17 verification harness (which lives in package
// mqttproxy): lets it see which spec the unexported runtime of an HTTPServer
// has finished applying. Everything else goes through the exported
// HTTPServer.Init / Inherit / Close.

// VerifC17AppliedSpec returns the spec the runtime's state machine has
// finished reloading last (nil before the first reload has completed).
func VerifC17AppliedSpec(hs *HTTPServer) *Spec {
	if hs == nil || hs.runtime == nil {
		return nil
	}
	return hs.runtime.spec
}

// VerifC17State returns the runtime state ("nil", "running", "failed", "closed").
func VerifC17State(hs *HTTPServer) string {
	if hs == nil || hs.runtime == nil {
		return ""
	}
	return string(hs.runtime.getState())
}
