//go:build go1.21

package mqttproxy

import (
	"encoding/json"
	"fmt"
	"os"
	"runtime/debug"
	"strconv"
	"testing"

	"verif/simkit/sim"
)

func TestVerifC17Debug(t *testing.T) {
	sv := os.Getenv("C17_DEBUG_SEED")
	if sv == "" {
		t.Skip()
	}
	debug.SetGCPercent(-1)
	seed, _ := strconv.ParseUint(sv, 10, 64)
	run := func() *sim.Result {
		sc0 := c17Gen(sim.NewRand(sim.Mix(seed, 1)), "quick")
		b, _ := json.Marshal(sc0)
		sc := &c17Scenario{}
		json.Unmarshal(b, sc)
		return sim.Execute(t, sim.Options{Seed: sim.Mix(seed, 2), MaxSteps: 60000, TraceSteps: true, KeepLog: 100000}, func(r *sim.Run) { c17Exec(r, sc) })
	}
	sc0 := c17Gen(sim.NewRand(sim.Mix(seed, 1)), "quick")
	b, _ := json.Marshal(sc0)
	fmt.Println(string(b))
	replay := func(tape []uint32) *sim.Result {
		sc0 := c17Gen(sim.NewRand(sim.Mix(seed, 1)), "quick")
		b, _ := json.Marshal(sc0)
		sc := &c17Scenario{}
		json.Unmarshal(b, sc)
		return sim.Execute(t, sim.Options{Tape: tape, Replay: true, MaxSteps: 60000, TraceSteps: true, KeepLog: 100000}, func(r *sim.Run) { c17Exec(r, sc) })
	}
	for k := 0; k < 40; k++ {
		a := run()
		c := replay(a.Tape)
		if a.Hash != c.Hash {
			for i := 0; i < len(a.Log) && i < len(c.Log); i++ {
				if a.Log[i] != c.Log[i] {
					lo := i - 40
					if lo < 0 {
						lo = 0
					}
					for j := lo; j < i; j++ {
						fmt.Println("  =", a.Log[j])
					}
					fmt.Println("  A", a.Log[i])
					fmt.Println("  B", c.Log[i])
					return
				}
			}
		}
	}
	fmt.Println("no divergence")
}
