package supervisor

import (
	"fmt"

	"github.com/megaease/easegress/pkg/util/yamltool"
)

// C12Decode is added by the C12 verification harness (it is not part of
// easegress). It builds a Spec from a YAML/JSON text the way NewSpec does
// (meta part, then the kind's DefaultSpec filled from the text) but without
// the two validation passes, which cost more than a whole simulated run. The
// harness uses it for the later generations of a spec whose first generation
// went through the real NewSpec; all texts come from the same renderer.
func C12Decode(yamlConfig string) (spec *Spec, err error) {
	defer func() {
		if r := recover(); r != nil {
			spec, err = nil, fmt.Errorf("%v", r)
		}
	}()
	buff := []byte(yamlConfig)
	meta := &MetaSpec{Version: DefaultSpecVersion}
	yamltool.Unmarshal(buff, meta)
	root, ok := objectRegistry[meta.Kind]
	if !ok {
		return nil, fmt.Errorf("kind %s not found", meta.Kind)
	}
	objectSpec := root.DefaultSpec()
	yamltool.Unmarshal(buff, objectSpec)
	return &Spec{super: globalSuper, meta: meta, objectSpec: objectSpec, yamlConfig: yamlConfig}, nil
}
