//go:debug asynctimerchan=0
//go:build go1.21

package httpserver

// C12 — the route cache is transparent.
//
// Two real muxes are built (newMux + reload) from ONE drawn HTTPServer spec:
// the system under test with cacheSize n in {1,2,3,16} and a twin with
// cacheSize 0. One to four simulated client tasks send request sequences over
// a tiny alphabet of hosts / methods / paths / headers / client IPs through
// ServeHTTP (httptest recorders, recording MuxMapper) under the seeded
// scheduler; handlers of the cached mux can park so that requests overlap.
//
// ORACLE (from the statement): for every request, (status, chosen backend,
// handler-visible path) answered by the cached mux equals the answer of the
// cache-less twin to the same request. The twin is the SAME routing code with
// the cache off, so a plain routing bug (property C01) is never reported here.
//
// CLASSIFIER (DESIGN.md §5.5): a mismatch is labelled with the discriminating
// facts of the scenario, derived from an explanatory model of the documented
// routing order (server filter, rules in order, rule filter, paths in order,
// path/method/headers, path filter) that says WHICH entry decides the
// cache-less answer, and from the exact history of earlier requests:
//
//	C12.header-shadow                 cache-less answer is decided by a header-conditioned path (its route,
//	                                  or the 403 of its filter); cached mux answered with a header-less path / 403
//	C12.cached-status-over-403.<lvl>  cache-less answer 403 by the <lvl>=server|rule filter; cached mux gave 404/405
//	C12.ipfilter-bypass.rule          cache-less answer 403 by the filter of a rule AHEAD of the rule whose route the cached mux served
//	C12.ipfilter-bypass.server|own-rule|path   same, for the route's own chain (not expected on the unchanged tree)
//	C12.key-collision                 no earlier request has the same (host,method,path), but one has the same concatenation
//	C12.other                         anything else
//
// A specific class is only given when an earlier request with the same
// (host,method,path) legitimately received what the cached mux served now
// (the "precedent": only such an answer can sit in a correctly keyed cache);
// everything else is C12.other, so a new defect cannot hide behind a class
// that is recorded as a known finding.
//
// The model is NOT the oracle; it only names the class. It is cross-checked
// against the twin on every request (probe c12.model_disagrees_twin must stay
// 0); on disagreement the class falls back to C12.other.
//
// Order of cache operations: search() contains no gate (only mux.go is
// instrumented; the gate is the atomic load of the instance in ServeHTTP), so
// the lookup/insert of a request and the handler entry (or, for unrouted
// requests, the return of ServeHTTP) form one atomic section; the harness
// stamps the history there, hence "earlier" is exact.
//
// c12_candidate_fix.patch (same directory) is a 30-line change to mux.go with
// which this check finds nothing (kept for the triage decision, not applied).
//
// Near misses: request sequences regularly contain pairs that differ only by
// something a cache key might normalise away while the matcher does not (host
// letter case, port, trailing dot, path trailing slash / letter case,
// percent-encoded path byte, query string, method letter case). Requests carry
// the raw target; the mux gets what net/http's server would hand it
// (url.ParseRequestURI). The twin alone decides what is right; a mismatch
// whose only related history is such a pair is labelled C12.key-collision.
//
// Leniency / not generated: no reload during a run (C11's domain); bodies are
// empty; xForwardedFor off; one of path / pathPrefix / pathRegexp per entry;
// client IP comes from the transport address (no X-Real-Ip / X-Forwarded-For
// spoofing: C05's domain); /.well-known/acme-challenge/ is not requested.

import (
	"encoding/json"
	"fmt"
	"net"
	"net/http"
	"net/http/httptest"
	"net/url"
	"regexp"
	"sort"
	"strings"
	"testing"
	"time"

	"github.com/megaease/easegress/pkg/context"
	"github.com/megaease/easegress/pkg/logger"
	"github.com/megaease/easegress/pkg/protocols/httpprot"
	"github.com/megaease/easegress/pkg/protocols/httpprot/httpstat"
	"github.com/megaease/easegress/pkg/supervisor"
	"verif/simkit/hdrv"
	"verif/simkit/sim"
)

// ---- scenario ----------------------------------------------------------------

type c12IPF struct {
	BlockByDefault bool     `json:"block_by_default"`
	Allow          []string `json:"allow"`
	Block          []string `json:"block"`
}

type c12Hdr struct {
	Key    string   `json:"key"`
	Values []string `json:"values"`
	Regexp string   `json:"regexp,omitempty"`
}

type c12Path struct {
	Path     string   `json:"path,omitempty"`
	Prefix   string   `json:"prefix,omitempty"`
	Regexp   string   `json:"regexp,omitempty"`
	Rewrite  string   `json:"rewrite,omitempty"`
	Methods  []string `json:"methods"`
	Backend  string   `json:"backend"`
	Headers  []c12Hdr `json:"headers"`
	MatchAll bool     `json:"match_all,omitempty"`
	IPF      *c12IPF  `json:"ipf,omitempty"`
}

type c12Rule struct {
	Host       string    `json:"host,omitempty"`
	HostRegexp string    `json:"host_regexp,omitempty"`
	IPF        *c12IPF   `json:"ipf,omitempty"`
	Paths      []c12Path `json:"paths"`
}

type c12KV struct {
	K string `json:"k"`
	V string `json:"v"`
}

type c12Req struct {
	Host   string  `json:"host"`
	Method string  `json:"method"`
	Path   string  `json:"path"`
	Hdr    []c12KV `json:"hdr"`
	IP     string  `json:"ip"`
	GapUs  int64   `json:"gap_us,omitempty"`
	Hold   int     `json:"hold,omitempty"` // gates the handler of the cached mux parks at (request stays in flight)

	// Path is the raw request target as sent on the wire (may carry percent
	// escapes and a query); dec is the decoded path net/http hands to the mux.
	dec string
}

type c12Client struct {
	Reqs []c12Req `json:"reqs"`
}

type c12Scenario struct {
	CacheSize int         `json:"cache_size"`
	IPF       *c12IPF     `json:"ipf,omitempty"`
	Rules     []c12Rule   `json:"rules"`
	Missing   []string    `json:"missing"` // backends the MuxMapper does not know (503)
	Clients   []c12Client `json:"clients"`
}

var (
	c12IPs     = []string{"198.51.100.1", "198.51.100.2", "203.0.113.7", "203.0.113.8"}
	c12IPEnts  = []string{"198.51.100.1", "198.51.100.2", "203.0.113.7", "203.0.113.8", "198.51.100.0/24"}
	c12ReqPath = []string{"/x", "/x/y", "/y", "/xy"}
)

func c12Subset(rng *sim.Rand, from []string, lo, hi int) []string {
	n := rng.Range(lo, hi)
	if n > len(from) {
		n = len(from)
	}
	p := rng.Perm(len(from))[:n]
	sort.Ints(p)
	out := []string{}
	for _, i := range p {
		out = append(out, from[i])
	}
	return out
}

func c12GenIPF(rng *sim.Rand) *c12IPF {
	f := &c12IPF{}
	if rng.Bool(0.35) {
		f.BlockByDefault = true
		f.Allow = c12Subset(rng, c12IPEnts, 1, 3)
		f.Block = c12Subset(rng, c12IPEnts, 0, 1)
	} else {
		f.Block = c12Subset(rng, c12IPEnts, 1, 2)
		f.Allow = c12Subset(rng, c12IPEnts, 0, 1)
	}
	return f
}

func c12GenHeaders(rng *sim.Rand) []c12Hdr {
	opts := []c12Hdr{
		{Key: "X-V", Values: []string{"1"}},
		{Key: "X-V", Values: []string{"1", "2"}},
		{Key: "X-W", Values: []string{}, Regexp: "^a"},
		{Key: "X-W", Values: []string{"b"}, Regexp: "^ab$"},
	}
	n := rng.Pick(1, 1, 2)
	p := rng.Perm(len(opts))[:n]
	out := []c12Hdr{}
	for _, i := range p {
		out = append(out, opts[i])
	}
	return out
}

func c12GenPath(rng *sim.Rand, backend string, pIPF, pHdr float64) c12Path {
	p := c12Path{Backend: backend, Methods: []string{}, Headers: []c12Hdr{}}
	switch rng.Intn(8) {
	case 0, 1:
		p.Path = rng.PickStr("/x", "/y", "/x/y")
		if rng.Bool(0.3) {
			p.Rewrite = "/e" + backend
		}
	case 2, 3:
		p.Prefix = rng.PickStr("/x", "/x", "/")
		if rng.Bool(0.3) {
			p.Rewrite = "/p" + backend
		}
	case 4:
		p.Regexp = "^/x/(.*)$"
		if rng.Bool(0.4) {
			p.Rewrite = "/r" + backend + "/$1"
		}
	case 5:
		p.Regexp = "^/(x|y)$"
		if rng.Bool(0.4) {
			p.Rewrite = "/r" + backend + "/$1"
		}
	default:
		// no path condition: matches every path
	}
	if rng.Bool(0.5) {
		p.Methods = c12Subset(rng, []string{"GET", "POST", "PUT"}, 1, 2)
	}
	if rng.Bool(pHdr) {
		p.Headers = c12GenHeaders(rng)
		p.MatchAll = rng.Bool(0.3)
	}
	if rng.Bool(pIPF) {
		p.IPF = c12GenIPF(rng)
	}
	return p
}

// c12SplitHost splits a Host header value into name and ":port" (or "").
func c12SplitHost(h string) (string, string) {
	if i := strings.LastIndexByte(h, ':'); i >= 0 {
		return h[:i], h[i:]
	}
	return h, ""
}

func c12ToggleCase(s string) string {
	if s != strings.ToLower(s) {
		return strings.ToLower(s)
	}
	return strings.ToUpper(s)
}

// c12NearVariant returns a request line that differs from (host, method,
// target) only by something a cache key might plausibly normalise away: host
// letter case, port, trailing dot, path trailing slash, path letter case,
// percent-encoding of a path byte, query string, method letter case.
func c12NearVariant(rng *sim.Rand, host, method, target string) (string, string, string) {
	for try := 0; try < 6; try++ {
		h, m, t := host, method, target
		name, port := c12SplitHost(h)
		path, query := t, ""
		if i := strings.IndexByte(t, '?'); i >= 0 {
			path, query = t[:i], t[i:]
		}
		switch rng.Pick(0, 0, 0, 1, 1, 2, 3, 3, 4, 4, 5, 5, 6, 7, 7, 8) {
		case 0: // WWW.A.TEST <-> www.a.test
			name = c12ToggleCase(name)
		case 1: // A.test <-> a.test
			if name != "" && name == strings.ToLower(name) {
				name = strings.ToUpper(name[:1]) + name[1:]
			} else {
				name = strings.ToLower(name)
			}
		case 2: // other / no port
			port = rng.PickStr("", ":80", ":8080", ":443")
		case 3: // trailing dot
			if strings.HasSuffix(name, ".") {
				name = strings.TrimSuffix(name, ".")
			} else {
				name += "."
			}
		case 4: // trailing slash
			if len(path) > 1 && strings.HasSuffix(path, "/") {
				path = strings.TrimSuffix(path, "/")
			} else if !strings.HasSuffix(path, "/") {
				path += "/"
			}
		case 5: // path letter case (escapes stay valid)
			path = c12ToggleCase(path)
		case 6: // %78 <-> x
			switch {
			case strings.Contains(path, "%78"):
				path = strings.Replace(path, "%78", "x", 1)
			case strings.Contains(path, "%79"):
				path = strings.Replace(path, "%79", "y", 1)
			case strings.Contains(path, "x"):
				path = strings.Replace(path, "x", "%78", 1)
			case strings.Contains(path, "y"):
				path = strings.Replace(path, "y", "%79", 1)
			}
		case 7: // get <-> GET
			m = c12ToggleCase(m)
		case 8: // query string
			if query == "" {
				query = "?q=1"
			} else {
				query = ""
			}
		}
		h, t = name+port, path+query
		if h != host || m != method || t != target {
			return h, m, t
		}
	}
	return host, method, target
}

func c12Gen(rng *sim.Rand, tier string) interface{} {
	sc := &c12Scenario{Missing: []string{}}
	sc.CacheSize = rng.Pick(1, 1, 2, 3, 16, 16)
	collide := rng.Bool(0.2)
	pIPF := []float64{0, 0.15, 0.3, 0.5}[rng.Intn(4)]
	pHdr := []float64{0, 0.3, 0.5}[rng.Intn(3)]
	if rng.Bool(pIPF) {
		sc.IPF = c12GenIPF(rng)
	}
	nb := 0
	backend := func() string { nb++; return fmt.Sprintf("b%d", nb) }
	nr := rng.Pick(1, 1, 2, 2, 3)
	for i := 0; i < nr; i++ {
		ru := c12Rule{}
		switch rng.Intn(7) {
		case 0, 1:
			ru.Host = "a.test"
		case 2:
			ru.Host = "b.test"
		case 3:
			ru.HostRegexp = `^a\.`
		case 4:
			ru.HostRegexp = `\.test$`
		default:
			// no host condition: matches every host
		}
		if rng.Bool(pIPF) {
			ru.IPF = c12GenIPF(rng)
		}
		np := rng.Range(1, 3)
		for j := 0; j < np; j++ {
			p := c12GenPath(rng, backend(), pIPF, pHdr)
			ru.Paths = append(ru.Paths, p)
			if len(p.Headers) > 0 && rng.Bool(0.6) {
				// the risky shape: the same entry without the header condition right behind it
				q := p
				q.Backend = backend()
				q.Headers = []c12Hdr{}
				q.MatchAll = false
				if q.Rewrite != "" {
					q.Rewrite = strings.Replace(q.Rewrite, p.Backend, q.Backend, 1)
				}
				if rng.Bool(0.3) {
					q.IPF = c12GenIPF(rng)
				} else if rng.Bool(0.5) {
					q.IPF = nil
				}
				ru.Paths = append(ru.Paths, q)
			}
		}
		sc.Rules = append(sc.Rules, ru)
	}
	if rng.Bool(0.1) && nb > 0 {
		sc.Missing = append(sc.Missing, fmt.Sprintf("b%d", rng.Range(1, nb)))
	}

	hosts := []string{"a.test", "a.test", "b.test", "a.test:8080", "c.test"}
	methods := []string{"GET", "GET", "POST", "PUT", "DELETE"}
	if collide {
		hosts = append(hosts, "a.testP", "a.testP")
		methods = append(methods, "OST", "UT", "POST", "PUT")
	}
	var all []c12Req
	drawVar := func(q *c12Req) {
		q.IP = c12IPs[rng.Intn(len(c12IPs))]
		q.Hdr = []c12KV{}
		if rng.Bool(0.5) {
			q.Hdr = append(q.Hdr, c12KV{"X-V", rng.PickStr("1", "1", "2", "3")})
		}
		if rng.Bool(0.35) {
			q.Hdr = append(q.Hdr, c12KV{"X-W", rng.PickStr("a", "ab", "b")})
		}
	}
	nc := rng.Range(1, 4)
	total := rng.Range(4, 28)
	pRepeat := []float64{0.3, 0.6, 0.8}[rng.Intn(3)]
	pHold := []float64{0, 0.2, 0.6}[rng.Intn(3)]
	pNear := []float64{0, 0.15, 0.15, 0.4}[rng.Intn(4)]
	sc.Clients = make([]c12Client, nc)
	for i := 0; i < total; i++ {
		q := c12Req{}
		switch {
		case len(all) > 0 && collide && rng.Bool(0.3):
			// partner of an earlier request whose host+method concatenation coincides
			e := all[rng.Intn(len(all))]
			q.Host, q.Method, q.Path = e.Host, e.Method, e.Path
			switch {
			case e.Host == "a.test" && e.Method == "POST":
				q.Host, q.Method = "a.testP", "OST"
			case e.Host == "a.test" && e.Method == "PUT":
				q.Host, q.Method = "a.testP", "UT"
			case e.Host == "a.testP" && e.Method == "OST":
				q.Host, q.Method = "a.test", "POST"
			case e.Host == "a.testP" && e.Method == "UT":
				q.Host, q.Method = "a.test", "PUT"
			}
		case len(all) > 0 && rng.Bool(pNear):
			// near miss of an earlier request: same after a plausible key normalisation
			e := all[rng.Intn(len(all))]
			q.Host, q.Method, q.Path = c12NearVariant(rng, e.Host, e.Method, e.Path)
			if rng.Bool(0.25) {
				q.Host, q.Method, q.Path = c12NearVariant(rng, q.Host, q.Method, q.Path)
			}
		case len(all) > 0 && rng.Bool(pRepeat):
			e := all[rng.Intn(len(all))]
			q.Host, q.Method, q.Path = e.Host, e.Method, e.Path
		default:
			q.Host = hosts[rng.Intn(len(hosts))]
			q.Method = methods[rng.Intn(len(methods))]
			q.Path = c12ReqPath[rng.Intn(len(c12ReqPath))]
		}
		drawVar(&q)
		q.GapUs = int64(rng.Pick(0, 0, 0, 1, 50, 1000))
		if rng.Bool(pHold) {
			q.Hold = rng.Range(1, 3)
		}
		all = append(all, q)
		c := rng.Intn(nc)
		sc.Clients[c].Reqs = append(sc.Clients[c].Reqs, q)
	}
	return sc
}

// c12Shrink proposes simplifications the generic array deletion cannot do.
func c12Shrink(sci interface{}) []interface{} {
	sc := sci.(*c12Scenario)
	var out []interface{}
	variant := func(f func(c *c12Scenario) bool) {
		b, _ := json.Marshal(sc)
		c := &c12Scenario{}
		if json.Unmarshal(b, c) != nil {
			return
		}
		if f(c) {
			out = append(out, c)
		}
	}
	variant(func(c *c12Scenario) bool { ok := c.IPF != nil; c.IPF = nil; return ok })
	for i := range sc.Rules {
		i := i
		variant(func(c *c12Scenario) bool { ok := c.Rules[i].IPF != nil; c.Rules[i].IPF = nil; return ok })
		variant(func(c *c12Scenario) bool {
			ok := c.Rules[i].HostRegexp != ""
			c.Rules[i].HostRegexp = ""
			return ok
		})
		variant(func(c *c12Scenario) bool { ok := c.Rules[i].Host != ""; c.Rules[i].Host = ""; return ok })
		for j := range sc.Rules[i].Paths {
			j := j
			variant(func(c *c12Scenario) bool {
				p := &c.Rules[i].Paths[j]
				ok := p.IPF != nil
				p.IPF = nil
				return ok
			})
			variant(func(c *c12Scenario) bool {
				p := &c.Rules[i].Paths[j]
				ok := p.Rewrite != ""
				p.Rewrite = ""
				return ok
			})
			variant(func(c *c12Scenario) bool {
				p := &c.Rules[i].Paths[j]
				ok := p.MatchAll
				p.MatchAll = false
				return ok
			})
			variant(func(c *c12Scenario) bool {
				p := &c.Rules[i].Paths[j]
				ok := p.Rewrite == "" && (p.Path != "" || p.Prefix != "" || p.Regexp != "")
				p.Path, p.Prefix, p.Regexp = "", "", ""
				return ok
			})
		}
	}
	variant(func(c *c12Scenario) bool {
		ok := false
		for i := range c.Clients {
			for j := range c.Clients[i].Reqs {
				q := &c.Clients[i].Reqs[j]
				if q.Hold != 0 || q.GapUs != 0 {
					ok = true
				}
				q.Hold, q.GapUs = 0, 0
			}
		}
		return ok
	})
	variant(func(c *c12Scenario) bool { ok := c.CacheSize != 16; c.CacheSize = 16; return ok })
	return out
}

// ---- building the real spec ----------------------------------------------------

func c12IPFMap(f *c12IPF) map[string]interface{} {
	m := map[string]interface{}{"blockByDefault": f.BlockByDefault}
	if len(f.Allow) > 0 {
		m["allowIPs"] = f.Allow
	}
	if len(f.Block) > 0 {
		m["blockIPs"] = f.Block
	}
	return m
}

// c12SpecText renders the scenario as an HTTPServer spec (JSON, which is YAML).
func c12SpecText(sc *c12Scenario, cacheSize int) string {
	m := map[string]interface{}{"kind": "HTTPServer", "name": "c12", "port": 10080, "keepAlive": true, "https": false, "cacheSize": cacheSize}
	if sc.IPF != nil {
		m["ipFilter"] = c12IPFMap(sc.IPF)
	}
	rules := []interface{}{}
	for _, ru := range sc.Rules {
		rm := map[string]interface{}{}
		if ru.Host != "" {
			rm["host"] = ru.Host
		}
		if ru.HostRegexp != "" {
			rm["hostRegexp"] = ru.HostRegexp
		}
		if ru.IPF != nil {
			rm["ipFilter"] = c12IPFMap(ru.IPF)
		}
		paths := []interface{}{}
		for _, p := range ru.Paths {
			pm := map[string]interface{}{"backend": p.Backend}
			if p.Path != "" {
				pm["path"] = p.Path
			}
			if p.Prefix != "" {
				pm["pathPrefix"] = p.Prefix
			}
			if p.Regexp != "" {
				pm["pathRegexp"] = p.Regexp
			}
			if p.Rewrite != "" {
				pm["rewriteTarget"] = p.Rewrite
			}
			if len(p.Methods) > 0 {
				pm["methods"] = p.Methods
			}
			if len(p.Headers) > 0 {
				hs := []interface{}{}
				for _, h := range p.Headers {
					hm := map[string]interface{}{"key": h.Key}
					if len(h.Values) > 0 {
						hm["values"] = h.Values
					}
					if h.Regexp != "" {
						hm["regexp"] = h.Regexp
					}
					hs = append(hs, hm)
				}
				pm["headers"] = hs
				if p.MatchAll {
					pm["matchAllHeader"] = true
				}
			}
			if p.IPF != nil {
				pm["ipFilter"] = c12IPFMap(p.IPF)
			}
			paths = append(paths, pm)
		}
		rm["paths"] = paths
		rules = append(rules, rm)
	}
	m["rules"] = rules
	b, _ := json.Marshal(m)
	return string(b)
}

// c12Valid rejects scenarios (only shrunk ones can be such) whose spec the
// documented constraints forbid or in which backends are no longer unique.
func c12Valid(sc *c12Scenario) bool {
	seen := map[string]bool{}
	for _, ru := range sc.Rules {
		if ru.HostRegexp != "" {
			if _, err := regexp.Compile(ru.HostRegexp); err != nil {
				return false
			}
		}
		for _, p := range ru.Paths {
			if p.Backend == "" || seen[p.Backend] {
				return false
			}
			seen[p.Backend] = true
			if p.Rewrite != "" && p.Path == "" && p.Prefix == "" && p.Regexp == "" {
				return false
			}
			if p.Regexp != "" {
				if _, err := regexp.Compile(p.Regexp); err != nil {
					return false
				}
			}
			for _, h := range p.Headers {
				if h.Key == "" || (len(h.Values) == 0 && h.Regexp == "") {
					return false
				}
				if _, err := regexp.Compile(h.Regexp); err != nil {
					return false
				}
			}
		}
	}
	return true
}

// ---- explanatory model (classifier only) ----------------------------------------

func c12IPFAllows(f *c12IPF, ip string) bool {
	if f == nil {
		return true
	}
	in := func(list []string) bool {
		x := net.ParseIP(ip)
		for _, e := range list {
			if strings.Contains(e, "/") {
				if _, n, err := net.ParseCIDR(e); err == nil && x != nil && n.Contains(x) {
					return true
				}
			} else if e == ip {
				return true
			}
		}
		return false
	}
	a, b := in(f.Allow), in(f.Block)
	switch {
	case a && !b:
		return true
	case b && !a:
		return false
	}
	return !f.BlockByDefault
}

func c12HostMatches(ru *c12Rule, host string) bool {
	if ru.Host == "" && ru.HostRegexp == "" {
		return true
	}
	if h, _, err := net.SplitHostPort(host); err == nil {
		host = h
	}
	if ru.Host != "" && ru.Host == host {
		return true
	}
	if ru.HostRegexp != "" {
		if re, err := regexp.Compile(ru.HostRegexp); err == nil && re.MatchString(host) {
			return true
		}
	}
	return false
}

func c12PathMatches(p *c12Path, path string) bool {
	switch {
	case p.Path == "" && p.Prefix == "" && p.Regexp == "":
		return true
	case p.Path != "" && p.Path == path:
		return true
	case p.Prefix != "" && strings.HasPrefix(path, p.Prefix):
		return true
	case p.Regexp != "":
		re, err := regexp.Compile(p.Regexp)
		return err == nil && re.MatchString(path)
	}
	return false
}

func c12MethodMatches(p *c12Path, m string) bool {
	if len(p.Methods) == 0 {
		return true
	}
	for _, x := range p.Methods {
		if x == m {
			return true
		}
	}
	return false
}

func c12HdrGet(q *c12Req, key string) string {
	for _, kv := range q.Hdr {
		if kv.K == key {
			return kv.V
		}
	}
	return ""
}

func c12HeadersMatch(p *c12Path, q *c12Req) bool {
	one := func(h *c12Hdr, all bool) bool {
		v := c12HdrGet(q, h.Key)
		inVals := false
		for _, x := range h.Values {
			if x == v {
				inVals = true
			}
		}
		reOK := false
		if h.Regexp != "" {
			if re, err := regexp.Compile(h.Regexp); err == nil {
				reOK = re.MatchString(v)
			}
		}
		if all {
			return (len(h.Values) == 0 || inVals) && (h.Regexp == "" || reOK)
		}
		return inVals || reOK
	}
	if p.MatchAll {
		for i := range p.Headers {
			if !one(&p.Headers[i], true) {
				return false
			}
		}
		return true
	}
	for i := range p.Headers {
		if one(&p.Headers[i], false) {
			return true
		}
	}
	return false
}

// c12Why says which entry of the spec decides the answer to a request.
type c12Why struct {
	Status    int    // 0 = routed
	Backend   string // routed-to path's backend
	Level     string // for 403: server | rule | path
	Rule      int    // deciding rule (403 by rule/path, or route)
	ViaHeader bool   // the deciding path is header-conditioned
}

func c12Model(sc *c12Scenario, q *c12Req) c12Why {
	if !c12IPFAllows(sc.IPF, q.IP) {
		return c12Why{Status: 403, Level: "server", Rule: -1}
	}
	hdrMis, methMis := false, false
	for i := range sc.Rules {
		ru := &sc.Rules[i]
		if !c12HostMatches(ru, q.Host) {
			continue
		}
		if !c12IPFAllows(ru.IPF, q.IP) {
			return c12Why{Status: 403, Level: "rule", Rule: i}
		}
		for j := range ru.Paths {
			p := &ru.Paths[j]
			if !c12PathMatches(p, q.dec) {
				continue
			}
			if !c12MethodMatches(p, q.Method) {
				methMis = true
				continue
			}
			if len(p.Headers) > 0 && !c12HeadersMatch(p, q) {
				hdrMis = true
				continue
			}
			if !c12IPFAllows(p.IPF, q.IP) {
				return c12Why{Status: 403, Level: "path", Rule: i, Backend: p.Backend, ViaHeader: len(p.Headers) > 0}
			}
			return c12Why{Backend: p.Backend, Rule: i, ViaHeader: len(p.Headers) > 0}
		}
	}
	switch {
	case hdrMis:
		return c12Why{Status: 400, Rule: -1}
	case methMis:
		return c12Why{Status: 405, Rule: -1}
	}
	return c12Why{Status: 404, Rule: -1}
}

// ---- executor -------------------------------------------------------------------

type c12Out struct {
	Status  int
	Backend string
	Path    string
}

func (o c12Out) String() string {
	if o.Backend != "" {
		return fmt.Sprintf("%d/%s%s", o.Status, o.Backend, o.Path)
	}
	return fmt.Sprintf("%d", o.Status)
}

func c12OutOf(rec *httptest.ResponseRecorder) c12Out {
	return c12Out{Status: rec.Code, Backend: rec.Header().Get("X-C12-Backend"), Path: rec.Header().Get("X-C12-Path")}
}

type c12Mapper struct {
	missing  map[string]bool
	handlers map[string]*c12Handler
	onHandle func(id string, hold bool)
}

type c12Handler struct {
	name string
	m    *c12Mapper
}

func (m *c12Mapper) GetHandler(name string) (context.Handler, bool) {
	if m.missing[name] {
		return nil, false
	}
	h := m.handlers[name]
	if h == nil {
		h = &c12Handler{name: name, m: m}
		m.handlers[name] = h
	}
	return h, true
}

func (h *c12Handler) Handle(ctx *context.Context) string {
	req, _ := ctx.GetRequest(context.DefaultNamespace).(*httpprot.Request)
	resp, _ := httpprot.NewResponse(nil)
	resp.SetStatusCode(http.StatusOK)
	resp.HTTPHeader().Set("X-C12-Backend", h.name)
	id := ""
	if req != nil {
		resp.HTTPHeader().Set("X-C12-Path", req.Path())
		id = req.HTTPHeader().Get("X-C12-Id")
	}
	ctx.SetResponse(context.DefaultNamespace, resp)
	if h.m.onHandle != nil {
		h.m.onHandle(id, true)
	}
	return ""
}

func c12HTTPReq(q *c12Req, id string) *http.Request {
	h := http.Header{}
	for _, kv := range q.Hdr {
		if kv.K != "" {
			h.Add(kv.K, kv.V)
		}
	}
	h.Set("X-C12-Id", id)
	u, err := url.ParseRequestURI(q.Path) // what net/http's server does with the request target
	if err != nil {
		u = &url.URL{Path: q.Path}
	}
	return &http.Request{Method: q.Method, URL: u, Host: q.Host, Header: h, RemoteAddr: q.IP + ":40000",
		Body: http.NoBody, Proto: "HTTP/1.1", ProtoMajor: 1, ProtoMinor: 1, RequestURI: q.Path}
}

func (q *c12Req) String() string {
	var hs []string
	for _, kv := range q.Hdr {
		hs = append(hs, kv.K+"="+kv.V)
	}
	return fmt.Sprintf("%s %s%s [%s] from %s", q.Method, q.Host, q.Path, strings.Join(hs, ","), q.IP)
}

// c12Same: the mux legitimately sees the same (host, method, decoded path).
func c12Same(p, q *c12Req) bool { return p.Host == q.Host && p.Method == q.Method && p.dec == q.dec }

// c12NormKey is the request line after every normalisation a cache key might
// plausibly (and wrongly) apply.
func c12NormKey(q *c12Req) string {
	name, _ := c12SplitHost(q.Host)
	name = strings.ToLower(strings.TrimSuffix(name, "."))
	path := strings.ToLower(q.dec)
	if len(path) > 1 {
		path = strings.TrimSuffix(path, "/")
	}
	return name + " " + strings.ToUpper(q.Method) + " " + path
}

// c12Alias: different request lines that coincide by plain concatenation or
// after normalisation - candidates for sharing a wrongly built cache key.
func c12Alias(p, q *c12Req) bool {
	return !c12Same(p, q) && (p.Host+p.Method+p.dec == q.Host+q.Method+q.dec || c12NormKey(p) == c12NormKey(q))
}

type c12Hist struct {
	id  string
	q   *c12Req
	exp c12Out
	why c12Why
}

type c12Flight struct {
	q     *c12Req
	exp   c12Out
	why   c12Why
	prior int // number of history entries whose search ran before this request's search
	done  bool
	hold  int
}

var c12CodePath = map[string]string{
	"C12.header-shadow": "mux.go search(): an earlier request WITHOUT the matching headers skipped the header-conditioned path (matchHeaders false -> continue, l.581-584), reached the later header-less path and putRouteToCache stored that route under host+method+path (l.578-580); this request satisfies the headers, but the cache-hit branch (l.540-552) returns the stored route before any path/header matching is done",
	"C12.cached-status-over-403": "mux.go search(): an allowed client's miss cached methodNotAllowed/notFound (l.598-604); the cache-hit branch returns a cached status code at once (l.541-544) without consulting the server filter (l.554) or the rule filters (l.563), which exist only on the miss path",
	"C12.ipfilter-bypass": "mux.go search(): on a hit only r.path.ipFilterChain is consulted (l.545-551) = server + the route's own rule + the path; on a miss EVERY host-matching rule visited before the route answers 403 if its own filter denies (l.559-565)",
	"C12.key-collision": "mux.go getRouteFromCache/putRouteToCache (l.149, l.159): key = stringtool.Cat(host, method, path) without separators, so two different (host, method, path) triples share one entry",
	"C12.other":         "cache-hit/miss handling in mux.go search() (l.532-605) / key construction (l.147-162)",
}

func c12PathCodeKey(class string) string {
	for _, k := range []string{"C12.header-shadow", "C12.cached-status-over-403", "C12.ipfilter-bypass", "C12.key-collision"} {
		if strings.HasPrefix(class, k) {
			return k
		}
	}
	return "C12.other"
}

// c12Classify names the class of a mismatch from the discriminating facts: which
// entry decides the cache-less answer (model), and which earlier request with
// the same (host,method,path) legitimately received what the cached mux now
// served ("precedent": only such an answer can sit in a cache filled by
// earlier lookups). A mismatch without precedent is never given one of the
// specific classes.
func c12Classify(sc *c12Scenario, missing map[string]bool, q *c12Req, exp, got c12Out, why c12Why, modelOK bool, prior []c12Hist) (string, string) {
	sameTriple, sameKey := 0, 0
	var partner *c12Hist
	type ent struct {
		rule   int
		cond   bool
		exists bool
	}
	byBackend := map[string]ent{}
	for i := range sc.Rules {
		for _, p := range sc.Rules[i].Paths {
			byBackend[p.Backend] = ent{i, len(p.Headers) > 0, true}
		}
	}
	// header-less routes / final status codes handed to earlier same-triple requests
	precRoute := map[string]*c12Hist{}
	precStatus := map[int]*c12Hist{}
	for i := range prior {
		h := &prior[i]
		p := h.q
		switch {
		case c12Same(p, q):
			sameTriple++
			w := h.why
			if w.Backend != "" && !w.ViaHeader && (w.Status == 0 || (w.Status == 403 && w.Level == "path")) {
				precRoute[w.Backend] = h
			}
			if h.exp.Backend == "" && (h.exp.Status == 404 || h.exp.Status == 405) {
				precStatus[h.exp.Status] = h
			}
		case c12Alias(p, q):
			sameKey++
			partner = h
		}
	}
	// the precedent for what the cached mux served, if any
	var prec *c12Hist
	precRule := -1
	switch {
	case got.Backend != "":
		prec = precRoute[got.Backend]
		precRule = byBackend[got.Backend].rule
	case got.Status == 503:
		for b, h := range precRoute {
			if missing[b] && (prec == nil || h.id < prec.id) {
				prec, precRule = h, byBackend[b].rule
			}
		}
	case got.Status == 403:
		for _, h := range precRoute {
			if prec == nil || h.id < prec.id {
				prec = h
			}
		}
	case got.Status == 404 || got.Status == 405:
		prec = precStatus[got.Status]
	}
	specific, expected, facts := "", false, ""
	if modelOK && prec != nil {
		precTxt := fmt.Sprintf("precedent: earlier request {%v} was answered %v without the cache", prec.q, prec.exp)
		switch {
		case why.ViaHeader && (why.Status == 0 || why.Status == 403) && (got.Backend != "" || got.Status == 403 || got.Status == 503):
			specific, expected = "C12.header-shadow", true
			facts = fmt.Sprintf("cache-less answer decided by header-conditioned path %s; cached mux answered %v; %s", why.Backend, got, precTxt)
		case exp.Status == 403 && (got.Status == 404 || got.Status == 405) && why.Level != "path":
			specific, expected = "C12.cached-status-over-403."+why.Level, true
			facts = fmt.Sprintf("denied by the %s-level filter (rule index %d) without the cache; cached %d served; %s", why.Level, why.Rule, got.Status, precTxt)
		case exp.Status == 403 && (got.Backend != "" || got.Status == 503):
			switch {
			case why.Level == "server":
				specific = "C12.ipfilter-bypass.server"
			case why.Level == "rule" && precRule > why.Rule:
				specific, expected = "C12.ipfilter-bypass.rule", true
			case why.Level == "rule":
				specific = "C12.ipfilter-bypass.own-rule"
			default:
				specific = "C12.ipfilter-bypass.path"
			}
			facts = fmt.Sprintf("denied by the %s-level filter (rule index %d) without the cache; the cached route lives in rule index %d; %s", why.Level, why.Rule, precRule, precTxt)
		}
	}
	collFacts := ""
	if partner != nil {
		collFacts = fmt.Sprintf("earlier request {%v} has a different (host,method,path) but the same concatenation or the same line after normalisation of case/port/trailing dot/trailing slash (%q); no-cache answer to it was %v",
			partner.q, c12NormKey(q), partner.exp)
	}
	switch {
	case sameKey > 0 && sameTriple == 0:
		return "C12.key-collision", collFacts
	case specific != "" && expected:
		return specific, facts
	case sameKey > 0:
		return "C12.key-collision", collFacts + " (an earlier request with the same triple exists too)"
	case specific != "":
		return specific, facts
	}
	if !modelOK {
		return "C12.other", "explanatory model disagrees with the cache-less twin: not classified"
	}
	return "C12.other", fmt.Sprintf("earlier requests with the same (host,method,path): %d; none of them legitimately received what the cached mux served, or the pattern is none of the known ones", sameTriple)
}

func c12Exec(r *sim.Run, sci interface{}) {
	sc := sci.(*c12Scenario)
	r.MultiClass = true
	nreq := 0
	for _, c := range sc.Clients {
		nreq += len(c.Reqs)
	}
	if sc.CacheSize <= 0 || nreq == 0 || !c12Valid(sc) {
		return
	}
	// One validated spec object serves both muxes: reload() reads cacheSize
	// only while it builds the instance, so the twin is reloaded with the
	// field at 0 and the system under test with the drawn size (NewSpec costs
	// more than the whole rest of a run; the white-box probe below checks that
	// exactly one of the two instances owns a cache).
	superSpec, err := supervisor.NewSpec(c12SpecText(sc, sc.CacheSize))
	if err != nil || superSpec == nil {
		r.Probe("c12.spec_rejected")
		return
	}
	objSpec, ok := superSpec.ObjectSpec().(*Spec)
	if !ok {
		return
	}
	missing := map[string]bool{}
	for _, b := range sc.Missing {
		missing[b] = true
	}
	mapC := &c12Mapper{missing: missing, handlers: map[string]*c12Handler{}}
	mapT := &c12Mapper{missing: missing, handlers: map[string]*c12Handler{}}
	objSpec.CacheSize = 0
	mT := newMux(httpstat.New(), httpstat.NewTopN(10), mapT)
	mT.reload(superSpec, mapT)
	objSpec.CacheSize = uint32(sc.CacheSize)
	mC := newMux(httpstat.New(), httpstat.NewTopN(10), mapC)
	mC.reload(superSpec, mapC)
	instC := mC.inst.Load().(*muxInstance)
	if instC.cache == nil || mT.inst.Load().(*muxInstance).cache != nil {
		r.Probe("c12.cache_not_as_configured")
	} else {
		r.Probe("c12.cache_on_in_sut_off_in_twin")
	}

	var hist []c12Hist
	flights := map[string]*c12Flight{}
	inflight, maxInflight := 0, 0
	reported := map[string]bool{}
	var sig strings.Builder
	potentialHit, variedHit, mismatches := 0, 0, 0

	stamp := func(id string) *c12Flight {
		f := flights[id]
		if f == nil || f.done {
			return f
		}
		f.done = true
		f.prior = len(hist)
		hist = append(hist, c12Hist{id: id, q: f.q, exp: f.exp, why: f.why})
		return f
	}
	mapC.onHandle = func(id string, _ bool) {
		// no gate lies between the cache lookup of search() and this point:
		// the order of these stamps is the order of the cache operations
		f := stamp(id)
		if f == nil {
			return
		}
		for i := 0; i < f.hold && !r.Aborted(); i++ {
			r.Yield("c12.handler")
		}
	}

	specJSON := c12SpecText(sc, sc.CacheSize)
	for ci := range sc.Clients {
		ci := ci
		reqs := sc.Clients[ci].Reqs
		r.Go(fmt.Sprintf("client%d", ci), func() {
			for qi := range reqs {
				if r.Aborted() {
					return
				}
				q := &reqs[qi]
				if q.Host == "" || q.Method == "" || q.Path == "" || q.IP == "" {
					continue
				}
				q.dec = q.Path
				if u, err := url.ParseRequestURI(q.Path); err == nil {
					q.dec = u.Path
				}
				if strings.HasPrefix(q.dec, "/.well-known/") {
					continue
				}
				r.Sleep(time.Duration(q.GapUs) * time.Microsecond)
				id := fmt.Sprintf("c%d.%d", ci, qi)

				// the cache-less twin and the explanatory model
				recT := httptest.NewRecorder()
				mT.ServeHTTP(recT, c12HTTPReq(q, id))
				exp := c12OutOf(recT)
				why := c12Model(sc, q)
				modelOK := true
				switch {
				case why.Status == 0 && missing[why.Backend]:
					modelOK = exp.Status == 503 && exp.Backend == ""
				case why.Status == 0:
					modelOK = exp.Status == 200 && exp.Backend == why.Backend
				default:
					modelOK = exp.Status == why.Status && exp.Backend == ""
				}
				if !modelOK {
					r.Probe("c12.model_disagrees_twin")
				}

				// the cached mux
				hold := q.Hold
				if hold < 0 || hold > 8 {
					hold = 0
				}
				flights[id] = &c12Flight{q: q, exp: exp, why: why, hold: hold}
				inflight++
				if inflight > maxInflight {
					maxInflight = inflight
				}
				recC := httptest.NewRecorder()
				mC.ServeHTTP(recC, c12HTTPReq(q, id))
				f := stamp(id) // not routed to a handler: still the same atomic section as its search
				inflight--
				got := c12OutOf(recC)
				prior := hist[:f.prior]

				// probes
				same, varied, coll, near, nearDiff := false, false, false, false, false
				for i := range prior {
					p := prior[i].q
					if c12Same(p, q) {
						same = true
						if p.IP != q.IP || fmt.Sprint(p.Hdr) != fmt.Sprint(q.Hdr) {
							varied = true
						}
					} else if c12Alias(p, q) {
						if p.Host+p.Method+p.dec == q.Host+q.Method+q.dec {
							coll = true
						} else {
							near = true
							if prior[i].exp != exp {
								nearDiff = true
							}
						}
					}
				}
				if same {
					potentialHit++
					r.Probe("c12.repeat_of_earlier_triple")
				}
				if varied {
					variedHit++
					r.Probe("c12.repeat_with_other_headers_or_ip")
				}
				if coll {
					r.Probe("c12.colliding_concatenation_in_history")
				}
				if near {
					r.Probe("c12.near_variant_in_history")
				}
				if nearDiff {
					r.Probe("c12.near_variant_with_other_nocache_answer")
				}
				r.Probe(fmt.Sprintf("c12.nocache_status_%d", exp.Status))
				if exp.Status == 403 {
					r.Probe("c12.nocache_403_by_" + why.Level)
				}
				if why.ViaHeader {
					r.Probe("c12.decided_by_header_conditioned_path")
				}
				if exp.Backend != "" && exp.Path != q.dec {
					r.Probe("c12.path_rewritten")
				}
				if instC.cache != nil && instC.cache.Len() >= sc.CacheSize && len(hist) > sc.CacheSize {
					r.Probe("c12.cache_full")
				}

				r.Eventf("%s %v -> nocache=%v cached=%v", id, q, exp, got)
				fmt.Fprintf(&sig, "%s%s%s>%v/%v;", q.Host, q.Method, q.Path, exp, got)
				if got == exp {
					continue
				}
				mismatches++
				class, facts := c12Classify(sc, missing, q, exp, got, why, modelOK, prior)
				r.Probe("c12.mismatch." + class)
				if reported[class] {
					continue
				}
				reported[class] = true
				var hs []string
				for i := range prior {
					p := prior[i]
					if c12Same(p.q, q) || c12Alias(p.q, q) {
						hs = append(hs, fmt.Sprintf("{%v => nocache %v}", p.q, p.exp))
					}
				}
				if len(hs) > 6 {
					hs = hs[len(hs)-6:]
				}
				r.Violate(class, "request {%v}: mux with cacheSize=%d answered %v, the same mux with cacheSize=0 answers %v\nfacts: %s\nearlier requests sharing the cache key (in cache order): %s\ncode path: %s\nspec: %s",
					q, sc.CacheSize, got, exp, facts, strings.Join(hs, " "), c12CodePath[c12PathCodeKey(class)], specJSON)
			}
		})
	}
	r.WaitTasks()
	if maxInflight >= 2 {
		r.Probe("c12.requests_overlap_in_cached_mux")
	}
	if mismatches == 0 && potentialHit > 0 {
		r.Probe("c12.run_with_repeats_and_no_mismatch")
	}
	if variedHit > 0 {
		r.Nontrivial()
	}
	r.SetSig(fmt.Sprintf("%d|%s|%s", sc.CacheSize, specJSON, sig.String()))
}

func TestVerifC12(t *testing.T) {
	logger.InitNop()
	hdrv.Main(t, &hdrv.Harness{
		ID:       "C12",
		Gen:      c12Gen,
		New:      func() interface{} { return &c12Scenario{} },
		Exec:     c12Exec,
		Shrink:   c12Shrink,
		MaxSteps: 20000,
		Rule: "scenario = drawn HTTPServer spec (1-3 rules, host/hostRegexp/any, exact/prefix/regexp/any paths, method lists, header-conditioned entries often followed by their header-less copy, " +
			"IP filters at server/rule/path level, rewrites, unknown backends) x cacheSize in {1,2,3,16} x 1-4 client tasks sending 4-28 requests over a small alphabet with repeats of earlier (host,method,path) under other headers/IPs " +
			"and, in a fifth of the runs, host+method pairs whose concatenations coincide, and (in 3 of 4 runs) near-miss variants of earlier requests (host case/port/trailing dot, path slash/case/percent-escape/query, method case); every request is also put to a cacheSize=0 twin of the same spec; " +
			"non-trivial = at least one request repeated the (host,method,path) of an earlier one with other headers or another client IP (the cache can matter); distinct = distinct (spec, ordered request/answer history)",
		Real: []string{"pkg/object/httpserver mux (newMux, reload, ServeHTTP, search, route cache on hashicorp ARC)", "pkg/util/ipfilter", "pkg/protocols/httpprot request/response", "pkg/context", "supervisor.NewSpec validation of the generated spec"},
		Stub: []string{"MuxMapper and backend handlers (harness: record backend and handler-visible path)", "clients (harness tasks with httptest recorders, no sockets)", "sync/atomic of mux.go -> simatomic (same semantics + gates)"},
		Assumptions: []string{
			"both muxes are reloaded from one validated spec object, the twin while its cacheSize field is 0 (reload reads the field only then); a probe checks that exactly the system under test owns a cache",
			"oracle = the same routing code with cacheSize 0 (a routing bug that is independent of the cache is property C01's business and is not reported here)",
			"search() contains no gate, so cache operations of concurrent requests are serialised in the order the harness records; overlap exists only around the handler call",
			"client IP is the transport address; no reload, no request bodies, xForwardedFor off, one path condition per entry",
			"the explanatory routing model is used only to name the violation class and is cross-checked against the twin on every request",
		},
	})
}
