//go:debug asynctimerchan=0
//go:build go1.21

package httpserver

// C12 — the route cache is transparent.
//
// Two real muxes are built (newMux + reload) from ONE drawn HTTPServer spec:
// the system under test with cacheSize n in {1,2,3,16} and a twin with
// cacheSize 0 (both are hot-reloaded together, see HOT RELOADS below). One to
// four simulated client tasks send request sequences over a tiny alphabet of
// hosts / methods / paths / headers / client IPs / body lengths through
// ServeHTTP (httptest recorders, recording MuxMapper) under the seeded
// scheduler; handlers of the cached mux can park so that requests overlap.
//
// ORACLE (from the statement): for every request, (status, chosen backend,
// handler-visible path) answered by the cached mux equals the answer of the
// cache-less twin to the same request. The twin is the SAME routing code with
// the cache off, so a plain routing bug (property C01) is never reported here.
//
// CLASSIFIER (DESIGN.md §5.5): a mismatch is labelled with the discriminating
// facts of the scenario, derived from an explanatory model of the documented
// routing order (server filter, rules in order, rule filter, paths in order,
// path/method/headers, path filter) that says WHICH entry decides the
// cache-less answer, and from the exact history of earlier requests:
//
//	C12.header-shadow                 cache-less answer is decided by a header-conditioned path (its route,
//	                                  or the 403 of its filter); cached mux answered with a header-less path / 403
//	C12.cached-status-over-403.<lvl>  cache-less answer 403 by the <lvl>=server|rule filter; cached mux gave 404/405
//	C12.ipfilter-bypass.rule          cache-less answer 403 by the filter of a rule AHEAD of the rule whose route the cached mux served
//	C12.ipfilter-bypass.server|own-rule|path   same, for the route's own chain (not expected on the unchanged tree)
//	C12.key-collision                 no earlier request has the same (host,method,path), but one has the same concatenation
//	C12.other                         anything else
//
// A specific class is only given when an earlier request with the same
// (host,method,path) legitimately received what the cached mux served now
// (the "precedent": only such an answer can sit in a correctly keyed cache);
// everything else is C12.other, so a new defect cannot hide behind a class
// that is recorded as a known finding.
//
// The model is NOT the oracle; it only names the class. It is cross-checked
// against the twin on every request (probe c12.model_disagrees_twin must stay
// 0); on disagreement the class falls back to C12.other.
//
// Order of cache operations: search() contains no gate (only mux.go is
// instrumented; the gate is the atomic load of the instance in ServeHTTP), so
// the lookup/insert of a request and the handler entry (or, for unrouted
// requests, the return of ServeHTTP) form one atomic section; the harness
// stamps the history there, hence "earlier" is exact (in the quarter of the
// runs with statement gates inside mux.go it is only approximate; the order
// serves the classifier, never the oracle).
//
// c12_candidate_fix.patch (same directory) is a 30-line change to mux.go with
// which this check finds nothing (kept for the triage decision, not applied).
//
// Near misses: request sequences regularly contain pairs that differ only by
// something a cache key might normalise away while the matcher does not (host
// letter case, port, trailing dot, path trailing slash / letter case,
// percent-encoded path byte, query string, method letter case). Requests carry
// the raw target; the mux gets what net/http's server would hand it
// (url.ParseRequestURI). The twin alone decides what is right; a mismatch
// whose only related history is such a pair is labelled C12.key-collision.
//
// HOT RELOADS (added): a run is a sequence of phases. Between two phases (no
// request in flight: "quiescent") and/or while the clients of a phase are
// running ("live", done by a reloader task) BOTH muxes are reloaded with the
// same new spec: first the cache-less twin, then the cached mux. The new spec
// is the previous one after edits (server / rule / path ipFilter added,
// removed or replaced; backend, rewrite, methods, header conditions, host
// condition of an entry changed; entries or rules swapped, inserted, deleted;
// path- or server-level clientMaxBodySize changed), an identical spec, a spec
// in which only server-level fields differ (rules deep-equal), or a freshly
// drawn rule set; cacheSize stays the same (in one reload of ten it changes
// to another size > 0). After each reload of the twin its muxInstance is kept:
// refs[g] is the cache-less server of generation g, quiescent for ever, so it
// can be asked at any time what generation g answers to a request.
//
// ORACLE WITH RELOADS (from the statement; the cache-less server has the same
// history of reloads): a request is started when lo reloads of the cached mux
// have RETURNED and returns when hi reloads have BEGUN (lo <= hi). Its answer
// must equal the answer of refs[g] for some g in lo..hi: a request that
// overlaps a reload may see either generation, a request started after the
// reload returned must match the new generation (lo == hi).
//
//	C12.reload.stale-generation           answer (of none of lo..hi) that no earlier request with this cache key received inside the generation,
//	                                      while an older generation gives that answer (or has seen the (host,method,path), this one has not)
//	C12.reload.overlap-neither-generation request overlapped a reload, answer is that of no generation
//	C12.body-limit                        413 where the cache-less server routes, or the reverse, inside one generation
//	C12.key-from-rewritten-path           answered by the entry that rewrote an EARLIER request (same host and method) to the path this request
//	                                      asks for literally; no earlier request of the generation for this (host,method,path) was answered so
//	C12.panic-in-cached-mux               the cached mux panicked while the cache-less one answered
//
// DYNAMIC MAPPER (added): without any HTTPServer reload, pipelines behind the
// backend names are deleted, replaced by a NEW handler object under the same
// name (as a Pipeline update does) or created - at quiescent points between
// phases and by a mapper task while requests are in flight. The cached mux has
// one MuxMapper object whose state moves through immutable versions; the
// cache-less server is asked through copies of its (cache-less, stateless)
// instances bound to a mapper frozen at a version, so "what does generation g
// answer under mapper version v" can be asked at any time. "Chosen backend" is
// (name, generation of the handler object that served the request). A request
// that started at mapper version mlo and returned at mhi may be answered like
// any version mlo..mhi (combined with any generation lo..hi).
//
//	C12.mapper.stale-handler              answer (of none of the allowed combinations) that the server gives under an OLDER mapper version
//
// REWRITTEN PATHS (added): requests go through mux.ServeHTTP -> serveHTTP, which
// applies rewriteTarget to the request object after search(). Half of the
// rewrite targets lead to a path that clients also request literally (/x ->
// /y, prefix /x -> /y, ^/x/(.*)$ -> /$1 ...), and request sequences contain
// "siblings" (host and method of an earlier request, another path), so the
// rewritten path of one cacheable request coincides with the literal path of
// another request that the rules route elsewhere. Goroutines started by mux.go
// (none on the unchanged tree) are gated and scheduled by the simulator
// (check.json go_gates).
//
// Request bodies (added): requests may carry a body (Content-Length or
// chunked); entries and the server may set clientMaxBodySize (-1, small
// values), so 413 is one of the compared statuses.
//
// Client IP (added): some requests carry X-Forwarded-For / X-Real-Ip, so the
// address the filters judge differs from the transport address.
//
// ORDINARY INPUTS (added, const c12Wide): xForwardedFor on; entries with two
// path conditions of different kinds; regexps that are not anchored; methods
// HEAD / OPTIONS / PATCH; IPv6 clients (transport and proxy headers), IPv6
// addresses and CIDRs in filters, Host: [::1]:8080 / [::1] / "a.test:" and a
// rule for host ::1; a repeated header line with another value; a lower-case
// header key in the spec; request targets with percent-encoded reserved
// characters (%2F %3F %23 %20); servers without rules, rules without entries;
// bodies that end before their declared Content-Length (400). White-box
// probes c12.search.* say which branch of search() a request took (peek into
// the cache before the request; probes only).
//
// Leniency / not generated: globalFilter and tracing (need a supervisor /
// a tracer backend); /.well-known/acme-challenge/ is not requested; requests
// without Host; private / loopback client addresses are not used; reloads are never concurrent
// with each other (easegress serialises them too); the same MuxMapper object is
// handed to every reload; a request that overlaps
// several reloads may be answered by any generation in its window; only the
// first generation's spec text is always validated by supervisor.NewSpec,
// later ones in a tenth of the runs (validate_all) and otherwise only decoded
// (validation costs more than a whole run; all texts come from one renderer
// over fixed alphabets; probe c12.spec_rejected must stay 0).

import (
	"encoding/json"
	"fmt"
	"io"
	"net"
	"net/http"
	"net/http/httptest"
	"net/url"
	"regexp"
	"runtime/debug"
	"sort"
	"strings"
	"testing"
	"time"

	"github.com/megaease/easegress/pkg/context"
	"github.com/megaease/easegress/pkg/logger"
	"github.com/megaease/easegress/pkg/protocols/httpprot"
	"github.com/megaease/easegress/pkg/protocols/httpprot/httpstat"
	"github.com/megaease/easegress/pkg/supervisor"
	"verif/simkit/hdrv"
	"verif/simkit/sim"
)

// ---- scenario ----------------------------------------------------------------

type c12IPF struct {
	BlockByDefault bool     `json:"block_by_default"`
	Allow          []string `json:"allow"`
	Block          []string `json:"block"`
}

type c12Hdr struct {
	Key    string   `json:"key"`
	Values []string `json:"values"`
	Regexp string   `json:"regexp,omitempty"`
}

type c12Path struct {
	Path     string   `json:"path,omitempty"`
	Prefix   string   `json:"prefix,omitempty"`
	Regexp   string   `json:"regexp,omitempty"`
	Rewrite  string   `json:"rewrite,omitempty"`
	Methods  []string `json:"methods"`
	Backend  string   `json:"backend"`
	Headers  []c12Hdr `json:"headers"`
	MatchAll bool     `json:"match_all,omitempty"`
	IPF      *c12IPF  `json:"ipf,omitempty"`
	MaxBody  int64    `json:"max_body,omitempty"` // clientMaxBodySize of the entry (0: the server's)
}

type c12Rule struct {
	Host       string    `json:"host,omitempty"`
	HostRegexp string    `json:"host_regexp,omitempty"`
	IPF        *c12IPF   `json:"ipf,omitempty"`
	Paths      []c12Path `json:"paths"`
}

type c12KV struct {
	K string `json:"k"`
	V string `json:"v"`
}

type c12Req struct {
	Host   string  `json:"host"`
	Method string  `json:"method"`
	Path   string  `json:"path"`
	Hdr    []c12KV `json:"hdr"`
	IP     string  `json:"ip"`
	GapUs  int64   `json:"gap_us,omitempty"`
	Hold   int     `json:"hold,omitempty"` // gates the handler of the cached mux parks at (request stays in flight)
	Body   int     `json:"body,omitempty"` // length of the request body
	Chunk  bool    `json:"chunk,omitempty"` // body sent with Transfer-Encoding: chunked (no Content-Length)
	Short  bool    `json:"short,omitempty"` // the body ends 3 bytes before the declared Content-Length (client gave up)
	Fwd    string  `json:"fwd,omitempty"`   // X-Forwarded-For value (the client sits behind a proxy)
	XReal  string  `json:"x_real,omitempty"` // X-Real-Ip value

	// Path is the raw request target as sent on the wire (may carry percent
	// escapes and a query); dec is the decoded path net/http hands to the mux.
	dec string
}

type c12Client struct {
	Reqs []c12Req `json:"reqs"`
}

// c12SpecD is one generation of the HTTPServer spec (what a reload installs).
type c12SpecD struct {
	CacheSize int       `json:"cache_size,omitempty"` // of the cached mux; in a reload 0 = unchanged
	IPF       *c12IPF   `json:"ipf,omitempty"`
	Rules     []c12Rule `json:"rules"`
	MaxBody   int64     `json:"max_body,omitempty"` // server-level clientMaxBodySize (0: default)
	XFF       bool      `json:"xff,omitempty"`      // xForwardedFor
}

// c12Live is a reload done by the reloader task while the clients of a phase run.
type c12Live struct {
	AtUs int64    `json:"at_us,omitempty"`
	Skip int      `json:"skip,omitempty"` // gates the reloader passes before it starts
	Spec c12SpecD `json:"spec"`
}

// c12MapOp changes what the MuxMapper answers for one backend name: the
// pipeline is deleted (Del) or (re)created, i.e. a NEW handler object is
// registered under the name, as a Pipeline update does.
type c12MapOp struct {
	Name string `json:"name"`
	Del  bool   `json:"del,omitempty"`
}

// c12LiveMap is a change of the mapper done by the mapper task while the
// clients of a phase run (no HTTPServer reload is involved).
type c12LiveMap struct {
	AtUs int64      `json:"at_us,omitempty"`
	Skip int        `json:"skip,omitempty"`
	Ops  []c12MapOp `json:"ops"`
}

// c12Phase: an optional reload and/or mapper change at the quiescent point
// before the phase, then clients (and live reloads / live mapper changes)
// running until all of them are done.
type c12Phase struct {
	Spec    *c12SpecD    `json:"spec,omitempty"`
	PreMap  []c12MapOp   `json:"pre_map,omitempty"`
	Clients []c12Client  `json:"clients"`
	Live    []c12Live    `json:"live"`
	LiveMap []c12LiveMap `json:"live_map,omitempty"`
}

// c12Scenario: the embedded spec is generation 0, Clients/Live the first phase.
type c12Scenario struct {
	c12SpecD
	Missing     []string    `json:"missing"` // backends the MuxMapper does not know (503)
	Clients     []c12Client `json:"clients"`
	Live        []c12Live   `json:"live"`
	LiveMap     []c12LiveMap `json:"live_map,omitempty"`
	Next        []c12Phase  `json:"next"`
	ValidateAll bool        `json:"validate_all,omitempty"` // every generation's text goes through supervisor.NewSpec
}

// c12Wide switches on the "ordinary but so far unexplored" ranges of the
// generator: xForwardedFor, entries with several path conditions, unanchored
// regexps, HEAD/OPTIONS/PATCH, IPv6 clients / filter entries / host literals,
// repeated header lines, lower-case header keys in the spec, percent-encoded
// reserved characters in request targets, servers without rules and rules
// without entries, bodies shorter than their declared Content-Length.
const c12Wide = true

var (
	c12IPs     = []string{"198.51.100.1", "198.51.100.2", "203.0.113.7", "203.0.113.8"}
	c12IPEnts  = []string{"198.51.100.1", "198.51.100.2", "203.0.113.7", "203.0.113.8", "198.51.100.0/24"}
	c12IPs6    = []string{"2001:db8::1", "2001:db8::2", "2001:db8:1::7"}
	c12IPEnts6 = []string{"2001:db8::1", "2001:db8::/64", "2001:db8:1::7"}
	c12ReqPath = []string{"/x", "/x/y", "/y", "/xy"}
	// what the in-alphabet rewrite targets can also produce
	c12ReqPathX = []string{"/y/y", "/yy", "/x/x", "/x/"}
)

func c12Subset(rng *sim.Rand, from []string, lo, hi int) []string {
	n := rng.Range(lo, hi)
	if n > len(from) {
		n = len(from)
	}
	p := rng.Perm(len(from))[:n]
	sort.Ints(p)
	out := []string{}
	for _, i := range p {
		out = append(out, from[i])
	}
	return out
}

func c12GenIPF(rng *sim.Rand) *c12IPF {
	f := &c12IPF{}
	ents := c12IPEnts
	if c12Wide && rng.Bool(0.3) {
		ents = append(append([]string{}, c12IPEnts...), c12IPEnts6...)
	}
	if rng.Bool(0.35) {
		f.BlockByDefault = true
		f.Allow = c12Subset(rng, ents, 1, 3)
		f.Block = c12Subset(rng, ents, 0, 1)
	} else {
		f.Block = c12Subset(rng, ents, 1, 2)
		f.Allow = c12Subset(rng, ents, 0, 1)
	}
	return f
}

func c12GenHeaders(rng *sim.Rand) []c12Hdr {
	opts := []c12Hdr{
		{Key: "X-V", Values: []string{"1"}},
		{Key: "X-V", Values: []string{"1", "2"}},
		{Key: "X-W", Values: []string{}, Regexp: "^a"},
		{Key: "X-W", Values: []string{"b"}, Regexp: "^ab$"},
	}
	if c12Wide {
		opts = append(opts, c12Hdr{Key: "x-v", Values: []string{"2"}}, c12Hdr{Key: "X-W", Values: []string{}, Regexp: "b"})
	}
	n := rng.Pick(1, 1, 2)
	p := rng.Perm(len(opts))[:n]
	out := []c12Hdr{}
	for _, i := range p {
		out = append(out, opts[i])
	}
	return out
}

// c12SetRewrite gives an entry (that has a path condition) a rewriteTarget:
// either one that leads out of the request alphabet ("/e"+backend ...) or, in
// half of the cases, one whose result is itself a path that clients request
// literally (/x -> /y, prefix /x -> /y, ^/x/(.*)$ -> /$1 ...), so that the
// rewritten path of one request coincides with the literal path of another.
func c12SetRewrite(rng *sim.Rand, p *c12Path, tag string) {
	inAlphabet := rng.Bool(0.5)
	switch {
	case p.Path != "":
		p.Rewrite = "/" + tag + p.Backend
		if inAlphabet {
			opts := []string{}
			for _, t := range []string{"/x", "/y", "/x/y", "/xy"} {
				if t != p.Path {
					opts = append(opts, t)
				}
			}
			p.Rewrite = opts[rng.Intn(len(opts))]
		}
	case p.Prefix == "/":
		p.Rewrite = "/" + tag + p.Backend
		if inAlphabet {
			p.Rewrite = "/x/" // /y -> /x/y, /x -> /x/x
		}
	case p.Prefix != "":
		p.Rewrite = "/" + tag + p.Backend
		if inAlphabet {
			p.Rewrite = rng.PickStr("/y", "/y", "/x/y") // /x -> /y, /x/y -> /y/y, /xy -> /yy
		}
	case p.Regexp == "^/x/(.*)$":
		p.Rewrite = "/" + tag + p.Backend + "/$1"
		if inAlphabet {
			p.Rewrite = rng.PickStr("/$1", "/$1", "/x$1") // /x/y -> /y, /xy
		}
	case p.Regexp != "":
		p.Rewrite = "/" + tag + p.Backend + "/$1"
		if inAlphabet {
			p.Rewrite = rng.PickStr("/x/$1", "/$1y", "/y") // /y -> /x/y, /x -> /xy ...
		}
	}
}

func c12GenPath(rng *sim.Rand, backend string, pIPF, pHdr float64) c12Path {
	p := c12Path{Backend: backend, Methods: []string{}, Headers: []c12Hdr{}}
	switch rng.Intn(8) {
	case 0, 1:
		p.Path = rng.PickStr("/x", "/y", "/x/y")
		if rng.Bool(0.35) {
			c12SetRewrite(rng, &p, "e")
		}
	case 2, 3:
		p.Prefix = rng.PickStr("/x", "/x", "/")
		if rng.Bool(0.35) {
			c12SetRewrite(rng, &p, "p")
		}
	case 4:
		p.Regexp = "^/x/(.*)$"
		if rng.Bool(0.4) {
			c12SetRewrite(rng, &p, "r")
		}
	case 5:
		p.Regexp = "^/(x|y)$"
		if rng.Bool(0.4) {
			c12SetRewrite(rng, &p, "r")
		}
	default:
		// no path condition: matches every path
	}
	if c12Wide && rng.Bool(0.08) {
		// a regexp that is not anchored (matches inside the path; a rewrite replaces only the match)
		p.Path, p.Prefix = "", ""
		p.Regexp = rng.PickStr("/x", "y$", "^/x")
		if p.Rewrite != "" {
			p.Rewrite = rng.PickStr("/y", "/x/y", "/z"+backend)
		}
	}
	if c12Wide && (p.Path != "" || p.Prefix != "" || p.Regexp != "") && rng.Bool(0.15) {
		// a second path condition of another kind on the same entry (they are alternatives)
		switch {
		case p.Path == "" && rng.Bool(0.5):
			p.Path = rng.PickStr("/y", "/xy", "/x/y")
		case p.Prefix == "" && rng.Bool(0.5):
			p.Prefix = rng.PickStr("/x/", "/y")
		case p.Regexp == "":
			p.Regexp = rng.PickStr("^/(x|y)$", "^/x/(.*)$", "y$")
		}
	}
	if rng.Bool(0.5) {
		ms := []string{"GET", "POST", "PUT"}
		if c12Wide && rng.Bool(0.3) {
			ms = []string{"GET", "POST", "PUT", "HEAD", "OPTIONS", "PATCH"}
		}
		p.Methods = c12Subset(rng, ms, 1, 2)
	}
	if rng.Bool(pHdr) {
		p.Headers = c12GenHeaders(rng)
		p.MatchAll = rng.Bool(0.3)
	}
	if rng.Bool(pIPF) {
		p.IPF = c12GenIPF(rng)
	}
	if rng.Bool(0.15) {
		p.MaxBody = int64(rng.Pick(-1, 4, 4, 16))
	}
	return p
}

// c12SplitHost splits a Host header value into name and ":port" (or "").
func c12SplitHost(h string) (string, string) {
	if i := strings.LastIndexByte(h, ':'); i >= 0 {
		return h[:i], h[i:]
	}
	return h, ""
}

func c12ToggleCase(s string) string {
	if s != strings.ToLower(s) {
		return strings.ToLower(s)
	}
	return strings.ToUpper(s)
}

// c12NearVariant returns a request line that differs from (host, method,
// target) only by something a cache key might plausibly normalise away: host
// letter case, port, trailing dot, path trailing slash, path letter case,
// percent-encoding of a path byte, query string, method letter case.
func c12NearVariant(rng *sim.Rand, host, method, target string) (string, string, string) {
	for try := 0; try < 6; try++ {
		h, m, t := host, method, target
		name, port := c12SplitHost(h)
		path, query := t, ""
		if i := strings.IndexByte(t, '?'); i >= 0 {
			path, query = t[:i], t[i:]
		}
		pick := rng.Pick(0, 0, 0, 1, 1, 2, 3, 3, 4, 4, 5, 5, 6, 7, 7, 8)
		if c12Wide && rng.Bool(0.15) {
			pick = 9
		}
		switch pick {
		case 0: // WWW.A.TEST <-> www.a.test
			name = c12ToggleCase(name)
		case 1: // A.test <-> a.test
			if name != "" && name == strings.ToLower(name) {
				name = strings.ToUpper(name[:1]) + name[1:]
			} else {
				name = strings.ToLower(name)
			}
		case 2: // other / no port
			port = rng.PickStr("", ":80", ":8080", ":443")
		case 3: // trailing dot
			if strings.HasSuffix(name, ".") {
				name = strings.TrimSuffix(name, ".")
			} else {
				name += "."
			}
		case 4: // trailing slash
			if len(path) > 1 && strings.HasSuffix(path, "/") {
				path = strings.TrimSuffix(path, "/")
			} else if !strings.HasSuffix(path, "/") {
				path += "/"
			}
		case 5: // path letter case (escapes stay valid)
			path = c12ToggleCase(path)
		case 6: // %78 <-> x
			switch {
			case strings.Contains(path, "%78"):
				path = strings.Replace(path, "%78", "x", 1)
			case strings.Contains(path, "%79"):
				path = strings.Replace(path, "%79", "y", 1)
			case strings.Contains(path, "x"):
				path = strings.Replace(path, "x", "%78", 1)
			case strings.Contains(path, "y"):
				path = strings.Replace(path, "y", "%79", 1)
			}
		case 7: // get <-> GET
			m = c12ToggleCase(m)
		case 8: // query string
			if query == "" {
				query = "?q=1"
			} else {
				query = ""
			}
		case 9: // reserved characters, percent-encoded (they belong to the path, they do not delimit)
			switch rng.Intn(5) {
			case 0:
				if i := strings.LastIndexByte(path, '/'); i > 0 {
					path = path[:i] + "%2F" + path[i+1:]
				} else {
					path += "%2Fy"
				}
			case 1:
				path += "%3Fq=1"
			case 2:
				path += "%23f"
			case 3:
				path += "%20"
			default:
				path = strings.Replace(path, "%2F", "/", 1)
				path = strings.TrimSuffix(strings.TrimSuffix(strings.TrimSuffix(path, "%3Fq=1"), "%23f"), "%20")
			}
		}
		h, t = name+port, path+query
		if h != host || m != method || t != target {
			return h, m, t
		}
	}
	return host, method, target
}

// c12GenRule draws one rule (host condition, filter, 1-3 entries and, behind a
// header-conditioned entry, often its header-less copy).
func c12GenRule(rng *sim.Rand, backend func() string, pIPF, pHdr float64) c12Rule {
	ru := c12Rule{}
	switch rng.Intn(7) {
	case 0, 1:
		ru.Host = "a.test"
	case 2:
		ru.Host = "b.test"
	case 3:
		ru.HostRegexp = `^a\.`
	case 4:
		ru.HostRegexp = `\.test$`
	default:
		// no host condition: matches every host
	}
	if c12Wide && rng.Bool(0.06) {
		ru.Host, ru.HostRegexp = "::1", "" // requests say Host: [::1]:8080
	}
	if rng.Bool(pIPF) {
		ru.IPF = c12GenIPF(rng)
	}
	np := rng.Range(1, 3)
	if c12Wide && rng.Bool(0.04) {
		np = 0 // a rule without entries (its filter still counts)
		ru.Paths = []c12Path{}
	}
	for j := 0; j < np; j++ {
		p := c12GenPath(rng, backend(), pIPF, pHdr)
		ru.Paths = append(ru.Paths, p)
		if len(p.Headers) > 0 && rng.Bool(0.6) {
			// the risky shape: the same entry without the header condition right behind it
			q := p
			q.Backend = backend()
			q.Headers = []c12Hdr{}
			q.MatchAll = false
			if q.Rewrite != "" {
				q.Rewrite = strings.Replace(q.Rewrite, p.Backend, q.Backend, 1)
			}
			if rng.Bool(0.3) {
				q.IPF = c12GenIPF(rng)
			} else if rng.Bool(0.5) {
				q.IPF = nil
			}
			ru.Paths = append(ru.Paths, q)
		}
	}
	return ru
}

func c12CopySpec(d *c12SpecD) c12SpecD {
	var c c12SpecD
	b, _ := json.Marshal(d)
	_ = json.Unmarshal(b, &c)
	return c
}

// c12NextSpec derives the spec a reload installs from the one in force.
func c12NextSpec(rng *sim.Rand, prev *c12SpecD, backend func() string, pIPF, pHdr float64) c12SpecD {
	d := c12CopySpec(prev)
	d.CacheSize = 0 // unchanged
	if rng.Bool(0.1) {
		d.CacheSize = rng.Pick(1, 2, 3, 16)
	}
	toggleIPF := func(f **c12IPF) {
		if *f != nil && rng.Bool(0.4) {
			*f = nil
		} else {
			*f = c12GenIPF(rng)
		}
	}
	serverEdit := func() {
		if c12Wide && rng.Bool(0.1) {
			d.XFF = !d.XFF
		} else if rng.Bool(0.75) {
			toggleIPF(&d.IPF)
		} else {
			d.MaxBody = int64(rng.Pick(0, -1, 8, 8, 32))
		}
	}
	pickPath := func() *c12Path {
		var cands []*c12Path
		for i := range d.Rules {
			for j := range d.Rules[i].Paths {
				cands = append(cands, &d.Rules[i].Paths[j])
			}
		}
		if len(cands) == 0 {
			return nil
		}
		return cands[rng.Intn(len(cands))]
	}
	switch rng.Pick(0, 0, 0, 1, 1, 1, 1, 1, 1, 2, 3) {
	case 0: // only server-level fields change, the rules stay deep-equal
		serverEdit()
	case 2: // identical spec
	case 3: // fresh rule set
		d.Rules = nil
		nr := rng.Pick(1, 1, 2, 2, 3)
		for i := 0; i < nr; i++ {
			d.Rules = append(d.Rules, c12GenRule(rng, backend, pIPF, pHdr))
		}
		if rng.Bool(0.3) {
			serverEdit()
		}
	default: // one to three edits of the rules
		for n := rng.Pick(1, 1, 1, 2, 3); n > 0; n-- {
			p := pickPath()
			if p == nil || len(d.Rules) == 0 {
				serverEdit()
				continue
			}
			ru := &d.Rules[rng.Intn(len(d.Rules))]
			switch rng.Intn(14) {
			case 0:
				serverEdit()
			case 1:
				toggleIPF(&ru.IPF)
			case 2:
				toggleIPF(&p.IPF)
			case 3, 4: // the entry now leads to another backend
				nb := backend()
				if p.Rewrite != "" {
					p.Rewrite = strings.Replace(p.Rewrite, p.Backend, nb, 1)
				}
				p.Backend = nb
			case 5: // rewrite target
				switch {
				case p.Path == "" && p.Prefix == "" && p.Regexp == "":
					p.Backend = backend()
				case p.Rewrite != "" && rng.Bool(0.5):
					p.Rewrite = ""
				default:
					c12SetRewrite(rng, p, "n")
				}
			case 6: // method list
				if len(p.Methods) > 0 && rng.Bool(0.4) {
					p.Methods = []string{}
				} else {
					p.Methods = c12Subset(rng, []string{"GET", "POST", "PUT"}, 1, 2)
				}
			case 7: // header condition
				if len(p.Headers) > 0 {
					p.Headers, p.MatchAll = []c12Hdr{}, false
				} else {
					p.Headers = c12GenHeaders(rng)
					p.MatchAll = rng.Bool(0.3)
				}
			case 8: // order of entries / rules
				if len(ru.Paths) > 1 {
					i := rng.Intn(len(ru.Paths) - 1)
					ru.Paths[i], ru.Paths[i+1] = ru.Paths[i+1], ru.Paths[i]
				} else if len(d.Rules) > 1 {
					i := rng.Intn(len(d.Rules) - 1)
					d.Rules[i], d.Rules[i+1] = d.Rules[i+1], d.Rules[i]
				} else {
					p.Backend = backend()
				}
			case 9: // entry deleted / inserted
				if len(ru.Paths) > 1 && rng.Bool(0.5) {
					i := rng.Intn(len(ru.Paths))
					ru.Paths = append(ru.Paths[:i:i], ru.Paths[i+1:]...)
				} else {
					i := rng.Intn(len(ru.Paths) + 1)
					np := c12GenPath(rng, backend(), pIPF, pHdr)
					ps := append([]c12Path{}, ru.Paths[:i]...)
					ps = append(ps, np)
					ru.Paths = append(ps, ru.Paths[i:]...)
				}
			case 10: // body limit of the entry
				old := p.MaxBody
				p.MaxBody = int64(rng.Pick(0, -1, 4, 4, 16))
				if p.MaxBody == old {
					p.MaxBody = 2
				}
			case 11: // host condition of a rule
				ru.Host, ru.HostRegexp = "", ""
				switch rng.Intn(4) {
				case 0:
					ru.Host = "a.test"
				case 1:
					ru.Host = "b.test"
				case 2:
					ru.HostRegexp = `\.test$`
				}
			case 12: // rule deleted / appended
				if len(d.Rules) > 1 && rng.Bool(0.5) {
					i := rng.Intn(len(d.Rules))
					d.Rules = append(d.Rules[:i:i], d.Rules[i+1:]...)
				} else if len(d.Rules) < 4 {
					nr := c12GenRule(rng, backend, pIPF, pHdr)
					if rng.Bool(0.5) {
						d.Rules = append([]c12Rule{nr}, d.Rules...)
					} else {
						d.Rules = append(d.Rules, nr)
					}
				}
			case 13: // path condition
				if p.Rewrite == "" {
					p.Path, p.Prefix, p.Regexp = "", "", ""
					switch rng.Intn(4) {
					case 0:
						p.Path = rng.PickStr("/x", "/y", "/x/y")
					case 1:
						p.Prefix = rng.PickStr("/x", "/")
					case 2:
						p.Regexp = "^/(x|y)$"
					}
				} else {
					p.Backend = backend()
				}
			}
		}
	}
	return d
}

func c12Gen(rng *sim.Rand, tier string) interface{} {
	sc := &c12Scenario{Missing: []string{}, Live: []c12Live{}, Next: []c12Phase{}}
	sc.CacheSize = rng.Pick(1, 1, 2, 3, 16, 16)
	collide := rng.Bool(0.2)
	pIPF := []float64{0, 0.15, 0.3, 0.5}[rng.Intn(4)]
	pHdr := []float64{0, 0.3, 0.5}[rng.Intn(3)]
	if rng.Bool(pIPF) {
		sc.IPF = c12GenIPF(rng)
	}
	if rng.Bool(0.12) {
		sc.MaxBody = int64(rng.Pick(-1, 8, 8, 32))
	}
	nb := 0
	backend := func() string { nb++; return fmt.Sprintf("b%d", nb) }
	nr := rng.Pick(1, 1, 2, 2, 3)
	if c12Wide {
		sc.XFF = rng.Bool(0.15)
		if rng.Bool(0.03) {
			nr = 0 // a server without rules
			sc.Rules = []c12Rule{}
		}
	}
	for i := 0; i < nr; i++ {
		sc.Rules = append(sc.Rules, c12GenRule(rng, backend, pIPF, pHdr))
	}
	if rng.Bool(0.1) && nb > 0 {
		sc.Missing = append(sc.Missing, fmt.Sprintf("b%d", rng.Range(1, nb)))
	}

	// reloads: none in a third of the runs; each one either at a quiescent
	// point (it opens a new phase) or live, inside the current phase. Mapper
	// changes (pipelines deleted / replaced / created, no reload): the same.
	nReload := rng.Pick(0, 0, 1, 1, 2, 3)
	nMap := rng.Pick(0, 0, 0, 1, 1, 2, 3)
	pLive := []float64{0, 0.5, 0.5, 1}[rng.Intn(4)]
	cur := &sc.c12SpecD
	type phaseRef struct {
		live    *[]c12Live
		liveMap *[]c12LiveMap
	}
	lastPhase := func() phaseRef {
		if n := len(sc.Next); n > 0 {
			return phaseRef{&sc.Next[n-1].Live, &sc.Next[n-1].LiveMap}
		}
		return phaseRef{&sc.Live, &sc.LiveMap}
	}
	genOps := func() []c12MapOp {
		ops := []c12MapOp{}
		for n := rng.Pick(1, 1, 2); n > 0 && nb > 0; n-- {
			ops = append(ops, c12MapOp{Name: fmt.Sprintf("b%d", rng.Range(1, nb)), Del: rng.Bool(0.35)})
		}
		return ops
	}
	for nReload+nMap > 0 {
		isReload := rng.Intn(nReload+nMap) < nReload
		live := rng.Bool(pLive)
		at, skip := int64(rng.Pick(0, 0, 0, 1, 50, 500, 1000, 3000)), rng.Pick(0, 0, 1, 2, 3, 5, 8)
		if isReload {
			nReload--
			d := c12NextSpec(rng, cur, backend, pIPF, pHdr)
			if live {
				l := lastPhase().live
				*l = append(*l, c12Live{AtUs: at, Skip: skip, Spec: d})
				cur = &(*l)[len(*l)-1].Spec
			} else {
				sc.Next = append(sc.Next, c12Phase{Spec: &d, Clients: []c12Client{}, Live: []c12Live{}})
				cur = &d
			}
			continue
		}
		nMap--
		if live {
			l := lastPhase().liveMap
			*l = append(*l, c12LiveMap{AtUs: at, Skip: skip, Ops: genOps()})
		} else {
			sc.Next = append(sc.Next, c12Phase{PreMap: genOps(), Clients: []c12Client{}, Live: []c12Live{}})
		}
	}
	nPhase := 1 + len(sc.Next)

	hosts := []string{"a.test", "a.test", "b.test", "a.test:8080", "c.test"}
	methods := []string{"GET", "GET", "POST", "PUT", "DELETE"}
	if collide {
		hosts = append(hosts, "a.testP", "a.testP")
		methods = append(methods, "OST", "UT", "POST", "PUT")
	}
	ips := c12IPs
	if c12Wide {
		if rng.Bool(0.4) {
			hosts = append(hosts, "[::1]:8080", "a.test:", "[::1]")
		}
		if rng.Bool(0.5) {
			methods = append(methods, "HEAD", "OPTIONS", "PATCH")
		}
		if rng.Bool(0.35) {
			ips = append(append([]string{}, c12IPs...), c12IPs6...)
		}
	}
	pDup := 0.0
	pShort := 0.0
	if c12Wide {
		pDup = []float64{0, 0.1, 0.3}[rng.Intn(3)]
		pShort = []float64{0, 0, 0.15}[rng.Intn(3)]
	}
	var all []c12Req
	pBody := []float64{0, 0.2, 0.5}[rng.Intn(3)]
	pProxy := []float64{0, 0, 0.15, 0.4}[rng.Intn(4)]
	drawVar := func(q *c12Req) {
		q.IP = ips[rng.Intn(len(ips))]
		q.Hdr = []c12KV{}
		if rng.Bool(0.5) {
			q.Hdr = append(q.Hdr, c12KV{"X-V", rng.PickStr("1", "1", "2", "3")})
			if rng.Bool(pDup) {
				// a second field line of the same name
				q.Hdr = append(q.Hdr, c12KV{"X-V", rng.PickStr("1", "2", "3")})
			}
		}
		if rng.Bool(0.35) {
			q.Hdr = append(q.Hdr, c12KV{"X-W", rng.PickStr("a", "ab", "b")})
		}
		if rng.Bool(pBody) {
			q.Body = rng.Pick(1, 4, 5, 8, 9, 16, 17, 40)
			q.Chunk = rng.Bool(0.2)
			q.Short = !q.Chunk && rng.Bool(pShort)
		}
		if rng.Bool(pProxy) {
			// the client IP the server works with comes from a proxy's header
			switch rng.Intn(3) {
			case 0:
				q.Fwd = ips[rng.Intn(len(ips))]
			case 1:
				q.Fwd = ips[rng.Intn(len(ips))] + ", " + ips[rng.Intn(len(ips))]
			default:
				q.XReal = ips[rng.Intn(len(ips))]
			}
		}
	}
	total := rng.Range(4, 28)
	pRepeat := []float64{0.3, 0.6, 0.8}[rng.Intn(3)]
	pHold := []float64{0, 0.2, 0.6}[rng.Intn(3)]
	pNear := []float64{0, 0.15, 0.15, 0.4}[rng.Intn(4)]
	pSib := []float64{0, 0.15, 0.3}[rng.Intn(3)]
	// requests are dealt to the phases in order
	perPhase := make([]int, nPhase)
	for i := 0; i < total; i++ {
		perPhase[rng.Intn(nPhase)]++
	}
	for ph := 0; ph < nPhase; ph++ {
		nc := rng.Range(1, 4)
		clients := make([]c12Client, nc)
		for i := 0; i < perPhase[ph]; i++ {
			q := c12Req{}
			switch {
			case len(all) > 0 && collide && rng.Bool(0.3):
				// partner of an earlier request whose host+method concatenation coincides
				e := all[rng.Intn(len(all))]
				q.Host, q.Method, q.Path = e.Host, e.Method, e.Path
				switch {
				case e.Host == "a.test" && e.Method == "POST":
					q.Host, q.Method = "a.testP", "OST"
				case e.Host == "a.test" && e.Method == "PUT":
					q.Host, q.Method = "a.testP", "UT"
				case e.Host == "a.testP" && e.Method == "OST":
					q.Host, q.Method = "a.test", "POST"
				case e.Host == "a.testP" && e.Method == "UT":
					q.Host, q.Method = "a.test", "PUT"
				}
			case len(all) > 0 && rng.Bool(pNear):
				// near miss of an earlier request: same after a plausible key normalisation
				e := all[rng.Intn(len(all))]
				q.Host, q.Method, q.Path = c12NearVariant(rng, e.Host, e.Method, e.Path)
				if rng.Bool(0.25) {
					q.Host, q.Method, q.Path = c12NearVariant(rng, q.Host, q.Method, q.Path)
				}
			case len(all) > 0 && rng.Bool(pSib):
				// host and method of an earlier request, another path (e.g. the path
				// the earlier request is rewritten to)
				e := all[rng.Intn(len(all))]
				q.Host, q.Method = e.Host, e.Method
				q.Path = c12ReqPath[rng.Intn(len(c12ReqPath))]
				if rng.Bool(0.2) {
					q.Path = c12ReqPathX[rng.Intn(len(c12ReqPathX))]
				}
			case len(all) > 0 && rng.Bool(pRepeat):
				e := all[rng.Intn(len(all))]
				q.Host, q.Method, q.Path = e.Host, e.Method, e.Path
			default:
				q.Host = hosts[rng.Intn(len(hosts))]
				q.Method = methods[rng.Intn(len(methods))]
				q.Path = c12ReqPath[rng.Intn(len(c12ReqPath))]
			}
			drawVar(&q)
			q.GapUs = int64(rng.Pick(0, 0, 0, 1, 50, 1000))
			if rng.Bool(pHold) {
				q.Hold = rng.Range(1, 3)
			}
			all = append(all, q)
			c := rng.Intn(nc)
			clients[c].Reqs = append(clients[c].Reqs, q)
		}
		if ph == 0 {
			sc.Clients = clients
		} else {
			sc.Next[ph-1].Clients = clients
		}
	}
	sc.ValidateAll = rng.Bool(0.1)
	return sc
}

// c12Specs lists every spec generation of a scenario in the order of application.
func c12Specs(sc *c12Scenario) []*c12SpecD {
	out := []*c12SpecD{&sc.c12SpecD}
	for i := range sc.Live {
		out = append(out, &sc.Live[i].Spec)
	}
	for k := range sc.Next {
		if sc.Next[k].Spec != nil {
			out = append(out, sc.Next[k].Spec)
		}
		for i := range sc.Next[k].Live {
			out = append(out, &sc.Next[k].Live[i].Spec)
		}
	}
	return out
}

// c12AllReqs calls f for every request of the scenario.
func c12AllReqs(sc *c12Scenario, f func(q *c12Req)) {
	each := func(cs []c12Client) {
		for i := range cs {
			for j := range cs[i].Reqs {
				f(&cs[i].Reqs[j])
			}
		}
	}
	each(sc.Clients)
	for k := range sc.Next {
		each(sc.Next[k].Clients)
	}
}

// c12Shrink proposes simplifications the generic array deletion cannot do.
func c12Shrink(sci interface{}) []interface{} {
	sc := sci.(*c12Scenario)
	var out []interface{}
	variant := func(f func(c *c12Scenario) bool) {
		b, _ := json.Marshal(sc)
		c := &c12Scenario{}
		if json.Unmarshal(b, c) != nil {
			return
		}
		if f(c) {
			out = append(out, c)
		}
	}
	// a phase without a reload of its own is merged into its predecessor; a quiescent reload is dropped
	for k := range sc.Next {
		k := k
		variant(func(c *c12Scenario) bool {
			if c.Next[k].Spec != nil || len(c.Next[k].PreMap) > 0 {
				return false
			}
			// phase without reload / mapper change: its clients can run in the phase before
			if k == 0 {
				c.Clients = append(c.Clients, c.Next[k].Clients...)
				c.Live = append(c.Live, c.Next[k].Live...)
				c.LiveMap = append(c.LiveMap, c.Next[k].LiveMap...)
			} else {
				c.Next[k-1].Clients = append(c.Next[k-1].Clients, c.Next[k].Clients...)
				c.Next[k-1].Live = append(c.Next[k-1].Live, c.Next[k].Live...)
				c.Next[k-1].LiveMap = append(c.Next[k-1].LiveMap, c.Next[k].LiveMap...)
			}
			c.Next = append(c.Next[:k:k], c.Next[k+1:]...)
			return true
		})
		variant(func(c *c12Scenario) bool { ok := c.Next[k].Spec != nil; c.Next[k].Spec = nil; return ok })
		variant(func(c *c12Scenario) bool { ok := len(c.Next[k].PreMap) > 0; c.Next[k].PreMap = nil; return ok })
	}
	for g := range c12Specs(sc) {
		g := g
		d := c12Specs(sc)[g]
		variant(func(c *c12Scenario) bool { d := c12Specs(c)[g]; ok := d.IPF != nil; d.IPF = nil; return ok })
		variant(func(c *c12Scenario) bool { d := c12Specs(c)[g]; ok := d.MaxBody != 0; d.MaxBody = 0; return ok })
		if g > 0 {
			variant(func(c *c12Scenario) bool { d := c12Specs(c)[g]; ok := d.CacheSize != 0; d.CacheSize = 0; return ok })
			// the reload installs the spec that is already in force
			variant(func(c *c12Scenario) bool {
				ds := c12Specs(c)
				before, _ := json.Marshal(ds[g])
				cs := ds[g].CacheSize
				*ds[g] = c12CopySpec(ds[g-1])
				ds[g].CacheSize = cs
				after, _ := json.Marshal(ds[g])
				return string(before) != string(after)
			})
		}
		for i := range d.Rules {
			i := i
			variant(func(c *c12Scenario) bool {
				d := c12Specs(c)[g]
				ok := d.Rules[i].IPF != nil
				d.Rules[i].IPF = nil
				return ok
			})
			variant(func(c *c12Scenario) bool {
				d := c12Specs(c)[g]
				ok := d.Rules[i].HostRegexp != ""
				d.Rules[i].HostRegexp = ""
				return ok
			})
			variant(func(c *c12Scenario) bool {
				d := c12Specs(c)[g]
				ok := d.Rules[i].Host != ""
				d.Rules[i].Host = ""
				return ok
			})
			for j := range d.Rules[i].Paths {
				j := j
				variant(func(c *c12Scenario) bool {
					p := &c12Specs(c)[g].Rules[i].Paths[j]
					ok := p.IPF != nil
					p.IPF = nil
					return ok
				})
				variant(func(c *c12Scenario) bool {
					p := &c12Specs(c)[g].Rules[i].Paths[j]
					ok := p.Rewrite != ""
					p.Rewrite = ""
					return ok
				})
				variant(func(c *c12Scenario) bool {
					p := &c12Specs(c)[g].Rules[i].Paths[j]
					ok := p.MatchAll
					p.MatchAll = false
					return ok
				})
				variant(func(c *c12Scenario) bool {
					p := &c12Specs(c)[g].Rules[i].Paths[j]
					ok := p.MaxBody != 0
					p.MaxBody = 0
					return ok
				})
				variant(func(c *c12Scenario) bool {
					p := &c12Specs(c)[g].Rules[i].Paths[j]
					ok := p.Rewrite == "" && (p.Path != "" || p.Prefix != "" || p.Regexp != "")
					p.Path, p.Prefix, p.Regexp = "", "", ""
					return ok
				})
			}
		}
	}
	variant(func(c *c12Scenario) bool {
		ok := false
		c12AllReqs(c, func(q *c12Req) {
			if q.Hold != 0 || q.GapUs != 0 {
				ok = true
			}
			q.Hold, q.GapUs = 0, 0
		})
		return ok
	})
	variant(func(c *c12Scenario) bool {
		ok := false
		c12AllReqs(c, func(q *c12Req) {
			if q.Body != 0 || q.Chunk {
				ok = true
			}
			q.Body, q.Chunk = 0, false
		})
		return ok
	})
	variant(func(c *c12Scenario) bool {
		ok := false
		lives := []*[]c12Live{&c.Live}
		for k := range c.Next {
			lives = append(lives, &c.Next[k].Live)
		}
		for _, l := range lives {
			for i := range *l {
				if (*l)[i].AtUs != 0 || (*l)[i].Skip != 0 {
					ok = true
				}
				(*l)[i].AtUs, (*l)[i].Skip = 0, 0
			}
		}
		lms := []*[]c12LiveMap{&c.LiveMap}
		for k := range c.Next {
			lms = append(lms, &c.Next[k].LiveMap)
		}
		for _, l := range lms {
			for i := range *l {
				if (*l)[i].AtUs != 0 || (*l)[i].Skip != 0 {
					ok = true
				}
				(*l)[i].AtUs, (*l)[i].Skip = 0, 0
			}
		}
		return ok
	})
	variant(func(c *c12Scenario) bool { ok := c.CacheSize != 16; c.CacheSize = 16; return ok })
	variant(func(c *c12Scenario) bool { ok := !c.ValidateAll; c.ValidateAll = true; return ok })
	return out
}

// ---- building the real spec ----------------------------------------------------

func c12IPFMap(f *c12IPF) map[string]interface{} {
	m := map[string]interface{}{"blockByDefault": f.BlockByDefault}
	if len(f.Allow) > 0 {
		m["allowIPs"] = f.Allow
	}
	if len(f.Block) > 0 {
		m["blockIPs"] = f.Block
	}
	return m
}

// c12SpecText renders the scenario as an HTTPServer spec (JSON, which is YAML).
func c12SpecText(sc *c12SpecD, cacheSize int) string {
	m := map[string]interface{}{"kind": "HTTPServer", "name": "c12", "port": 10080, "keepAlive": true, "https": false, "cacheSize": cacheSize}
	if sc.IPF != nil {
		m["ipFilter"] = c12IPFMap(sc.IPF)
	}
	if sc.MaxBody != 0 {
		m["clientMaxBodySize"] = sc.MaxBody
	}
	if sc.XFF {
		m["xForwardedFor"] = true
	}
	rules := []interface{}{}
	for _, ru := range sc.Rules {
		rm := map[string]interface{}{}
		if ru.Host != "" {
			rm["host"] = ru.Host
		}
		if ru.HostRegexp != "" {
			rm["hostRegexp"] = ru.HostRegexp
		}
		if ru.IPF != nil {
			rm["ipFilter"] = c12IPFMap(ru.IPF)
		}
		paths := []interface{}{}
		for _, p := range ru.Paths {
			pm := map[string]interface{}{"backend": p.Backend}
			if p.Path != "" {
				pm["path"] = p.Path
			}
			if p.Prefix != "" {
				pm["pathPrefix"] = p.Prefix
			}
			if p.Regexp != "" {
				pm["pathRegexp"] = p.Regexp
			}
			if p.Rewrite != "" {
				pm["rewriteTarget"] = p.Rewrite
			}
			if len(p.Methods) > 0 {
				pm["methods"] = p.Methods
			}
			if len(p.Headers) > 0 {
				hs := []interface{}{}
				for _, h := range p.Headers {
					hm := map[string]interface{}{"key": h.Key}
					if len(h.Values) > 0 {
						hm["values"] = h.Values
					}
					if h.Regexp != "" {
						hm["regexp"] = h.Regexp
					}
					hs = append(hs, hm)
				}
				pm["headers"] = hs
				if p.MatchAll {
					pm["matchAllHeader"] = true
				}
			}
			if p.IPF != nil {
				pm["ipFilter"] = c12IPFMap(p.IPF)
			}
			if p.MaxBody != 0 {
				pm["clientMaxBodySize"] = p.MaxBody
			}
			paths = append(paths, pm)
		}
		rm["paths"] = paths
		rules = append(rules, rm)
	}
	m["rules"] = rules
	b, _ := json.Marshal(m)
	return string(b)
}

// c12Valid rejects scenarios (only shrunk ones can be such) whose spec the
// documented constraints forbid or in which backends are no longer unique.
func c12Valid(sc *c12SpecD) bool {
	seen := map[string]bool{}
	if sc.CacheSize < 0 || sc.CacheSize > 1024 {
		return false
	}
	for _, ru := range sc.Rules {
		if ru.HostRegexp != "" {
			if _, err := regexp.Compile(ru.HostRegexp); err != nil {
				return false
			}
		}
		for _, p := range ru.Paths {
			if p.Backend == "" || seen[p.Backend] {
				return false
			}
			seen[p.Backend] = true
			if p.Rewrite != "" && p.Path == "" && p.Prefix == "" && p.Regexp == "" {
				return false
			}
			if (p.Path != "" && p.Path[0] != '/') || (p.Prefix != "" && p.Prefix[0] != '/') {
				return false
			}
			if p.Regexp != "" {
				if _, err := regexp.Compile(p.Regexp); err != nil {
					return false
				}
			}
			for _, h := range p.Headers {
				if h.Key == "" || (len(h.Values) == 0 && h.Regexp == "") {
					return false
				}
				if _, err := regexp.Compile(h.Regexp); err != nil {
					return false
				}
			}
		}
	}
	return true
}

// ---- explanatory model (classifier only) ----------------------------------------

func c12IPFAllows(f *c12IPF, ip string) bool {
	if f == nil {
		return true
	}
	in := func(list []string) bool {
		x := net.ParseIP(ip)
		for _, e := range list {
			if strings.Contains(e, "/") {
				if _, n, err := net.ParseCIDR(e); err == nil && x != nil && n.Contains(x) {
					return true
				}
			} else if e == ip {
				return true
			}
		}
		return false
	}
	a, b := in(f.Allow), in(f.Block)
	switch {
	case a && !b:
		return true
	case b && !a:
		return false
	}
	return !f.BlockByDefault
}

func c12HostMatches(ru *c12Rule, host string) bool {
	if ru.Host == "" && ru.HostRegexp == "" {
		return true
	}
	if h, _, err := net.SplitHostPort(host); err == nil {
		host = h
	}
	if ru.Host != "" && ru.Host == host {
		return true
	}
	if ru.HostRegexp != "" {
		if re, err := regexp.Compile(ru.HostRegexp); err == nil && re.MatchString(host) {
			return true
		}
	}
	return false
}

func c12PathMatches(p *c12Path, path string) bool {
	switch {
	case p.Path == "" && p.Prefix == "" && p.Regexp == "":
		return true
	case p.Path != "" && p.Path == path:
		return true
	case p.Prefix != "" && strings.HasPrefix(path, p.Prefix):
		return true
	case p.Regexp != "":
		re, err := regexp.Compile(p.Regexp)
		return err == nil && re.MatchString(path)
	}
	return false
}

func c12MethodMatches(p *c12Path, m string) bool {
	if len(p.Methods) == 0 {
		return true
	}
	for _, x := range p.Methods {
		if x == m {
			return true
		}
	}
	return false
}

// clientIP (classifier only): the address a proxy reported (first entry of
// X-Forwarded-For, else X-Real-Ip), else the transport address. All generated
// addresses are public ones.
func (q *c12Req) clientIP() string {
	if q.Fwd != "" {
		return strings.TrimSpace(strings.Split(q.Fwd, ",")[0])
	}
	if q.XReal != "" {
		return q.XReal
	}
	return q.IP
}

func c12HdrGet(q *c12Req, key string) string {
	for _, kv := range q.Hdr {
		if http.CanonicalHeaderKey(kv.K) == http.CanonicalHeaderKey(key) {
			return kv.V
		}
	}
	return ""
}

func c12HeadersMatch(p *c12Path, q *c12Req) bool {
	one := func(h *c12Hdr, all bool) bool {
		v := c12HdrGet(q, h.Key)
		inVals := false
		for _, x := range h.Values {
			if x == v {
				inVals = true
			}
		}
		reOK := false
		if h.Regexp != "" {
			if re, err := regexp.Compile(h.Regexp); err == nil {
				reOK = re.MatchString(v)
			}
		}
		if all {
			return (len(h.Values) == 0 || inVals) && (h.Regexp == "" || reOK)
		}
		return inVals || reOK
	}
	if p.MatchAll {
		for i := range p.Headers {
			if !one(&p.Headers[i], true) {
				return false
			}
		}
		return true
	}
	for i := range p.Headers {
		if one(&p.Headers[i], false) {
			return true
		}
	}
	return false
}

// c12Why says which entry of the spec decides the answer to a request.
type c12Why struct {
	Status    int    // 0 = routed
	Backend   string // routed-to path's backend
	Level     string // for 403: server | rule | path
	Rule      int    // deciding rule (403 by rule/path, or route)
	ViaHeader bool   // the deciding path is header-conditioned
	TooLarge  bool   // routed, but the body exceeds the documented effective clientMaxBodySize
	BadBody   bool   // routed, but the body ends before its declared length (and is not streamed)
	HdrSkip   bool   // routed by a header-less entry AFTER a header-conditioned one was skipped (result depends on headers)
	TwoConds  bool   // the routing entry has more than one path condition
}

func c12Model(sc *c12SpecD, q *c12Req) c12Why {
	if !c12IPFAllows(sc.IPF, q.clientIP()) {
		return c12Why{Status: 403, Level: "server", Rule: -1}
	}
	hdrMis, methMis := false, false
	for i := range sc.Rules {
		ru := &sc.Rules[i]
		if !c12HostMatches(ru, q.Host) {
			continue
		}
		if !c12IPFAllows(ru.IPF, q.clientIP()) {
			return c12Why{Status: 403, Level: "rule", Rule: i}
		}
		for j := range ru.Paths {
			p := &ru.Paths[j]
			if !c12PathMatches(p, q.dec) {
				continue
			}
			if !c12MethodMatches(p, q.Method) {
				methMis = true
				continue
			}
			if len(p.Headers) > 0 && !c12HeadersMatch(p, q) {
				hdrMis = true
				continue
			}
			if !c12IPFAllows(p.IPF, q.clientIP()) {
				return c12Why{Status: 403, Level: "path", Rule: i, Backend: p.Backend, ViaHeader: len(p.Headers) > 0}
			}
			// doc/reference/controllers.md: the entry's clientMaxBodySize, "will use the option of the
			// HTTP server if not set", default 4MB, -1 = any size; larger bodies are discarded
			limit := p.MaxBody
			if limit == 0 {
				limit = sc.MaxBody
			}
			if limit == 0 {
				limit = 4 * 1024 * 1024
			}
			declared := int64(q.Body)
			if q.Short && q.Body > 0 && !q.Chunk {
				declared += 3
			}
			nc := 0
			for _, c := range []string{p.Path, p.Prefix, p.Regexp} {
				if c != "" {
					nc++
				}
			}
			w := c12Why{Backend: p.Backend, Rule: i, ViaHeader: len(p.Headers) > 0, TooLarge: limit >= 0 && declared > limit, HdrSkip: hdrMis && len(p.Headers) == 0, TwoConds: nc > 1}
			w.BadBody = !w.TooLarge && limit >= 0 && declared > int64(q.Body)
			return w
		}
	}
	switch {
	case hdrMis:
		return c12Why{Status: 400, Rule: -1}
	case methMis:
		return c12Why{Status: 405, Rule: -1}
	}
	return c12Why{Status: 404, Rule: -1}
}

// ---- executor -------------------------------------------------------------------

type c12Out struct {
	Status  int
	Backend string
	Path    string
	Gen     int // generation of the handler object that served the request (1: the first one registered under the name)
}

func (o c12Out) String() string {
	if o.Status < 0 {
		return "panic(no answer)"
	}
	if o.Backend != "" && o.Gen > 1 {
		return fmt.Sprintf("%d/%s#%d%s", o.Status, o.Backend, o.Gen, o.Path)
	}
	if o.Backend != "" {
		return fmt.Sprintf("%d/%s%s", o.Status, o.Backend, o.Path)
	}
	return fmt.Sprintf("%d", o.Status)
}

// c12ShortStack keeps the function names of the frames between the panic and
// the harness (no goroutine ids, addresses or arguments: the text must replay).
func c12ShortStack(st []byte) string {
	var fns []string
	seenPanic := false
	for _, l := range strings.Split(string(st), "\n") {
		if l == "" || l[0] == '\t' || strings.HasPrefix(l, "goroutine ") {
			continue
		}
		if i := strings.LastIndexByte(l, '('); i > 0 {
			l = l[:i]
		}
		if strings.HasPrefix(l, "panic") {
			seenPanic = true
			continue
		}
		if !seenPanic {
			continue
		}
		if strings.Contains(l, ".c12Exec") {
			break
		}
		fns = append(fns, l)
		if len(fns) >= 8 {
			break
		}
	}
	return strings.Join(fns, " <- ")
}

func c12OutOf(rec *httptest.ResponseRecorder) c12Out {
	o := c12Out{Status: rec.Code, Backend: rec.Header().Get("X-C12-Backend"), Path: rec.Header().Get("X-C12-Path")}
	if g := rec.Header().Get("X-C12-Gen"); g != "" {
		fmt.Sscan(g, &o.Gen)
	}
	return o
}

// c12MapState is one immutable version of what the MuxMapper knows: backend
// name -> generation of the handler object registered under it (0: none).
// Names without an entry have their first handler (generation 1).
type c12MapState map[string]int

func (st c12MapState) gen(name string) int {
	if g, ok := st[name]; ok {
		return g
	}
	return 1
}

// c12Mapper is a MuxMapper answering from a state; handler objects are
// created once per (name, generation) and are the same object for as long as
// the state does not change for that name, as with the real mapper.
type c12Mapper struct {
	state    c12MapState
	handlers map[string]*c12Handler
	onHandle func(id string, hold bool)
}

type c12Handler struct {
	name string
	gen  int
	side *c12Mapper // whose onHandle is called
}

func (m *c12Mapper) GetHandler(name string) (context.Handler, bool) {
	g := m.state.gen(name)
	if g <= 0 {
		return nil, false
	}
	key := fmt.Sprintf("%s#%d", name, g)
	h := m.handlers[key]
	if h == nil {
		h = &c12Handler{name: name, gen: g, side: m}
		m.handlers[key] = h
	}
	return h, true
}

func (h *c12Handler) Handle(ctx *context.Context) string {
	req, _ := ctx.GetRequest(context.DefaultNamespace).(*httpprot.Request)
	resp, _ := httpprot.NewResponse(nil)
	resp.SetStatusCode(http.StatusOK)
	resp.HTTPHeader().Set("X-C12-Backend", h.name)
	resp.HTTPHeader().Set("X-C12-Gen", fmt.Sprint(h.gen))
	id := ""
	if req != nil {
		resp.HTTPHeader().Set("X-C12-Path", req.Path())
		id = req.HTTPHeader().Get("X-C12-Id")
	}
	ctx.SetResponse(context.DefaultNamespace, resp)
	if h.side.onHandle != nil {
		h.side.onHandle(id, true)
	}
	return ""
}

func c12HTTPReq(q *c12Req, id string) *http.Request {
	h := http.Header{}
	for _, kv := range q.Hdr {
		if kv.K != "" {
			h.Add(kv.K, kv.V)
		}
	}
	h.Set("X-C12-Id", id)
	if q.Fwd != "" {
		h.Set("X-Forwarded-For", q.Fwd)
	}
	if q.XReal != "" {
		h.Set("X-Real-Ip", q.XReal)
	}
	u, err := url.ParseRequestURI(q.Path) // what net/http's server does with the request target
	if err != nil {
		u = &url.URL{Path: q.Path}
	}
	req := &http.Request{Method: q.Method, URL: u, Host: q.Host, Header: h, RemoteAddr: net.JoinHostPort(q.IP, "40000"),
		Body: http.NoBody, Proto: "HTTP/1.1", ProtoMajor: 1, ProtoMinor: 1, RequestURI: q.Path}
	if n := q.Body; n > 0 && n <= 4096 {
		req.Body = io.NopCloser(strings.NewReader(strings.Repeat("z", n)))
		if q.Chunk {
			req.ContentLength = -1
			req.TransferEncoding = []string{"chunked"}
		} else {
			req.ContentLength = int64(n)
			if q.Short {
				req.ContentLength += 3
			}
			h.Set("Content-Length", fmt.Sprint(req.ContentLength))
		}
	}
	return req
}

func (q *c12Req) String() string {
	var hs []string
	for _, kv := range q.Hdr {
		hs = append(hs, kv.K+"="+kv.V)
	}
	body := ""
	if q.Body > 0 {
		body = fmt.Sprintf(" body=%d", q.Body)
		if q.Chunk {
			body += "(chunked)"
		} else if q.Short {
			body += "(declared 3 more)"
		}
	}
	from := q.IP
	if q.Fwd != "" {
		from += " X-Forwarded-For=" + q.Fwd
	}
	if q.XReal != "" {
		from += " X-Real-Ip=" + q.XReal
	}
	return fmt.Sprintf("%s %s%s [%s] from %s%s", q.Method, q.Host, q.Path, strings.Join(hs, ","), from, body)
}

// c12Same: the mux legitimately sees the same (host, method, decoded path).
func c12Same(p, q *c12Req) bool { return p.Host == q.Host && p.Method == q.Method && p.dec == q.dec }

// c12NormKey is the request line after every normalisation a cache key might
// plausibly (and wrongly) apply.
func c12NormKey(q *c12Req) string {
	name, _ := c12SplitHost(q.Host)
	name = strings.ToLower(strings.TrimSuffix(name, "."))
	path := strings.ToLower(q.dec)
	if len(path) > 1 {
		path = strings.TrimSuffix(path, "/")
	}
	return name + " " + strings.ToUpper(q.Method) + " " + path
}

// c12Alias: different request lines that coincide by plain concatenation or
// after normalisation - candidates for sharing a wrongly built cache key.
func c12Alias(p, q *c12Req) bool {
	return !c12Same(p, q) && (p.Host+p.Method+p.dec == q.Host+q.Method+q.dec || c12NormKey(p) == c12NormKey(q))
}

type c12Hist struct {
	id  string
	q   *c12Req
	gen int    // generation in force when the request started; exp and why are that generation's
	mv  int    // version of the mapper when the request started
	exp c12Out
	why c12Why
}

type c12Flight struct {
	q     *c12Req
	gen   int
	mv    int
	exp   c12Out
	why   c12Why
	prior int // number of history entries whose search ran before this request's search
	done  bool
	hold  int
}

var c12CodePath = map[string]string{
	"C12.header-shadow": "mux.go search(): an earlier request WITHOUT the matching headers skipped the header-conditioned path (matchHeaders false -> continue, l.581-584), reached the later header-less path and putRouteToCache stored that route under host+method+path (l.578-580); this request satisfies the headers, but the cache-hit branch (l.540-552) returns the stored route before any path/header matching is done",
	"C12.cached-status-over-403": "mux.go search(): an allowed client's miss cached methodNotAllowed/notFound (l.598-604); the cache-hit branch returns a cached status code at once (l.541-544) without consulting the server filter (l.554) or the rule filters (l.563), which exist only on the miss path",
	"C12.ipfilter-bypass": "mux.go search(): on a hit only r.path.ipFilterChain is consulted (l.545-551) = server + the route's own rule + the path; on a miss EVERY host-matching rule visited before the route answers 403 if its own filter denies (l.559-565)",
	"C12.key-collision": "mux.go getRouteFromCache/putRouteToCache (l.149, l.159): key = stringtool.Cat(host, method, path) without separators, so two different (host, method, path) triples share one entry",
	"C12.reload":        "mux.go reload(): every muxInstance must start with a route cache of its own (lru.NewARC, filled only by its own search()); a cache object, *route, *MuxPath or ipfilter that is reachable from the instance published by m.inst.Store(inst) but was built for or filled under an earlier spec serves the earlier generation's answer",
	"C12.key-from-rewritten-path": "mux.go putRouteToCache()/getRouteFromCache(): the key must be built from host, method and path as they were when search() looked the request up; serveHTTP() applies route.path.rewrite(req) to the SAME request object afterwards, so a key built later (or a request object kept and read later) names the rewritten path",
	"C12.panic-in-cached-mux":     "mux.go serveHTTP()/search() on the cached mux",
	"C12.mapper":        "mux.go serveHTTP(): handler, ok := mi.muxMapper.GetHandler(route.path.backend) must be asked on every request (503 when the backend is gone); nothing reachable from a cached *route / *MuxPath may remember the handler",
	"C12.body-limit":    "mux.go serveHTTP(): maxBodySize := route.path.clientMaxBodySize, else mi.spec.ClientMaxBodySize - taken from the *MuxPath the (cached) route points to",
	"C12.other":         "cache-hit/miss handling in mux.go search() / key construction (getRouteFromCache, putRouteToCache)",
}

func c12PathCodeKey(class string) string {
	for _, k := range []string{"C12.header-shadow", "C12.cached-status-over-403", "C12.ipfilter-bypass", "C12.key-collision", "C12.key-from-rewritten-path", "C12.panic-in-cached-mux", "C12.reload", "C12.mapper", "C12.body-limit"} {
		if strings.HasPrefix(class, k) {
			return k
		}
	}
	return "C12.other"
}

// c12Classify names the class of a mismatch from the discriminating facts: which
// entry decides the cache-less answer (model), and which earlier request with
// the same (host,method,path) legitimately received what the cached mux now
// served ("precedent": only such an answer can sit in a cache filled by
// earlier lookups). A mismatch without precedent is never given one of the
// specific classes.
func c12Classify(sc *c12SpecD, missing map[string]bool, q *c12Req, exp, got c12Out, why c12Why, modelOK bool, prior []c12Hist) (string, string) {
	sameTriple, sameKey := 0, 0
	var partner *c12Hist
	type ent struct {
		rule   int
		cond   bool
		exists bool
	}
	byBackend := map[string]ent{}
	for i := range sc.Rules {
		for _, p := range sc.Rules[i].Paths {
			byBackend[p.Backend] = ent{i, len(p.Headers) > 0, true}
		}
	}
	// header-less routes / final status codes handed to earlier same-triple requests
	precRoute := map[string]*c12Hist{}
	precStatus := map[int]*c12Hist{}
	for i := range prior {
		h := &prior[i]
		p := h.q
		switch {
		case c12Same(p, q):
			sameTriple++
			w := h.why
			if w.Backend != "" && !w.ViaHeader && (w.Status == 0 || (w.Status == 403 && w.Level == "path")) {
				precRoute[w.Backend] = h
			}
			if h.exp.Backend == "" && (h.exp.Status == 404 || h.exp.Status == 405) {
				precStatus[h.exp.Status] = h
			}
		case c12Alias(p, q):
			sameKey++
			partner = h
		}
	}
	// the precedent for what the cached mux served, if any
	var prec *c12Hist
	precRule := -1
	switch {
	case got.Backend != "":
		prec = precRoute[got.Backend]
		precRule = byBackend[got.Backend].rule
	case got.Status == 503:
		for b, h := range precRoute {
			if missing[b] && (prec == nil || h.id < prec.id) {
				prec, precRule = h, byBackend[b].rule
			}
		}
	case got.Status == 403:
		for _, h := range precRoute {
			if prec == nil || h.id < prec.id {
				prec = h
			}
		}
	case got.Status == 404 || got.Status == 405:
		prec = precStatus[got.Status]
	}
	specific, expected, facts := "", false, ""
	if modelOK && prec != nil {
		precTxt := fmt.Sprintf("precedent: earlier request {%v} was answered %v without the cache", prec.q, prec.exp)
		switch {
		case why.ViaHeader && (why.Status == 0 || why.Status == 403) && (got.Backend != "" || got.Status == 403 || got.Status == 503):
			specific, expected = "C12.header-shadow", true
			facts = fmt.Sprintf("cache-less answer decided by header-conditioned path %s; cached mux answered %v; %s", why.Backend, got, precTxt)
		case exp.Status == 403 && (got.Status == 404 || got.Status == 405) && why.Level != "path":
			specific, expected = "C12.cached-status-over-403."+why.Level, true
			facts = fmt.Sprintf("denied by the %s-level filter (rule index %d) without the cache; cached %d served; %s", why.Level, why.Rule, got.Status, precTxt)
		case exp.Status == 403 && (got.Backend != "" || got.Status == 503):
			switch {
			case why.Level == "server":
				specific = "C12.ipfilter-bypass.server"
			case why.Level == "rule" && precRule > why.Rule:
				specific, expected = "C12.ipfilter-bypass.rule", true
			case why.Level == "rule":
				specific = "C12.ipfilter-bypass.own-rule"
			default:
				specific = "C12.ipfilter-bypass.path"
			}
			facts = fmt.Sprintf("denied by the %s-level filter (rule index %d) without the cache; the cached route lives in rule index %d; %s", why.Level, why.Rule, precRule, precTxt)
		}
	}
	collFacts := ""
	if partner != nil {
		collFacts = fmt.Sprintf("earlier request {%v} has a different (host,method,path) but the same concatenation or the same line after normalisation of case/port/trailing dot/trailing slash (%q); no-cache answer to it was %v",
			partner.q, c12NormKey(q), partner.exp)
	}
	switch {
	case sameKey > 0 && sameTriple == 0:
		return "C12.key-collision", collFacts
	case specific != "" && expected:
		return specific, facts
	case sameKey > 0:
		return "C12.key-collision", collFacts + " (an earlier request with the same triple exists too)"
	case specific != "":
		return specific, facts
	}
	if !modelOK {
		return "C12.other", "explanatory model disagrees with the cache-less twin: not classified"
	}
	if (exp.Status == http.StatusRequestEntityTooLarge) != (got.Status == http.StatusRequestEntityTooLarge) {
		return "C12.body-limit", fmt.Sprintf("body of %d bytes: the cache-less server answers %v, the cached one %v; earlier requests with the same (host,method,path) in this generation: %d", q.Body, exp, got, sameTriple)
	}
	return "C12.other", fmt.Sprintf("earlier requests with the same (host,method,path): %d; none of them legitimately received what the cached mux served, or the pattern is none of the known ones", sameTriple)
}

// c12Gen0 is one spec generation prepared for both muxes.
type c12Gen0 struct {
	d         *c12SpecD
	cacheSize int // effective size of the cached mux in this generation
	text      string
	super     *supervisor.Spec
	obj       *Spec
}

func c12Exec(r *sim.Run, sci interface{}) {
	sc := sci.(*c12Scenario)
	r.MultiClass = true
	nreq := 0
	c12AllReqs(sc, func(*c12Req) { nreq++ })
	if sc.CacheSize <= 0 || nreq == 0 {
		return
	}
	// Every generation is prepared before the first request. One spec object
	// serves both muxes: reload() reads cacheSize only while it builds the
	// instance, so the twin is reloaded with the field at 0 and the system
	// under test with the drawn size (NewSpec costs more than the whole rest of
	// a run; the white-box probe below checks that exactly one of the two
	// instances owns a cache).
	var gens []*c12Gen0
	size := sc.CacheSize
	for gi, d := range c12Specs(sc) {
		if gi > 0 && d.CacheSize > 0 {
			size = d.CacheSize
		}
		if !c12Valid(d) {
			return
		}
		g := &c12Gen0{d: d, cacheSize: size, text: c12SpecText(d, size)}
		var err error
		if gi == 0 || sc.ValidateAll {
			g.super, err = supervisor.NewSpec(g.text)
		} else {
			g.super, err = supervisor.C12Decode(g.text)
		}
		if err != nil || g.super == nil {
			r.Probe("c12.spec_rejected")
			return
		}
		var ok bool
		if g.obj, ok = g.super.ObjectSpec().(*Spec); !ok {
			return
		}
		gens = append(gens, g)
	}
	// The mapper: snaps[v] is version v of what it knows (immutable). The cached
	// mux has ONE mapper object whose state moves on; the cache-less server is
	// asked through copies of its instances bound to a mapper frozen at a version.
	snaps := []c12MapState{{}}
	lastGen := map[string]int{} // highest handler generation ever registered under a name
	for _, b := range sc.Missing {
		snaps[0][b] = 0
		lastGen[b] = 0
	}
	mver := 0
	mapC := &c12Mapper{state: snaps[0], handlers: map[string]*c12Handler{}}
	twinHandlers := map[string]*c12Handler{}
	twinMaps := []*c12Mapper{{state: snaps[0], handlers: twinHandlers}}
	mapT := twinMaps[0]
	missingAt := func(v int) map[string]bool {
		m := map[string]bool{}
		for b, g := range snaps[v] {
			if g == 0 {
				m[b] = true
			}
		}
		return m
	}
	mT := newMux(httpstat.New(), httpstat.NewTopN(10), mapT)
	mC := newMux(httpstat.New(), httpstat.NewTopN(10), mapC)

	// refs[g]: the cache-less server's instance of generation g (never touched
	// by a later reload, so it answers "what does generation g say" at any time).
	var refs []*muxInstance
	var instC *muxInstance
	begun, done := -1, -1 // generation whose reload of the cached mux has begun / has returned
	inflight, maxInflight := 0, 0
	var sig strings.Builder
	reload := func(live bool) {
		g := len(refs)
		if g >= len(gens) {
			return
		}
		gn := gens[g]
		kind := "quiescent"
		if live {
			kind = "in_flight"
		}
		if g > 0 {
			r.Fault("reload." + kind)
			prev := gens[g-1]
			rulesSame := fmt.Sprint(c12SpecText(&c12SpecD{Rules: prev.d.Rules}, 0)) == fmt.Sprint(c12SpecText(&c12SpecD{Rules: gn.d.Rules}, 0))
			switch {
			case prev.text == gn.text:
				r.Probe("c12.reload.identical_spec")
			case rulesSame && prev.cacheSize == gn.cacheSize:
				r.Probe("c12.reload.only_server_level_fields_differ")
			}
			if prev.cacheSize != gn.cacheSize {
				r.Probe("c12.reload.cache_size_changed")
			}
			if live && inflight > 0 {
				r.Probe("c12.reload.begins_with_request_in_flight")
			}
			r.Eventf("reload %s -> generation %d: %s", kind, g, gn.text)
			fmt.Fprintf(&sig, "|R%d%s:%s|", g, kind[:1], gn.text)
		}
		gn.obj.CacheSize = 0
		mT.reload(gn.super, mapT)
		gn.obj.CacheSize = uint32(gn.cacheSize)
		ref := mT.inst.Load().(*muxInstance)
		refs = append(refs, ref)
		begun = g
		mC.reload(gn.super, mapC)
		done = g
		if live && inflight > 0 {
			r.Probe("c12.reload.returns_with_request_in_flight")
		}
		instC = mC.inst.Load().(*muxInstance)
		if instC.cache == nil || ref.cache != nil {
			r.Probe("c12.cache_not_as_configured")
		} else {
			r.Probe("c12.cache_on_in_sut_off_in_twin")
		}
	}
	reload(false)
	if len(refs) == 0 {
		return
	}

	var hist []c12Hist
	flights := map[string]*c12Flight{}
	reported := map[string]bool{}
	potentialHit, variedHit, mismatches := 0, 0, 0

	// ask: what does the cache-less server of generation g answer while the
	// mapper is at version v (a copy of the twin's cache-less, stateless
	// instance bound to the frozen mapper of that version)
	twinInst := map[[2]int]*muxInstance{}
	ask := func(g, v int, q *c12Req, id string) c12Out {
		inst := twinInst[[2]int{g, v}]
		if inst == nil {
			c := *refs[g]
			c.muxMapper = twinMaps[v]
			inst = &c
			twinInst[[2]int{g, v}] = inst
		}
		rec := httptest.NewRecorder()
		inst.serveHTTP(rec, c12HTTPReq(q, id))
		return c12OutOf(rec)
	}
	modelAgrees := func(why c12Why, exp c12Out, v int) bool {
		switch {
		case why.Status == 0 && snaps[v].gen(why.Backend) == 0:
			return exp.Status == 503 && exp.Backend == ""
		case why.Status == 0 && why.TooLarge:
			return exp.Status == 413 && exp.Backend == ""
		case why.Status == 0 && why.BadBody:
			return exp.Status == 400 && exp.Backend == ""
		case why.Status == 0:
			return exp.Status == 200 && exp.Backend == why.Backend && exp.Gen == snaps[v].gen(why.Backend)
		}
		return exp.Status == why.Status && exp.Backend == ""
	}
	// changeMapper: pipelines are deleted / (re)created; atomic (no gate inside),
	// no reload of the HTTPServer is involved
	changeMapper := func(ops []c12MapOp, live bool) {
		st := c12MapState{}
		for k, g := range snaps[mver] {
			st[k] = g
		}
		kind := "quiescent"
		if live {
			kind = "in_flight"
		}
		n := 0
		var txt []string
		for _, op := range ops {
			if op.Name == "" {
				continue
			}
			if _, ok := lastGen[op.Name]; !ok {
				lastGen[op.Name] = 1
			}
			was := st.gen(op.Name)
			switch {
			case op.Del && was == 0:
				continue
			case op.Del:
				st[op.Name] = 0
				r.Probe("c12.mapper.backend_deleted")
				txt = append(txt, "-"+op.Name)
			default:
				lastGen[op.Name]++
				st[op.Name] = lastGen[op.Name]
				if was == 0 {
					r.Probe("c12.mapper.backend_created")
				} else {
					r.Probe("c12.mapper.backend_replaced_by_new_handler")
				}
				txt = append(txt, fmt.Sprintf("%s#%d", op.Name, st[op.Name]))
			}
			n++
		}
		if n == 0 {
			return
		}
		r.Fault("mapper." + kind)
		if live && inflight > 0 {
			r.Probe("c12.mapper.changes_with_request_in_flight")
		}
		snaps = append(snaps, st)
		twinMaps = append(twinMaps, &c12Mapper{state: st, handlers: twinHandlers})
		mver = len(snaps) - 1
		mapC.state = st
		r.Eventf("mapper %s -> version %d: %s", kind, mver, strings.Join(txt, " "))
		fmt.Fprintf(&sig, "|M%d%s:%s|", mver, kind[:1], strings.Join(txt, " "))
	}

	stamp := func(id string) *c12Flight {
		f := flights[id]
		if f == nil || f.done {
			return f
		}
		f.done = true
		f.prior = len(hist)
		hist = append(hist, c12Hist{id: id, q: f.q, gen: f.gen, mv: f.mv, exp: f.exp, why: f.why})
		return f
	}
	mapC.onHandle = func(id string, _ bool) {
		// without statement gates no gate lies between the cache lookup of
		// search() and this point: the order of these stamps is the order of
		// the cache operations (it only serves the classifier)
		f := stamp(id)
		if f == nil {
			return
		}
		for i := 0; i < f.hold && !r.Aborted(); i++ {
			r.Yield("c12.handler")
		}
	}

	client := func(pi, ci int, reqs []c12Req) {
		for qi := range reqs {
			if r.Aborted() {
				return
			}
			q := &reqs[qi]
			if q.Host == "" || q.Method == "" || q.Path == "" || q.IP == "" {
				continue
			}
			q.dec = q.Path
			if u, err := url.ParseRequestURI(q.Path); err == nil {
				q.dec = u.Path
			}
			if strings.HasPrefix(q.dec, "/.well-known/") {
				continue
			}
			r.Sleep(time.Duration(q.GapUs) * time.Microsecond)
			id := fmt.Sprintf("p%d.c%d.%d", pi, ci, qi)

			// the cache-less twin of the generation in force and the explanatory
			// model (asking may pass gates in statement-gate runs: ask again if a
			// reload of the cached mux returned meanwhile)
			lo, mlo := done, mver
			exp := ask(lo, mlo, q, id)
			for lo != done || mlo != mver {
				lo, mlo = done, mver
				exp = ask(lo, mlo, q, id)
			}
			missing := missingAt(mlo)
			why := c12Model(gens[lo].d, q)
			modelOK := modelAgrees(why, exp, mlo)
			if !modelOK {
				r.Probe("c12.model_disagrees_twin")
			}

			// the cached mux; lo reloads have returned by now (no gate since the loop above)
			hold := q.Hold
			if hold < 0 || hold > 8 {
				hold = 0
			}
			flights[id] = &c12Flight{q: q, gen: lo, mv: mlo, exp: exp, why: why, hold: hold}
			inflight++
			if inflight > maxInflight {
				maxInflight = inflight
			}
			// white-box, probes only: which branch of search() will this request take
			// (the key text mirrors getRouteFromCache; Peek does not touch the recency lists)
			hitKind := "miss"
			if ic := instC; ic != nil && ic.cache != nil {
				if v, ok := ic.cache.Peek(q.Host + " " + q.Method + " " + q.dec); ok {
					if rt, _ := v.(*route); rt != nil && rt.code != 0 {
						hitKind = "hit_status"
					} else {
						hitKind = "hit_route"
					}
				}
			}
			insideReload := begun > done
			recC := httptest.NewRecorder()
			panicked := ""
			func() {
				// net/http would recover this and close the connection: no answer at all
				defer func() {
					if e := recover(); e != nil {
						panicked = fmt.Sprintf("%v at %s", e, c12ShortStack(debug.Stack()))
					}
				}()
				mC.ServeHTTP(recC, c12HTTPReq(q, id))
			}()
			hi := begun // reloads begun by the time the answer is complete
			mhi := mver // mapper changes done by then
			insideReload = insideReload && begun > done && hi == lo+1
			f := stamp(id) // not routed to a handler: still the same atomic section as its search
			inflight--
			got := c12OutOf(recC)
			if panicked != "" {
				got = c12Out{Status: -1} // "connection closed without an answer"
			}
			// history of the same generation (the route cache of a generation starts empty)
			var prior []c12Hist
			crossGen, staleSensitive := false, false
			var stalePrec *c12Hist
			for i := 0; i < f.prior; i++ {
				h := hist[i]
				switch {
				case h.gen == lo:
					prior = append(prior, h)
				case h.gen < lo && c12Same(h.q, q):
					crossGen = true
					if h.exp != exp {
						staleSensitive = true
					}
					if h.exp == got {
						stalePrec = &hist[i]
					}
				}
			}
			if crossGen {
				r.Probe("c12.req.repeats_triple_of_earlier_generation")
			}
			if staleSensitive {
				r.Probe("c12.req.repeats_triple_whose_answer_the_reload_changed")
			}

			// answers of the later generations / mapper versions the request may have seen
			exps := []c12Out{exp}
			accepted, seenGen, seenMv := got == exp, lo, mlo
			differ, differMap := false, false
			for g := lo; g <= hi; g++ {
				for v := mlo; v <= mhi; v++ {
					if g == lo && v == mlo {
						continue
					}
					e := ask(g, v, q, id)
					exps = append(exps, e)
					if e != exp && v == mlo {
						differ = true
					}
					if e != exp && g == lo {
						differMap = true
					}
					if !accepted && e == got {
						accepted, seenGen, seenMv = true, g, v
					}
				}
			}
			if mhi > mlo {
				r.Probe("c12.req.overlaps_mapper_change")
				if differMap {
					r.Probe("c12.req.overlaps_mapper_change_versions_answer_differently")
					if accepted && seenMv == mlo {
						r.Probe("c12.req.overlap_served_by_old_handler")
					} else if accepted {
						r.Probe("c12.req.overlap_served_by_new_handler")
					}
				}
			}
			// repeats of a triple whose backend the mapper changed since: the
			// shape in which a handler remembered by the cache would show
			if lo == hi {
				nBefore := 0
				for i := range prior {
					if h := &prior[i]; c12Same(h.q, q) && h.mv < mlo && h.exp != exp && (h.exp.Backend != "" || h.exp.Status == 503) && h.why.Backend == why.Backend {
						nBefore++
					}
				}
				if nBefore >= 1 {
					r.Probe("c12.req.repeats_triple_whose_backend_the_mapper_changed")
				}
				if nBefore >= 2 {
					r.Probe("c12.req.repeats_triple_whose_backend_the_mapper_changed_after_2_earlier_requests")
				}
			}
			if hi > lo {
				r.Probe("c12.req.overlaps_reload")
				if insideReload {
					r.Probe("c12.req.started_and_finished_inside_one_reload")
				}
				if differ {
					r.Probe("c12.req.overlaps_reload_generations_answer_differently")
					if accepted && seenGen == lo {
						r.Probe("c12.req.overlap_served_by_old_generation")
					} else if accepted {
						r.Probe("c12.req.overlap_served_by_new_generation")
					}
				}
			}
			if lo > 0 {
				r.Probe("c12.req.started_after_reload")
			}

			// probes
			same, varied, coll, near, nearDiff := false, false, false, false, false
			for i := range prior {
				p := prior[i].q
				if c12Same(p, q) {
					same = true
					if p.clientIP() != q.clientIP() || fmt.Sprint(p.Hdr) != fmt.Sprint(q.Hdr) {
						varied = true
					}
				} else if c12Alias(p, q) {
					if p.Host+p.Method+p.dec == q.Host+q.Method+q.dec {
						coll = true
					} else {
						near = true
						if prior[i].exp != exp {
							nearDiff = true
						}
					}
				}
			}
			// an earlier request of this generation (same host and method, other
			// path) was routed and REWRITTEN to the path this request asks for literally
			var rewPrec *c12Hist
			for i := range prior {
				h := &prior[i]
				if h.q.Host == q.Host && h.q.Method == q.Method && h.q.dec != q.dec && h.exp.Backend != "" && h.exp.Path == q.dec {
					rewPrec = h
				}
			}
			if rewPrec != nil {
				r.Probe("c12.req.literal_path_equals_rewritten_path_of_earlier_request")
				if rewPrec.exp.Backend != exp.Backend {
					r.Probe("c12.req.literal_path_equals_rewritten_path_of_earlier_request_routed_elsewhere")
					if !rewPrec.why.ViaHeader {
						r.Probe("c12.req.literal_path_equals_rewritten_path_of_earlier_cacheable_request_routed_elsewhere")
					}
				}
			}
			if same {
				potentialHit++
				r.Probe("c12.repeat_of_earlier_triple")
			}
			if varied {
				variedHit++
				r.Probe("c12.repeat_with_other_headers_or_ip")
			}
			if coll {
				r.Probe("c12.colliding_concatenation_in_history")
			}
			if near {
				r.Probe("c12.near_variant_in_history")
			}
			if nearDiff {
				r.Probe("c12.near_variant_with_other_nocache_answer")
			}
			r.Probe(fmt.Sprintf("c12.nocache_status_%d", exp.Status))
			if exp.Status == 403 {
				r.Probe("c12.nocache_403_by_" + why.Level)
			}
			if why.ViaHeader {
				r.Probe("c12.decided_by_header_conditioned_path")
			}
			if exp.Backend != "" && exp.Path != q.dec {
				r.Probe("c12.path_rewritten")
			}
			if lo == hi && mlo == mhi && accepted {
				branch := ""
				switch {
				case hitKind == "hit_route" && got.Status == 403:
					branch = "hit_route.denied_by_cached_filters"
				case hitKind == "hit_route" && got.Backend != "":
					branch = "hit_route.served"
				case hitKind == "hit_route":
					branch = fmt.Sprintf("hit_route.%d", got.Status)
				case hitKind == "hit_status" && got.Status == 403:
					branch = "hit_status.denied_by_cached_filters"
				case hitKind == "hit_status":
					branch = fmt.Sprintf("hit_status.%d", got.Status)
				case got.Status == 403:
					branch = "miss.denied_by_" + why.Level
				case why.Status == 0 && why.ViaHeader:
					branch = "miss.routed_by_header_entry_not_cached"
				case why.Status == 0 && why.HdrSkip:
					branch = "miss.routed_after_header_skip_not_cached"
				case why.Status == 0:
					branch = "miss.routed_and_cached"
				default:
					branch = fmt.Sprintf("miss.%d", got.Status)
				}
				r.Probe("c12.search." + branch)
			}
			d0 := gens[lo].d
			if d0.XFF {
				r.Probe("c12.req.server_appends_x_forwarded_for")
				if exp.Backend != "" && (q.Fwd != "" || q.XReal != "") {
					r.Probe("c12.req.server_appends_x_forwarded_for_to_proxied_request")
				}
			}
			if len(d0.Rules) == 0 {
				r.Probe("c12.req.to_server_without_rules")
			}
			if why.TwoConds {
				r.Probe("c12.req.routed_by_entry_with_several_path_conditions")
				if exp.Path != q.dec {
					r.Probe("c12.req.rewritten_by_entry_with_several_path_conditions")
				}
			}
			if strings.Contains(q.IP, ":") || strings.Contains(q.clientIP(), ":") {
				r.Probe("c12.req.ipv6_client")
				if exp.Status == 403 {
					r.Probe("c12.req.ipv6_client_denied")
				}
			}
			if strings.HasPrefix(q.Host, "[") || strings.HasSuffix(q.Host, ":") {
				r.Probe("c12.req.host_ipv6_literal_or_empty_port")
				if exp.Backend != "" {
					r.Probe("c12.req.host_ipv6_literal_or_empty_port_routed")
				}
			}
			switch strings.ToUpper(q.Method) {
			case "HEAD", "OPTIONS", "PATCH":
				r.Probe("c12.req.method_head_options_patch")
			}
			if strings.ContainsAny(q.dec, "?# ") || strings.Contains(q.Path, "%2F") {
				r.Probe("c12.req.reserved_char_percent_encoded_in_path")
				if exp.Backend != "" {
					r.Probe("c12.req.reserved_char_percent_encoded_in_path_routed")
				}
			}
			for i := range q.Hdr {
				for j := 0; j < i; j++ {
					if q.Hdr[i].K == q.Hdr[j].K && q.Hdr[i].V != q.Hdr[j].V {
						r.Probe("c12.req.repeated_header_line_with_other_value")
					}
				}
			}
			if why.BadBody {
				r.Probe("c12.req.body_shorter_than_declared")
			}
			if q.Fwd != "" || q.XReal != "" {
				r.Probe("c12.req.client_ip_from_proxy_header")
				bare := *q
				bare.Fwd, bare.XReal = "", ""
				if wt := c12Model(gens[lo].d, &bare); same && (wt.Status == 403) != (why.Status == 403) {
					// a lookup that judged the transport address instead would answer differently
					r.Probe("c12.repeat_where_header_ip_and_transport_ip_are_judged_differently")
				}
			}
			if q.Body > 0 {
				r.Probe("c12.req.with_body")
				if q.Chunk {
					r.Probe("c12.req.with_chunked_body")
				}
				if same && exp.Status == 413 {
					r.Probe("c12.repeat_of_earlier_triple_answered_413")
				}
			}
			if ic := instC; ic != nil && ic.cache != nil && ic.cache.Len() >= gens[done].cacheSize && len(prior) > gens[done].cacheSize {
				r.Probe("c12.cache_full")
			}

			if hi > lo || mhi > mlo {
				r.Eventf("%s %v -> generations %d..%d mapper versions %d..%d nocache=%v cached=%v", id, q, lo, hi, mlo, mhi, exps, got)
			} else {
				r.Eventf("%s %v -> nocache=%v cached=%v", id, q, exp, got)
			}
			fmt.Fprintf(&sig, "%s%s%s>%v/%v;", q.Host, q.Method, q.Path, exp, got)
			if accepted {
				continue
			}
			mismatches++
			// an answer that an older generation gives (and none of lo..hi)
			staleGen := -1
			for g := lo - 1; g >= 0 && staleGen < 0; g-- {
				for v := mlo; v <= mhi; v++ {
					if ask(g, v, q, id) == got {
						staleGen = g
					}
				}
			}
			// an answer the server gave under an older version of the mapper (and none of mlo..mhi)
			staleMap := -1
			for v := mlo - 1; v >= 0 && staleMap < 0 && panicked == ""; v-- {
				for g := lo; g <= hi; g++ {
					if ask(g, v, q, id) == got {
						staleMap = v
					}
				}
			}
			// Only a request of the SAME generation that shares the key (same
			// triple, or an alias of it) can have put something into this
			// generation's cache: if none of them was answered like this, and an
			// older generation answers like this (or has at least seen the
			// triple, which this generation has not), the wrong answer is state
			// that survived the reload.
			sameInGen, explainedInGen := false, false
			for i := range prior {
				if c12Same(prior[i].q, q) {
					sameInGen = true
				}
				if (c12Same(prior[i].q, q) || c12Alias(prior[i].q, q)) && prior[i].exp == got {
					explainedInGen = true // an entry legitimately cached for that request would be served like this
				}
			}
			staleFacts := func() string {
				t := "the answer is that of no single generation (state of an older generation judged with fields of the new one?)"
				if staleGen >= 0 {
					t = fmt.Sprintf("the answer is what generation %d gives to this request", staleGen)
				}
				if stalePrec != nil {
					t += fmt.Sprintf("; request {%v} was answered so in generation %d, before the reload(s)", stalePrec.q, stalePrec.gen)
				}
				return t
			}
			class, facts := "", ""
			switch {
			case staleMap >= 0:
				class = "C12.mapper.stale-handler"
				facts = fmt.Sprintf("the answer is what the server gives while the mapper is at version %d; the mapper has been at version %d since before the request started (versions: %v); no HTTPServer reload in between, so the cache survives a Pipeline update/delete and must not remember the handler", staleMap, mlo, snaps[staleMap:mhi+1])
			case rewPrec != nil && !explainedInGen && (panicked != "" || got.Backend == rewPrec.exp.Backend || (got.Status == 503 && missing[rewPrec.exp.Backend])):
				// served by the entry that REWROTE an earlier request to this path, and no earlier
				// request of the generation with this very (host,method,path) was answered so
				class = "C12.key-from-rewritten-path"
				facts = fmt.Sprintf("earlier request {%v} was routed to %s and rewritten to %s, the literal path of this request; this request is answered by that entry (%v)", rewPrec.q, rewPrec.exp.Backend, rewPrec.exp.Path, got)
				if panicked != "" {
					facts += "; serving it panicked: " + panicked
				}
			case panicked != "":
				class, facts = "C12.panic-in-cached-mux", "the cached mux panicked (net/http closes the connection without an answer): "+panicked
			case hi > lo && staleGen >= 0:
				class, facts = "C12.reload.stale-generation", fmt.Sprintf("the request overlapped the reload(s) to generation(s) %d..%d; %s", lo+1, hi, staleFacts())
			case hi > lo && explainedInGen:
				// an earlier request of generation lo with this key was answered so: looks like a defect inside that generation
				class, facts = c12Classify(gens[lo].d, missing, q, exp, got, why, modelOK, prior)
			case hi > lo:
				class = "C12.reload.overlap-neither-generation"
				facts = fmt.Sprintf("the request overlapped the reload(s) to generation(s) %d..%d and is answered like none of the generations 0..%d", lo+1, hi, hi)
			case !explainedInGen && (staleGen >= 0 || (crossGen && !sameInGen)):
				class, facts = "C12.reload.stale-generation", fmt.Sprintf("no earlier request of generation %d with this cache key was answered so; %s", lo, staleFacts())
			default:
				class, facts = c12Classify(gens[lo].d, missing, q, exp, got, why, modelOK, prior)
			}
			r.Probe("c12.mismatch." + class)
			if reported[class] {
				continue
			}
			reported[class] = true
			var hs []string
			for i := 0; i < f.prior; i++ {
				p := hist[i]
				if c12Same(p.q, q) || c12Alias(p.q, q) {
					hs = append(hs, fmt.Sprintf("{gen %d: %v => nocache %v}", p.gen, p.q, p.exp))
				}
			}
			if len(hs) > 6 {
				hs = hs[len(hs)-6:]
			}
			window := fmt.Sprintf("generation %d", lo)
			if hi > lo {
				window = fmt.Sprintf("generations %d..%d (reload in flight)", lo, hi)
			}
			if mver > 0 {
				window += fmt.Sprintf(", mapper version %d", mlo)
				if mhi > mlo {
					window += fmt.Sprintf("..%d (mapper change in flight)", mhi)
				}
			}
			specs := ""
			for g := 0; g <= hi && g < len(gens); g++ {
				if g == staleGen || g >= lo {
					specs += fmt.Sprintf("\nspec of generation %d: %s", g, gens[g].text)
				}
			}
			r.Violate(class, "request {%v} in %s: mux with cacheSize=%d answered %v, the same mux with cacheSize=0 answers %v\nfacts: %s\nearlier requests sharing the cache key (in cache order): %s\ncode path: %s%s",
				q, window, gens[lo].cacheSize, got, exps, facts, strings.Join(hs, " "), c12CodePath[c12PathCodeKey(class)], specs)
		}
	}

	phases := append([]c12Phase{{Clients: sc.Clients, Live: sc.Live, LiveMap: sc.LiveMap}}, sc.Next...)
	for pi := range phases {
		ph := &phases[pi]
		if pi > 0 && ph.Spec != nil {
			reload(false) // quiescent: every task of the previous phase is done
		}
		if pi > 0 && len(ph.PreMap) > 0 {
			changeMapper(ph.PreMap, false)
		}
		if len(ph.LiveMap) > 0 {
			lms := ph.LiveMap
			r.Go(fmt.Sprintf("p%d.mapper", pi), func() {
				for _, l := range lms {
					if r.Aborted() {
						return
					}
					at := l.AtUs
					if at < 0 || at > 1000000 {
						at = 0
					}
					r.Sleep(time.Duration(at) * time.Microsecond)
					for i := 0; i < l.Skip && i < 16 && !r.Aborted(); i++ {
						r.Yield("c12.mapper")
					}
					changeMapper(l.Ops, true)
				}
			})
		}
		for ci := range ph.Clients {
			ci := ci
			reqs := ph.Clients[ci].Reqs
			r.Go(fmt.Sprintf("p%d.client%d", pi, ci), func() { client(pi, ci, reqs) })
		}
		if len(ph.Live) > 0 {
			lives := ph.Live
			r.Go(fmt.Sprintf("p%d.reloader", pi), func() {
				for _, l := range lives {
					if r.Aborted() {
						return
					}
					at := l.AtUs
					if at < 0 || at > 1000000 {
						at = 0
					}
					r.Sleep(time.Duration(at) * time.Microsecond)
					for i := 0; i < l.Skip && i < 16 && !r.Aborted(); i++ {
						r.Yield("c12.reloader")
					}
					reload(true)
				}
			})
		}
		r.WaitTasks()
		if r.Aborted() {
			break
		}
	}
	if maxInflight >= 2 {
		r.Probe("c12.requests_overlap_in_cached_mux")
	}
	if mismatches == 0 && potentialHit > 0 {
		r.Probe("c12.run_with_repeats_and_no_mismatch")
	}
	if len(refs) > 1 {
		r.Probe("c12.run_with_reload")
	}
	if mver > 0 {
		r.Probe("c12.run_with_mapper_change")
	}
	if variedHit > 0 {
		r.Nontrivial()
	}
	r.SetSig(fmt.Sprintf("%d|%s|%s", sc.CacheSize, gens[0].text, sig.String()))
}

func TestVerifC12(t *testing.T) {
	logger.InitNop()
	hdrv.Main(t, &hdrv.Harness{
		ID:       "C12",
		Gen:      c12Gen,
		New:      func() interface{} { return &c12Scenario{} },
		Exec:     c12Exec,
		Shrink:   c12Shrink,
		MaxSteps: 20000,
		Rule: "scenario = drawn HTTPServer spec (1-3 rules, host/hostRegexp/any, exact/prefix/regexp/any paths, method lists, header-conditioned entries often followed by their header-less copy, " +
			"IP filters at server/rule/path level, rewrites, unknown backends, clientMaxBodySize at server/path level) x cacheSize in {1,2,3,16} x 1-4 client tasks per phase sending 4-28 requests (some with bodies, some with the client IP in X-Forwarded-For / X-Real-Ip) over a small alphabet with repeats of earlier (host,method,path) under other headers/IPs " +
			"and, in a fifth of the runs, host+method pairs whose concatenations coincide, and (in 3 of 4 runs) near-miss variants of earlier requests (host case/port/trailing dot, path slash/case/percent-escape/query, method case); " +
			"ordinary variations: xForwardedFor, entries with two path conditions, unanchored regexps, HEAD/OPTIONS/PATCH, IPv6 clients / filter entries / host literals, repeated header lines, percent-encoded reserved characters in targets, servers without rules, rules without entries, truncated bodies; " +
			"in more than half of the runs 1-3 changes of the mux mapper without a reload (backend deleted / replaced by a new handler under the same name / created), quiescent or in flight; " +
			"in two thirds of the runs 1-3 hot reloads of BOTH muxes with an edited / server-level-only / identical / fresh spec, each at a quiescent point between two phases or by a reloader task while requests are in flight; every request is also put to the cache-less instance of every generation it may have seen; " +
			"non-trivial = at least one request repeated the (host,method,path) of an earlier one of the same generation with other headers or another client IP (the cache can matter); distinct = distinct (spec, ordered request/answer/reload history)",
		Real: []string{"pkg/object/httpserver mux (newMux, reload, ServeHTTP, search, route cache on hashicorp ARC)", "pkg/util/ipfilter", "pkg/protocols/httpprot request/response (FetchPayload with body limits)", "pkg/context", "supervisor.NewSpec validation of the generated spec (generation 0 always, later generations in a tenth of the runs)"},
		Stub: []string{"MuxMapper and backend handlers (harness: record backend and handler-visible path)", "clients (harness tasks with httptest recorders, no sockets)", "sync/atomic of mux.go -> simatomic (same semantics + gates)",
			"supervisor.Spec of later generations: decoded from the rendered text like NewSpec does, without the validation passes (harness helper C12Decode)"},
		Assumptions: []string{
			"both muxes are reloaded from one validated spec object per generation, the twin while its cacheSize field is 0 (reload reads the field only then); a probe checks that exactly the system under test owns a cache",
			"oracle = the same routing code with cacheSize 0 and the same history of reloads (a routing bug that is independent of the cache is property C01's business and is not reported here)",
			"a request started after lo reloads of the cached mux returned and finished when hi reloads had begun may be answered like any generation lo..hi of the cache-less server; with lo == hi it must be answered like that generation",
			"reloads are serialised (never two at a time); cacheSize stays > 0",
			"the MuxMapper's content changes without reloads (backends deleted / replaced by a new handler object / created), at quiescent points and in flight; the cache-less server is asked through copies of its instances bound to a mapper frozen at a version; a request spanning mapper versions mlo..mhi may be answered like any of them; chosen backend = (name, handler generation)",
			"without statement gates search() contains no gate, so cache operations of concurrent requests are serialised in the order the harness records (used by the classifier only); overlap exists around the handler call and around the gates of reload()",
			"client IP is the transport address or, when the request carries X-Forwarded-For / X-Real-Ip, what those say (public IPv4 / IPv6 addresses only); globalFilter and tracing are not configured",
			"the explanatory routing model is used only to name the violation class and is cross-checked against the twin on every request",
		},
	})
}
