//go:build go1.22

package cluster

// Self-test of simetcd (not a property check): the real etcd clientv3, lessor,
// concurrency.Session / Mutex / STM run against simetcd over simnet inside a
// synctest bubble and the answers are compared with etcd's documented v3
// semantics. Run it with
//
//	cd /repo/pkg/cluster && GOMAXPROCS=1 /verif/build/C19/test.bin -test.run TestC19SimetcdSelfTest -test.v
//
// TestC19SimetcdFidelity (C19_FIDELITY=1) additionally replays random operation
// sequences against simetcd and against the repo's real embedded etcd (outside a
// bubble, real sockets) and compares the responses field by field.

import (
	"context"
	"fmt"
	"net"
	"os"
	"strings"
	"sync"
	"testing"
	"testing/synctest"
	"time"

	pb "go.etcd.io/etcd/api/v3/etcdserverpb"
	"go.etcd.io/etcd/api/v3/v3rpc/rpctypes"
	clientv3 "go.etcd.io/etcd/client/v3"
	"go.etcd.io/etcd/client/v3/concurrency"
	"go.uber.org/zap"
	"google.golang.org/grpc"

	"github.com/megaease/easegress/pkg/cluster/zzsimetcd"
	"github.com/megaease/easegress/pkg/logger"
	"verif/simkit/sim"
	"verif/simkit/simnet"
)

type c19SelfEnv struct {
	t   *testing.T
	n   *simnet.Net
	st  *zzsimetcd.Store
	srv *zzsimetcd.Server
	gs  *grpc.Server
	cli *clientv3.Client
}

func c19SelfStart(t *testing.T) *c19SelfEnv {
	e := &c19SelfEnv{t: t, n: simnet.New(), st: zzsimetcd.NewStore()}
	lis, err := e.n.Listen("tcp", c19Addr)
	if err != nil {
		t.Fatal(err)
	}
	e.srv = zzsimetcd.NewServer(e.st)
	e.srv.ProgressInterval = int64(7 * time.Second)
	e.gs = grpc.NewServer()
	e.srv.Register(e.gs)
	go e.gs.Serve(lis)
	e.cli, err = clientv3.New(clientv3.Config{Endpoints: []string{c19Addr}, Logger: zap.NewNop(),
		DialOptions: []grpc.DialOption{grpc.WithContextDialer(func(ctx context.Context, addr string) (net.Conn, error) {
			return e.n.Dial(ctx, "tcp", addr)
		})}})
	if err != nil {
		t.Fatal(err)
	}
	return e
}

func (e *c19SelfEnv) stop() {
	e.cli.Close()
	e.gs.Stop()
	e.srv.Close()
	e.st.Close()
	e.n.Shutdown()
}

func TestC19SimetcdSelfTest(t *testing.T) {
	if sim.Active() != nil {
		t.Skip("inside a run")
	}
	synctest.Test(t, func(t *testing.T) {
		e := c19SelfStart(t)
		defer e.stop()
		cli := e.cli
		ctx := context.Background()
		eq := func(what string, got, want interface{}) {
			t.Helper()
			if fmt.Sprint(got) != fmt.Sprint(want) {
				t.Errorf("%s: got %v, want %v", what, got, want)
			}
		}
		must := func(err error) {
			t.Helper()
			if err != nil {
				t.Fatalf("unexpected error: %v", err)
			}
		}

		// --- revisions, versions, prev_kv
		p1, err := cli.Put(ctx, "/a", "1")
		must(err)
		eq("first put revision", p1.Header.Revision, 2)
		p2, err := cli.Put(ctx, "/a", "2", clientv3.WithPrevKV())
		must(err)
		eq("second put revision", p2.Header.Revision, 3)
		eq("prev value", string(p2.PrevKv.Value), "1")
		g, err := cli.Get(ctx, "/a")
		must(err)
		eq("get count", g.Count, 1)
		eq("create/mod/version", fmt.Sprint(g.Kvs[0].CreateRevision, g.Kvs[0].ModRevision, g.Kvs[0].Version), "2 3 2")
		eq("header revision of a read", g.Header.Revision, 3)
		// delete of a missing key does not create a revision
		d0, err := cli.Delete(ctx, "/nope")
		must(err)
		eq("deleted", d0.Deleted, 0)
		eq("revision after no-op delete", d0.Header.Revision, 3)
		// delete + recreate resets version and create_revision
		d1, err := cli.Delete(ctx, "/a", clientv3.WithPrevKV())
		must(err)
		eq("deleted", d1.Deleted, 1)
		eq("delete prev", string(d1.PrevKvs[0].Value), "2")
		eq("delete revision", d1.Header.Revision, 4)
		_, err = cli.Put(ctx, "/a", "3")
		must(err)
		g, _ = cli.Get(ctx, "/a")
		eq("recreated create/mod/version", fmt.Sprint(g.Kvs[0].CreateRevision, g.Kvs[0].ModRevision, g.Kvs[0].Version), "5 5 1")

		// --- ranges
		for _, k := range []string{"/p/a", "/p/b", "/p/c", "/p0", "/p"} {
			_, err := cli.Put(ctx, k, "v"+k)
			must(err)
		}
		g, err = cli.Get(ctx, "/p/", clientv3.WithPrefix())
		must(err)
		eq("prefix count", g.Count, 3)
		g, _ = cli.Get(ctx, "/p/", clientv3.WithPrefix(), clientv3.WithLimit(2))
		eq("limit kvs", len(g.Kvs), 2)
		eq("limit more", g.More, true)
		eq("limit count", g.Count, 3)
		g, _ = cli.Get(ctx, "/p/", clientv3.WithPrefix(), clientv3.WithCountOnly())
		eq("count only", fmt.Sprint(g.Count, len(g.Kvs)), "3 0")
		g, _ = cli.Get(ctx, "/p/", clientv3.WithPrefix(), clientv3.WithKeysOnly())
		eq("keys only value", len(g.Kvs[0].Value), 0)
		g, _ = cli.Get(ctx, "/p/", clientv3.WithPrefix(), clientv3.WithSort(clientv3.SortByKey, clientv3.SortDescend))
		eq("descending first", string(g.Kvs[0].Key), "/p/c")
		g, _ = cli.Get(ctx, "/p/", clientv3.WithPrefix(), clientv3.WithSort(clientv3.SortByModRevision, clientv3.SortDescend))
		eq("by mod desc first", string(g.Kvs[0].Key), "/p/c")
		g, _ = cli.Get(ctx, "/p", clientv3.WithFromKey())
		eq("from key count", g.Count, 5)
		g, _ = cli.Get(ctx, "/p/a", clientv3.WithRange("/p/c"))
		eq("half-open range", g.Count, 2)
		g, _ = cli.Get(ctx, "/p/", clientv3.WithPrefix(), clientv3.WithRev(6))
		eq("historical prefix read", g.Count, 1)
		g, _ = cli.Get(ctx, "/p/", clientv3.WithPrefix(), clientv3.WithMinModRev(8))
		eq("min mod rev filter", fmt.Sprint(len(g.Kvs), g.Count), "1 3")
		_, err = cli.Get(ctx, "/a", clientv3.WithRev(1000))
		eq("future revision", err, rpctypes.ErrFutureRev)
		_, err = cli.Get(ctx, "")
		eq("empty key", err, rpctypes.ErrEmptyKey)

		// --- txn
		tr, err := cli.Txn(ctx).If(clientv3.Compare(clientv3.Value("/a"), "=", "3"), clientv3.Compare(clientv3.Version("/a"), "=", 1),
			clientv3.Compare(clientv3.CreateRevision("/missing"), "=", 0)).
			Then(clientv3.OpPut("/t1", "x"), clientv3.OpPut("/t2", "y"), clientv3.OpGet("/t1"), clientv3.OpDelete("/p0")).
			Else(clientv3.OpPut("/t1", "else")).Commit()
		must(err)
		eq("txn succeeded", tr.Succeeded, true)
		rev := tr.Header.Revision
		g, _ = cli.Get(ctx, "/t", clientv3.WithPrefix())
		eq("txn writes share one revision", fmt.Sprint(g.Kvs[0].ModRevision, g.Kvs[1].ModRevision), fmt.Sprint(rev, rev))
		eq("txn read sees own write", string(tr.Responses[2].GetResponseRange().Kvs[0].Value), "x")
		eq("txn delete response", tr.Responses[3].GetResponseDeleteRange().Deleted, 1)
		tr, err = cli.Txn(ctx).If(clientv3.Compare(clientv3.Value("/missing"), "=", "")).Then(clientv3.OpPut("/t1", "no")).Else(clientv3.OpGet("/t1")).Commit()
		must(err)
		eq("value compare on a missing key fails", tr.Succeeded, false)
		eq("read-only txn keeps the revision", tr.Header.Revision, rev)
		tr, err = cli.Txn(ctx).If(clientv3.Compare(clientv3.ModRevision("/t1"), ">", rev-1), clientv3.Compare(clientv3.ModRevision("/t1"), "<", rev+1), clientv3.Compare(clientv3.Value("/t1"), "!=", "q")).
			Then(clientv3.OpTxn([]clientv3.Cmp{clientv3.Compare(clientv3.Version("/t2"), "=", 1)}, []clientv3.Op{clientv3.OpPut("/t3", "nested")}, nil)).Commit()
		must(err)
		eq("nested txn", tr.Responses[0].GetResponseTxn().Succeeded, true)
		_, err = cli.Txn(ctx).Then(clientv3.OpPut("/dup", "1"), clientv3.OpPut("/dup", "2")).Commit()
		eq("duplicate key in txn", err, rpctypes.ErrDuplicateKey)
		_, err = cli.Txn(ctx).Then(clientv3.OpPut("/dup", "1"), clientv3.OpDelete("/d", clientv3.WithPrefix())).Commit()
		eq("put and delete of one key in txn", err, rpctypes.ErrDuplicateKey)
		g, _ = cli.Get(ctx, "/dup")
		eq("failed txn applied nothing", g.Count, 0)

		// --- watch: start revision replay, prefix, filters, prev kv
		wctx, wcancel := context.WithCancel(ctx)
		wch := cli.Watch(wctx, "/p/", clientv3.WithPrefix(), clientv3.WithRev(7), clientv3.WithPrevKV())
		wr := <-wch
		var seen []string
		for _, ev := range wr.Events {
			seen = append(seen, fmt.Sprintf("%s:%s@%d", ev.Type, ev.Kv.Key, ev.Kv.ModRevision))
		}
		eq("replayed history", strings.Join(seen, " "), "PUT:/p/b@7 PUT:/p/c@8")
		_, err = cli.Put(ctx, "/p/b", "new")
		must(err)
		wr = <-wch
		eq("live event prev kv", string(wr.Events[0].PrevKv.Value), "v/p/b")
		nd := cli.Watch(wctx, "/p/", clientv3.WithPrefix(), clientv3.WithFilterPut())
		cli.Put(ctx, "/p/c", "ignored")
		cli.Delete(ctx, "/p/c")
		wr = <-nd
		eq("NOPUT filter", fmt.Sprint(len(wr.Events), wr.Events[0].Type), "1 DELETE")
		<-wch
		<-wch
		must(cli.RequestProgress(wctx))
		wr = <-wch
		eq("progress notification", wr.IsProgressNotify(), true)
		wcancel()

		// --- compaction
		cur := e.st.Rev()
		_, err = cli.Compact(ctx, cur-2)
		must(err)
		_, err = cli.Compact(ctx, cur-2)
		eq("compact twice", err, rpctypes.ErrCompacted)
		_, err = cli.Get(ctx, "/a", clientv3.WithRev(3))
		eq("read below compaction", err, rpctypes.ErrCompacted)
		cw := cli.Watch(ctx, "/a", clientv3.WithRev(3))
		wr = <-cw
		eq("watch below compaction is cancelled", fmt.Sprint(wr.Canceled, wr.CompactRevision, wr.Err()), fmt.Sprint(true, cur-2, rpctypes.ErrCompacted))
		_, open := <-cw
		eq("channel closed after the compaction cancel", open, false)

		// --- leases
		lg, err := cli.Grant(ctx, 10)
		must(err)
		_, err = cli.Put(ctx, "/l/a", "x", clientv3.WithLease(lg.ID))
		must(err)
		_, err = cli.Put(ctx, "/l/b", "y", clientv3.WithLease(lg.ID))
		must(err)
		_, err = cli.Put(ctx, "/l/c", "z", clientv3.WithLease(12345))
		eq("unknown lease", err, rpctypes.ErrLeaseNotFound)
		time.Sleep(4 * time.Second)
		ttl, err := cli.TimeToLive(ctx, lg.ID, clientv3.WithAttachedKeys())
		must(err)
		eq("ttl after 4s", fmt.Sprint(ttl.TTL, ttl.GrantedTTL, len(ttl.Keys)), "6 10 2")
		ka, err := cli.KeepAliveOnce(ctx, lg.ID)
		must(err)
		eq("keep alive once", ka.TTL, 10)
		lw := cli.Watch(ctx, "/l/", clientv3.WithPrefix())
		before := e.st.Rev()
		time.Sleep(11 * time.Second)
		wr = <-lw
		eq("expiry deletes all attached keys in one revision", fmt.Sprintf("%d %v %d %d", len(wr.Events), wr.Events[0].Type, wr.Events[0].Kv.ModRevision, wr.Events[1].Kv.ModRevision), fmt.Sprintf("2 DELETE %d %d", before+1, before+1))
		ttl, _ = cli.TimeToLive(ctx, lg.ID)
		eq("ttl of an expired lease", ttl.TTL, -1)
		_, err = cli.KeepAliveOnce(ctx, lg.ID)
		eq("keep alive of an expired lease", err, rpctypes.ErrLeaseNotFound)
		lg2, _ := cli.Grant(ctx, 5)
		cli.Put(ctx, "/l/d", "w", clientv3.WithLease(lg2.ID))
		kch, err := cli.KeepAlive(ctx, lg2.ID)
		must(err)
		time.Sleep(20 * time.Second)
		g, _ = cli.Get(ctx, "/l/d")
		eq("key of a kept-alive lease survives", g.Count, 1)
		n := 0
		for len(kch) > 0 {
			<-kch
			n++
		}
		if n < 3 {
			t.Errorf("keep-alive responses: %d", n)
		}
		_, err = cli.Revoke(ctx, lg2.ID)
		must(err)
		g, _ = cli.Get(ctx, "/l/d")
		eq("revoke deletes the key", g.Count, 0)
		_, err = cli.Grant(ctx, zzsimetcd.MaxLeaseTTL+1)
		eq("ttl too large", err, rpctypes.ErrLeaseTTLTooLarge)

		// --- concurrency: session, mutex with a waiter (uses Watch), STM
		s1, err := concurrency.NewSession(cli, concurrency.WithTTL(30))
		must(err)
		s2, err := concurrency.NewSession(cli, concurrency.WithTTL(30))
		must(err)
		m1, m2 := concurrency.NewMutex(s1, "/lock"), concurrency.NewMutex(s2, "/lock")
		must(m1.Lock(ctx))
		order := []string{"m1 locked"}
		done := make(chan struct{})
		go func() {
			defer close(done)
			if err := m2.Lock(ctx); err != nil {
				t.Errorf("m2.Lock: %v", err)
				return
			}
			order = append(order, "m2 locked")
			m2.Unlock(ctx)
		}()
		time.Sleep(time.Second)
		tctx, tcancel := context.WithTimeout(ctx, time.Second)
		m3 := concurrency.NewMutex(s1, "/lock2")
		must(m3.Lock(tctx))
		tcancel()
		order = append(order, "m1 unlocking")
		must(m1.Unlock(ctx))
		<-done
		eq("mutex hand-over", strings.Join(order, ", "), "m1 locked, m1 unlocking, m2 locked")
		_, err = concurrency.NewSTM(cli, func(stm concurrency.STM) error {
			v := stm.Get("/stm")
			stm.Put("/stm", v+"x")
			return nil
		})
		must(err)
		g, _ = cli.Get(ctx, "/stm")
		eq("stm", string(g.Kvs[0].Value), "x")
		s1.Close()
		s2.Close()

		// --- server stop/start: state kept, watcher resumes without loss
		rw := cli.Watch(ctx, "/r/", clientv3.WithPrefix())
		cli.Put(ctx, "/r/1", "a")
		<-rw
		e.gs.Stop()
		e.srv.Close()
		e.st.PutKV("/r/2", "written while the client was cut off")
		lis, err := e.n.Listen("tcp", c19Addr)
		must(err)
		e.srv = zzsimetcd.NewServer(e.st)
		e.gs = grpc.NewServer()
		e.srv.Register(e.gs)
		go e.gs.Serve(lis)
		wr = <-rw
		eq("event missed during the outage is replayed on resume", string(wr.Events[0].Kv.Key), "/r/2")
		ml, err := cli.MemberList(ctx)
		must(err)
		eq("member list", len(ml.Members), 1)
		sr, err := cli.Status(ctx, c19Addr)
		must(err)
		eq("status version", sr.Version, "3.5.4")
	})
}

// ---- fidelity against the real embedded etcd ------------------------------------------------

// c19FidelityOps returns n random operations; off is added to every revision
// ARGUMENT (the real store does not start at revision 1).
func c19FidelityOps(rng *sim.Rand, n int) []func(kv clientv3.KV, off int64) string {
	keys := []string{"/f/a", "/f/b", "/f/c", "/f", "/g/a"}
	vals := []string{"1", "2", ""}
	show := func(h *pb.ResponseHeader, body string, err error) string {
		if err != nil {
			return "ERR " + err.Error()
		}
		return fmt.Sprintf("rev%d %s", h.Revision, body)
	}
	kvs := func(resp *clientv3.GetResponse) string {
		var b strings.Builder
		fmt.Fprintf(&b, "count=%d more=%v", resp.Count, resp.More)
		for _, kv := range resp.Kvs {
			fmt.Fprintf(&b, " %s=%q(c%d,m%d,v%d)", kv.Key, kv.Value, kv.CreateRevision, kv.ModRevision, kv.Version)
		}
		return b.String()
	}
	var ops []func(kv clientv3.KV, off int64) string
	ctx := context.Background()
	for i := 0; i < n; i++ {
		k, k2, v := keys[rng.Intn(len(keys))], keys[rng.Intn(len(keys))], vals[rng.Intn(len(vals))]
		x, y := rng.Intn(100), int64(1+rng.Intn(11))
		switch {
		case x < 30:
			ops = append(ops, func(kv clientv3.KV, off int64) string {
				r, err := kv.Put(ctx, k, v, clientv3.WithPrevKV())
				if err != nil {
					return "ERR " + err.Error()
				}
				p := "<nil>"
				if r.PrevKv != nil {
					p = fmt.Sprintf("%q(v%d)", r.PrevKv.Value, r.PrevKv.Version)
				}
				return show(r.Header, "put prev="+p, nil)
			})
		case x < 45:
			ops = append(ops, func(kv clientv3.KV, off int64) string {
				var opts []clientv3.OpOption
				if y%2 == 0 {
					opts = append(opts, clientv3.WithPrefix())
				}
				r, err := kv.Delete(ctx, k, opts...)
				if err != nil {
					return "ERR " + err.Error()
				}
				return show(r.Header, fmt.Sprintf("deleted=%d", r.Deleted), nil)
			})
		case x < 70:
			ops = append(ops, func(kv clientv3.KV, off int64) string {
				var opts []clientv3.OpOption
				switch y % 6 {
				case 0:
					opts = append(opts, clientv3.WithPrefix())
				case 1:
					opts = append(opts, clientv3.WithPrefix(), clientv3.WithLimit(1))
				case 2:
					opts = append(opts, clientv3.WithPrefix(), clientv3.WithSort(clientv3.SortByModRevision, clientv3.SortDescend))
				case 3:
					opts = append(opts, clientv3.WithRev(y+off))
				case 4:
					opts = append(opts, clientv3.WithRange("/g"), clientv3.WithCountOnly())
				}
				r, err := kv.Get(ctx, k, opts...)
				if err != nil {
					return "ERR " + err.Error()
				}
				return show(r.Header, kvs(r), nil)
			})
		case x < 92:
			ops = append(ops, func(kv clientv3.KV, off int64) string {
				cmps := []clientv3.Cmp{clientv3.Compare(clientv3.Version(k), []string{"=", ">", "<", "!="}[y%4], y%3)}
				if y%5 == 0 {
					cmps = append(cmps, clientv3.Compare(clientv3.Value(k2), "=", v))
				}
				if y%7 == 0 {
					cmps = append(cmps, clientv3.Compare(clientv3.ModRevision(k2), "<", y+off))
				}
				r, err := kv.Txn(ctx).If(cmps...).Then(clientv3.OpPut(k, v), clientv3.OpGet(k2, clientv3.WithPrefix())).Else(clientv3.OpDelete(k2), clientv3.OpGet(k)).Commit()
				if err != nil {
					return "ERR " + err.Error()
				}
				var b strings.Builder
				fmt.Fprintf(&b, "txn ok=%v", r.Succeeded)
				for _, op := range r.Responses {
					if rr := op.GetResponseRange(); rr != nil {
						fmt.Fprintf(&b, " [%s]", kvs((*clientv3.GetResponse)(rr)))
					}
					if dr := op.GetResponseDeleteRange(); dr != nil {
						fmt.Fprintf(&b, " [deleted=%d]", dr.Deleted)
					}
				}
				return show(r.Header, b.String(), nil)
			})
		default:
			ops = append(ops, func(kv clientv3.KV, off int64) string {
				r, err := kv.Compact(ctx, y+off)
				if err != nil {
					return "ERR " + err.Error()
				}
				return show(r.Header, "compacted", nil)
			})
		}
	}
	return ops
}

func TestC19SimetcdFidelity(t *testing.T) {
	if os.Getenv("C19_FIDELITY") == "" {
		t.Skip("C19_FIDELITY not set")
	}
	// the real thing: the repo's own embedded etcd, real sockets, no bubble
	logger.InitNop()
	dir := t.TempDir()
	cl := CreateClusterForTest(dir)
	defer func() {
		var wg sync.WaitGroup
		wg.Add(1)
		cl.CloseServer(&wg)
	}()
	real, err := cl.(*cluster).getClient()
	if err != nil {
		t.Fatal(err)
	}
	base, err := real.Get(context.Background(), "\x00", clientv3.WithFromKey(), clientv3.WithKeysOnly())
	if err != nil {
		t.Fatal(err)
	}
	t.Logf("real etcd starts at revision %d with %d keys of easegress itself", base.Header.Revision, base.Count)
	mismatches := 0
	for round := 0; round < 40; round++ {
		rng := sim.NewRand(uint64(1000 + round))
		ops := c19FidelityOps(rng, 80)
		// simetcd, inside a bubble
		var simOut []string
		synctest.Test(t, func(t *testing.T) {
			e := c19SelfStart(t)
			defer e.stop()
			for _, op := range ops {
				simOut = append(simOut, op(e.cli, 0))
			}
		})
		// real etcd: fresh key space under /f /g, revisions are compared relative
		// to the revision at the start of the round
		real.Delete(context.Background(), "/f", clientv3.WithPrefix())
		real.Delete(context.Background(), "/g", clientv3.WithPrefix())
		// revisions differ by an offset (other members' heartbeats may also write):
		// this comparison is therefore only meaningful while the real store is
		// otherwise idle; mismatching rounds are listed, not fatal
		r0, _ := real.Get(context.Background(), "/f")
		off := r0.Header.Revision - 1
		var realOut []string
		for _, op := range ops {
			realOut = append(realOut, op(real, off))
		}
		for i := range ops {
			a, b := simOut[i], c19ShiftRevs(realOut[i], off)
			if a != b {
				mismatches++
				if mismatches < 20 {
					t.Logf("round %d op %d:\n  simetcd: %s\n  etcd:    %s", round, i, a, b)
				}
				break
			}
		}
	}
	t.Logf("fidelity: %d mismatching rounds of 40", mismatches)
}

// c19ShiftRevs subtracts off from every revision number printed by the
// fidelity operations (revN, cN, mN).
func c19ShiftRevs(s string, off int64) string {
	var b strings.Builder
	for i := 0; i < len(s); {
		j := i
		if (strings.HasPrefix(s[i:], "rev") && i+3 < len(s) && s[i+3] >= '0' && s[i+3] <= '9') ||
			((s[i] == 'c' || s[i] == 'm') && i > 0 && (s[i-1] == '(' || s[i-1] == ',') && i+1 < len(s) && s[i+1] >= '0' && s[i+1] <= '9') {
			k := i
			for k < len(s) && (s[k] < '0' || s[k] > '9') {
				k++
			}
			e := k
			var n int64
			for e < len(s) && s[e] >= '0' && s[e] <= '9' {
				n = n*10 + int64(s[e]-'0')
				e++
			}
			b.WriteString(s[i:k])
			fmt.Fprint(&b, n-off)
			i = e
			continue
		}
		b.WriteByte(s[j])
		i++
	}
	return b.String()
}
